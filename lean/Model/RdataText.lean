import Model.TextFields
import Model.Dnssec
import Generated.C05
/-!
Per-type text codecs (`to_styled_text` / `from_text`) of the record types that are built from the regular
text fields, the generic `\# len hex` form of RFC 3597 and `dns.rdata.from_text` (dispatch, re-encode check).

A record is described by a `Schema`: a list of *prefix fields* (each consumes exactly one token), an optional
*tail* (which consumes the rest of the line) and the validation the constructor performs.  `printRec` follows the
f-strings of the `to_styled_text` methods (fields joined by single spaces), `parseRec` follows `from_text`.
-/
namespace Model

/-- `RdataStyle` (the lossless knobs): name relativity and blob chunking -/
structure Style where
  origin : Option Name := none
  relativize : Bool := false
  hexChunk : Nat := ConstsC05.styleHexChunk
  hexSep : List Nat := ConstsC05.styleHexSep
  b64Chunk : Nat := ConstsC05.styleB64Chunk
  b64Sep : List Nat := ConstsC05.styleB64Sep
  txtUtf8 : Bool := false
  deriving Repr

/-- arguments of `from_text` -/
structure PEnv where
  origin : Option Name := none
  relativize : Bool := true
  relTo : Option Name := none
  deriving Repr

/-- field values -/
inductive FV where
  | n (v : Nat)
  | nm (v : Name)
  | b (v : Bytes)
  | bl (v : List Bytes)
  | wl (v : List (Nat × Bytes))   -- type-bitmap windows
  | nl (v : List Name)
  | apl (items : List (Nat × Bool × Bytes × Nat))   -- APL: (family, negation, address octets, prefix)
  | wks (addr : Bytes) (proto : Nat) (bitmap : Bytes)   -- WKS
  | gw (kind : Nat) (addr : List Nat) (nm : Name) (key : Bytes)
      -- IPSECKEY gateway / AMTRELAY relay (`util.Gateway`): `kind` 0 nothing, 1/2 the address *text* as stored,
      -- 3 a name; then IPSECKEY's key
  deriving DecidableEq, Repr

/-- prefix field kinds -/
inductive FK where
  | uint (max : Nat)       -- `get_uint8/16/32/48`, printed in decimal
  | oct16                  -- `get_uint16(base=8)`, printed `{:o}` (Chaosnet A)
  | ttl                    -- `get_ttl`, printed in decimal
  | name                   -- `get_name(origin, relativize, relativize_to)`
  | cstr (maxTok : Option Nat) (maxBytes : Option Nat) (quoted : Bool)
                           -- `get_string_as_bytes(max_length)` (octet path, `fix:` commit 6aa8f9c; URI: 210fbe5)
                           -- → `_as_bytes(…, max)`; printed `"…"` (or bare) through `_escapify`
  | ip4                    -- `get_identifier` → `dns.ipv4.canonicalize`
  | ip6
  | algo                   -- `get_string` → `Algorithm.make` (mnemonic or number); printed as a number
  | salt                   -- NSEC3PARAM: `-` or hex
  | eui (n : Nat)          -- EUI48/EUI64: `get_string`, `aa-bb-…`, n octets
  | hex16x4                -- NID node id / L64 locator: `get_identifier`, `xxxx:xxxx:xxxx:xxxx`
  | nsap                   -- NSAP: `get_string`, `0x` + hex (dots ignored)
  | rdtype                 -- `dns.rdatatype.from_text(tok.get_string())`, printed with `dns.rdatatype.to_text`
  | algoName               -- CERT: `Algorithm.from_text(get_string)`, printed with `Algorithm.to_text` (mnemonic)
  | scheme                 -- DSYNC: `Scheme.make(get_string)`, printed with `Scheme.to_text`
  | ctype                  -- CERT: `_ctype_from_text(get_string)` (exact-case table, else `int()`), `_ctype_to_text`
  | keyFlags               -- KEY: `as_uint16` of the raw token, else `|`-separated LegacyFlag mnemonics; printed as a number
  | keyProto               -- KEY: `as_uint8` of the raw token, else a Protocol mnemonic; printed as a number
  | sigtime                -- RRSIG/SIG: `YYYYMMDDHHMMSS` or seconds
  | b32hex                 -- NSEC3 next hashed owner: base32hex without padding
  | hexOne                 -- HIP hit: `unhexlify(tok.get_string())`, one token
  | b64One                 -- HIP key, TKEY key, TSIG mac: `b64decode(tok.get_string())`, one token, printed without chunking
  | nameRaw                -- TKEY/TSIG algorithm: `tok.get_name(relativize=False)` (no origin); printed with the style
  | gpos (lim : Option (Nat × Nat))
                           -- GPOS latitude / longitude / altitude: `get_string` → `_as_bytes(…, 255)` →
                           -- `_validate_float_string`; `lim = some (B, k)`: `float(s)` within ±B, i.e. |s| ≤ B + 2^-(k+1)·… (see `gposCheck`)
  | rcode                  -- TSIG error: `dns.rcode.from_text(get_string)`, printed `dns.rcode.to_text(error, True)`
  deriving DecidableEq, Repr

/-- tail kinds -/
inductive TK where
  | none
  | hex                    -- `concatenate_remaining_identifiers()` → `unhexlify`, styled chunking
  | b64 (fixed0 : Bool)    -- … → `b64decode`; `fixed0`: the type forces chunk size 0
  | keyB64                 -- KEY: base64 unless the flags say NOKEY (then nothing may follow)
  | bitmap                 -- NSEC/NSEC3/CSYNC: the remaining tokens are type mnemonics (`util.Bitmap`)
  | names                  -- HIP rendezvous servers: the remaining tokens are names
  | b64Opt                 -- TKEY other data: `concatenate_remaining_identifiers(True)`, printed only when non-empty
  | tsigOther              -- TSIG other data: one base64 token iff the other-length field is non-zero
  | txt                    -- TXT-like: one or more character-strings through `unescape_to_bytes`
  | optCstr                -- ISDN subaddress: at most one more string
  | apl                    -- APL: every remaining token is `[!]family:address/prefix`
  | wks                    -- WKS: address, protocol, then every remaining token is a port (numeric forms only: the
                           -- mnemonics go through the host's `getprotobyname` / `getservbyname` and are not modelled)
  | gateway (typeIdx : Nat) (algIdx : Option Nat)
                           -- `util.Gateway.from_text(type, tok, …)` with the type read from field `typeIdx`; IPSECKEY
                           -- (`algIdx = some i`): then `concatenate_remaining_identifiers(algorithm == 0)` → base64
  deriving DecidableEq, Repr

structure Schema where
  fields : List FK
  tail : TK
  check : List FV → Option FV → Bool
  /-- the type accepts the generic syntax through `from_wire` (every implemented type does) -/
  wire : Bool := true

/-! ## printing -/

/-- `{:o}` -/
def natToOct (n : Nat) : List Nat :=
  if n < 8 then [48 + n] else natToOct (n / 8) ++ [48 + n % 8]
decreasing_by omega

def quote (s : List Nat) : List Nat := 34 :: s ++ [34]

def lookupVal (v : Nat) : List (Nat × List Nat) → Option (List Nat)
  | [] => none
  | (a, t) :: rest => if a = v then some t else lookupVal v rest

/-- `IntEnum.to_text(value)` / `_ctype_to_text`: the table text, else prefix + decimal -/
def enumToText (texts : List (Nat × List Nat)) (pfx : List Nat) (v : Nat) : List Nat :=
  match lookupVal v texts with
  | some t => t
  | none => pfx ++ natToDec v

/-- `dns.rdatatype.to_text` -/
def rdtypeToText (v : Nat) : List Nat := enumToText ConstsC05.typeTexts ConstsC05.typePrefix v

/-- text of one prefix field; `none` = `to_text` raises -/
def printField (st : Style) : FK → FV → Option Text
  | .uint _, .n v => some (natToDec v)
  | .oct16, .n v => some (natToOct v)
  | .ttl, .n v => some (natToDec v)
  | .name, .nm n => match nameToStyled n st.origin st.relativize with
    | .ok t => some t
    | .error _ => none
  | .cstr _ _ q, .b s => some (if q then quote (escapifyR s) else escapifyR s)
  | .ip4, .b a => ip4Ntoa a
  | .ip6, .b a => ip6Ntoa a
  | .algo, .n v => some (natToDec v)
  | .salt, .b s => some (if s = [] then [45] else hexlify s)
  | .eui _, .b s => some (wordbreak (hexlify s) 2 [45])
  | .hex16x4, .b s => some (wordbreak (hexlify s) 4 [58])
  | .nsap, .b s => some (48 :: 120 :: hexlify s)
  | .rdtype, .n v => some (rdtypeToText v)
  | .algoName, .n v => some (enumToText ConstsC05.algTexts [] v)
  | .scheme, .n v => some (enumToText ConstsC05.schemeTexts [] v)
  | .ctype, .n v => some (enumToText ConstsC05.ctypeByValue [] v)
  | .keyFlags, .n v => some (natToDec v)
  | .keyProto, .n v => some (natToDec v)
  | .sigtime, .n v => some (sigtimeToText v)
  | .b32hex, .b s => some (b32hexEncode s)
  | .hexOne, .b s => some (hexlify s)
  | .b64One, .b s => some (b64Encode s)
  | .nameRaw, .nm n => match nameToStyled n st.origin st.relativize with
    | .ok t => some t
    | .error _ => none
  | .rcode, .n v => some (enumToText ConstsC05.rcodeTsigTexts [] v)
  | .gpos _, .b s => some s     -- `.decode()`: validated strings are ASCII digits, sign, dot
  | _, _ => none

def printFields (st : Style) : List FK → List FV → Option (List Text)
  | [], [] => some []
  | k :: ks, v :: vs => match printField st k v, printFields st ks vs with
    | some a, some r => some (a :: r)
    | _, _ => none
  | _, _ => none

/-- text items contributed by the tail (joined to the fields by single spaces) -/
def printNames (st : Style) : List Name → Option (List Text)
  | [] => some []
  | n :: ns => match nameToStyled n st.origin st.relativize, printNames st ns with
    | .ok t, some r => some (t :: r)
    | _, _ => none

/-- `str(APLItem)`: families 1 and 2 print the address with `inet_ntoa`; any other family stores the address as hex
digits and prints them (`fix:` commit dc89065; the model's value is the octets, printed in lower case as
`from_wire_parser` stores them) -/
def printAplItem (it : Nat × Bool × Bytes × Nat) : Option Text :=
  let addr : Option Text :=
    if it.1 = 1 then ip4Ntoa it.2.2.1 else if it.1 = 2 then ip6Ntoa it.2.2.1 else some (hexlify it.2.2.1)
  match addr with
  | some t => some ((if it.2.1 then [33] else []) ++ (natToDec it.1 ++ 58 :: (t ++ 47 :: natToDec it.2.2.2)))
  | none => none

def printAplItems : List (Nat × Bool × Bytes × Nat) → Option (List Text)
  | [] => some []
  | it :: r => match printAplItem it, printAplItems r with
    | some t, some ts => some (t :: ts)
    | _, _ => none

/-- the types of one window in ascending order: `for i, byte in enumerate(bitmap): for j in range(8): if byte & (0x80 >> j)` -/
def windowTypesFrom (w : Nat) : Nat → Bytes → List Nat
  | _, [] => []
  | i, byte :: rest =>
    ((List.range 8).filter fun j => byte.testBit (7 - j)).map (fun j => w * 256 + i * 8 + j) ++ windowTypesFrom w (i + 1) rest

def windowTypes (w : Nat × Bytes) : List Nat := windowTypesFrom w.1 0 w.2

/-- WKS `to_text`: `str(i * 8 + j)` for every set bit, most significant first -/
def wksPorts (bm : Bytes) : List Nat := windowTypesFrom 0 0 bm

/-- `util.Gateway.to_styled_text` -/
def gatewayText (st : Style) (kind : Nat) (addr : List Nat) (nm : Name) : Option Text :=
  if kind = 0 then some [46]
  else if kind = 1 ∨ kind = 2 then some addr
  else if kind = 3 then (match nameToStyled nm st.origin st.relativize with | .ok t => some t | .error _ => none)
  else none

def printTail (st : Style) : TK → Option FV → Option (List Text)
  | .none, none => some []
  | .hex, some (.b d) => some [wordbreak (hexlify d) st.hexChunk st.hexSep]
  | .b64 fixed0, some (.b d) => some [wordbreak (b64Encode d) (if fixed0 then 0 else st.b64Chunk) st.b64Sep]
  | .keyB64, some (.b d) => some [wordbreak (b64Encode d) st.b64Chunk st.b64Sep]
  | .b64Opt, some (.b d) => some (if d = [] then [] else [b64Encode d])
  | .tsigOther, some (.b d) => some (if d = [] then [] else [b64Encode d])
  | .txt, some (.bl ss) =>
    some [joinSep [32] (ss.map fun s => quote (txtElement st.txtUtf8 ConstsC05.unicodeEscaped Consts.rdataEscaped s))]
  | .optCstr, some (.b s) => some (if s = [] then [] else [quote (escapifyR s)])
  | .names, some (.nl ns) => printNames st ns
  | .apl, some (.apl items) => printAplItems items
  | .wks, some (.wks addr proto bm) =>
    match ip4Ntoa addr with
    | some a => some [a, natToDec proto, joinSep [32] ((wksPorts bm).map natToDec)]
    | none => none
  | .gateway _ algIdx, some (.gw kind addr nm key) =>
    match gatewayText st kind addr nm with
    | none => none
    | some g => some (g :: (match algIdx with
        | some _ => [wordbreak (b64Encode key) st.b64Chunk st.b64Sep]
        | none => []))
  | _, _ => none

/-- `Bitmap.to_text()`: `" " + " ".join(bits)` per window -/
def bitmapText (ws : List (Nat × Bytes)) : List Nat :=
  ws.flatMap fun w => 32 :: joinSep [32] ((windowTypes w).map rdtypeToText)

def printRec (sch : Schema) (st : Style) (vals : List FV) (tail : Option FV) : Option Text :=
  match sch.tail, tail with
  | .bitmap, some (.wl ws) =>
    -- `f"{fields}{text}"`: the bitmap text carries its own leading blanks
    if ws.all (fun w => (windowTypes w).all fun t => decide (t ≤ 65535)) then
      (printFields st sch.fields vals).map fun fs => joinSep [32] fs ++ bitmapText ws
    else none
  | .bitmap, _ => none
  | _, _ =>
    match printFields st sch.fields vals, printTail st sch.tail tail with
    | some fs, some ts => some (joinSep [32] (fs ++ ts))
    | _, _ => none

/-! ## parsing -/

def lookupAssoc (k : List Nat) : List (List Nat × Nat) → Option Nat
  | [] => none
  | (a, v) :: rest => if a = k then some v else lookupAssoc k rest

def upperC (c : Nat) : Nat := if 97 ≤ c ∧ c ≤ 122 then c - 32 else c

/-- `dns.enum.IntEnum.make(str)` for `Algorithm` (prefix "", maximum 255) -/
def algoFromText (s : List Nat) : Option Nat :=
  let u := s.map upperC
  match lookupAssoc u ConstsC05.algMnemonics with
  | some v => some v
  | none => if !u.isEmpty && u.all isDigit then (let v := decVal u; if v ≤ 255 then some v else none) else none

def upperC' (c : Nat) : Nat := if 97 ≤ c ∧ c ≤ 122 then c - 32 else c

def lookupName (k : List Nat) : List (List Nat × Nat) → Option Nat
  | [] => none
  | (a, v) :: rest => if a = k then some v else lookupName k rest

/-- `IntEnum.from_text(text)` for an enum without extras: upper-case, member name, else prefix + decimal ≤ max -/
def enumFromText (names : List (List Nat × Nat)) (pfx : List Nat) (max : Nat) (s : List Nat) : Option Nat :=
  let u := s.map upperC'
  match lookupName u names with
  | some v => some v
  | none =>
    if u.take pfx.length = pfx ∧ !(u.drop pfx.length).isEmpty ∧ (u.drop pfx.length).all isDigit then
      let v := decVal (u.drop pfx.length)
      if v ≤ max then some v else none
    else none

/-- `dns.rdatatype.from_text`: member names (`NSAP_PTR`), the dashed spelling (`NSAP-PTR`), then `TYPEnnn` -/
def rdtypeFromText (s : List Nat) : Option Nat :=
  let u := s.map upperC'
  match lookupName u ConstsC05.typeNames with
  | some v => some v
  | none =>
    let dashed : Option Nat :=
      if u.contains 45 then lookupName (u.map fun c => if c = 45 then 95 else c) ConstsC05.typeNames else none
    match dashed with
    | some v => if v ≠ 0 then some v else enumFromText [] ConstsC05.typePrefix 65535 s
    | none => enumFromText [] ConstsC05.typePrefix 65535 s

/-- `tok.get_string(max_length)`: unescaped *code points* of an identifier or quoted string (still used by GPOS,
NSEC3PARAM's salt, mnemonics …; the character-string fields moved to `asStringBytes`) -/
def asString (maxTok : Option Nat) (t : Tok) : Option (List Nat) :=
  match unescapeCP t.val with
  | none => none
  | some v => match maxTok with
    | some m => if m ≠ 0 ∧ v.length > m then none else some v
    | none => some v

/-- `tok.get_string_as_bytes(max_length)`: `\DDD` is an octet; the length limit counts octets -/
def asStringBytes (maxTok : Option Nat) (t : Tok) : Option Bytes :=
  match unescapeBytes t.val with
  | none => none
  | some v => match maxTok with
    | some m => if m ≠ 0 ∧ v.length > m then none else some v
    | none => some v

/-- `_as_bytes(value, True, max)` of a bytes value -/
def bytesMax (maxBytes : Option Nat) (b : Bytes) : Option Bytes :=
  match maxBytes with
  | some m => if b.length > m then none else some b
  | none => some b

/-- `_as_bytes(value, True, max)` of a str -/
def encodeMax (maxBytes : Option Nat) (v : List Nat) : Option Bytes :=
  match utf8Encode v with
  | none => none
  | some b => match maxBytes with
    | some m => if b.length > m then none else some b
    | none => some b

/-- the dash positions 2, 5, 8, … of an EUI text -/
def euiDashesOk (v : List Nat) (n : Nat) : Bool :=
  (List.range (n - 1)).all fun i => v[3 * i + 2]? == some 45

/-- `_validate_float_string` on the text after an optional sign: digits, or digits around exactly one dot with a digit on
at least one side.  The value is `N / 10^d`. -/
def floatStr (s : Bytes) : Option (Nat × Nat) :=
  match s with
  | [] => none
  | c :: r =>
    let body := if c = 45 ∨ c = 43 then r else c :: r
    if body ≠ [] ∧ body.all isDigit then some (decVal body, 0)
    else match splitOn 46 body with
      | [l, r] =>
        if l = [] ∧ r = [] then none
        else if l.all isDigit ∧ r.all isDigit then some (decVal (l ++ r), r.length) else none
      | _ => none

/-- GPOS constructor validation.  `float(s)` is the correctly rounded binary64 value of the decimal `N / 10^d`
(CPython's `float()` is correctly rounded); `B = 90` and `180` have even significands, so the rounded value exceeds `B`
exactly when `N / 10^d > B + ulp/2` with `ulp/2 = 2^-k` (`k = 47` for 90 in [64,128), `46` for 180 in [128,256)); the sign
is symmetric.  The character test is implied by `_validate_float_string` and stated first. -/
def gposCheck (lim : Option (Nat × Nat)) (s : Bytes) : Bool :=
  s.all (fun c => isDigit c || c == 43 || c == 45 || c == 46) &&
  match floatStr s with
  | none => false
  | some (n, d) => match lim with
    | none => true
    | some (b, k) => !(decide (n * 2 ^ k > (b * 2 ^ k + 1) * 10 ^ d))

def parseFieldExtra : FK → Tok → Option FV
  | .gpos lim, t => match unescapeCP t.val with
    | some v => if v.length > 255 then none else if gposCheck lim v then some (.b v) else none
    | none => none
  | .eui n, t => match unescapeCP t.val with
    | some v =>
      if v.length ≠ 3 * n - 1 then none
      else if !euiDashesOk v n then none
      else match unhexlify (v.filter (· ≠ 45)) with
        | some d => if d.length = n then some (.b d) else none
        | none => none
    | none => none
  | .hex16x4, t => if t.kind ≠ .ident then none else match unescapeCP t.val with
    | some v => (parseFormattedHex4 v).map .b
    | none => none
  | .nsap, t => match unescapeCP t.val with
    | some v =>
      if v.take 2 ≠ [48, 120] then none
      else
        let h := (v.drop 2).filter (· ≠ 46)
        if h.length % 2 ≠ 0 then none else (unhexlify h).map .b
    | none => none
  | .rdtype, t => match unescapeCP t.val with
    | some v => (rdtypeFromText v).map .n
    | none => none
  | .algoName, t => match unescapeCP t.val with
    | some v => (enumFromText ConstsC05.algMnemonics [] 255 v).map .n
    | none => none
  | .scheme, t => match unescapeCP t.val with
    | some v => (enumFromText ConstsC05.schemeNames [] 255 v).map .n
    | none => none
  | .ctype, t => match unescapeCP t.val with
    | some v => match lookupName v ConstsC05.ctypeByName with
      | some x => some (.n x)
      | none => match pyInt 10 v with
        | some (neg, n) => if (neg ∧ n ≠ 0) ∨ n > 65535 then none else some (.n n)
        | none => none
    | none => none
  | .keyFlags, t =>
    -- `tok.as_uint16(token)` on the raw token value, else mnemonics
    let direct : Option Nat :=
      if t.kind ≠ .ident then none
      else match pyInt 10 t.val with
        | some (neg, n) => if (neg ∧ n ≠ 0) ∨ n > 65535 then none else some n
        | none => none
    match direct with
    | some n => some (.n n)
    | none =>
      let parts := splitOn 124 t.val
      (parts.foldl (fun acc p => match acc, lookupName p ConstsC05.keyFlagNames with
        | some a, some v => some (a ||| v)
        | _, _ => none) (some 0)).map .n
  | .keyProto, t =>
    let direct : Option Nat :=
      if t.kind ≠ .ident then none
      else match pyInt 10 t.val with
        | some (neg, n) => if (neg ∧ n ≠ 0) ∨ n > 255 then none else some n
        | none => none
    match direct with
    | some n => some (.n n)
    | none => (lookupName t.val ConstsC05.keyProtoNames).map .n
  | .sigtime, t => match unescapeCP t.val with
    | some v => (sigtimeFromText v).map .n
    | none => none
  | .hexOne, t => match unescapeCP t.val with
    | some v => match unhexlify v with
      | some b => if b.length > 255 then none else some (.b b)
      | none => none
    | none => none
  | .b64One, t => match unescapeCP t.val with
    | some v => match b64Decode v with
      -- `fix:` commit 18b73c9: HIP / TKEY keys are bounded by their 16-bit wire length (a TSIG MAC by its length field)
      | some b => if b.length > 65535 then none else some (.b b)
      | none => none
    | none => none
  | .rcode, t => match unescapeCP t.val with
    | some v => (enumFromText ConstsC05.rcodeNames [] 4095 v).map .n
    | none => none
  | .b32hex, t => match unescapeCP t.val with
    | some v =>
      if v.any (fun c => decide (c ≥ 128)) then none     -- `.encode("ascii")`
      else match b32hexDecode v with
        | some b => if b.length > 255 then none else some (.b b)
        | none => none
    | none => none
  | _, _ => none

def parseField (env : PEnv) : FK → Tok → Option FV
  | .uint max, t => (asUint 10 max t).map .n
  | .oct16, t => (asUint 8 65535 t).map .n
  | .ttl, t => (asTtl t).map .n
  | .name, t => (asName t env.origin env.relativize env.relTo).map .nm
  | .nameRaw, t => (asName t none false none).map .nm
  | .cstr maxTok maxBytes _, t => match asStringBytes maxTok t with
    | some v => (bytesMax maxBytes v).map .b
    | none => none
  | .ip4, t => if t.kind ≠ .ident then none else match unescapeCP t.val with
    | some v => (ip4Aton v).map .b
    | none => none
  | .ip6, t => if t.kind ≠ .ident then none else match unescapeCP t.val with
    | some v => (ip6Aton v).map .b
    | none => none
  | .algo, t => match unescapeCP t.val with
    | some v => (algoFromText v).map .n
    | none => none
  | .salt, t => match unescapeCP t.val with
    | some v => if v = [45] then some (.b []) else
      match unhexlify v with     -- a non-ASCII character makes `.encode()` + unhexlify fail just the same
      | some b => if b.length > 255 then none else some (.b b)
      | none => none
    | none => none
  | k, t => parseFieldExtra k t

def parseFields (env : PEnv) : List FK → List Tok → Option (List FV × List Tok)
  | [], toks => some ([], toks)
  | _ :: _, [] => none
  | k :: ks, t :: ts => match parseField env k t, parseFields env ks ts with
    | some v, some (vs, rest) => some (v :: vs, rest)
    | _, _ => none

/-- `s.split(sep, 1)` unpacked into two names: `none` (ValueError) without a separator -/
def splitFirst (c : Nat) : List Nat → Option (List Nat × List Nat)
  | [] => none
  | x :: xs => if x = c then some ([], xs) else (splitFirst c xs).map fun p => (x :: p.1, p.2)

/-- one APL item after the optional `!`: `family:address/prefix` with Python `int()` for the numbers and the
`APLItem.__init__` validation; families other than 1 and 2 carry hex digits (at most 127 characters) -/
def parseAplBody (neg : Bool) (item : List Nat) : Option (Nat × Bool × Bytes × Nat) :=
  match splitFirst 58 item with
  | none => none
  | some (fam, rest) =>
    match pyInt 10 fam with
    | none => none
    | some (fneg, f) =>
      if (fneg ∧ f ≠ 0) ∨ f > 65535 then none
      else match splitFirst 47 rest with
        | none => none
        | some (addr, pfx) =>
          match pyInt 10 pfx with
          | none => none
          | some (pneg, p) =>
            if pneg ∧ p ≠ 0 then none
            else if f = 1 then
              (match ip4Aton addr with | some a => if p ≤ 32 then some (1, neg, a, p) else none | none => none)
            else if f = 2 then
              (match ip6Aton addr with | some a => if p ≤ 128 then some (2, neg, a, p) else none | none => none)
            -- commit dc89065: `_as_bytes(address, True, max_length=127)` then `binascii.unhexlify`; prefix `_as_uint8`
            else if addr.length > 127 then none
            else (match unhexlify addr with | some a => if p ≤ 255 then some (f, neg, a, p) else none | none => none)

/-- `[!]family:address/prefix` -/
def parseAplItem (t : Tok) : Option (Nat × Bool × Bytes × Nat) :=
  match unescapeCP t.val with
  | none => none
  | some [] => none        -- `item[0]`: IndexError
  | some (c :: cs) => if c = 33 then parseAplBody true cs else parseAplBody false (c :: cs)

def parseApl : List Tok → Option (List (Nat × Bool × Bytes × Nat))
  | [] => some []
  | t :: ts => match parseAplItem t, parseApl ts with
    | some it, some r => some (it :: r)
    | _, _ => none

/-- `bitmap[i] |= 0x80 >> (serv % 8)` after growing the bytearray to `i + 1` octets -/
def wksSet (bm : Bytes) (serv : Nat) : Bytes :=
  let i := serv / 8
  let bm' := if bm.length < i + 1 then bm ++ List.replicate (i + 1 - bm.length) 0 else bm
  bm'.set i (bm'.getD i 0 ||| (0x80 >>> (serv % 8)))

/-- `dns.rdata._truncate_bitmap` -/
def truncateBitmap (b : Bytes) : Bytes :=
  let r := b.reverse.dropWhile (· == 0)
  if r = [] then b.take 1 else r.reverse

/-- the services of a WKS record; a token that is not `str.isdecimal()` is a service mnemonic (not modelled: `none`) -/
def parseWksPorts : List Tok → Bytes → Option Bytes
  | [], bm => some bm
  | t :: ts, bm => match unescapeCP t.val with
    | some v =>
      if v ≠ [] ∧ v.all isDigit then (if decVal v > 65535 then none else parseWksPorts ts (wksSet bm (decVal v)))
      else none
    | none => none

/-- WKS `from_text`: `get_string` address and protocol (`isdecimal()` → `int`), the remaining tokens are ports -/
def parseWks : List Tok → Option (Option FV)
  | t1 :: t2 :: rest =>
    match asString none t1, asString none t2 with
    | some a, some pr =>
      match ip4Aton a with
      | none => none
      | some addr =>
        if pr ≠ [] ∧ pr.all isDigit then
          if decVal pr > 255 then none
          else match parseWksPorts rest [] with
            | some bm => some (some (.wks addr (decVal pr) (truncateBitmap bm)))
            | none => none
        else none
    | _, _ => none
  | _ => none

def parseTxt : List Tok → Option (List Bytes)
  | [] => some []
  | t :: ts => match unescapeBytes t.val, parseTxt ts with
    | some b, some r => if b.length > 255 then none else some (b :: r)
    | _, _ => none

/-- KEY: "if the type flags field has the NOKEY value, nothing appears after the algorithm octet" -/
def keyIsNoKey : List FV → Bool
  | .n flags :: _ => flags / 16384 % 4 == 3
  | _ => false

def parseTail (vals : List FV) : TK → List Tok → Option (Option FV)
  | .none, toks => if toks = [] then some none else none
  | .bitmap, toks =>
    let rec types : List Tok → Option (List Nat)
      | [] => some []
      | t :: ts => match unescapeCP t.val with
        | some v => match rdtypeFromText v, types ts with
          | some ty, some r => if ty = 0 then none else some (ty :: r)
          | _, _ => none
        | none => none
    (types toks).map fun tys => some (.wl (Dnssec.fromRdtypes tys))
  | .b64Opt, toks => match concatIdents true toks with
    | some s => match b64Decode s with
      | some b => if b.length > 65535 then none else some (some (.b b))    -- commit 18b73c9
      | none => none
    | none => none
  | .tsigOther, toks =>
    -- vals = [alg, time, fudge, maclen, mac, original id, error, otherlen]
    match (vals[7]? : Option FV), toks with
    | some (FV.n len), [] => if len = 0 then some (some (.b [])) else none
    | some (FV.n len), [t] =>
      if len = 0 then none
      else match unescapeCP t.val with
        | some v => match b64Decode v with
          | some b => if b.length = len then some (some (.b b)) else none
          | none => none
        | none => none
    | _, _ => none
  | .names, _ => none   -- handled by `parseRec` (needs the origin)
  | .keyB64, toks =>
    if keyIsNoKey vals then (if toks = [] then some (some (.b [])) else none)
    else match concatIdents false toks with
      | some s => (b64Decode s).map fun b => some (.b b)
      | none => none
  | .hex, toks => match concatIdents false toks with
    | some s => (unhexlify s).map fun b => some (.b b)
    | none => none
  | .b64 _, toks => match concatIdents false toks with
    | some s => (b64Decode s).map fun b => some (.b b)
    | none => none
  | .txt, toks => match parseTxt toks with
    | some ss => if ss = [] then none else some (some (.bl ss))
    | none => none
  | .optCstr, toks => match toks with
    | [] => some (some (.b []))
    | [t] => match unescapeBytes t.val with
      | some v => (bytesMax (some 255) v).map fun b => some (.b b)
      | none => none
    | _ => none
  | .apl, toks => (parseApl toks).map fun items => some (.apl items)
  | .wks, toks => parseWks toks
  | .gateway _ _, _ => none   -- handled by `parseGateway` (needs the origin)

def parseNames (env : PEnv) : List Tok → Option (List Name)
  | [] => some []
  | t :: ts => match asName t env.origin env.relativize env.relTo, parseNames env ts with
    | some n, some r => some (n :: r)
    | _, _ => none

/-- `util.Gateway.from_text(gateway_type, tok, origin, relativize, relativize_to)` + `Gateway._check`:
types 0–2 read `tok.get_string()` (`.` / an address that `inet_aton` accepts, *stored as written*), type 3 a name -/
def parseGatewayTok (env : PEnv) (ty : Nat) (t : Tok) : Option (List Nat × Name) :=
  if ty ≤ 2 then
    match asString none t with
    | some s =>
      if ty = 0 then (if s = [46] then some ([], []) else none)
      else if ty = 1 then (if (ip4Aton s).isSome then some (s, []) else none)
      else (if (ip6Aton s).isSome then some (s, []) else none)
    | none => none
  else if ty = 3 then (asName t env.origin env.relativize env.relTo).map fun n => ([], n)
  else none

def parseGateway (env : PEnv) (vals : List FV) (typeIdx : Nat) (algIdx : Option Nat) (toks : List Tok) : Option (Option FV) :=
  match (vals[typeIdx]? : Option FV), toks with
  | some (FV.n ty), t :: rest =>
    match parseGatewayTok env ty t with
    | none => none
    | some (addr, nm) =>
      match algIdx with
      | none => if rest = [] then some (some (.gw ty addr nm [])) else none
      | some ai =>
        match (vals[ai]? : Option FV) with
        | some (FV.n alg) =>
          match concatIdents (alg == 0) rest with
          | some s => (b64Decode s).map fun k => some (.gw ty addr nm k)
          | none => none
        | _ => none
  | _, _ => none

/-- the tail parser with the `from_text` arguments (only the names and gateway tails need them) -/
def parseTailE (env : PEnv) (vals : List FV) (tk : TK) (toks : List Tok) : Option (Option FV) :=
  match tk with
  | .names => (parseNames env toks).map (fun ns => some (.nl ns))
  | .gateway ti ai => parseGateway env vals ti ai toks
  | tk => parseTail vals tk toks

def parseRec (sch : Schema) (env : PEnv) (toks : List Tok) : Option (List FV × Option FV) :=
  match parseFields env sch.fields toks with
  | none => none
  | some (vals, rest) =>
    match parseTailE env vals sch.tail rest with
    | none => none
    | some tail => if sch.check vals tail then some (vals, tail) else none

/-! ## the schema table -/

def noCheck : List FV → Option FV → Bool := fun _ _ => true

def dsCheck (tbl : List (Nat × Nat)) : List FV → Option FV → Bool
  | [_, _, .n dt], some (.b digest) =>
    match tbl.find? (fun p => p.1 == dt) with
    | some p => digest.length == p.2
    | none => dt != 0
  | _, _ => false

def zonemdCheck : List FV → Option FV → Bool
  | [_, .n scheme, .n alg], some (.b digest) =>
    scheme != 0 && alg != 0 &&
    match ConstsC05.zonemdDigestLen.find? (fun p => p.1 == alg) with
    | some p => digest.length == p.2
    | none => true
  | _, _ => false

def isAlnumC (c : Nat) : Bool := (48 ≤ c && c ≤ 57) || (65 ≤ c && c ≤ 90) || (97 ≤ c && c ≤ 122)

def caaCheck : List FV → Option FV → Bool
  | [_, .b tag, _], none => !tag.isEmpty && tag.all isAlnumC
  | _, _ => false

/-- URI: the target must not be empty -/
def uriCheck : List FV → Option FV → Bool
  | [_, _, .b target], none => !target.isEmpty
  | _, _ => false

/-- TSIG: the printed lengths are those of the MAC and of the other data -/
def tsigCheck : List FV → Option FV → Bool
  | [_, _, _, .n maclen, .b mac, _, _, .n otherlen], some (.b other) => mac.length == maclen && other.length == otherlen
  | _, _ => false

def u8 := FK.uint 255
def u16 := FK.uint 65535
def u32 := FK.uint 4294967295

def schemaOf : String → Option Schema
  | "A" => some ⟨[.ip4], .none, noCheck, true⟩
  | "AAAA" => some ⟨[.ip6], .none, noCheck, true⟩
  | "NS" | "CNAME" | "PTR" | "DNAME" | "NSAP-PTR" => some ⟨[.name], .none, noCheck, true⟩
  | "MX" | "AFSDB" | "RT" | "KX" | "LP" => some ⟨[u16, .name], .none, noCheck, true⟩
  | "PX" => some ⟨[u16, .name, .name], .none, noCheck, true⟩
  | "SRV" => some ⟨[u16, u16, u16, .name], .none, noCheck, true⟩
  | "RP" => some ⟨[.name, .name], .none, noCheck, true⟩
  | "SOA" => some ⟨[.name, .name, u32, .ttl, .ttl, .ttl, .ttl], .none, noCheck, true⟩
  | "TXT" | "SPF" | "AVC" | "NINFO" | "RESINFO" | "WALLET" => some ⟨[], .txt, noCheck, true⟩
  | "HINFO" => some ⟨[.cstr (some 255) (some 255) true, .cstr (some 255) (some 255) true], .none, noCheck, true⟩
  | "X25" => some ⟨[.cstr none (some 255) true], .none, noCheck, true⟩
  | "ISDN" => some ⟨[.cstr none (some 255) true], .optCstr, noCheck, true⟩
  | "NAPTR" => some ⟨[u16, u16, .cstr none (some 255) true, .cstr none (some 255) true, .cstr none (some 255) true, .name],
      .none, noCheck, true⟩
  | "CAA" => some ⟨[u8, .cstr none (some 255) false, .cstr none none true], .none, caaCheck, true⟩
  | "URI" => some ⟨[u16, u16, .cstr none none true], .none, uriCheck, true⟩
  | "DS" | "DLV" => some ⟨[u16, .algo, u8], .hex, dsCheck ConstsC05.dsDigestLen, true⟩
  | "CDS" => some ⟨[u16, .algo, u8], .hex, dsCheck ConstsC05.cdsDigestLen, true⟩
  | "TLSA" | "SMIMEA" => some ⟨[u8, u8, u8], .hex, noCheck, true⟩
  | "SSHFP" => some ⟨[u8, u8], .hex, noCheck, true⟩
  | "ZONEMD" => some ⟨[u32, u8, u8], .hex, zonemdCheck, true⟩
  | "DNSKEY" | "CDNSKEY" => some ⟨[u16, u8, .algo], .b64 false, noCheck, true⟩
  | "DHCID" => some ⟨[], .b64 false, noCheck, true⟩
  | "OPENPGPKEY" | "BRID" | "HHIT" => some ⟨[], .b64 true, noCheck, true⟩
  | "L32" => some ⟨[u16, .ip4], .none, noCheck, true⟩
  | "NSEC3PARAM" => some ⟨[u8, u8, u16, .salt], .none, noCheck, true⟩
  | "CH-A" => some ⟨[.name, .oct16], .none, noCheck, true⟩
  | "EUI48" => some ⟨[.eui 6], .none, noCheck, true⟩
  | "EUI64" => some ⟨[.eui 8], .none, noCheck, true⟩
  | "NID" | "L64" => some ⟨[u16, .hex16x4], .none, noCheck, true⟩
  | "NSAP" => some ⟨[.nsap], .none, noCheck, true⟩
  | "CERT" => some ⟨[.ctype, u16, .algoName], .b64 false, noCheck, true⟩
  | "DSYNC" => some ⟨[.rdtype, .scheme, u16, .name], .none, noCheck, true⟩
  | "KEY" => some ⟨[.keyFlags, .keyProto, .algo], .keyB64, noCheck, true⟩
  | "HIP" => some ⟨[u8, .hexOne, .b64One], .names, noCheck, false⟩
  | "TKEY" => some ⟨[.nameRaw, u32, u32, u16, u16, .b64One], .b64Opt, noCheck, false⟩
  | "TSIG" => some ⟨[.nameRaw, .uint 281474976710655, u16, u16, .b64One, u16, .rcode, u16], .tsigOther, tsigCheck, false⟩
  | "NSEC" => some ⟨[.name], .bitmap, noCheck, true⟩
  | "CSYNC" => some ⟨[u32, u16], .bitmap, noCheck, true⟩
  | "NSEC3" => some ⟨[u8, u8, u16, .salt, .b32hex], .bitmap, noCheck, true⟩
  | "RRSIG" | "SIG" => some ⟨[.rdtype, .algo, u8, .ttl, .sigtime, .sigtime, u16, .name], .b64 false, noCheck, true⟩
  | "GPOS" => some ⟨[.gpos (some (90, 47)), .gpos (some (180, 46)), .gpos none], .none, noCheck, true⟩
  | "WKS" => some ⟨[], .wks, noCheck, false⟩
  | "APL" => some ⟨[], .apl, noCheck, false⟩
  | "IPSECKEY" => some ⟨[u8, u8, u8], .gateway 1 (some 2), noCheck, false⟩
  | "AMTRELAY" => some ⟨[u8, .uint 1, .uint 127], .gateway 2 none, noCheck, false⟩
  | _ => none

def modelledTypes : List String :=
  ["A", "AAAA", "NS", "CNAME", "PTR", "DNAME", "NSAP-PTR", "MX", "AFSDB", "RT", "KX", "LP", "PX", "SRV", "RP", "SOA",
   "TXT", "SPF", "AVC", "NINFO", "RESINFO", "WALLET", "HINFO", "X25", "ISDN", "NAPTR", "CAA", "URI", "DS", "DLV", "CDS",
   "TLSA", "SMIMEA", "SSHFP", "ZONEMD", "DNSKEY", "CDNSKEY", "DHCID", "OPENPGPKEY", "BRID", "HHIT", "L32", "NSEC3PARAM",
   "CH-A", "EUI48", "EUI64", "NID", "L64", "NSAP", "CERT", "DSYNC", "KEY", "RRSIG", "SIG", "NSEC", "CSYNC", "NSEC3", "HIP", "TKEY", "TSIG",
   "IPSECKEY", "AMTRELAY", "APL", "WKS", "GPOS"]

/-! ## wire form of the schema fields (needed by the generic syntax of known types) -/

def beBytes (width : Nat) (v : Nat) : Bytes :=
  (List.range width).reverse.map fun i => v / 256 ^ i % 256

def beVal (b : Bytes) : Nat := b.foldl (fun a x => a * 256 + x) 0

def widthOf (max : Nat) : Nat :=
  if max ≤ 255 then 1 else if max ≤ 65535 then 2 else if max ≤ 4294967295 then 4 else 6

/-- `Name.to_wire(origin=…)`: a relative name needs an absolute origin, which is appended and must fit in 255 octets -/
def encName (origin : Option Name) (n : Name) : Option Bytes :=
  if isAbs n then some (toWire n)
  else match origin with
    | some o =>
      if isAbs o then
        -- `Name(labels[i:])` inside `Name.to_wire(file, …)`: the concatenation must be a legal name (`NameTooLong`)
        (if (toWire (n ++ o)).length > 255 then none else some (toWire (n ++ o)))
      else none
    | none => none

/-- `struct.pack` raises when the value does not fit the format: `none` -/
def packGuard (c : Bool) (b : Bytes) : Option Bytes := if c then some b else none

/-- `to_wire(origin=origin)` of one field -/
def encField (origin : Option Name) : FK → FV → Option Bytes
  | .uint max, .n v => packGuard (decide (v < 256 ^ widthOf max)) (beBytes (widthOf max) v)
  | .oct16, .n v => packGuard (decide (v < 65536)) (beBytes 2 v)
  | .ttl, .n v => packGuard (decide (v < 4294967296)) (beBytes 4 v)
  | .name, .nm n => encName origin n
  | .cstr _ _ _, .b s => packGuard (decide (s.length < 256)) (s.length :: s)
  | .ip4, .b a => packGuard (decide (a.length = 4)) a
  | .ip6, .b a => packGuard (decide (a.length = 16)) a
  | .algo, .n v => packGuard (decide (v < 256)) [v]
  | .salt, .b s => packGuard (decide (s.length < 256)) (s.length :: s)
  | .eui _, .b s => some s
  | .hex16x4, .b s => some s
  | .nsap, .b s => some s
  | .rdtype, .n v => packGuard (decide (v < 65536)) (beBytes 2 v)
  | .algoName, .n v => packGuard (decide (v < 256)) [v]
  | .scheme, .n v => packGuard (decide (v < 256)) [v]
  | .ctype, .n v => packGuard (decide (v < 65536)) (beBytes 2 v)
  | .keyFlags, .n v => packGuard (decide (v < 65536)) (beBytes 2 v)
  | .keyProto, .n v => packGuard (decide (v < 256)) [v]
  | .sigtime, .n v => packGuard (decide (v < 4294967296)) (beBytes 4 v)
  | .b32hex, .b s => packGuard (decide (s.length < 256)) (s.length :: s)
  | .gpos _, .b s => packGuard (decide (s.length < 256)) (s.length :: s)
  -- TSIG (the only type whose wire form uses these three in schema order; HIP and TKEY put lengths elsewhere):
  | .nameRaw, .nm n => encName origin n
  | .b64One, .b s => some s          -- the MAC; its 16-bit length is the preceding field
  | .rcode, .n v => packGuard (decide (v < 65536)) (beBytes 2 v)
  | _, _ => none

/-- CAA's value and URI's target are not length-prefixed: they are the rest of the rdata -/
def isRestField (tname : String) (idx : Nat) : Bool :=
  (tname == "CAA" && idx == 2) || (tname == "URI" && idx == 2)

def encFields (tname : String) (origin : Option Name) : Nat → List FK → List FV → Option Bytes
  | _, [], [] => some []
  | i, k :: ks, v :: vs =>
    let one : Option Bytes :=
      match k, v with
      | .cstr _ _ _, .b s => if isRestField tname i then some s else encField origin k v
      -- TKEY's key carries its own 16-bit length (TSIG's MAC length is an explicit field of the schema)
      | .b64One, .b s => if tname == "TKEY" then packGuard (decide (s.length < 65536)) (beBytes 2 s.length ++ s) else encField origin k v
      | _, _ => encField origin k v
    match one, encFields tname origin (i + 1) ks vs with
    | some a, some r => some (a ++ r)
    | _, _ => none
  | _, _, _ => none

/-- APL item: trailing zero octets of the address are not sent -/
def trimZeros (a : Bytes) : Bytes := (a.reverse.dropWhile (· == 0)).reverse

/-- `APLItem.to_wire`: `!HBB` family, prefix, negation bit + length, then the trimmed address -/
def encAplItem (it : Nat × Bool × Bytes × Nat) : Option Bytes :=
  let a := trimZeros it.2.2.1
  packGuard (decide (it.1 < 65536) && decide (it.2.2.2 < 256) && decide (a.length < 128))
    (beBytes 2 it.1 ++ [it.2.2.2, a.length + (if it.2.1 then 128 else 0)] ++ a)

def encAplItems : List (Nat × Bool × Bytes × Nat) → Option Bytes
  | [] => some []
  | it :: r => match encAplItem it, encAplItems r with
    | some a, some b => some (a ++ b)
    | _, _ => none

/-- `util.Gateway.to_wire`: nothing / the address octets / the name (uncompressed, against the origin) -/
def encGateway (origin : Option Name) (kind : Nat) (addr : List Nat) (nm : Name) : Option Bytes :=
  if kind = 0 then some []
  else if kind = 1 then ip4Aton addr
  else if kind = 2 then ip6Aton addr
  else if kind = 3 then encName origin nm
  else none

def encTail (origin : Option Name) : TK → Option FV → Option Bytes
  | .none, none => some []
  | .hex, some (.b d) => some d
  | .b64 _, some (.b d) => some d
  | .keyB64, some (.b d) => some d
  | .bitmap, some (.wl ws) =>
    packGuard (ws.all fun w => decide (w.1 < 256) && decide (w.2.length < 256)) (ws.flatMap fun w => w.1 :: w.2.length :: w.2)
  | .txt, some (.bl ss) => packGuard (ss.all fun s => decide (s.length < 256)) (ss.flatMap fun s => s.length :: s)
  | .optCstr, some (.b s) => packGuard (decide (s.length < 256)) (if s = [] then [] else s.length :: s)
  | .tsigOther, some (.b d) => some d     -- TSIG other data; its 16-bit length is the last prefix field
  | .b64Opt, some (.b d) => packGuard (decide (d.length < 65536)) (beBytes 2 d.length ++ d)   -- TKEY other data
  | .wks, some (.wks addr proto bm) => packGuard (decide (addr.length = 4) && decide (proto < 256)) (addr ++ proto :: bm)
  | .apl, some (.apl items) => encAplItems items
  | .gateway _ _, some (.gw kind addr nm key) => (encGateway origin kind addr nm).map (· ++ key)
  | _, _ => none

def encRecG (tname : String) (sch : Schema) (origin : Option Name) (vals : List FV) (tail : Option FV) : Option Bytes :=
  match encFields tname origin 0 sch.fields vals, encTail origin sch.tail tail with
  | some a, some b => some (a ++ b)
  | _, _ => none

def encNames (origin : Option Name) : List Name → Option Bytes
  | [] => some []
  | n :: r => match encName origin n, encNames origin r with
    | some a, some b => some (a ++ b)
    | _, _ => none

/-- `HIP._to_wire`: `!BBH` (hit length, algorithm, key length), hit, key, the rendezvous servers uncompressed -/
def encHip (origin : Option Name) : List FV → Option FV → Option Bytes
  | [.n alg, .b hit, .b key], some (.nl servers) =>
    match packGuard (decide (hit.length < 256) && decide (alg < 256) && decide (key.length < 65536))
        ([hit.length, alg] ++ beBytes 2 key.length ++ hit ++ key), encNames origin servers with
    | some a, some b => some (a ++ b)
    | _, _ => none
  | _, _ => none

/-- `to_wire(origin=origin)` of a schema value (HIP's header is not in schema order) -/
def encRec (tname : String) (sch : Schema) (origin : Option Name) (vals : List FV) (tail : Option FV) : Option Bytes :=
  if tname = "HIP" then encHip origin vals tail else encRecG tname sch origin vals tail

/-- `parser.get_name(origin)`: decode at `cur` inside the rdata, then `relativize(origin)` (`if origin:` — an empty
name is falsy) -/
def decName (w : Bytes) (cur : Nat) (origin : Option Name) : Option (Name × Nat) :=
  match fromWire w cur with
  | .error _ => none
  | .ok (n, used) =>
    match origin with
    | none => some (n, used)
    | some o =>
      if o = [] then some (n, used)
      else match relativize n o with
        | .ok m => some (m, used)
        | .error _ => none

def decFields (tname : String) (w : Bytes) (origin : Option Name) : Nat → Nat → List FK → Option (List FV × Nat)
  | _, cur, [] => some ([], cur)
  | i, cur, k :: ks =>
    let one : Option (FV × Nat) :=
      match k with
      | .uint max =>
        let wd := widthOf max
        if cur + wd ≤ w.length then some (.n (beVal ((w.drop cur).take wd)), cur + wd) else none
      | .oct16 => if cur + 2 ≤ w.length then some (.n (beVal ((w.drop cur).take 2)), cur + 2) else none
      | .ttl => if cur + 4 ≤ w.length then some (.n (beVal ((w.drop cur).take 4)), cur + 4) else none
      | .algo => if cur + 1 ≤ w.length then some (.n (beVal ((w.drop cur).take 1)), cur + 1) else none
      | .name => match decName w cur origin with
        | some (n, used) => some (.nm n, cur + used)
        | none => none
      | .cstr _ _ _ =>
        if isRestField tname i then some (.b (w.drop cur), w.length)
        else match w[cur]? with
          | some l => if cur + 1 + l ≤ w.length then some (.b ((w.drop (cur + 1)).take l), cur + 1 + l) else none
          | none => none
      | .salt => match w[cur]? with
          | some l => if cur + 1 + l ≤ w.length then some (.b ((w.drop (cur + 1)).take l), cur + 1 + l) else none
          | none => none
      | .ip4 => -- `parser.get_remaining()` then `inet_ntoa` needs exactly 4 octets
        if w.length - cur = 4 ∧ cur ≤ w.length then some (.b (w.drop cur), w.length) else none
      | .ip6 => if w.length - cur = 16 ∧ cur ≤ w.length then some (.b (w.drop cur), w.length) else none
      | .eui n => if cur + n ≤ w.length then some (.b ((w.drop cur).take n), cur + n) else none
      | .hex16x4 => if w.length - cur = 8 ∧ cur ≤ w.length then some (.b (w.drop cur), w.length) else none
      | .nsap => if cur ≤ w.length then some (.b (w.drop cur), w.length) else none
      | .rdtype | .ctype | .keyFlags => if cur + 2 ≤ w.length then some (.n (beVal ((w.drop cur).take 2)), cur + 2) else none
      | .algoName | .scheme | .keyProto => if cur + 1 ≤ w.length then some (.n (beVal ((w.drop cur).take 1)), cur + 1) else none
      | .sigtime => if cur + 4 ≤ w.length then some (.n (beVal ((w.drop cur).take 4)), cur + 4) else none
      | .b32hex => match w[cur]? with
          | some l => if cur + 1 + l ≤ w.length then some (.b ((w.drop (cur + 1)).take l), cur + 1 + l) else none
          | none => none
      | .gpos lim => match w[cur]? with
          | some l =>
            if cur + 1 + l ≤ w.length then
              (if gposCheck lim ((w.drop (cur + 1)).take l) then some (.b ((w.drop (cur + 1)).take l), cur + 1 + l) else none)
            else none
          | none => none
      | .hexOne | .b64One | .nameRaw | .rcode => none   -- types with `wire := false`
    match one with
    | none => none
    | some (v, cur') => match decFields tname w origin (i + 1) cur' ks with
      | some (vs, e) => some (v :: vs, e)
      | none => none

def decCstrs (w : Bytes) : Nat → Nat → Option (List Bytes)
  | 0, _ => none
  | fuel + 1, cur =>
    if cur ≥ w.length then some []
    else match w[cur]? with
      | some l =>
        if cur + 1 + l ≤ w.length then (decCstrs w fuel (cur + 1 + l)).map (((w.drop (cur + 1)).take l) :: ·) else none
      | none => none

/-- `Bitmap.from_wire_parser` + the constructor's validation (ascending windows, 1–32 octets each) -/
def decWindows (w : Bytes) : Nat → Nat → Option Nat → Option (List (Nat × Bytes))
  | 0, _, _ => none
  | fuel + 1, cur, last =>
    if cur ≥ w.length then some []
    else match w[cur]?, w[cur + 1]? with
      | some win, some l =>
        if cur + 2 + l > w.length then none
        else if (match last with | some p => decide (win ≤ p) | none => false) then none
        else if l = 0 ∨ l > 32 then none
        else (decWindows w fuel (cur + 2 + l) (some win)).map (((win, (w.drop (cur + 2)).take l)) :: ·)
      | _, _ => none

def decTail (w : Bytes) (cur : Nat) : TK → Option (Option FV)
  | .none => if cur = w.length then some none else none
  | .hex => some (some (.b (w.drop cur)))
  | .b64 _ => some (some (.b (w.drop cur)))
  | .keyB64 => some (some (.b (w.drop cur)))
  | .bitmap => (decWindows w (w.length + 1) cur none).map fun ws => some (.wl ws)
  | .names | .b64Opt | .tsigOther | .gateway _ _ | .apl | .wks => none
  | .txt => match decCstrs w (w.length + 1) cur with
    | some ss => if ss = [] then none else some (some (.bl ss))
    | none => none
  | .optCstr =>
    if cur = w.length then some (some (.b []))
    else match w[cur]? with
      | some l => if cur + 1 + l = w.length then some (some (.b ((w.drop (cur + 1)).take l))) else none
      | none => none

/-- `dns.rdata.from_wire(rdclass, rdtype, data, 0, len(data), origin)` for a schema type -/
def decRec (tname : String) (sch : Schema) (w : Bytes) (origin : Option Name) : Option (List FV × Option FV) :=
  match decFields tname w origin 0 0 sch.fields with
  | none => none
  | some (vals, cur) => match decTail w cur sch.tail with
    | none => none
    | some tail => if sch.check vals tail then some (vals, tail) else none

/-! ## the generic syntax and `dns.rdata.from_text` -/

/-- `GenericRdata.to_styled_text` -/
def printGeneric (st : Style) (data : Bytes) : Text :=
  [92, 35, 32] ++ natToDec data.length ++ [32] ++ wordbreak (hexlify data) st.hexChunk st.hexSep

/-- `GenericRdata.from_text` on the token list of the line -/
def parseGeneric : List Tok → Option Bytes
  | t :: lenTok :: rest =>
    if t.kind ≠ .ident ∨ t.val ≠ [92, 35] then none
    else
      let len : Option Nat :=
        if lenTok.kind ≠ .ident then none
        else match unescapeCP lenTok.val with
          | some v => match pyInt 10 v with
            | some (neg, n) => if neg ∧ n ≠ 0 then none else some n
            | none => none
          | none => none
      match len, concatIdents true rest with
      | some n, some hex => match unhexlify hex with
        | some data => if data.length = n then some data else none
        | none => none
      | _, _ => none
  | _ => none

def isGenericStart : List Tok → Bool
  | t :: _ => t.kind == .ident && t.val == [92, 35]
  | [] => false

/-- `wire_origin = (relativize_to or origin) if relativize else None` -/
def wireOrigin (env : PEnv) : Option Name :=
  if env.relativize then orOrigin env.relTo env.origin else none

inductive Parsed where
  | known (vals : List FV) (tail : Option FV)
  | generic (data : Bytes)
  deriving Repr, DecidableEq

/-- `dns.rdata.from_text(rdclass, rdtype, text, origin, relativize, relativize_to)`;
`tname = none` stands for a type without an implementation (`GenericRdata`). `none` = it raised. -/
def fromTextRdata (tname : Option String) (env : PEnv) (text : Text) : Option Parsed :=
  match lexLine text with
  | none => none
  | some toks =>
    match tname with
    | none => (parseGeneric toks).map .generic
    | some tn =>
      match schemaOf tn with
      | none => none
      | some sch =>
        if isGenericStart toks then
          if !sch.wire then none   -- no wire codec in the model for this type: the generic form is oracle-only
          else match parseGeneric toks with
          | none => none
          | some data =>
            -- `fix:` commit 7f93d2c: names are relativized as the textual form would be, and the re-encode
            -- check uses the same origin
            match decRec tn sch data (wireOrigin env) with
            | none => none
            | some (vals, tail) =>
              -- `rwire = rdata.to_wire(origin=wire_origin)`; `rwire != grdata.data` ⇒ SyntaxError (compressed data)
              match encRec tn sch (wireOrigin env) vals tail with
              | some w => if w = data then some (.known vals tail) else none
              | none => none
        else (parseRec sch env toks).map fun p => .known p.1 p.2

end Model

import Model.Resolver
/-!
Model of `dns/asyncresolver.py` `Resolver.resolve` as a *coroutine*: the body between two `await`s is a function, an
`await` hands an `Await` request and a continuation to the event loop, and the loop resumes the coroutine with what it
waited for.  The business logic is the shared `_Resolution` (`nextRequest`, `nextNameserver`, `queryResult` of
`Model/Resolver.lean`); what is modelled separately is exactly what the source has separately: the loop body with its
two suspension points (`await backend.sleep(...)`, `await nameserver.async_query(...)`), its own clipping of the
back-off sleep, its own `if backoff:` guard and its own call of `_compute_timeout` after the sleep.
-/
namespace Model.Resolver
open Model

/-- what the coroutine awaits -/
inductive Await where
  | sleep (ms : Nat)                                   -- `await backend.sleep(min(backoff, max(0, remaining)))`
  | query (ns : Server) (tcp : Bool) (timeout : Nat)   -- `await nameserver.async_query(request, timeout=…, max_size=tcp, …)`
  deriving Repr

/-- where the coroutine is resumed -/
inductive Kont where
  | afterSleep (ns : Server) (tcp : Bool) (ms : Nat)
  | afterQuery (ns : Server) (tcp : Bool) (timeout : Nat) (evs0 : List Event)
  deriving Repr

/-- what one run of the coroutine up to its next suspension yields -/
inductive AOut where
  | done (evs : List Event) (r : Result) (st : St)     -- returned or raised
  | next (evs : List Event) (st : St)                  -- went round the loop without awaiting
  | await (a : Await) (k : Kont) (st : St)             -- suspended

/-- after the (possibly skipped) sleep: `timeout = self._compute_timeout(...)`, then the query is awaited -/
def aAfterSleep (env : Env) (ns : Server) (tcp : Bool) (evs0 : List Event) (st2 : St) : AOut :=
  match computeTimeout env st2.now with
  | none => .done evs0 .lifetimeTimeout st2
  | some timeout => .await (.query ns tcp timeout) (.afterQuery ns tcp timeout evs0) st2

/-- from the top of the loop to the first suspension -/
def aTop (env : Env) (st : St) : AOut :=
  match st.phase with
  | .needRequest =>
    match nextRequest env st.qnames st with
    | .raise r => .done [] r st
    | .hit a => .done [] (.answer a) st
    | .request st' => .next [.candidate st'.qname] st'
  | .querying =>
    match nextNameserver env st with
    | .raise r => .done [] r st
    | .ok ns tcp backoff st1 =>
      if backoff ≠ 0 then
        -- `remaining = start - time.time() + lifetime`; `await backend.sleep(min(backoff, max(0, remaining)))`
        let ms := if env.clipSleep then min backoff (env.lifetime - (st1.now - env.start)) else backoff
        .await (.sleep ms) (.afterSleep ns tcp ms) st1
      else aAfterSleep env ns tcp [] st1

/-- resumed after the sleep: the loop's clock reads `nowAfter` -/
def aResumeSleep (env : Env) (ns : Server) (tcp : Bool) (ms : Nat) (st1 : St) (nowAfter : Nat) : AOut :=
  aAfterSleep env ns tcp [.sleep ms] { st1 with now := nowAfter }

/-- resumed after the query with its outcome (a response or an exception), the clock and the unread script -/
def aResumeQuery (env : Env) (ns : Server) (tcp : Bool) (timeout : Nat) (evs0 : List Event) (st2 : St)
    (out : Outcome) (nowAfter : Nat) (script' : List ScriptStep) : AOut :=
  let st3 := { st2 with now := nowAfter, script := script' }
  let evs := evs0 ++ [.query st2.qname ns tcp timeout out]
  match queryResult env st3 ns out with
  | .raise r st4 => .done evs r st4
  | .ret (some a) _ st4 => .done evs (.answer a) st4
  | .ret none done st4 => .next evs (if done then { st4 with phase := .needRequest } else st4)

/-- an event loop: when a timer set at `now` for `ms` fires -/
structure EventLoop where
  wake : Nat → Nat → Nat

/-- the virtual-time loop of the harness (and an idle real loop up to scheduling noise): timers fire on time -/
def exactLoop : EventLoop := { wake := fun now ms => now + ms }

/-- the loop services one suspension and resumes the coroutine; a scripted nameserver replies after its scripted
duration (or times out), which the loop turns into a timer -/
def aService (env : Env) (loop : EventLoop) : AOut → AOut
  | .await (.sleep ms) (.afterSleep ns tcp _) st1 => aResumeSleep env ns tcp ms st1 (loop.wake st1.now ms)
  | .await (.query ns tcp timeout) (.afterQuery _ _ _ evs0) st2 =>
    let q := doQuery st2.script timeout
    aResumeQuery env ns tcp timeout evs0 st2 q.1 (loop.wake st2.now q.2.1) q.2.2
  | o => o

def AOut.toStep : AOut → StepR
  | .done evs r st => .done evs r st
  | .next evs st => .cont evs st
  | .await _ _ st => .done [] .outOfFuel st      -- still suspended: cannot happen after two services

/-- one pass of the loop body: at most two suspensions (the sleep, the query) -/
def aPass (env : Env) (loop : EventLoop) (st : St) : StepR :=
  (aService env loop (aService env loop (aTop env st))).toStep

/-- the event loop drives the coroutine to completion -/
def arun (env : Env) (loop : EventLoop) : Nat → St → List Event × Result × St
  | 0, st => ([], .outOfFuel, st)
  | fuel + 1, st =>
    match aPass env loop st with
    | .done evs r st' => (evs, r, st')
    | .cont evs st' =>
      let (evs', r, st'') := arun env loop fuel st'
      (evs ++ evs', r, st'')

/-- `dns.asyncresolver.Resolver.resolve` -/
def resolveAsync (loop : EventLoop) (cfg : Config) (bo : Backoff) (clip : Bool) (maxChain : Nat) (req : Request)
    (now : Nat) (cache : Cache) (script : List ScriptStep) : List Event × Result × St :=
  if isMetatype req.rdtype || isMetaclass req.rdclass then ([], .noMetaqueries, initSt now cache script [])
  else
    match getQnamesToTry cfg req.qname req.search with
    | .error e => ([], .nameError e, initSt now cache script [])
    | .ok qnames =>
      let env := mkEnv cfg bo clip maxChain req now qnames
      arun env loop (fuelBound bo cfg.servers.length qnames.length env.lifetime) (initSt now cache script qnames)

end Model.Resolver

import Model.Name
/-!
Model of `dns/ipv4.py` and `dns/ipv6.py` (`inet_ntoa`, `inet_aton`, `canonicalize`), plus the small
numeric text helpers shared by the C05 models (decimal / hexadecimal digits, `split`, `join`).

Text is a list of code points (`List Nat`); `str.encode()` maps every code point ≥ 128 to octets ≥ 0x80,
none of which is a digit, a hex digit, `.`, `:` or a newline, so in both parsers such a code point always
ends in `SyntaxError` — the model treats it as an ordinary non-digit character, which gives the same outcome.
-/
namespace Model

abbrev Text := List Nat

/-! ## decimal and hexadecimal numerals -/

/-- `str(n)` -/
def natToDec (n : Nat) : List Nat :=
  if n < 10 then [48 + n] else natToDec (n / 10) ++ [48 + n % 10]
decreasing_by omega

/-- `int(s)` for a string of ASCII digits -/
def decVal (s : List Nat) : Nat := s.foldl (fun a d => a * 10 + (d - 48)) 0

def hexDigitLower (d : Nat) : Nat := if d < 10 then 48 + d else 87 + d

/-- value of a hexadecimal digit, either case (`binascii.unhexlify` accepts both) -/
def hexDigitVal (c : Nat) : Option Nat :=
  if 48 ≤ c ∧ c ≤ 57 then some (c - 48)
  else if 97 ≤ c ∧ c ≤ 102 then some (c - 87)
  else if 65 ≤ c ∧ c ≤ 70 then some (c - 55)
  else none

/-- `binascii.hexlify` -/
def hexlify (b : Bytes) : List Nat := b.flatMap fun x => [hexDigitLower (x / 16), hexDigitLower (x % 16)]

/-- `binascii.unhexlify`: even length, hex digits of either case -/
def unhexlify : List Nat → Option Bytes
  | [] => some []
  | [_] => none
  | a :: b :: rest =>
    match hexDigitVal a, hexDigitVal b, unhexlify rest with
    | some x, some y, some r => some ((16 * x + y) :: r)
    | _, _, _ => none

/-- `s.split(sep)` for a one-character separator -/
def splitOn (sep : Nat) : List Nat → List (List Nat)
  | [] => [[]]
  | c :: cs =>
    if c = sep then [] :: splitOn sep cs
    else match splitOn sep cs with
      | [] => [[c]]
      | h :: t => (c :: h) :: t

/-- `sep.join(parts)` for a one-character separator -/
def joinWith (sep : Nat) : List (List Nat) → List Nat
  | [] => []
  | [x] => x
  | x :: rest => x ++ sep :: joinWith sep rest

/-! ## IPv4 -/

/-- `dns.ipv4.inet_ntoa`; `none` = `SyntaxError` (length ≠ 4) -/
def ip4Ntoa (a : Bytes) : Option Text :=
  match a with
  | [a0, a1, a2, a3] => some (natToDec a0 ++ 46 :: (natToDec a1 ++ 46 :: (natToDec a2 ++ 46 :: natToDec a3)))
  | _ => none

/-- one dotted-quad part: `part.isdigit()` and no leading zero -/
def ip4PartOk (p : List Nat) : Bool :=
  !p.isEmpty && p.all isDigit && !(decide (p.length > 1) && p.head? == some 48)

/-- `dns.ipv4.inet_aton`; `none` = `SyntaxError` -/
def ip4Aton (t : Text) : Option Bytes :=
  let parts := splitOn 46 t
  if parts.length ≠ 4 then none
  else if !parts.all ip4PartOk then none
  else
    let b := parts.map decVal
    if b.all (fun x => decide (x ≤ 255)) then some b else none   -- struct.pack("BBBB") range

def ip4Canonicalize (t : Text) : Option Text :=
  match ip4Aton t with
  | some b => ip4Ntoa b
  | none => none

/-! ## IPv6 -/

/-- the four lower-case hex digits of a 16-bit group -/
def hex4 (g : Nat) : List Nat :=
  [hexDigitLower (g / 4096 % 16), hexDigitLower (g / 256 % 16), hexDigitLower (g / 16 % 16), hexDigitLower (g % 16)]

/-- `_leading_zero.match(chunk)` → `m.group(1)`: drop leading zeros but keep one character -/
def stripLead0 : List Nat → List Nat
  | 48 :: c :: rest => stripLead0 (c :: rest)
  | s => s

def groupsOf : Bytes → List Nat
  | a :: b :: rest => (a * 256 + b) :: groupsOf rest
  | _ => []

/-- loop state of the zero-run search (`start` is only read while `lastZero`, so its initial -1 is never seen) -/
structure RunSt where
  bestStart : Nat
  bestLen : Nat
  start : Nat
  lastZero : Bool
  deriving Repr, DecidableEq

def runClose (st : RunSt) (endp : Nat) : RunSt :=
  let cur := endp - st.start
  if cur > st.bestLen then { st with bestStart := st.start, bestLen := cur } else st

def runStep (st : RunSt) (i : Nat) (isZero : Bool) : RunSt :=
  if !isZero then
    if st.lastZero then { runClose st i with lastZero := false } else st
  else if !st.lastZero then { st with start := i, lastZero := true }
  else st

def runLoop : RunSt → Nat → List Bool → RunSt
  | st, _, [] => st
  | st, i, z :: zs => runLoop (runStep st i z) (i + 1) zs

/-- `(best_start, best_len)` after the `for i in range(8)` loop and the trailing-run fix-up -/
def bestRun (zs : List Bool) : Nat × Nat :=
  let st := runLoop ⟨0, 0, 0, false⟩ 0 zs
  let st := if st.lastZero then runClose st 8 else st
  (st.bestStart, st.bestLen)

/-- `dns.ipv6.inet_ntoa`; `none` = `ValueError` (length ≠ 16) -/
def ip6Ntoa (a : Bytes) : Option Text :=
  if a.length ≠ 16 then none
  else
    let chunks := (groupsOf a).map fun g => stripLead0 (hex4 g)
    let (bs, bl) := bestRun (chunks.map fun c => c == [48])
    if bl > 1 then
      if bs = 0 ∧ (bl = 6 ∨ (bl = 5 ∧ chunks[5]? = some [102, 102, 102, 102])) then
        match ip4Ntoa (a.drop 12) with
        | some v4 => some ((if bl = 6 then [58, 58] else [58, 58, 102, 102, 102, 102, 58]) ++ v4)
        | none => none
      else some (joinWith 58 (chunks.take bs) ++ [58, 58] ++ joinWith 58 (chunks.drop (bs + bl)))
    else some (joinWith 58 chunks)

def startsWith (s pre : List Nat) : Bool := s.take pre.length == pre
/-- `bytes.endswith`, stated on the reversed strings -/
def endsWith (s suf : List Nat) : Bool := startsWith s.reverse suf.reverse

/-- split at the last occurrence of `sep`: `(before, after)` -/
def splitLast (sep : Nat) (s : List Nat) : Option (List Nat × List Nat) :=
  match (splitOn sep s).reverse with
  | [] => none
  | [_] => none
  | last :: revInit => some (joinWith sep revInit.reverse, last)

/-- `\d+\.\d+\.\d+\.\d+` (bytes pattern: ASCII digits only), whole string -/
def isDottedQuadShape (s : List Nat) : Bool :=
  let parts := splitOn 46 s
  decide (parts.length = 4) && parts.all fun p => !p.isEmpty && p.all isDigit

/-- the end anchor of `_v4_ending` / `_colon_colon_end`: `\Z`, the very end of the string (`fix:` commit 0148a06; it was
`$`, which also matches just before a final newline, so `::1.2.3.4\n` was accepted) -/
def dropFinalNewline (s : List Nat) : List Nat := s

def hex2 (x : Nat) : List Nat := [hexDigitLower (x / 16 % 16), hexDigitLower (x % 16)]

/-- the `_v4_ending` rewrite; `.error` = `inet_aton` of the dotted quad raised; `.ok none` = no match -/
def v4Ending (t : Text) : Except Unit (Option Text) :=
  let s := dropFinalNewline t
  match splitLast 58 s with
  | none => .ok none
  | some (g1, g2) =>
    if g1.contains 10 then .ok none           -- `.` does not match a newline
    else if !isDottedQuadShape g2 then .ok none
    else match ip4Aton g2 with
      | some [b0, b1, b2, b3] => .ok (some (g1 ++ 58 :: (hex2 b0 ++ hex2 b1 ++ 58 :: (hex2 b2 ++ hex2 b3))))
      | _ => .error ()

/-- `_colon_colon_end.match`: `.*::$` -/
def ccEndMatch (t : Text) : Bool :=
  let s := dropFinalNewline t
  endsWith s [58, 58] && !(s.contains 10)

def pad4 (c : List Nat) : List Nat := List.replicate (4 - c.length) 48 ++ c

/-- the canonicalisation loop over the chunks; `none` = `SyntaxError` -/
def ip6Canon (l : Nat) : List (List Nat) → Bool → Option (List (List Nat))
  | [], _ => some []
  | c :: cs, seenEmpty =>
    if c = [] then
      if seenEmpty then none
      else match ip6Canon l cs true with
        | some r => some (List.replicate (8 - l + 1) [48, 48, 48, 48] ++ r)
        | none => none
    else if c.length > 4 then none
    else match ip6Canon l cs seenEmpty with
      | some r => some (pad4 c :: r)
      | none => none

/-- `dns.ipv6.inet_aton(text)` (`ignore_scope=False`); `none` = `SyntaxError` -/
def ip6Aton (t : Text) : Option Bytes :=
  if t = [] then none
  else if endsWith t [58] && !endsWith t [58, 58] then none
  else if startsWith t [58] && !startsWith t [58, 58] then none
  else
    let t := if t = [58, 58] then [48, 58, 58] else t
    match v4Ending t with
    | .error _ => none
    | .ok m =>
      let t := match m with
        | some t' => t'
        | none => t
      let t := if startsWith t [58, 58] then t.drop 1
               else if ccEndMatch t then t.dropLast else t
      let chunks := splitOn 58 t
      let l := chunks.length
      if l > 8 then none
      else match ip6Canon l chunks false with
        | none => none
        | some canonical =>
          if l < 8 ∧ !chunks.contains [] then none
          else unhexlify canonical.flatten

def ip6Canonicalize (t : Text) : Option Text :=
  match ip6Aton t with
  | some b => ip6Ntoa b
  | none => none

end Model

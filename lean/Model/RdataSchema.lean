import Model.Bytes
import Model.Name
import Generated.Consts
/-!
Schema language for RDATA wire codecs (property C02).

Model of `dns/wirebase.py` `Parser` (as far as record decoding uses it) and of the shape shared by the
`_to_wire` / `from_wire_parser` pairs of `dns/rdtypes/**`.

Parser state.  `dns.rdata.from_wire(rdclass, rdtype, wire, current, rdlen, origin)` builds a `Parser(wire, current)`
and runs the type's `from_wire_parser` inside `restrict_to(rdlen)`.  The state is modelled as two byte lists:
`pfx` = `wire[:current]` (everything before the read position: only compression pointers look there) and
`rem` = `wire[current:end]` (what `remaining()` counts).  Octets after `end` are never visible to the parser.
Every getter returns the value, the new `pfx` and the new `rem`.

Errors.  `dns.rdata.from_wire_parser` wraps the type's decoder in `ExceptionWrapper(FormError)`: whatever is
raised inside comes out as `dns.exception.FormError` (or a subclass).  So the decoder has one error.
-/
namespace Model

inductive DErr where
  | form
  deriving DecidableEq, Repr

/-- decoded / constructor-level value of a record (field tree) -/
inductive Val where
  | unit
  | nat (n : Nat)
  | bytes (b : Bytes)
  | name (n : Name)
  | pair (a b : Val)
  | list (vs : List Val)
  deriving Repr, Inhabited

namespace Val
def fst : Val → Val | .pair a _ => a | v => v
def snd : Val → Val | .pair _ b => b | v => v
def toNat : Val → Nat | .nat n => n | _ => 0
def toBytes : Val → Bytes | .bytes b => b | _ => []
def toList : Val → List Val | .list vs => vs | _ => []
def toName : Val → Name | .name n => n | _ => []
end Val

/-- the schema language.  `bind hdr sel n alts`: decode `hdr`, then the alternative `alts (sel hdrValue)`
(a decoding error when `sel hdrValue ≥ n`).  `sub k s`: a `k`-octet length, then `s` on exactly that many octets
(`with parser.restrict_to(len)`).  `check p s`: `s`, then the constructor-side validation `p`. -/
inductive Schema where
  | unit
  | fail
  | uint (k : Nat)                 -- `get_uintN` / `struct` field of k octets, big endian
  | fixed (n : Nat)                -- `get_bytes(n)`
  | counted (k : Nat)              -- `get_counted_bytes(k)`
  | rest                           -- `get_remaining()`
  | optCounted (k : Nat)           -- `if remaining() > 0: get_counted_bytes(k) else b""`; written only when non-empty
  | name (rel : Bool)              -- `get_name(origin)` (rel) or `get_name()` (not rel); written uncompressed
  | pair (a b : Schema)
  | rep (s : Schema)               -- `while remaining() > 0: ...`
  | sub (k : Nat) (s : Schema)
  | check (p : Val → Bool) (s : Schema)
  | bind (hdr : Schema) (sel : Val → Nat) (n : Nat) (alts : Nat → Schema)

namespace Schema
def seq : List Schema → Schema
  | [] => .unit
  | [s] => s
  | s :: more => .pair s (seq more)
end Schema

/-! ## integers -/

def beNat (b : Bytes) : Nat := b.foldl (fun acc x => acc * 256 + x) 0

/-- `struct.pack` of an unsigned big-endian integer in `k` octets (`n < 256^k` is the caller's obligation) -/
def natBE : Nat → Nat → Bytes
  | 0, _ => []
  | k + 1, n => natBE k (n / 256) ++ [n % 256]

/-! ## names -/

/-- `Name.to_wire(file=None, origin=origin)`: labels, then the origin's labels when the name is relative
(`NeedAbsoluteNameOrOrigin` is decided separately by `needsOrigin`). -/
def nameEnc (o : Option Name) (n : Name) : Bytes :=
  toWire (if isAbs n then n else n ++ o.getD [])

/-- `dns.wire.Parser.get_name(origin)`: `name.relativize(origin)` only when `origin` is truthy
(a `Name` with no labels is falsy). -/
def relativizeO (o : Option Name) (n : Name) : Except NameErr Name :=
  match o with
  | none => .ok n
  | some org => if org = [] then .ok n else relativize n org

/-- `parser.get_name(origin)` on the state `(pfx, rem)`: `dns.name.from_wire_parser` (compression pointers may
point anywhere before the name, also before the RDATA), `Name(labels)`, then `relativize`. -/
def getName (rel : Bool) (o : Option Name) (pfx rem : Bytes) : Except DErr (Val × Bytes × Bytes) :=
  match fromWireAux (pfx ++ rem) (pfx.length + rem.length) pfx.length pfx.length pfx.length [] with
  | .error _ => .error .form
  | .ok (labels, furthest) =>
    match validate labels with
    | .error _ => .error .form
    | .ok n =>
      match (if rel then relativizeO o n else .ok n) with
      | .error _ => .error .form
      | .ok n' => .ok (.name n', pfx ++ rem.take (furthest - pfx.length), rem.drop (furthest - pfx.length))

/-- well-formed name as a Bool (`Name(labels)` accepts) -/
def wfNameB (n : Name) : Bool :=
  match validate n with
  | .ok _ => true
  | .error _ => false

/-- names for which encode-then-decode is the identity: absolute and not below the origin, or (when the field
is relativized on decoding) relative with an absolute non-root-empty origin and a legal concatenation. -/
def nameValid (rel : Bool) (o : Option Name) (n : Name) : Bool :=
  match o with
  | none => wfNameB n && isAbs n
  | some org =>
    wfNameB org && isAbs org &&
      (if isAbs n then wfNameB n && (!rel || !isSubdomain n org)
       else rel && wfNameB (n ++ org))

/-! ## getters -/

def takeN (n : Nat) (pfx rem : Bytes) : Except DErr (Bytes × Bytes × Bytes) :=
  if n ≤ rem.length then .ok (rem.take n, pfx ++ rem.take n, rem.drop n) else .error .form

def repLoop (f : Bytes → Bytes → Except DErr (Val × Bytes × Bytes)) :
    Nat → Bytes → Bytes → Except DErr (List Val × Bytes × Bytes)
  | _, pfx, [] => .ok ([], pfx, [])
  | 0, _, _ :: _ => .error .form
  | fuel + 1, pfx, x :: xs =>
    match f pfx (x :: xs) with
    | .error e => .error e
    | .ok (v, pfx', rem') =>
      match repLoop f fuel pfx' rem' with
      | .error e => .error e
      | .ok (vs, p, r) => .ok (v :: vs, p, r)

/-! ## decode / encode / validity -/

def dec : Schema → Option Name → Bytes → Bytes → Except DErr (Val × Bytes × Bytes)
  | .unit, _, pfx, rem => .ok (.unit, pfx, rem)
  | .fail, _, _, _ => .error .form
  | .uint k, _, pfx, rem =>
    match takeN k pfx rem with
    | .error e => .error e
    | .ok (b, p, r) => .ok (.nat (beNat b), p, r)
  | .fixed n, _, pfx, rem =>
    match takeN n pfx rem with
    | .error e => .error e
    | .ok (b, p, r) => .ok (.bytes b, p, r)
  | .counted k, _, pfx, rem =>
    match takeN k pfx rem with
    | .error e => .error e
    | .ok (lb, p, r) =>
      match takeN (beNat lb) p r with
      | .error e => .error e
      | .ok (b, p', r') => .ok (.bytes b, p', r')
  | .rest, _, pfx, rem => .ok (.bytes rem, pfx ++ rem, [])
  | .optCounted k, _, pfx, rem =>
    if rem = [] then .ok (.bytes [], pfx, [])
    else
      match takeN k pfx rem with
      | .error e => .error e
      | .ok (lb, p, r) =>
        match takeN (beNat lb) p r with
        | .error e => .error e
        | .ok (b, p', r') => .ok (.bytes b, p', r')
  | .name rel, o, pfx, rem => getName rel o pfx rem
  | .pair a b, o, pfx, rem =>
    match dec a o pfx rem with
    | .error e => .error e
    | .ok (x, p, r) =>
      match dec b o p r with
      | .error e => .error e
      | .ok (y, p', r') => .ok (.pair x y, p', r')
  | .rep s, o, pfx, rem =>
    match repLoop (dec s o) rem.length pfx rem with
    | .error e => .error e
    | .ok (vs, p, r) => .ok (.list vs, p, r)
  | .sub k s, o, pfx, rem =>
    match takeN k pfx rem with
    | .error e => .error e
    | .ok (lb, p, r) =>
      match takeN (beNat lb) p r with
      | .error e => .error e
      | .ok (inner, p', r') =>
        match dec s o p inner with
        | .error e => .error e
        | .ok (v, _, left) => if left = [] then .ok (v, p', r') else .error .form
  | .check f s, o, pfx, rem =>
    match dec s o pfx rem with
    | .error e => .error e
    | .ok (v, p, r) => if f v then .ok (v, p, r) else .error .form
  | .bind hdr sel n alts, o, pfx, rem =>
    match dec hdr o pfx rem with
    | .error e => .error e
    | .ok (h, p, r) =>
      if sel h < n then
        match dec (alts (sel h)) o p r with
        | .error e => .error e
        | .ok (y, p', r') => .ok (.pair h y, p', r')
      else .error .form

def enc : Schema → Option Name → Val → Bytes
  | .uint k, _, .nat n => natBE k n
  | .fixed _, _, .bytes b => b
  | .counted k, _, .bytes b => natBE k b.length ++ b
  | .rest, _, .bytes b => b
  | .optCounted k, _, .bytes b => if b = [] then [] else natBE k b.length ++ b
  | .name _, o, .name n => nameEnc o n
  | .pair a b, o, .pair x y => enc a o x ++ enc b o y
  | .rep s, o, .list vs => vs.flatMap (enc s o)
  | .sub k s, o, v => natBE k (enc s o v).length ++ enc s o v
  | .check _ s, o, v => enc s o v
  | .bind hdr sel _ alts, o, .pair x y => enc hdr o x ++ enc (alts (sel x)) o y
  | _, _, _ => []

/-- validity of a value tree against a schema, with the predicate on names left open:
constructor-side ranges (`_as_uintN`, length limits of counted strings), selector in range, `check`s. -/
def validWith (np : Bool → Name → Bool) : Schema → Option Name → Val → Bool
  | .unit, _, .unit => true
  | .uint k, _, .nat n => decide (n < 256 ^ k)
  | .fixed n, _, .bytes b => decide (b.length = n)
  | .counted k, _, .bytes b => decide (b.length < 256 ^ k)
  | .rest, _, .bytes _ => true
  | .optCounted k, _, .bytes b => decide (b.length < 256 ^ k)
  | .name rel, _, .name n => np rel n
  | .pair a b, o, .pair x y => validWith np a o x && validWith np b o y
  | .rep s, o, .list vs => vs.all (validWith np s o)
  | .sub k s, o, v => validWith np s o v && decide ((enc s o v).length < 256 ^ k)
  | .check f s, o, v => validWith np s o v && f v
  | .bind hdr sel n alts, o, .pair x y =>
    validWith np hdr o x && decide (sel x < n) && validWith np (alts (sel x)) o y
  | _, _, _ => false

/-- the values for which `dec (enc v) = v`: `validWith` plus names that survive the trip with this origin -/
def valid (s : Schema) (o : Option Name) (v : Val) : Bool := validWith (fun rel n => nameValid rel o n) s o v

/-- what the constructors accept: any legal `Name` -/
def validCtor (s : Schema) (o : Option Name) (v : Val) : Bool := validWith (fun _ n => wfNameB n) s o v

/-- a relative name somewhere in the value (then `to_wire` needs an absolute origin) -/
def hasRelName : Val → Bool
  | .name n => !isAbs n
  | .pair a b => hasRelName a || hasRelName b
  | .list vs => hasRelNameL vs
  | _ => false
where hasRelNameL : List Val → Bool
  | [] => false
  | v :: vs => hasRelName v || hasRelNameL vs

/-! ## static well-formedness of a schema -/

/-- a lower bound of the length of any encoding -/
def minLen : Schema → Nat
  | .uint k => k
  | .fixed n => n
  | .counted k => k
  | .name _ => 1
  | .pair a b => minLen a + minLen b
  | .sub k _ => k
  | .check _ s => minLen s
  | .bind hdr _ _ _ => minLen hdr
  | _ => 0

/-- no embedded name: re-encoding a decoded value never yields more octets than were read
(only compression pointers can make an encoding longer than what was decoded) -/
def growFree : Schema → Bool
  | .name _ => false
  | .pair a b => growFree a && growFree b
  | .rep s => growFree s
  | .sub _ s => growFree s
  | .check _ s => growFree s
  | .bind hdr _ n alts => growFree hdr && (List.range n).all (fun i => growFree (alts i))
  | _ => true

/-- just one name (possibly under `check`s): its encoding has at most `Consts.maxName` octets -/
def nameOnly : Schema → Bool
  | .name _ => true
  | .check _ s => nameOnly s
  | _ => false

/-- `(sd s, wf s)`: `sd` = self-delimiting (may be followed by anything); `wf` = sound in tail position -/
def sdwf : Schema → Bool × Bool
  | .unit | .fail | .uint _ | .fixed _ | .counted _ | .name _ => (true, true)
  | .rest | .optCounted _ => (false, true)
  | .pair a b => ((sdwf a).1 && (sdwf b).1, (sdwf a).1 && (sdwf b).2)
  | .rep s => (false, (sdwf s).1 && decide (1 ≤ minLen s))
  | .sub k s =>
    -- the re-encoded body must fit the k-octet length again
    let ok := (sdwf s).2 && (growFree s || (nameOnly s && decide (Consts.maxName < 256 ^ k)))
    (ok, ok)
  | .check _ s => sdwf s
  | .bind hdr _ n alts =>
    ((sdwf hdr).1 && (List.range n).all (fun i => (sdwf (alts i)).1),
     (sdwf hdr).1 && (List.range n).all (fun i => (sdwf (alts i)).2))

def sd (s : Schema) : Bool := (sdwf s).1
def wf (s : Schema) : Bool := (sdwf s).2

/-! ## top level: `dns.rdata.from_wire` / `Rdata.to_wire` -/

/-- `from_wire(..., wire = pfx ++ rdata ++ _, current = |pfx|, rdlen = |rdata|, origin)`: the whole slice must
be consumed (`restrict_to`). -/
def decodeWith (s : Schema) (o : Option Name) (pfx rdata : Bytes) : Except DErr Val :=
  match dec s o pfx rdata with
  | .error e => .error e
  | .ok (v, _, left) => if left = [] then .ok v else .error .form

end Model

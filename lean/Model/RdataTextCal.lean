/-!
Calendar arithmetic behind `time.gmtime` / `calendar.timegm` as used by the RRSIG/SIG time fields
(`posixtime_to_sigtime`, `sigtime_to_posixtime` in `dns/rdtypes/rrsigbase.py`): proleptic Gregorian
days ⇄ civil date.  Import-free, so that the exhaustive check of the 49 711 days of the 32-bit range is
rebuilt only when this file changes.
-/
namespace Model

/-- civil date `(year, month, day)` of the day number `z` (days since 1970-01-01) -/
def civilFromDays (z0 : Nat) : Nat × Nat × Nat :=
  let z := z0 + 719468
  let era := z / 146097
  let doe := z - era * 146097
  let yoe := (doe - doe / 1460 + doe / 36524 - doe / 146096) / 365
  let y := yoe + era * 400
  let doy := doe - (365 * yoe + yoe / 4 - yoe / 100)
  let mp := (5 * doy + 2) / 153
  let d := doy - (153 * mp + 2) / 5 + 1
  let m := if mp < 10 then mp + 3 else mp - 9
  (if m ≤ 2 then y + 1 else y, m, d)

/-- `datetime.date(y, m, d).toordinal() + 306`: days since 0000-03-01 (so `- 719468` gives days since 1970-01-01);
`y ≥ 1`, `1 ≤ m ≤ 12` -/
def daysFromCivilShift (y0 m d : Nat) : Nat :=
  let y := if m ≤ 2 then y0 - 1 else y0
  let era := y / 400
  let yoe := y - era * 400
  let doy := (153 * (if m > 2 then m - 3 else m + 9) + 2) / 5 + d - 1
  let doe := yoe * 365 + yoe / 4 - yoe / 100 + doy
  era * 146097 + doe

/-- the day number `z` survives `gmtime` then `timegm`, and the civil date has the printable ranges -/
def okDay (z : Nat) : Bool :=
  let c := civilFromDays z
  daysFromCivilShift c.1 c.2.1 1 + c.2.2 - 1 == z + 719468 && decide (1970 ≤ c.1) && decide (c.1 ≤ 2106) &&
    decide (1 ≤ c.2.1) && decide (c.2.1 ≤ 12) && decide (1 ≤ c.2.2) && decide (c.2.2 ≤ 31)

/-- `okDay` on the 256-day blocks `lo … lo + n - 1` -/
def daysOk (lo n : Nat) : Bool :=
  (List.range n).all fun b => (List.range 256).all fun i => okDay ((lo + b) * 256 + i)

end Model

import Model.Name
import Generated.C03
/-!
Data types shared by the message renderer (`Model/Render.lean`, `dns/renderer.py`, `Message.to_wire`)
and the message parser (`Model/Message.lean`, `dns/message.py` `_WireReader`).

RDATA is modelled as
 (a) opaque octets for every type whose `_to_wire` does not hand the compression table to an embedded
     name (the octets are the type's own wire form, C02's business), and
 (b) the name-bearing compressible shapes NS/CNAME/PTR (`name1`), MX (`mx`), SOA (`soa`), explicitly.
Which type codes have which shape is regenerated from the code (`ConstsC03.name1Types` …).
-/
namespace Model

/-! ## fixed-width big-endian integers (`struct.pack("!H"/"!I")`, `int.to_bytes`) -/

def u16 (n : Nat) : Bytes := [n / 256 % 256, n % 256]
def u32 (n : Nat) : Bytes := [n / 16777216 % 256, n / 65536 % 256, n / 256 % 256, n % 256]
def u48 (n : Nat) : Bytes := u16 (n / 4294967296) ++ u32 (n % 4294967296)

/-- big-endian value of a byte string (`int.from_bytes(b, "big")`, `struct.unpack`) -/
def beVal (b : Bytes) : Nat := b.foldl (fun a x => a * 256 + x) 0

/-! ## records -/

inductive RData where
  | raw (b : Bytes)
  | name1 (n : Name)
  | mx (pref : Nat) (n : Name)
  | soa (mname rname : Name) (serial refresh retry expire minimum : Nat)
  deriving DecidableEq, Repr

inductive Shape where
  | raw | name1 | mx | soa
  deriving DecidableEq, Repr

def shapeOf (rdtype : Nat) : Shape :=
  if rdtype ∈ ConstsC03.name1Types then .name1
  else if rdtype ∈ ConstsC03.mxTypes then .mx
  else if rdtype ∈ ConstsC03.soaTypes then .soa
  else .raw

def RData.shape : RData → Shape
  | .raw _ => .raw
  | .name1 _ => .name1
  | .mx _ _ => .mx
  | .soa .. => .soa

/-- `Rdata.__eq__` within one (class, type): equality of the digestable forms, in which the embedded names of
NS/CNAME/PTR/MX/SOA are lower-cased (the relative/absolute distinction is carried by the label lists). -/
def RData.eqv : RData → RData → Bool
  | .raw a, .raw b => a == b
  | .name1 a, .name1 b => lowerName a == lowerName b
  | .mx p a, .mx q b => p == q && lowerName a == lowerName b
  | .soa m r a b c d e, .soa m' r' a' b' c' d' e' =>
    lowerName m == lowerName m' && lowerName r == lowerName r' && a == a' && b == b' && c == c' && d == d' && e == e'
  | _, _ => false

/-- `dns.rrset.RRset`: owner, class, type, covers, deleting, ttl, ordered rdatas. -/
structure RRset where
  name : Name
  rdclass : Nat
  rdtype : Nat
  covers : Nat := 0
  deleting : Option Nat := none
  ttl : Nat := 0
  rdatas : List RData := []
  deriving DecidableEq, Repr

/-- the class written on the wire: `override_rdclass = self.deleting` when the RRset has one -/
def RRset.wireClass (r : RRset) : Nat :=
  match r.deleting with
  | some d => d
  | none => r.rdclass

/-- the OPT pseudo-record as `Message.opt` holds it: ttl = ext-rcode/version/flags, class = payload, options -/
structure EOpt where
  ttl : Nat
  payload : Nat
  options : List (Nat × Bytes)
  deriving DecidableEq, Repr

/-- the TSIG record as `Message.tsig` holds it (MAC abstract: whatever octets the signer produced) -/
structure Tsig where
  name : Name
  alg : Name
  time : Nat
  fudge : Nat
  mac : Bytes
  origId : Nat
  error : Nat
  other : Bytes
  deriving DecidableEq, Repr

structure Message where
  id : Nat
  flags : Nat
  origin : Option Name := none
  requestPayload : Nat := 0
  pad : Nat := 0
  q : List RRset := []
  an : List RRset := []
  au : List RRset := []
  ad : List RRset := []
  opt : Option EOpt := none
  tsig : Option Tsig := none
  deriving DecidableEq, Repr

/-! ## header fields (`dns/rcode.py`, `dns/opcode.py`, `Message.edns`) -/

def rcodeFromFlags (flags ednsflags : Nat) : Nat := (flags &&& 0x000F) ||| ((ednsflags >>> 20) &&& 0xFF0)

/-- `rcode.to_flags`: ValueError above 4095 -/
def rcodeToFlags (v : Nat) : Option (Nat × Nat) :=
  if v > 4095 then none else some (v &&& 0xF, (v &&& 0xFF0) <<< 20)

def opcodeFromFlags (flags : Nat) : Nat := (flags &&& 0x7800) >>> 11
def opcodeToFlags (v : Nat) : Nat := (v <<< 11) &&& 0x7800
def isUpdate (flags : Nat) : Bool := opcodeFromFlags flags == ConstsC03.opUPDATE

/-- `Message.set_rcode` on (flags, ednsflags) -/
def setRcode (flags ednsflags v : Nat) : Option (Nat × Nat) :=
  match rcodeToFlags v with
  | none => none
  | some (x, ex) => some ((flags &&& 0xFFF0) ||| x, (ednsflags &&& 0x00FFFFFF) ||| ex)

def Message.ednsflags (m : Message) : Nat := match m.opt with | some o => o.ttl | none => 0
def Message.rcode (m : Message) : Nat := rcodeFromFlags m.flags m.ednsflags
def Message.opcode (m : Message) : Nat := opcodeFromFlags m.flags
/-- `Message.edns`: −1 (here `none`) without OPT -/
def Message.edns (m : Message) : Option Nat := match m.opt with | some o => some ((o.ttl &&& 0xFF0000) >>> 16) | none => none

/-! ## OPT and TSIG as the RRsets the renderer is given -/

def optionsWire : List (Nat × Bytes) → Bytes
  | [] => []
  | (t, b) :: rest => u16 t ++ u16 b.length ++ b ++ optionsWire rest

/-- `_make_opt(flags, payload, options)`: owner root, type OPT, class = payload, ttl = flags, one rdata -/
def optRRset (o : EOpt) : RRset :=
  { name := [[]], rdclass := o.payload, rdtype := ConstsC03.typeOPT, ttl := o.ttl,
    rdatas := [.raw (optionsWire o.options)] }

/-- TSIG RDATA `_to_wire`: algorithm name never compressed -/
def tsigRdataWire (t : Tsig) : Bytes :=
  toWire t.alg ++ u48 t.time ++ u16 t.fudge ++ u16 t.mac.length ++ t.mac ++ u16 t.origId ++ u16 t.error
    ++ u16 t.other.length ++ t.other

def tsigRRset (t : Tsig) : RRset :=
  { name := t.name, rdclass := ConstsC03.classANY, rdtype := ConstsC03.typeTSIG, ttl := 0,
    rdatas := [.raw (tsigRdataWire t)] }

/-! ## `Message.section_count` -/

def rrCount (rs : List RRset) : Nat := (rs.map fun r => max 1 r.rdatas.length).sum

def Message.sectionCounts (m : Message) : Nat × Nat × Nat × Nat :=
  (rrCount m.q, rrCount m.an, rrCount m.au,
   rrCount m.ad + (if m.opt.isSome then 1 else 0) + (if m.tsig.isSome then 1 else 0))

end Model

import Model.RdataSchema
import Model.RdataIrregular
import Generated.C02
/-!
The table of implemented record types (C02): one entry per `dns/rdtypes/{ANY,IN,CH}/<TYPE>.py`, giving the
wire schema (the `_to_wire` / `from_wire_parser` pair plus the constructor's validation as `check`s) and, for the
few types whose stored fields are not the wire fields, the map `post` from the raw decoded tree to the object-level
tree and its inverse `pre`.

`cls = 255` stands for "any class" (modules under `dns/rdtypes/ANY`); lookup follows `dns.rdata.get_rdata_class`:
the class-specific module first, then ANY, then `GenericRdata` (RFC 3597, schema `rest`).

Fields stored as text by dnspython (IPv4/IPv6 addresses, L64/NID locators, EUI) are carried as their octets:
`inet_aton ∘ inet_ntoa = id` and `parse_formatted_hex ∘ _hexify = id` are external contracts (exercised by the
oracle, not modelled).  `A`, `AAAA`, `L32`, `L64`, `NID` read `get_remaining()` and reject any length but 4/16/8;
under the exact-consumption rule of `restrict_to` that is the same decoder as `fixed n`.
-/
namespace Model
open Schema

/-- object-level view of a type whose stored fields are not the wire fields -/
structure PostPre where
  /-- raw decoded tree → object-level tree (`none` = the constructor rejects) -/
  post : Val → Option Val
  /-- object-level tree → raw tree -/
  pre : Val → Val

/-- what kind of codec a type has: a plain schema, or one of the schemas with an object-level view -/
inductive Kind where
  | regular (s : Schema)
  | loc
  | opt
  /-- OPT as shipped before the repair of `EDEOption.from_wire_parser` (not in the table; see `C02.ede_…`) -/
  | optShipped
  | apl
  | svcb

structure Entry where
  cls : Nat
  typ : Nat
  mnemonic : String
  kind : Kind

def Entry.schema (e : Entry) : Schema :=
  match e.kind with
  | .regular s => s
  | .loc => locSchema
  | .opt => optSchema
  | .optShipped => optSchema
  | .apl => .rep aplItemSchema
  | .svcb => svcbSchema

/-- `none`: the object-level tree is the decoded tree itself -/
def Entry.custom (e : Entry) : Option PostPre :=
  match e.kind with
  | .regular _ => none
  | .loc => some ⟨locPost, locPre⟩
  | .opt => some ⟨optPost, id⟩
  | .optShipped => some ⟨optPostShipped, id⟩
  | .apl => some ⟨aplPost, aplPre⟩
  | .svcb => some ⟨svcbPost, id⟩

def Kind.isShipped : Kind → Bool
  | .optShipped => true
  | _ => false

def Entry.post (e : Entry) (v : Val) : Option Val :=
  match e.custom with
  | none => some v
  | some c => c.post v

def Entry.pre (e : Entry) (v : Val) : Val :=
  match e.custom with
  | none => v
  | some c => c.pre v

def Entry.isCustom (e : Entry) : Bool := e.custom.isSome

def anyClass : Nat := 255

def txtSchema : Schema := .check (fun v => !v.toList.isEmpty) (.rep c8)
def mxSchema : Schema := seq [u16, nm]
def dnskeySchema : Schema := seq [u16, u8, u8, .rest]
def tlsaSchema : Schema := seq [u8, u8, u8, .rest]
def rrsigSchema : Schema := seq [u16, u8, u8, ttl32, u32, u32, u16, nm, .rest]

/-- `dns.rdtypes.util.Gateway.from_wire_parser` by gateway type -/
def gatewayAlt : Nat → Schema
  | 0 => .unit
  | 1 => .fixed 4
  | 2 => .fixed 16
  | _ => nm

def hipSchema : Schema :=
  .bind (seq [u8, u8, u16]) (fun h => h.fst.toNat + 256 * h.snd.snd.toNat) (2 ^ 24)
    (fun i => seq [.fixed (i % 256), .fixed (i / 256), .rep nm])

def hipEntry : Entry := { cls := anyClass, typ := 55, mnemonic := "HIP", kind := .regular (hipSchema) }

/-- all entries but HIP (whose 2^24 alternatives are checked by a lemma, not by evaluation) -/
def tableRest : List Entry := [
  -- dns/rdtypes/ANY
  { cls := anyClass, typ := 18, mnemonic := "AFSDB", kind := .regular (mxSchema) },
  { cls := anyClass, typ := 260, mnemonic := "AMTRELAY",
    kind := .regular (.bind (seq [u8, u8]) (fun h => h.snd.toNat % 128) 4 gatewayAlt) },
  { cls := anyClass, typ := 258, mnemonic := "AVC", kind := .regular (txtSchema) },
  { cls := anyClass, typ := 68, mnemonic := "BRID", kind := .regular (.rest) },
  { cls := anyClass, typ := 257, mnemonic := "CAA",
    kind := .regular (seq [u8, .check (fun v => isAlnum v.toBytes) c8, .rest]) },
  { cls := anyClass, typ := 60, mnemonic := "CDNSKEY", kind := .regular (dnskeySchema) },
  { cls := anyClass, typ := 59, mnemonic := "CDS", kind := .regular (dsSchema ConstsC02.cdsDigestLen) },
  { cls := anyClass, typ := 37, mnemonic := "CERT", kind := .regular (seq [u16, u16, u8, .rest]) },
  { cls := anyClass, typ := 5, mnemonic := "CNAME", kind := .regular (nm) },
  { cls := anyClass, typ := 62, mnemonic := "CSYNC", kind := .regular (seq [u32, u16, bitmap]) },
  { cls := anyClass, typ := 32769, mnemonic := "DLV", kind := .regular (dsSchema ConstsC02.dsDigestLen) },
  { cls := anyClass, typ := 39, mnemonic := "DNAME", kind := .regular (nm) },
  { cls := anyClass, typ := 48, mnemonic := "DNSKEY", kind := .regular (dnskeySchema) },
  { cls := anyClass, typ := 43, mnemonic := "DS", kind := .regular (dsSchema ConstsC02.dsDigestLen) },
  { cls := anyClass, typ := 66, mnemonic := "DSYNC", kind := .regular (seq [u16, u8, u16, nm]) },
  { cls := anyClass, typ := 108, mnemonic := "EUI48", kind := .regular (.fixed ConstsC02.eui48Len) },
  { cls := anyClass, typ := 109, mnemonic := "EUI64", kind := .regular (.fixed ConstsC02.eui64Len) },
  { cls := anyClass, typ := 27, mnemonic := "GPOS", kind := .regular (.check gposOk (seq [c8, c8, c8])) },
  { cls := anyClass, typ := 67, mnemonic := "HHIT", kind := .regular (.rest) },
  { cls := anyClass, typ := 13, mnemonic := "HINFO", kind := .regular (seq [c8, c8]) },
  { cls := anyClass, typ := 20, mnemonic := "ISDN", kind := .regular (seq [c8, .optCounted 1]) },
  { cls := anyClass, typ := 25, mnemonic := "KEY", kind := .regular (dnskeySchema) },
  { cls := anyClass, typ := 105, mnemonic := "L32", kind := .regular (seq [u16, .fixed 4]) },
  { cls := anyClass, typ := 106, mnemonic := "L64", kind := .regular (seq [u16, .fixed 8]) },
  { cls := anyClass, typ := 29, mnemonic := "LOC", kind := .loc },
  { cls := anyClass, typ := 107, mnemonic := "LP", kind := .regular (mxSchema) },
  { cls := anyClass, typ := 15, mnemonic := "MX", kind := .regular (mxSchema) },
  { cls := anyClass, typ := 104, mnemonic := "NID", kind := .regular (seq [u16, .fixed 8]) },
  { cls := anyClass, typ := 56, mnemonic := "NINFO", kind := .regular (txtSchema) },
  { cls := anyClass, typ := 2, mnemonic := "NS", kind := .regular (nm) },
  { cls := anyClass, typ := 47, mnemonic := "NSEC", kind := .regular (seq [nm, bitmap]) },
  { cls := anyClass, typ := 50, mnemonic := "NSEC3", kind := .regular (seq [u8, u8, u16, c8, c8, bitmap]) },
  { cls := anyClass, typ := 51, mnemonic := "NSEC3PARAM", kind := .regular (seq [u8, u8, u16, c8]) },
  { cls := anyClass, typ := 61, mnemonic := "OPENPGPKEY", kind := .regular (.rest) },
  { cls := anyClass, typ := 41, mnemonic := "OPT", kind := .opt },
  { cls := anyClass, typ := 12, mnemonic := "PTR", kind := .regular (nm) },
  { cls := anyClass, typ := 261, mnemonic := "RESINFO", kind := .regular (txtSchema) },
  { cls := anyClass, typ := 17, mnemonic := "RP", kind := .regular (seq [nm, nm]) },
  { cls := anyClass, typ := 46, mnemonic := "RRSIG", kind := .regular (rrsigSchema) },
  { cls := anyClass, typ := 21, mnemonic := "RT", kind := .regular (mxSchema) },
  { cls := anyClass, typ := 24, mnemonic := "SIG", kind := .regular (rrsigSchema) },
  { cls := anyClass, typ := 53, mnemonic := "SMIMEA", kind := .regular (tlsaSchema) },
  { cls := anyClass, typ := 6, mnemonic := "SOA", kind := .regular (seq [nm, nm, u32, ttl32, ttl32, ttl32, ttl32]) },
  { cls := anyClass, typ := 99, mnemonic := "SPF", kind := .regular (txtSchema) },
  { cls := anyClass, typ := 44, mnemonic := "SSHFP", kind := .regular (seq [u8, u8, .rest]) },
  { cls := anyClass, typ := 249, mnemonic := "TKEY", kind := .regular (seq [nm, u32, u32, u16, u16, c16, c16]) },
  { cls := anyClass, typ := 52, mnemonic := "TLSA", kind := .regular (tlsaSchema) },
  { cls := anyClass, typ := 250, mnemonic := "TSIG",
    kind := .regular (seq [nmAbs, u48, u16, c16, u16, .check (fun v => decide (v.toNat ≤ ConstsC02.rcodeMax)) u16, c16]) },
  { cls := anyClass, typ := 16, mnemonic := "TXT", kind := .regular (txtSchema) },
  { cls := anyClass, typ := 256, mnemonic := "URI",
    kind := .regular (seq [u16, u16, .check (fun v => !v.toBytes.isEmpty) .rest]) },
  { cls := anyClass, typ := 262, mnemonic := "WALLET", kind := .regular (txtSchema) },
  { cls := anyClass, typ := 19, mnemonic := "X25", kind := .regular (c8) },
  { cls := anyClass, typ := 63, mnemonic := "ZONEMD", kind := .regular (.check zonemdOk (seq [u32, u8, u8, .rest])) },
  -- dns/rdtypes/IN
  { cls := 1, typ := 1, mnemonic := "A", kind := .regular (.fixed 4) },
  { cls := 1, typ := 28, mnemonic := "AAAA", kind := .regular (.fixed 16) },
  { cls := 1, typ := 42, mnemonic := "APL", kind := .apl },
  { cls := 1, typ := 49, mnemonic := "DHCID", kind := .regular (.rest) },
  { cls := 1, typ := 65, mnemonic := "HTTPS", kind := .svcb },
  { cls := 1, typ := 45, mnemonic := "IPSECKEY",
    kind := .regular (.pair (.bind (seq [u8, u8, u8]) (fun h => h.snd.fst.toNat) 4 gatewayAlt) .rest) },
  { cls := 1, typ := 36, mnemonic := "KX", kind := .regular (mxSchema) },
  { cls := 1, typ := 35, mnemonic := "NAPTR", kind := .regular (seq [u16, u16, c8, c8, c8, nm]) },
  { cls := 1, typ := 22, mnemonic := "NSAP", kind := .regular (.rest) },
  { cls := 1, typ := 23, mnemonic := "NSAP_PTR", kind := .regular (nm) },
  { cls := 1, typ := 26, mnemonic := "PX", kind := .regular (seq [u16, nm, nm]) },
  { cls := 1, typ := 33, mnemonic := "SRV", kind := .regular (seq [u16, u16, u16, nm]) },
  { cls := 1, typ := 64, mnemonic := "SVCB", kind := .svcb },
  { cls := 1, typ := 11, mnemonic := "WKS", kind := .regular (seq [.fixed 4, u8, .rest]) },
  -- dns/rdtypes/CH
  { cls := 3, typ := 1, mnemonic := "A", kind := .regular (seq [nm, u16]) }
]

def table : List Entry := hipEntry :: tableRest

/-- RFC 3597 unknown-type form (`GenericRdata`) -/
def genericEntry (c t : Nat) : Entry := { cls := c, typ := t, mnemonic := "GENERIC", kind := .regular (.rest) }

/-- `dns.rdata.get_rdata_class(rdclass, rdtype)` -/
def lookup (c t : Nat) : Entry :=
  match table.find? (fun e => e.cls == c && e.typ == t) with
  | some e => e
  | none =>
    match table.find? (fun e => e.cls == anyClass && e.typ == t) with
    | some e => e
    | none => genericEntry c t

/-- `dns.rdata.from_wire(rdclass, rdtype, pfx ++ rdata ++ …, |pfx|, |rdata|, origin)` as an object-level tree -/
def Entry.decode (e : Entry) (o : Option Name) (pfx rdata : Bytes) : Except DErr Val :=
  match decodeWith e.schema o pfx rdata with
  | .error err => .error err
  | .ok v => match e.post v with
    | some w => .ok w
    | none => .error .form

/-- `Rdata.to_wire(origin=o)` of the object with the given object-level tree -/
def Entry.encode (e : Entry) (o : Option Name) (v : Val) : Bytes := enc e.schema o (e.pre v)

/-- object-level trees accepted by the constructor and mapped to themselves by encode-then-decode -/
def Entry.valid (e : Entry) (o : Option Name) (v : Val) : Bool :=
  Model.valid e.schema o (e.pre v) &&
    match e.post (e.pre v) with
    | some _ => true
    | none => false

def modelledTypes : List (Nat × Nat) := table.map fun e => (e.cls, e.typ)

/-- types present in the code for which the model has no schema (covered by the direct oracle only) -/
def declaredOracleOnly : List (Nat × Nat) := []

end Model

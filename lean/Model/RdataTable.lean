import Model.RdataSchema
import Model.RdataIrregular
import Generated.C02
/-!
The table of implemented record types (C02): one entry per `dns/rdtypes/{ANY,IN,CH}/<TYPE>.py`, giving the
wire schema (the `_to_wire` / `from_wire_parser` pair plus the constructor's validation as `check`s) and, for the
few types whose stored fields are not the wire fields, the map `post` from the raw decoded tree to the object-level
tree and its inverse `pre`.

`cls = 255` stands for "any class" (modules under `dns/rdtypes/ANY`); lookup follows `dns.rdata.get_rdata_class`:
the class-specific module first, then ANY, then `GenericRdata` (RFC 3597, schema `rest`).

Fields stored as text by dnspython (IPv4/IPv6 addresses, L64/NID locators, EUI) are carried as their octets:
`inet_aton ∘ inet_ntoa = id` and `parse_formatted_hex ∘ _hexify = id` are external contracts (exercised by the
oracle, not modelled).  `A`, `AAAA`, `L32`, `L64`, `NID` read `get_remaining()` and reject any length but 4/16/8;
under the exact-consumption rule of `restrict_to` that is the same decoder as `fixed n`.
-/
namespace Model
open Schema

/-- object-level view of a type whose stored fields are not the wire fields -/
structure PostPre where
  /-- raw decoded tree → object-level tree (`none` = the constructor rejects) -/
  post : Val → Option Val
  /-- object-level tree → raw tree -/
  pre : Val → Val

structure Entry where
  cls : Nat
  typ : Nat
  mnemonic : String
  schema : Schema
  /-- `none`: the object-level tree is the decoded tree itself -/
  custom : Option PostPre := none

def Entry.post (e : Entry) (v : Val) : Option Val :=
  match e.custom with
  | none => some v
  | some c => c.post v

def Entry.pre (e : Entry) (v : Val) : Val :=
  match e.custom with
  | none => v
  | some c => c.pre v

def Entry.isCustom (e : Entry) : Bool := e.custom.isSome

def anyClass : Nat := 255

def txtSchema : Schema := .check (fun v => !v.toList.isEmpty) (.rep c8)
def mxSchema : Schema := seq [u16, nm]
def dnskeySchema : Schema := seq [u16, u8, u8, .rest]
def tlsaSchema : Schema := seq [u8, u8, u8, .rest]
def rrsigSchema : Schema := seq [u16, u8, u8, ttl32, u32, u32, u16, nm, .rest]

/-- `dns.rdtypes.util.Gateway.from_wire_parser` by gateway type -/
def gatewayAlt : Nat → Schema
  | 0 => .unit
  | 1 => .fixed 4
  | 2 => .fixed 16
  | _ => nm

def hipSchema : Schema :=
  .bind (seq [u8, u8, u16]) (fun h => h.fst.toNat + 256 * h.snd.snd.toNat) (2 ^ 24)
    (fun i => seq [.fixed (i % 256), .fixed (i / 256), .rep nm])

def hipEntry : Entry := { cls := anyClass, typ := 55, mnemonic := "HIP", schema := hipSchema }

/-- all entries but HIP (whose 2^24 alternatives are checked by a lemma, not by evaluation) -/
def tableRest : List Entry := [
  -- dns/rdtypes/ANY
  { cls := anyClass, typ := 18, mnemonic := "AFSDB", schema := mxSchema },
  { cls := anyClass, typ := 260, mnemonic := "AMTRELAY",
    schema := .bind (seq [u8, u8]) (fun h => h.snd.toNat % 128) 4 gatewayAlt },
  { cls := anyClass, typ := 258, mnemonic := "AVC", schema := txtSchema },
  { cls := anyClass, typ := 68, mnemonic := "BRID", schema := .rest },
  { cls := anyClass, typ := 257, mnemonic := "CAA",
    schema := seq [u8, .check (fun v => isAlnum v.toBytes) c8, .rest] },
  { cls := anyClass, typ := 60, mnemonic := "CDNSKEY", schema := dnskeySchema },
  { cls := anyClass, typ := 59, mnemonic := "CDS", schema := dsSchema ConstsC02.cdsDigestLen },
  { cls := anyClass, typ := 37, mnemonic := "CERT", schema := seq [u16, u16, u8, .rest] },
  { cls := anyClass, typ := 5, mnemonic := "CNAME", schema := nm },
  { cls := anyClass, typ := 62, mnemonic := "CSYNC", schema := seq [u32, u16, bitmap] },
  { cls := anyClass, typ := 32769, mnemonic := "DLV", schema := dsSchema ConstsC02.dsDigestLen },
  { cls := anyClass, typ := 39, mnemonic := "DNAME", schema := nm },
  { cls := anyClass, typ := 48, mnemonic := "DNSKEY", schema := dnskeySchema },
  { cls := anyClass, typ := 43, mnemonic := "DS", schema := dsSchema ConstsC02.dsDigestLen },
  { cls := anyClass, typ := 66, mnemonic := "DSYNC", schema := seq [u16, u8, u16, nm] },
  { cls := anyClass, typ := 108, mnemonic := "EUI48", schema := .fixed ConstsC02.eui48Len },
  { cls := anyClass, typ := 109, mnemonic := "EUI64", schema := .fixed ConstsC02.eui64Len },
  { cls := anyClass, typ := 27, mnemonic := "GPOS", schema := .check gposOk (seq [c8, c8, c8]) },
  { cls := anyClass, typ := 67, mnemonic := "HHIT", schema := .rest },
  { cls := anyClass, typ := 13, mnemonic := "HINFO", schema := seq [c8, c8] },
  { cls := anyClass, typ := 20, mnemonic := "ISDN", schema := seq [c8, .optCounted 1] },
  { cls := anyClass, typ := 25, mnemonic := "KEY", schema := dnskeySchema },
  { cls := anyClass, typ := 105, mnemonic := "L32", schema := seq [u16, .fixed 4] },
  { cls := anyClass, typ := 106, mnemonic := "L64", schema := seq [u16, .fixed 8] },
  { cls := anyClass, typ := 29, mnemonic := "LOC", schema := locSchema, custom := some ⟨locPost, locPre⟩ },
  { cls := anyClass, typ := 107, mnemonic := "LP", schema := mxSchema },
  { cls := anyClass, typ := 15, mnemonic := "MX", schema := mxSchema },
  { cls := anyClass, typ := 104, mnemonic := "NID", schema := seq [u16, .fixed 8] },
  { cls := anyClass, typ := 56, mnemonic := "NINFO", schema := txtSchema },
  { cls := anyClass, typ := 2, mnemonic := "NS", schema := nm },
  { cls := anyClass, typ := 47, mnemonic := "NSEC", schema := seq [nm, bitmap] },
  { cls := anyClass, typ := 50, mnemonic := "NSEC3", schema := seq [u8, u8, u16, c8, c8, bitmap] },
  { cls := anyClass, typ := 51, mnemonic := "NSEC3PARAM", schema := seq [u8, u8, u16, c8] },
  { cls := anyClass, typ := 61, mnemonic := "OPENPGPKEY", schema := .rest },
  { cls := anyClass, typ := 41, mnemonic := "OPT", schema := optSchema, custom := some ⟨optPost, id⟩ },
  { cls := anyClass, typ := 12, mnemonic := "PTR", schema := nm },
  { cls := anyClass, typ := 261, mnemonic := "RESINFO", schema := txtSchema },
  { cls := anyClass, typ := 17, mnemonic := "RP", schema := seq [nm, nm] },
  { cls := anyClass, typ := 46, mnemonic := "RRSIG", schema := rrsigSchema },
  { cls := anyClass, typ := 21, mnemonic := "RT", schema := mxSchema },
  { cls := anyClass, typ := 24, mnemonic := "SIG", schema := rrsigSchema },
  { cls := anyClass, typ := 53, mnemonic := "SMIMEA", schema := tlsaSchema },
  { cls := anyClass, typ := 6, mnemonic := "SOA", schema := seq [nm, nm, u32, ttl32, ttl32, ttl32, ttl32] },
  { cls := anyClass, typ := 99, mnemonic := "SPF", schema := txtSchema },
  { cls := anyClass, typ := 44, mnemonic := "SSHFP", schema := seq [u8, u8, .rest] },
  { cls := anyClass, typ := 249, mnemonic := "TKEY", schema := seq [nm, u32, u32, u16, u16, c16, c16] },
  { cls := anyClass, typ := 52, mnemonic := "TLSA", schema := tlsaSchema },
  { cls := anyClass, typ := 250, mnemonic := "TSIG",
    schema := seq [nmAbs, u48, u16, c16, u16, .check (fun v => decide (v.toNat ≤ ConstsC02.rcodeMax)) u16, c16] },
  { cls := anyClass, typ := 16, mnemonic := "TXT", schema := txtSchema },
  { cls := anyClass, typ := 256, mnemonic := "URI",
    schema := seq [u16, u16, .check (fun v => !v.toBytes.isEmpty) .rest] },
  { cls := anyClass, typ := 262, mnemonic := "WALLET", schema := txtSchema },
  { cls := anyClass, typ := 19, mnemonic := "X25", schema := c8 },
  { cls := anyClass, typ := 63, mnemonic := "ZONEMD", schema := .check zonemdOk (seq [u32, u8, u8, .rest]) },
  -- dns/rdtypes/IN
  { cls := 1, typ := 1, mnemonic := "A", schema := .fixed 4 },
  { cls := 1, typ := 28, mnemonic := "AAAA", schema := .fixed 16 },
  { cls := 1, typ := 42, mnemonic := "APL", schema := .rep aplItemSchema, custom := some ⟨aplPost, aplPre⟩ },
  { cls := 1, typ := 49, mnemonic := "DHCID", schema := .rest },
  { cls := 1, typ := 65, mnemonic := "HTTPS", schema := svcbSchema, custom := some ⟨svcbPost, id⟩ },
  { cls := 1, typ := 45, mnemonic := "IPSECKEY",
    schema := .pair (.bind (seq [u8, u8, u8]) (fun h => h.snd.fst.toNat) 4 gatewayAlt) .rest },
  { cls := 1, typ := 36, mnemonic := "KX", schema := mxSchema },
  { cls := 1, typ := 35, mnemonic := "NAPTR", schema := seq [u16, u16, c8, c8, c8, nm] },
  { cls := 1, typ := 22, mnemonic := "NSAP", schema := .rest },
  { cls := 1, typ := 23, mnemonic := "NSAP_PTR", schema := nm },
  { cls := 1, typ := 26, mnemonic := "PX", schema := seq [u16, nm, nm] },
  { cls := 1, typ := 33, mnemonic := "SRV", schema := seq [u16, u16, u16, nm] },
  { cls := 1, typ := 64, mnemonic := "SVCB", schema := svcbSchema, custom := some ⟨svcbPost, id⟩ },
  { cls := 1, typ := 11, mnemonic := "WKS", schema := seq [.fixed 4, u8, .rest] },
  -- dns/rdtypes/CH
  { cls := 3, typ := 1, mnemonic := "A", schema := seq [nm, u16] }
]

def table : List Entry := hipEntry :: tableRest

/-- RFC 3597 unknown-type form (`GenericRdata`) -/
def genericEntry (c t : Nat) : Entry := { cls := c, typ := t, mnemonic := "GENERIC", schema := .rest }

/-- `dns.rdata.get_rdata_class(rdclass, rdtype)` -/
def lookup (c t : Nat) : Entry :=
  match table.find? (fun e => e.cls == c && e.typ == t) with
  | some e => e
  | none =>
    match table.find? (fun e => e.cls == anyClass && e.typ == t) with
    | some e => e
    | none => genericEntry c t

/-- `dns.rdata.from_wire(rdclass, rdtype, pfx ++ rdata ++ …, |pfx|, |rdata|, origin)` as an object-level tree -/
def Entry.decode (e : Entry) (o : Option Name) (pfx rdata : Bytes) : Except DErr Val :=
  match decodeWith e.schema o pfx rdata with
  | .error err => .error err
  | .ok v => match e.post v with
    | some w => .ok w
    | none => .error .form

/-- `Rdata.to_wire(origin=o)` of the object with the given object-level tree -/
def Entry.encode (e : Entry) (o : Option Name) (v : Val) : Bytes := enc e.schema o (e.pre v)

/-- object-level trees accepted by the constructor and mapped to themselves by encode-then-decode -/
def Entry.valid (e : Entry) (o : Option Name) (v : Val) : Bool :=
  Model.valid e.schema o (e.pre v) &&
    match e.post (e.pre v) with
    | some _ => true
    | none => false

def modelledTypes : List (Nat × Nat) := table.map fun e => (e.cls, e.typ)

/-- types present in the code for which the model has no schema (covered by the direct oracle only) -/
def declaredOracleOnly : List (Nat × Nat) := []

end Model

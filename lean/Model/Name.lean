import Model.Bytes
import Generated.Consts
/-!
Model of `dns/name.py` (bytes/ASCII paths), `dns/wirebase.py` Parser name decoding.
Octets are `Nat`; "is an octet" (`< 256`) is an explicit hypothesis where it matters.
A name is the list of its labels; it is absolute iff its last label is empty.
Text is a list of ASCII codes.
-/
namespace Model

abbrev Label := Bytes
abbrev Name := List Label

inductive NameErr where
  | emptyLabel | badEscape | labelTooLong | nameTooLong | badPointer | badLabelType
  | formError | needAbsolute | absoluteConcat | noParent | needSubdomain | valueError
  deriving DecidableEq, Repr

def NameErr.toString : NameErr → String
  | .emptyLabel => "EmptyLabel" | .badEscape => "BadEscape" | .labelTooLong => "LabelTooLong"
  | .nameTooLong => "NameTooLong" | .badPointer => "BadPointer" | .badLabelType => "BadLabelType"
  | .formError => "FormError" | .needAbsolute => "NeedAbsoluteNameOrOrigin"
  | .absoluteConcat => "AbsoluteConcatenation" | .noParent => "NoParent"
  | .needSubdomain => "NeedSubdomainOfOrigin" | .valueError => "ValueError"

/-! ## basic predicates -/

def isAbs (n : Name) : Bool :=
  match n.getLast? with
  | some [] => true
  | _ => false

def wireLen (n : Name) : Nat := (n.map fun l => l.length + 1).sum

/-- `_validate_labels`: order of raising is as coded: LabelTooLong while scanning,
then NameTooLong, then EmptyLabel. -/
def firstEmpty : List Label → Nat → Option Nat
  | [], _ => none
  | l :: rest, j => if l = [] then some j else firstEmpty rest (j + 1)

def validate (n : Name) : Except NameErr Name :=
  if n.any (fun l => decide (l.length > Consts.maxLabel)) then .error .labelTooLong
  else if wireLen n > Consts.maxName then .error .nameTooLong
  else match firstEmpty n 0 with
    | some i => if i ≠ n.length - 1 then .error .emptyLabel else .ok n
    | none => .ok n

/-- Well-formed name: what `Name(labels)` accepts. -/
def WfName (n : Name) : Prop :=
  (∀ l ∈ n, l.length ≤ Consts.maxLabel) ∧ wireLen n ≤ Consts.maxName ∧ (∀ l ∈ n.dropLast, l ≠ [])

/-! ## text -/

def isDigit (c : Nat) : Bool := decide (48 ≤ c ∧ c ≤ 57)

def dec3 (c : Nat) : List Nat := [48 + c / 100, 48 + c / 10 % 10, 48 + c % 10]

/-- one octet of `_escapify` (bytes branch) -/
def escOctet (esc : List Nat) (c : Nat) : List Nat :=
  if c ∈ esc then [92, c]
  else if 0x20 < c ∧ c < 0x7F then [c]
  else 92 :: dec3 c

def escapifyWith (esc : List Nat) (l : Label) : List Nat := l.flatMap (escOctet esc)

def escapify (l : Label) : List Nat := escapifyWith Consts.nameEscaped l

def joinDot : List (List Nat) → List Nat
  | [] => []
  | [x] => x
  | x :: rest => x ++ 46 :: joinDot rest

/-- `Name.to_text()` with default style, no origin (`omit_final_dot=False`). -/
def toText (n : Name) : List Nat :=
  if n = [] then [64]
  else if n = [[]] then [46]
  else joinDot (n.map escapify)

/-- loop state of `from_text`: `esc = some (edigits, total)` while `escaping` is true
(the Python variables `edigits`/`total` are dead otherwise: both are reset on entering an escape). -/
structure FT where
  labels : List Label
  label : Label
  esc : Option (Nat × Nat)
  deriving Repr

/-- one iteration of the `for c in text` loop of `from_text`. -/
def ftStep (s : FT) (c : Nat) : Except NameErr FT :=
  match s.esc with
  | some (edigits, tot) =>
    if edigits = 0 then
      if isDigit c then .ok { s with esc := some (1, c - 48) }
      else .ok { s with label := s.label ++ [c], esc := none }
    else
      if !isDigit c then .error .badEscape
      else
        let total := tot * 10 + (c - 48)
        if edigits + 1 = 3 then
          -- `fix:` commit D01: a decimal escape above 255 is a BadEscape
          if total > 255 then .error .badEscape
          else .ok { s with esc := none, label := s.label ++ [total] }
        else .ok { s with esc := some (edigits + 1, total) }
  | none =>
    if c = 46 then
      if s.label = [] then .error .emptyLabel
      else .ok { s with labels := s.labels ++ [s.label], label := [] }
    else if c = 92 then .ok { s with esc := some (0, 0) }
    else .ok { s with label := s.label ++ [c] }

def ftRun : FT → List Nat → Except NameErr FT
  | s, [] => .ok s
  | s, c :: cs => match ftStep s c with
    | .ok s' => ftRun s' cs
    | .error e => .error e

def ftInit : FT := { labels := [], label := [], esc := none }

/-- `dns.name.from_text` on ASCII text, `origin` optional (Python default is root). -/
def fromText (text : List Nat) (origin : Option Name) : Except NameErr Name :=
  let text := if text = [64] then [] else text
  let labelsE : Except NameErr (List Label) :=
    if text = [] then .ok []
    else if text = [46] then .ok [[]]   -- early `return Name([b""])`
    else match ftRun ftInit text with
      | .error e => .error e
      | .ok s =>
        if s.esc.isSome then .error .badEscape
        else .ok (s.labels ++ [s.label])   -- label or b"" appended
  match labelsE with
  | .error e => .error e
  | .ok labels =>
    if text = [46] then validate labels
    else
      let labels := match origin with
        | some o => if labels = [] ∨ labels.getLast? ≠ some [] then labels ++ o else labels
        | none => labels
      validate labels

/-! ## wire -/

def toWire (n : Name) : Bytes := n.flatMap fun l => l.length :: l

/-- ASCII lower-casing of one octet / label / name (`bytes.lower()`). -/
def lowerOctet (c : Nat) : Nat := if 65 ≤ c ∧ c ≤ 90 then c + 32 else c
def lowerLabel (l : Label) : Label := l.map lowerOctet
def lowerName (n : Name) : Name := n.map lowerLabel

/-- `Name.to_wire(file=None, origin=…, canonicalize=…)` (also `to_digestable(origin)`): the labels of the
name, then — for a relative name — the labels of the origin, each label lower-cased iff `canon`; since the
`fix:` commit an over-long combination raises NameTooLong like the file-writing path. -/
def toWireO (n : Name) (origin : Option Name) (canon : Bool) : Except NameErr Bytes :=
  let enc : Name → Bytes := fun ls => ls.flatMap fun l => l.length :: (if canon then lowerLabel l else l)
  if isAbs n then .ok (enc n)
  else match origin with
    | some o =>
      if isAbs o then
        (if (enc n ++ enc o).length > Consts.maxName then .error .nameTooLong else .ok (enc n ++ enc o))
      else .error .needAbsolute
    | none => .error .needAbsolute

/-- Result of wire name decoding: labels (without the final root label, which the caller appends)
and `furthest`, the parser position restored by `restore_furthest`. -/
def fromWireAux (w : Bytes) (endp : Nat) (cur bp furthest : Nat) (acc : List Label) :
    Except NameErr (Name × Nat) :=
  if h : cur < endp ∧ endp ≤ w.length then
    if w[cur]'(by omega) = 0 then .ok (acc ++ [[]], max furthest (cur + 1))
    else if w[cur]'(by omega) < Consts.ptrLabelMin then     -- 64
      if w[cur]'(by omega) > endp - (cur + 1) then .error .formError
      else
        fromWireAux w endp (cur + 1 + w[cur]'(by omega)) bp
          (max (max furthest (cur + 1)) (cur + 1 + w[cur]'(by omega)))
          (acc ++ [(w.drop (cur + 1)).take (w[cur]'(by omega))])
    else if w[cur]'(by omega) ≥ Consts.ptrTagMin then       -- 192
      if h2 : cur + 1 < endp then
        if h3 : (w[cur]'(by omega) % 64) * 256 + w[cur + 1]'(by omega) ≥ bp then .error .badPointer
        else
          -- `parser.seek(target)`: target < bp, never out of range
          fromWireAux w endp ((w[cur]'(by omega) % 64) * 256 + w[cur + 1]'(by omega))
            ((w[cur]'(by omega) % 64) * 256 + w[cur + 1]'(by omega))
            (max (max furthest (cur + 1)) (cur + 2)) acc
      else .error .formError
    else .error .badLabelType
  else .error .formError
termination_by (bp, endp - cur)
decreasing_by
  · simp_wf
    right; omega
  · simp_wf
    left; omega

/-- `dns.name.from_wire(message, current)`; returns the name and the octets consumed.
The Parser constructor raises FormError when `current > len`. -/
def fromWire (w : Bytes) (cur : Nat) : Except NameErr (Name × Nat) :=
  if cur > w.length then .error .formError
  else match fromWireAux w w.length cur cur cur [] with
    | .error e => .error e
    | .ok (n, f) => match validate n with
      | .error e => .error e
      | .ok n => .ok (n, f - cur)

/-! ## compression (`Name.to_wire(file, compress)`) -/

abbrev CTable := List (Name × Nat)

/-- `compress.get(n)`: dict lookup with `Name.__eq__`/`__hash__` = case-insensitive equality.
Python dict keeps one entry per equality class (first key object, last value); since
`to_wire` only inserts when the lookup failed, entries are unique up to case. -/
def ctGet (t : CTable) (n : Name) : Option Nat :=
  match t.find? (fun p => lowerName p.1 == lowerName n) with
  | some p => some p.2
  | none => none

/-- the loop of `to_wire` with a file and a compression table; `out` is the file content so far
(`file.tell() = out.length`), `labels` the remaining suffix. -/
def toWireCLoop (out : Bytes) (t : CTable) : (labels : Name) → Bytes × CTable
  | [] => (out, t)
  | l :: rest =>
    match ctGet t (l :: rest) with
    | some pos => (out ++ [(Consts.ptrBase + pos) / 256, (Consts.ptrBase + pos) % 256], t)
    | none =>
      let t' := if (l :: rest).length > 1 ∧ out.length ≤ Consts.maxPtr then t ++ [(l :: rest, out.length)] else t
      toWireCLoop (out ++ l.length :: l) t' rest

def toWireC (out : Bytes) (t : CTable) (n : Name) (origin : Option Name) : Except NameErr (Bytes × CTable) :=
  if isAbs n then .ok (toWireCLoop out t n)
  else match origin with
    | some o => if isAbs o then .ok (toWireCLoop out t (n ++ o)) else .error .needAbsolute
    | none => .error .needAbsolute

/-- `Name.to_wire(file, compress, origin, canonicalize)` — the file-writing path, with or without a
compression table.  The label sequence is the name's own labels or, for a relative name, those followed by
the origin's; the first thing the loop does is construct `Name(labels[0:])`, whose validation refuses an
over-long combination (NameTooLong) before anything is written.  With `canonicalize` the labels are written
lower-cased; the table is consulted with the library's case-insensitive equality, so the lower-cased
sequence is what the model hands to the loop (table keys are compared up to case anyway). -/
def toWireF (out : Bytes) (t : Option CTable) (n : Name) (origin : Option Name) (canon : Bool) :
    Except NameErr (Bytes × Option CTable) :=
  let full : Except NameErr Name :=
    if isAbs n then .ok n
    else match origin with
      | some o => if isAbs o then .ok (n ++ o) else .error .needAbsolute
      | none => .error .needAbsolute
  match full with
  | .error e => .error e
  | .ok labels =>
    match validate labels with
    | .error e => .error e
    | .ok _ =>
      match t with
      | none => .ok (out ++ toWire (if canon then lowerName labels else labels), none)
      | some tb =>
        .ok ((toWireCLoop out tb (if canon then lowerName labels else labels)).1,
             some (toWireCLoop out tb (if canon then lowerName labels else labels)).2)

/-! ## name operations -/

def mkName (n : Name) : Except NameErr Name := validate n

def concatenate (a b : Name) : Except NameErr Name :=
  if isAbs a ∧ b.length > 0 then .error .absoluteConcat else validate (a ++ b)

/-- `fullcompare` as coded; relation codes: 0 none, 1 superdomain, 2 subdomain, 3 equal, 4 commonancestor -/
def cmpBytes : Bytes → Bytes → Int
  | [], [] => 0
  | [], _ :: _ => -1
  | _ :: _, [] => 1
  | a :: as, b :: bs => if a < b then -1 else if a > b then 1 else cmpBytes as bs

def cmpLabel (a b : Label) : Int := cmpBytes (lowerLabel a) (lowerLabel b)

/-- loop over reversed label lists (already truncated to common length `l`). -/
def fcLoop : List Label → List Label → Nat → Option (Int × Nat)
  | a :: as, b :: bs, k =>
    let c := cmpLabel a b
    if c < 0 then some (-1, k) else if c > 0 then some (1, k) else fcLoop as bs (k + 1)
  | _, _, _ => none

def fullcompare (a b : Name) : Nat × Int × Nat :=
  let sabs := isAbs a
  let oabs := isAbs b
  if sabs != oabs then (if sabs then (0, 1, 0) else (0, -1, 0))
  else
    let l1 := a.length
    let l2 := b.length
    let l := min l1 l2
    match fcLoop (a.reverse.take l) (b.reverse.take l) 0 with
    | some (o, k) => (if k > 0 then 4 else 0, o, k)
    | none =>
      let ldiff : Int := (l1 : Int) - (l2 : Int)
      (if ldiff < 0 then 1 else if ldiff > 0 then 2 else 3, ldiff, l)

def cmpOrder (a b : Name) : Int := (fullcompare a b).2.1

def isSubdomain (a b : Name) : Bool :=
  let r := (fullcompare a b).1
  r == 2 || r == 3

def isSuperdomain (a b : Name) : Bool :=
  let r := (fullcompare a b).1
  r == 1 || r == 3

def nameEq (a b : Name) : Bool := cmpOrder a b == 0

def nameHash (n : Name) : Nat :=
  n.foldl (fun h l => (lowerLabel l).foldl (fun h c => h + h * 8 + c) h) 0

/-- `self[: len(self) - k]` (the repaired slice of `Name.relativize`; before the `fix:` commit it was
`self[: -k]`, whose bound `-0` is `0`, so `k = 0` gave the empty tuple).  The two-branch shape is kept
so that proofs which case on `k = 0` keep working; both branches are the same function of `k`. -/
def sliceToNeg (n : Name) (k : Nat) : Name := if k = 0 then n.take (n.length - 0) else n.take (n.length - k)

/-- `Name(self[: len(self) - len(origin)])` when `self.is_subdomain(origin)`. -/
def relativize (n origin : Name) : Except NameErr Name :=
  if isSubdomain n origin then validate (sliceToNeg n origin.length) else .ok n

def derelativize (n origin : Name) : Except NameErr Name :=
  if !isAbs n then concatenate n origin else .ok n

/-- `Name.choose_relativity(origin, relativize)`: `if origin:` — `None` and the empty name leave the name alone -/
def chooseRel (n : Name) (origin : Option Name) (rel : Bool) : Except NameErr Name :=
  match origin with
  | none => .ok n
  | some o => if o = [] then .ok n else if rel then relativize n o else derelativize n o

/-- `to_text(omit_final_dot=True)`: the root label of an absolute non-root name is not printed -/
def toTextOmit (n : Name) : List Nat :=
  if n = [] then [64]
  else if n = [[]] then [46]
  else joinDot ((if isAbs n then n.dropLast else n).map escapify)

/-- `Name.to_styled_text(NameStyle(omit_final_dot, origin, relativize))` without an IDNA codec -/
def toStyledText (n : Name) (omitDot : Bool) (origin : Option Name) (rel : Bool) : Except NameErr (List Nat) :=
  match chooseRel n origin rel with
  | .error e => .error e
  | .ok m => .ok (if omitDot then toTextOmit m else toText m)

def parent (n : Name) : Except NameErr Name :=
  if nameEq n [[]] ∨ nameEq n [] then .error .noParent else validate (n.drop 1)

def split (n : Name) (depth : Nat) : Except NameErr (Name × Name) :=
  let l := n.length
  if depth = 0 then .ok (n, [])
  else if depth = l then .ok ([], n)
  else if depth > l then .error .valueError
  else do
    let a ← validate (n.take (l - depth))
    let b ← validate (n.drop (l - depth))
    pure (a, b)

/-! ## RFC 4471 successor / predecessor -/

def padToMaxNameLabels (needed : Nat) : List Label :=
  -- labels in the order they are appended by the loop (before `reversed`)
  let full := (needed - 1) / 64      -- number of iterations of `while needed > 64`
  let rest := needed - 64 * full
  (List.replicate full (List.replicate 63 255)) ++ (if rest ≥ 2 then [List.replicate (rest - 1) 255] else [])

def padToMaxName (n : Name) : Except NameErr Name :=
  let needed := 255 - wireLen n
  validate ((padToMaxNameLabels needed).reverse ++ n)

def padToMaxLabel (label : Label) (suffix : Name) : Label :=
  let length := label.length
  let used := wireLen suffix + length + 1
  if 255 ≤ used then label
  else label ++ List.replicate (min (63 - length) (255 - used)) 255

def absolutePredecessor (name origin : Name) (prefixOk : Bool) : Except NameErr Name :=
  if nameEq name origin then padToMaxName name
  else match name with
    | [] => .error .valueError            -- unreachable for absolute names
    | lsl :: suffix =>
      if lsl = [0] then parent name
      else match lsl.getLast? with
        | none => .error .valueError      -- empty least label: unreachable below origin
        | some leastOctet =>
          let newLabel :=
            if leastOctet = 0 then lsl.dropLast
            else
              let o := if leastOctet = 91 then 64 else leastOctet - 1
              padToMaxLabel (lsl.dropLast ++ [o]) suffix
          match validate (newLabel :: suffix) with
          | .error e => .error e
          | .ok nm => if prefixOk then padToMaxName nm else .ok nm

/-- scan from the right for the first non-0xFF octet; returns the incremented, truncated label -/
def incrLabel (l : Label) : Option Label :=
  match l.reverse.dropWhile (· == 255) with
  | [] => none
  | o :: restRev =>
    -- `fix:` commit D06: 'Z' is bumped to '{' (it compares as 'z'), next to '@' -> '['
    let o' := if o = 64 then 91 else if o = 90 then 123 else o + 1
    some (restRev.reverse ++ [o'])

def absSuccLoop (origin : Name) : (name : Name) → Except NameErr Name
  | [] => .ok origin
  | lsl :: suffix =>
    if nameEq (lsl :: suffix) origin then .ok origin
    else
      let tryExtend : Option Name :=
        if lsl.length < 63 then
          match validate ((lsl ++ [0]) :: suffix) with
          | .ok nm => some nm
          | .error _ => none
        else none
      match tryExtend with
      | some nm => .ok nm
      | none =>
        match incrLabel lsl with
        | some l' => validate (l' :: suffix)
        | none => absSuccLoop origin suffix

def absoluteSuccessor (name origin : Name) (prefixOk : Bool) : Except NameErr Name :=
  let pre : Option Name :=
    if prefixOk then
      match validate ([0] :: name) with
      | .ok nm => some nm
      | .error _ => none
    else none
  match pre with
  | some nm => .ok nm
  | none => absSuccLoop origin name

def handleRelativity (f : Name → Name → Bool → Except NameErr Name) (name origin : Name) (prefixOk : Bool) :
    Except NameErr Name :=
  if !isAbs origin then .error .needAbsolute
  else
    let relative := !isAbs name
    let nameE : Except NameErr Name :=
      if relative then derelativize name origin
      else if !isSubdomain name origin then .error .needSubdomain else .ok name
    match nameE with
    | .error e => .error e
    | .ok nm =>
      match f nm origin prefixOk with
      | .error e => .error e
      | .ok r => if relative then relativize r origin else .ok r

def successor (name origin : Name) (prefixOk : Bool) := handleRelativity absoluteSuccessor name origin prefixOk
def predecessor (name origin : Name) (prefixOk : Bool) := handleRelativity absolutePredecessor name origin prefixOk

end Model

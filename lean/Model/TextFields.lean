import Model.IPAddr
import Model.RdataTextCal
/-!
Token-level pieces of the master-file text codecs used by the record types (C05):

* the tokenizer of `dns/tokenizer.py` restricted to what `dns.rdata.from_text` drives: `Tokenizer.get()` with default
  arguments, called until the end of the line (`lexLine`), as one structural automaton over the characters;
* `dns.rdata._escapify`, `Token.unescape` (code points) and `Token.unescape_to_bytes` (octets) — the two are
  different functions on purpose: the first yields *code points* which the record types then `str.encode()`
  (UTF-8), the second yields octets.  This is where octets ≥ 0x80 are lost by HINFO/ISDN/X25/CAA/NAPTR;
* Python `int(s, base)` on the ASCII/Latin-1 repertoire, `dns.ttl.from_text`;
* `_wordbreak` chunking and `concatenate_remaining_identifiers`;
* hex (`binascii`, modelled and proved) and base64 (executable here for the driver; the theorems only use the
  abstract contract `BlobCodec`);
* name fields: `Tokenizer.as_name` and `Name.to_styled_text` on top of `Model.Name`.

Text is a list of code points.  Non-ASCII decimal digits / spaces (Unicode `Nd`, `Zs`) and IDNA are outside the model.
-/
namespace Model

/-! ## tokens and the tokenizer automaton -/

inductive TKind where
  | ident | quoted
  deriving DecidableEq, Repr

/-- a token as returned by `Tokenizer.get()`: the raw value still contains its escapes -/
structure Tok where
  kind : TKind
  val : List Nat
  deriving DecidableEq, Repr

/-- `_DELIMITERS` -/
def isDelim (c : Nat) : Bool := c == 32 || c == 9 || c == 10 || c == 59 || c == 40 || c == 41 || c == 34

inductive LMode where
  | ws                          -- between tokens (`token == ""`, not quoting)
  | ident (acc : List Nat)
  | identEsc (acc : List Nat)   -- just read `\` inside an identifier
  | quote (acc : List Nat)      -- inside `"…"` (delimiters = `_QUOTING_DELIMITERS`)
  | quoteEsc (acc : List Nat)
  | comment
  deriving Repr

inductive WsOut where
  | go (m : LMode) (ml : Nat)
  | stop                        -- EOL outside parentheses: end of the record
  | fail

/-- what a character does when no token is in progress (`token == ""` branch of `get`, incl. `skip_whitespace`) -/
def wsChar (ml : Nat) (c : Nat) : WsOut :=
  if c = 32 ∨ c = 9 then .go .ws ml
  else if c = 10 then (if ml > 0 then .go .ws ml else .stop)
  else if c = 40 then .go .ws (ml + 1)
  else if c = 41 then (if ml = 0 then .fail else .go .ws (ml - 1))
  else if c = 34 then .go (.quote []) ml
  else if c = 59 then .go .comment ml
  else if c = 92 then .go (.identEsc [92]) ml
  else .go (.ident [c]) ml

/-- all tokens up to the EOL/EOF that ends the record; `none` = the tokenizer raised (SyntaxError family) -/
def lexGo : LMode → Nat → List Nat → Option (List Tok)
  | .ws, ml, [] => if ml > 0 then none else some []
  | .ws, ml, c :: cs =>
    match wsChar ml c with
    | .go m ml' => lexGo m ml' cs
    | .stop => some []
    | .fail => none
  | .ident acc, ml, [] => if ml > 0 then none else some [⟨.ident, acc⟩]
  | .ident acc, ml, c :: cs =>
    if isDelim c then
      match wsChar ml c with
      | .go m ml' => (lexGo m ml' cs).map (⟨.ident, acc⟩ :: ·)
      | .stop => some [⟨.ident, acc⟩]
      | .fail => none
    else if c = 92 then lexGo (.identEsc (acc ++ [92])) ml cs
    else lexGo (.ident (acc ++ [c])) ml cs
  | .identEsc _, _, [] => none
  | .identEsc acc, ml, c :: cs => if c = 10 then none else lexGo (.ident (acc ++ [c])) ml cs
  | .quote _, _, [] => none
  | .quote acc, ml, c :: cs =>
    if c = 34 then (lexGo .ws ml cs).map (⟨.quoted, acc⟩ :: ·)
    else if c = 10 then none
    else if c = 92 then lexGo (.quoteEsc (acc ++ [92])) ml cs
    else lexGo (.quote (acc ++ [c])) ml cs
  | .quoteEsc _, _, [] => none
  | .quoteEsc acc, ml, c :: cs => lexGo (.quote (acc ++ [c])) ml cs
  | .comment, ml, [] => if ml > 0 then none else some []
  | .comment, ml, c :: cs =>
    if c = 10 then (if ml > 0 then lexGo .ws ml cs else some [])
    else lexGo .comment ml cs

def lexLine (t : Text) : Option (List Tok) := lexGo .ws 0 t

/-! ## escapes -/

/-- one octet of `dns.rdata._escapify` -/
def escROctet (esc : List Nat) (c : Nat) : List Nat :=
  if c ∈ esc then [92, c]
  else if 0x20 ≤ c ∧ c < 0x7F then [c]
  else 92 :: dec3 c

/-- `dns.rdata._escapify(bytes)` -/
def escapifyRWith (esc : List Nat) (s : Bytes) : List Nat := s.flatMap (escROctet esc)
def escapifyR (s : Bytes) : List Nat := escapifyRWith Consts.rdataEscaped s

/-- `Token.unescape`: the value as *code points*; `none` = UnexpectedEnd / SyntaxError -/
def unescapeCP : List Nat → Option (List Nat)
  | [] => some []
  | [92] => none
  | 92 :: c :: rest =>
    if isDigit c then
      match rest with
      | c2 :: c3 :: rest' =>
        if isDigit c2 && isDigit c3 then
          let cp := (c - 48) * 100 + (c2 - 48) * 10 + (c3 - 48)
          if cp > 255 then none else (unescapeCP rest').map (cp :: ·)
        else none
      | _ => none
    else (unescapeCP rest).map (c :: ·)
  | c :: rest => (unescapeCP rest).map (c :: ·)

/-- `str.encode()` of one code point; `none` for a surrogate (UnicodeEncodeError) or a non-scalar value -/
def utf8Char (c : Nat) : Option Bytes :=
  if c < 0x80 then some [c]
  else if c < 0x800 then some [0xC0 + c / 64, 0x80 + c % 64]
  else if c < 0x10000 then
    if 0xD800 ≤ c ∧ c < 0xE000 then none
    else some [0xE0 + c / 4096, 0x80 + c / 64 % 64, 0x80 + c % 64]
  else if c < 0x110000 then some [0xF0 + c / 262144, 0x80 + c / 4096 % 64, 0x80 + c / 64 % 64, 0x80 + c % 64]
  else none

def utf8Encode : List Nat → Option Bytes
  | [] => some []
  | c :: cs => match utf8Char c, utf8Encode cs with
    | some a, some b => some (a ++ b)
    | _, _ => none

/-- `bytes.decode()` of UTF-8 (strict): `none` = UnicodeDecodeError -/
def utf8Decode : Bytes → Option (List Nat)
  | [] => some []
  | a :: rest =>
    if a < 0x80 then (utf8Decode rest).map (a :: ·)
    else if 0xC2 ≤ a ∧ a < 0xE0 then
      match rest with
      | b :: rest' =>
        if 0x80 ≤ b ∧ b < 0xC0 then (utf8Decode rest').map (((a - 0xC0) * 64 + (b - 0x80)) :: ·) else none
      | _ => none
    else if 0xE0 ≤ a ∧ a < 0xF0 then
      match rest with
      | b :: c :: rest' =>
        let cp := (a - 0xE0) * 4096 + (b - 0x80) * 64 + (c - 0x80)
        if 0x80 ≤ b ∧ b < 0xC0 ∧ 0x80 ≤ c ∧ c < 0xC0 ∧ 0x800 ≤ cp ∧ ¬ (0xD800 ≤ cp ∧ cp < 0xE000) then
          (utf8Decode rest').map (cp :: ·)
        else none
      | _ => none
    else if 0xF0 ≤ a ∧ a < 0xF5 then
      match rest with
      | b :: c :: d :: rest' =>
        let cp := (a - 0xF0) * 262144 + (b - 0x80) * 4096 + (c - 0x80) * 64 + (d - 0x80)
        if 0x80 ≤ b ∧ b < 0xC0 ∧ 0x80 ≤ c ∧ c < 0xC0 ∧ 0x80 ≤ d ∧ d < 0xC0 ∧ 0x10000 ≤ cp ∧ cp < 0x110000 then
          (utf8Decode rest').map (cp :: ·)
        else none
      | _ => none
    else none

/-- one code point of `dns.rdata._escapify_unicode`: only `"`, `\\` and C0 controls are escaped; every other code point
is emitted raw (the parser re-encodes it as UTF-8) -/
def escUChar (esc : List Nat) (c : Nat) : List Nat :=
  if c ∈ esc then [92, c]
  else if 0x20 ≤ c then [c]
  else 92 :: dec3 c

/-- `dns.rdata._escapify_unicode(str)` -/
def escapifyUWith (esc : List Nat) (s : List Nat) : List Nat := s.flatMap (escUChar esc)

/-- the text of one TXT-like string under `txt_is_utf8`: the Unicode form when the octets are valid UTF-8,
else the octet form (`except Exception: element = _escapify(s)`) -/
def txtElement (utf8 : Bool) (escU escR : List Nat) (s : Bytes) : List Nat :=
  if utf8 then
    match utf8Decode s with
    | some us => escapifyUWith escU us
    | none => escapifyRWith escR s
  else escapifyRWith escR s

/-- `Token.unescape_to_bytes`: `\DDD` is an *octet*; every other character contributes its UTF-8 encoding -/
def unescapeBytes : List Nat → Option Bytes
  | [] => some []
  | [92] => none
  | 92 :: c :: rest =>
    if isDigit c then
      match rest with
      | c2 :: c3 :: rest' =>
        if isDigit c2 && isDigit c3 then
          let cp := (c - 48) * 100 + (c2 - 48) * 10 + (c3 - 48)
          if cp > 255 then none else (unescapeBytes rest').map (cp :: ·)
        else none
      | _ => none
    else match utf8Char c, unescapeBytes rest with
      | some a, some b => some (a ++ b)
      | _, _ => none
  | c :: rest => match utf8Char c, unescapeBytes rest with
    | some a, some b => some (a ++ b)
    | _, _ => none

/-! ## integers -/

/-- whitespace stripped by `int()` (code points below 0x300) -/
def isIntSpace (c : Nat) : Bool := c == 9 || c == 10 || c == 11 || c == 12 || c == 13 || c == 32 || c == 0x85 || c == 0xA0

def stripIntSpace (s : List Nat) : List Nat :=
  ((s.dropWhile isIntSpace).reverse.dropWhile isIntSpace).reverse

/-- digits of `base` (≤ 10) with single underscores between them; value accumulated left to right.
`needDigit` = the previous character was an underscore or the start -/
def digitsUS (base : Nat) : List Nat → Nat → Bool → Option Nat
  | [], acc, needDigit => if needDigit then none else some acc
  | c :: cs, acc, needDigit =>
    if 48 ≤ c ∧ c < 48 + base then digitsUS base cs (acc * base + (c - 48)) false
    else if c = 95 then (if needDigit then none else digitsUS base cs acc true)
    else none

/-- optional sign of `int()` -/
def pySign (s : List Nat) : Bool × List Nat :=
  match s with
  | 45 :: r => (true, r)
  | 43 :: r => (false, r)
  | r => (false, r)

/-- digits after the sign: optional `0o`/`0O` prefix in base 8 (one underscore may follow the prefix) -/
def pyBody (base : Nat) (s : List Nat) : Option Nat :=
  match s with
  | 48 :: o :: r =>
    if base = 8 ∧ (o = 111 ∨ o = 79) then
      match r with
      | 95 :: r' => digitsUS base r' 0 true
      | _ => digitsUS base r 0 true
    else digitsUS base s 0 true
  | _ => digitsUS base s 0 true

/-- `int(s, base)` for base 10 or 8: optional sign, optional `0o` prefix (base 8), digits with single `_`.
Returns whether it is negative and the magnitude. -/
def pyInt (base : Nat) (s : List Nat) : Option (Bool × Nat) :=
  let p := pySign (stripIntSpace s)
  (pyBody base p.2).map fun v => (p.1, v)

/-- hexadecimal digits with single underscores between them (`int(s, 16)` body) -/
def digitsUS16 : List Nat → Nat → Bool → Option Nat
  | [], acc, needDigit => if needDigit then none else some acc
  | c :: cs, acc, needDigit =>
    match hexDigitVal c with
    | some v => digitsUS16 cs (acc * 16 + v) false
    | none => if c = 95 then (if needDigit then none else digitsUS16 cs acc true) else none

/-- `int(s, 16)`: optional sign, optional `0x`/`0X` prefix (one underscore may follow it), hex digits with single `_` -/
def pyIntHex (s : List Nat) : Option (Bool × Nat) :=
  let p := pySign (stripIntSpace s)
  let body : Option Nat :=
    match p.2 with
    | 48 :: x :: r =>
      if x = 120 ∨ x = 88 then
        match r with
        | 95 :: r' => digitsUS16 r' 0 true
        | _ => digitsUS16 r 0 true
      else digitsUS16 p.2 0 true
    | _ => digitsUS16 p.2 0 true
  body.map fun v => (p.1, v)

/-- `dns.rdtypes.util.parse_formatted_hex(text, 4, 4, ":")` (NID node id, L64 locator): 19 characters, four
4-character chunks of hex digits read with `int(chunk, 16)`, separated by `:` -/
def parseFormattedHex4 (t : List Nat) : Option Bytes :=
  if t.length ≠ 19 then none
  else
    let chunk (i : Nat) : Option Bytes :=
      -- `fix:` commit 05bef5d: hexadecimal digits only (`int()` also took signs, `_`, `0x`, surrounding whitespace)
      if !(((t.drop (5 * i)).take 4).all fun c => (hexDigitVal c).isSome) then none
      else match pyIntHex ((t.drop (5 * i)).take 4) with
      | some (neg, v) => if neg ∧ v ≠ 0 then none else some [v / 256 % 256, v % 256]
      | none => none
    let sepOk (i : Nat) : Bool := (t.drop (5 * i + 4)).head? == some 58
    match chunk 0, chunk 1, chunk 2, chunk 3 with
    | some a, some b, some c, some d => if sepOk 0 && sepOk 1 && sepOk 2 then some (a ++ b ++ c ++ d) else none
    | _, _, _, _ => none

/-- `Tokenizer.as_int` + range check of `as_uintN`: identifier, unescaped, non-negative, ≤ max -/
def asUint (base : Nat) (max : Nat) (t : Tok) : Option Nat :=
  if t.kind ≠ .ident then none
  else match unescapeCP t.val with
    | none => none
    | some v => match pyInt base v with
      | some (neg, n) => if neg ∧ n ≠ 0 then none else if n > max then none else some n
      | none => none

/-- `dns.ttl.from_text` on an (unescaped) identifier value -/
def ttlLoop : List Nat → Nat → Nat → Bool → Option Nat
  | [], total, current, _ => if current ≠ 0 then none else some total
  | c :: cs, total, current, needDigit =>
    if isDigit c then ttlLoop cs total (current * 10 + (c - 48)) false
    else if needDigit then none
    else
      let c := if 65 ≤ c ∧ c ≤ 90 then c + 32 else c
      let mul : Option Nat :=
        if c = 119 then some 604800 else if c = 100 then some 86400 else if c = 104 then some 3600
        else if c = 109 then some 60 else if c = 115 then some 1 else none
      match mul with
      | some m => ttlLoop cs (total + current * m) 0 true
      | none => none

def ttlFromText (s : List Nat) : Option Nat :=
  let total : Option Nat :=
    if !s.isEmpty && s.all isDigit then some (decVal s)
    else if s.isEmpty then none
    else ttlLoop s 0 0 true
  match total with
  | some t => if t > Consts.maxTTL then none else some t
  | none => none

/-- `Tokenizer.get_ttl` -/
def asTtl (t : Tok) : Option Nat :=
  if t.kind ≠ .ident then none
  else match unescapeCP t.val with
    | none => none
    | some v => ttlFromText v

/-! ## RRSIG/SIG times (`dns/rdtypes/rrsigbase.py`) -/

/-- `%0Nd` -/
def padDec (width n : Nat) : List Nat :=
  let d := natToDec n
  List.replicate (width - d.length) 48 ++ d

/-- `posixtime_to_sigtime`: `time.strftime("%Y%m%d%H%M%S", time.gmtime(t))` -/
def sigtimeToText (t : Nat) : List Nat :=
  let c := civilFromDays (t / 86400)
  let r := t % 86400
  padDec 4 c.1 ++ padDec 2 c.2.1 ++ padDec 2 c.2.2 ++ padDec 2 (r / 3600) ++ padDec 2 (r % 3600 / 60) ++ padDec 2 (r % 60)

/-- `int(slice)` as a signed value -/
def pyIntSigned (s : List Nat) : Option Int :=
  match pyInt 10 s with
  | some (neg, n) => some (if neg then -(n : Int) else (n : Int))
  | none => none

/-- `calendar.timegm((y, mo, d, h, mi, s, …))`: `datetime.date(y, mo, 1)` must exist; the other fields are plain arithmetic -/
def timegm (y mo d h mi s : Int) : Option Int :=
  if y < 1 ∨ y > 9999 ∨ mo < 1 ∨ mo > 12 then none
  else
    let days : Int := (daysFromCivilShift y.toNat mo.toNat 1 : Int) - 719468 + d - 1
    some (((days * 24 + h) * 60 + mi) * 60 + s)

/-- `sigtime_to_posixtime(what)` followed by `_as_uint32` -/
def sigtimeFromText (w : List Nat) : Option Nat :=
  let v : Option Int :=
    if w.length ≤ 10 ∧ !w.isEmpty ∧ w.all isDigit then some (decVal w : Int)
    else if w.length ≠ 14 then none
    else
      match pyIntSigned (w.take 4), pyIntSigned ((w.drop 4).take 2), pyIntSigned ((w.drop 6).take 2),
        pyIntSigned ((w.drop 8).take 2), pyIntSigned ((w.drop 10).take 2), pyIntSigned ((w.drop 12).take 2) with
      | some y, some mo, some d, some h, some mi, some s => timegm y mo d h mi s
      | _, _, _, _, _, _ => none
  match v with
  | some x => if 0 ≤ x ∧ x ≤ 4294967295 then some x.toNat else none
  | none => none

/-! ## chunking -/

/-- `[data[i:i+n] for i in range(0, len(data), n)]` (n > 0) -/
def chunksOf (n : Nat) (s : List Nat) : List (List Nat) :=
  if hs : s = [] then []
  else if hn : n = 0 then [s]
  else s.take n :: chunksOf n (s.drop n)
termination_by s.length
decreasing_by
  have : 0 < s.length := List.length_pos_iff.mpr hs
  simp [List.length_drop]; omega

def joinSep (sep : List Nat) : List (List Nat) → List Nat
  | [] => []
  | [x] => x
  | x :: rest => x ++ sep ++ joinSep sep rest

/-- `_wordbreak(data, chunksize, separator)` on already-encoded text -/
def wordbreak (data : List Nat) (chunk : Nat) (sep : List Nat) : List Nat :=
  if chunk = 0 then data else joinSep sep (chunksOf chunk data)

/-- `concatenate_remaining_identifiers(allow_empty)` over the remaining tokens of the line -/
def concatIdents (allowEmpty : Bool) : List Tok → Option (List Nat)
  | [] => if allowEmpty then some [] else none
  | toks =>
    let rec go : List Tok → Option (List Nat)
      | [] => some []
      | t :: ts =>
        if t.kind ≠ .ident then none
        else match unescapeCP t.val, go ts with
          | some v, some r => some (v ++ r)
          | _, _ => none
    match go toks with
    | some s => if !allowEmpty && s.isEmpty then none else some s
    | none => none

/-! ## blob codecs -/

/-- an alphabet codec (`binascii.hexlify`/`unhexlify`, `base64.b64encode`/`b64decode`) seen from the text layer -/
structure BlobCodec where
  enc : Bytes → List Nat
  dec : List Nat → Option Bytes

def hexCodec : BlobCodec := ⟨hexlify, unhexlify⟩

def b64Char (v : Nat) : Nat :=
  if v < 26 then 65 + v else if v < 52 then 97 + (v - 26) else if v < 62 then 48 + (v - 52)
  else if v = 62 then 43 else 47

def b64Val (c : Nat) : Option Nat :=
  if 65 ≤ c ∧ c ≤ 90 then some (c - 65)
  else if 97 ≤ c ∧ c ≤ 122 then some (c - 97 + 26)
  else if 48 ≤ c ∧ c ≤ 57 then some (c - 48 + 52)
  else if c = 43 then some 62 else if c = 47 then some 63 else none

/-- `base64.b64encode` -/
def b64Encode : Bytes → List Nat
  | [] => []
  | [a] => [b64Char (a / 4), b64Char (a % 4 * 16), 61, 61]
  | [a, b] => [b64Char (a / 4), b64Char (a % 4 * 16 + b / 16), b64Char (b % 16 * 4), 61]
  | a :: b :: c :: rest =>
    b64Char (a / 4) :: b64Char (a % 4 * 16 + b / 16) :: b64Char (b % 16 * 4 + c / 64) :: b64Char (c % 64) :: b64Encode rest

/-- strict decoder: canonical padded base64 only.  (`base64.b64decode` is more liberal — it skips foreign
characters; the correspondence check only sends the model canonical text for base64 fields.) -/
def b64Decode : List Nat → Option Bytes
  | [] => some []
  | [a, b, 61, 61] =>
    match b64Val a, b64Val b with
    | some x, some y => if y % 16 = 0 then some [x * 4 + y / 16] else none
    | _, _ => none
  | [a, b, c, 61] =>
    match b64Val a, b64Val b, b64Val c with
    | some x, some y, some z => if z % 4 = 0 then some [x * 4 + y / 16, y % 16 * 16 + z / 4] else none
    | _, _, _ => none
  | a :: b :: c :: d :: rest =>
    match b64Val a, b64Val b, b64Val c, b64Val d, b64Decode rest with
    | some x, some y, some z, some w, some r => some ((x * 4 + y / 16) :: (y % 16 * 16 + z / 4) :: (z % 4 * 64 + w) :: r)
    | _, _, _, _, _ => none
  | _ => none

def b64Codec : BlobCodec := ⟨b64Encode, b64Decode⟩

/-! base32hex as NSEC3 uses it (`_next_text` / `from_text`) -/

/-- lower-case base32hex digit -/
def b32Char (v : Nat) : Nat := if v < 10 then 48 + v else 87 + v

/-- `base64.b32encode(b).translate(normal→hex).lower().rstrip("=")` -/
def b32hexEncode : Bytes → List Nat
  | [] => []
  | [a] => [b32Char (a / 8), b32Char (a % 8 * 4)]
  | [a, b] => [b32Char (a / 8), b32Char (a % 8 * 4 + b / 64), b32Char (b / 2 % 32), b32Char (b % 2 * 16)]
  | [a, b, c] => [b32Char (a / 8), b32Char (a % 8 * 4 + b / 64), b32Char (b / 2 % 32), b32Char (b % 2 * 16 + c / 16),
      b32Char (c % 16 * 2)]
  | [a, b, c, d] => [b32Char (a / 8), b32Char (a % 8 * 4 + b / 64), b32Char (b / 2 % 32), b32Char (b % 2 * 16 + c / 16),
      b32Char (c % 16 * 2 + d / 128), b32Char (d / 4 % 32), b32Char (d % 4 * 8)]
  | a :: b :: c :: d :: e :: rest =>
    b32Char (a / 8) :: b32Char (a % 8 * 4 + b / 64) :: b32Char (b / 2 % 32) :: b32Char (b % 2 * 16 + c / 16) ::
      b32Char (c % 16 * 2 + d / 128) :: b32Char (d / 4 % 32) :: b32Char (d % 4 * 8 + e / 32) :: b32Char (e % 32) ::
      b32hexEncode rest

/-- value of a character after `.upper().translate(hex→normal)` in the standard base32 alphabet: the base32hex digits,
plus `W`–`Z`, which the translation leaves alone and the standard alphabet reads as 22–25 -/
def b32Val (c0 : Nat) : Option Nat :=
  let c := if 97 ≤ c0 ∧ c0 ≤ 122 then c0 - 32 else c0
  if 48 ≤ c ∧ c ≤ 57 then some (c - 48)
  else if 65 ≤ c ∧ c ≤ 86 then some (c - 55)
  else if 87 ≤ c ∧ c ≤ 90 then some (c - 65)
  else none

def b32Acc : List Nat → Nat → Option Nat
  | [], acc => some acc
  | c :: cs, acc => match b32Val c with
    | some v => b32Acc cs (acc * 32 + v)
    | none => none

def be5 (acc : Nat) : Bytes := [acc / 4294967296 % 256, acc / 16777216 % 256, acc / 65536 % 256, acc / 256 % 256, acc % 256]

/-- the NSEC3 `next` field from text: no `=` at the end, re-padded, then `base64.b32decode` (which does not check that
the unused low bits of a partial quantum are zero) -/
def b32hexDecode (s : List Nat) : Option Bytes :=
  if s.getLast? = some 61 then none
  else
    let rec go (fuel : Nat) (s : List Nat) : Option Bytes :=
      match fuel with
      | 0 => none
      | fuel + 1 =>
        if s = [] then some []
        else if s.length ≥ 8 then
          match b32Acc (s.take 8) 0, go fuel (s.drop 8) with
          | some acc, some r => some (be5 acc ++ r)
          | _, _ => none
        else
          let k := s.length
          if k = 1 ∨ k = 3 ∨ k = 6 then none
          else match b32Acc s 0 with
            | some acc => some ((be5 (acc * 32 ^ (8 - k))).take ((43 - 5 * (8 - k)) / 8))
            | none => none
    go (s.length + 1) s

/-! ## names as text fields -/

/-- `Name.choose_relativity(origin, relativize)`; an empty-name origin is falsy in Python (`if origin:`) -/
def chooseRelativity (n : Name) (origin : Option Name) (rel : Bool) : Except NameErr Name :=
  match origin with
  | none => .ok n
  | some o =>
    if o = [] then .ok n
    else if rel then relativize n o else derelativize n o

/-- `Name.to_styled_text(style)` with `omit_final_dot=False`, no IDNA -/
def nameToStyled (n : Name) (origin : Option Name) (rel : Bool) : Except NameErr Text :=
  match chooseRelativity n origin rel with
  | .ok m => .ok (toText m)
  | .error e => .error e

/-- `relativize_to or origin` (an empty name is falsy) -/
def orOrigin (relTo origin : Option Name) : Option Name :=
  match relTo with
  | some r => if r = [] then origin else some r
  | none => origin

/-- `Tokenizer.as_name(token, origin, relativize, relativize_to)` for ASCII tokens -/
def asName (t : Tok) (origin : Option Name) (rel : Bool) (relTo : Option Name) : Option Name :=
  if t.kind ≠ .ident then none
  else match fromText t.val origin with
    | .error _ => none
    | .ok n => match chooseRelativity n (orOrigin relTo origin) rel with
      | .ok m => some m
      | .error _ => none

end Model

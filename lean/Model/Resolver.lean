import Model.Name
/-!
Model of the stub resolver's decision logic: `dns/resolver.py`
(`BaseResolver._get_qnames_to_try`, `_compute_timeout`, `_Resolution.{__init__,next_request,
next_nameserver,query_result}`, the `Resolver.resolve` loop, `Answer.__init__`, the cache as a timed map)
and `dns/message.py` `QueryMessage.resolve_chaining`.

* Time is an integer number of milliseconds (`Nat`; the clock never runs backwards, so the two
  "time went backwards" branches of `_compute_timeout` are unreachable and not modelled).
* A nameserver is `(id, is_always_max_size)`; `nameserver.query` is replaced by a *script*: a finite list
  of per-query outcomes, each with a duration.  A query whose scripted duration is not below the timeout it
  was given ends in `dns.exception.Timeout` after exactly that timeout; an exhausted script times out.
* A response is abstract: rcode, QR flag, question count, the answer section as `(owner, class, type, ttl,
  first CNAME target)` per RRset and the SOA RRsets of the authority section.  Its question is the
  request's question (that a nameserver only returns genuine responses is C18's subject).
* `rotate` is off.
-/
namespace Model.Resolver
open Model

/-! ## constants of the code -/
def rcNOERROR : Nat := 0
def rcSERVFAIL : Nat := 2
def rcNXDOMAIN : Nat := 3
def rcYXDOMAIN : Nat := 6
def tyCNAME : Nat := 5
def tySOA : Nat := 6
def tyANY : Nat := 255
def clsIN : Nat := 1

/-- the three numbers that define the back-off schedule (milliseconds) -/
structure Backoff where
  init : Nat
  factor : Nat
  cap : Nat
  deriving Repr, DecidableEq

/-! ## responses and `resolve_chaining` -/

structure RRset where
  owner : Name
  rdclass : Nat
  rdtype : Nat
  ttl : Nat
  target : Name            -- target of the first rdata when `rdtype = CNAME`, unused otherwise
  deriving Repr, DecidableEq

structure Soa where
  owner : Name
  rdclass : Nat
  ttl : Nat
  minimum : Nat
  deriving Repr, DecidableEq

structure Resp where
  rcode : Nat
  qr : Bool
  qcount : Nat
  answer : List RRset
  authority : List Soa
  deriving Repr, DecidableEq

/-- name equality of the library: labels compared after ASCII case folding -/
def sameName (a b : Name) : Bool := lowerName a == lowerName b

/-- `Message.find_rrset(section, name, rdclass, rdtype)` on the answer section: first match or `KeyError` -/
def findRRset (sec : List RRset) (n : Name) (cls ty : Nat) : Option RRset :=
  sec.find? fun r => sameName r.owner n && r.rdclass == cls && r.rdtype == ty

def findSoa (sec : List Soa) (n : Name) (cls : Nat) : Option Soa :=
  sec.find? fun r => sameName r.owner n && r.rdclass == cls

structure ChainState where
  qname : Name
  answer : Option RRset
  minTtl : Nat
  cnames : List RRset
  tooLong : Bool
  deriving Repr, DecidableEq

/-- the `while count < MAX_CHAIN` loop; the fuel is `MAX_CHAIN - count` -/
def chainLoop (sec : List RRset) (cls ty : Nat) : Nat → Name → Nat → List RRset → ChainState
  | 0, q, m, cn => { qname := q, answer := none, minTtl := m, cnames := cn, tooLong := true }
  | f + 1, q, m, cn =>
    match findRRset sec q cls ty with
    | some a => { qname := q, answer := some a, minTtl := min m a.ttl, cnames := cn, tooLong := false }
    | none =>
      if ty ≠ tyCNAME then
        match findRRset sec q cls tyCNAME with
        | some c => chainLoop sec cls ty f c.target (min m c.ttl) (cn ++ [c])
        | none => { qname := q, answer := none, minTtl := m, cnames := cn, tooLong := false }
      else { qname := q, answer := none, minTtl := m, cnames := cn, tooLong := false }

/-- the negative-caching walk: SOA at `auname`, else its parent, … until `NoParent` -/
def soaWalk (auth : List Soa) (cls : Nat) : Name → Nat → Nat
  | [], m => match findSoa auth [] cls with
    | some s => min m (min s.ttl s.minimum)
    | none => m
  | l :: rest, m =>
    match findSoa auth (l :: rest) cls with
    | some s => min m (min s.ttl s.minimum)
    | none => if l = [] ∧ rest = [] then m else soaWalk auth cls rest m

inductive ChainErr where
  | notQueryResponse | formError | chainTooLong | answerForNXDOMAIN
  deriving Repr, DecidableEq

structure ChainResult where
  canonical : Name
  answer : Option RRset
  minTtl : Nat
  cnames : List RRset
  deriving Repr, DecidableEq

/-- `QueryMessage.resolve_chaining` for a response to the question `(q, cls, ty)` -/
def resolveChaining (maxChain : Nat) (r : Resp) (q : Name) (cls ty : Nat) : Except ChainErr ChainResult :=
  if !r.qr then .error .notQueryResponse
  else if r.qcount ≠ 1 then .error .formError
  else
    let c := chainLoop r.answer cls ty maxChain q Consts.maxTTL []
    if c.tooLong then .error .chainTooLong
    else if r.rcode = rcNXDOMAIN ∧ c.answer.isSome then .error .answerForNXDOMAIN
    else match c.answer with
      | some a => .ok { canonical := c.qname, answer := some a, minTtl := c.minTtl, cnames := c.cnames }
      | none => .ok { canonical := c.qname, answer := none,
                      minTtl := soaWalk r.authority cls c.qname c.minTtl, cnames := c.cnames }

/-! ## answers and the cache -/

structure Answer where
  qname : Name
  rdtype : Nat
  rdclass : Nat
  canonical : Name
  hasRRset : Bool
  minTtl : Nat              -- seconds
  expiration : Nat          -- milliseconds
  rcode : Nat               -- rcode of the response it was made from
  server : Option Nat       -- answering nameserver, `none` for the validation-only NXDOMAIN answer
  deriving Repr, DecidableEq

/-- `Answer.__init__`: chaining, then `expiration = time.time() + minimum_ttl` -/
def mkAnswer (maxChain : Nat) (q : Name) (ty cls : Nat) (qcls qty : Nat) (r : Resp) (server : Option Nat) (now : Nat) :
    Except ChainErr Answer :=
  match resolveChaining maxChain r q qcls qty with
  | .error e => .error e
  | .ok c => .ok { qname := q, rdtype := ty, rdclass := cls, canonical := c.canonical,
                   hasRRset := c.answer.isSome, minTtl := c.minTtl, expiration := now + 1000 * c.minTtl,
                   rcode := r.rcode, server := server }

/-- cache key `(name, rdtype, rdclass)`; names are keyed by their case-folded form (`Name.__hash__`/`__eq__`) -/
abbrev Key := Name × Nat × Nat

def mkKey (n : Name) (ty cls : Nat) : Key := (lowerName n, ty, cls)

abbrev Cache := List (Key × Answer)

/-- `Cache.get`: the entry if present and not expired (`expiration <= now` is a miss).  The periodic sweep only
deletes entries this function already treats as absent. -/
def cacheGet (c : Cache) (k : Key) (now : Nat) : Option Answer :=
  match c.find? (fun e => e.1 == k) with
  | some e => if e.2.expiration ≤ now then none else some e.2
  | none => none

/-- `Cache.put` -/
def cachePut (c : Cache) (k : Key) (a : Answer) : Cache :=
  (c.filter fun e => !(e.1 == k)) ++ [(k, a)]

/-! ## configuration, request, script -/

structure Server where
  id : Nat
  alwaysMax : Bool
  deriving Repr, DecidableEq

structure Config where
  servers : List Server
  search : List Name
  domain : Option Name
  ndots : Option Nat
  useSearchByDefault : Bool
  timeout : Nat              -- ms
  lifetime : Nat             -- ms
  retryServfail : Bool
  cacheOn : Bool
  deriving Repr

structure Request where
  qname : Name
  rdtype : Nat
  rdclass : Nat
  tcp : Bool
  raiseOnNoAnswer : Bool
  search : Option Bool
  lifetime : Option Nat      -- ms
  deriving Repr

inductive ExKind where
  | formError | eof | os | notImpl      -- "this nameserver is no good"
  | truncated
  | timeout                              -- dns.exception.Timeout
  | other                                -- any other exception
  deriving Repr, DecidableEq

inductive Outcome where
  | resp (r : Resp)
  | exc (k : ExKind)
  deriving Repr, DecidableEq

structure ScriptStep where
  out : Outcome
  dur : Nat
  deriving Repr, DecidableEq

/-- one scripted `nameserver.query(request, timeout=…)`: outcome, elapsed time, rest of the script -/
def doQuery (script : List ScriptStep) (timeout : Nat) : Outcome × Nat × List ScriptStep :=
  match script with
  | [] => (.exc .timeout, timeout, [])
  | s :: rest =>
    if s.dur < timeout then
      match s.out with
      | .exc .timeout => (.exc .timeout, timeout, rest)
      | o => (o, s.dur, rest)
    else (.exc .timeout, timeout, rest)

/-! ## `_get_qnames_to_try` -/

def root : Name := [[]]

/-- `qname + suffix` for every suffix, left to right; the first failing concatenation raises -/
def concatAll (q : Name) : List Name → Except NameErr (List Name)
  | [] => .ok []
  | s :: rest =>
    match concatenate q s with
    | .error e => .error e
    | .ok c =>
      match concatAll q rest with
      | .error e => .error e
      | .ok cs => .ok (c :: cs)

/-- the search list in force: `search` if non-empty, else the domain unless it is the root -/
def searchList (cfg : Config) : List Name :=
  if cfg.search.length > 0 then cfg.search
  else match cfg.domain with
    | some d => if !(sameName d root) then [d] else []
    | none => []

def getQnamesToTry (cfg : Config) (qname : Name) (search : Option Bool) : Except NameErr (List Name) :=
  let search := search.getD cfg.useSearchByDefault
  if isAbs qname then .ok [qname]
  else
    match concatenate qname root with
    | .error e => .error e
    | .ok absQ =>
      if search then
        let ndots := cfg.ndots.getD 1
        match concatAll qname (searchList cfg) with
        | .error e => .error e
        | .ok cands =>
          if qname.length > ndots then .ok (absQ :: cands) else .ok (cands ++ [absQ])
      else .ok [absQ]

/-! ## the resolution state machine -/

inductive Result where
  | answer (a : Answer)
  | nxdomain (qnames : List Name) (responses : List Name)
  | noAnswer
  | yxdomain
  | noNameservers
  | lifetimeTimeout
  | nameError (e : NameErr)
  | noMetaqueries
  | outOfFuel
  deriving Repr, DecidableEq

/-- what the resolution does to the outside world, in order -/
inductive Event where
  | candidate (qname : Name)        -- ghost: `next_request` built a request for this candidate (not observable)
  | sleep (ms : Nat)
  | query (qname : Name) (server : Server) (tcp : Bool) (timeout : Nat) (out : Outcome)
  deriving Repr, DecidableEq

/-- fixed data of one `resolve` call -/
structure Env where
  cfg : Config
  bo : Backoff
  clipSleep : Bool           -- false = as shipped (the back-off sleep ignores the lifetime); true = intended (clipped)
  maxChain : Nat
  rdtype : Nat
  rdclass : Nat
  tcp : Bool
  raiseOnNoAnswer : Bool
  lifetime : Nat
  start : Nat
  qnamesToTry : List Name
  deriving Repr

inductive Phase where
  | needRequest | querying
  deriving Repr, DecidableEq

/-- `_Resolution` fields plus the world (clock, cache, script) -/
structure St where
  phase : Phase
  qnames : List Name
  qname : Name
  nxNames : List Name
  nameservers : List Server
  current : List Server
  nameserver : Option Server
  tcpAttempt : Bool
  retryWithTcp : Bool
  backoff : Nat
  now : Nat
  cache : Cache
  script : List ScriptStep
  deriving Repr

def recordNx (nx : List Name) (n : Name) : List Name :=
  if nx.any (fun m => sameName m n) then nx else nx ++ [n]

inductive NextReq where
  | raise (r : Result)
  | hit (a : Answer)
  | request (st : St)

/-- `_Resolution.next_request`: the `while len(self.qnames) > 0` loop -/
def nextRequest (env : Env) : List Name → St → NextReq
  | [], st => .raise (.nxdomain env.qnamesToTry st.nxNames)
  | q :: rest, st =>
    let build : St → NextReq := fun st =>
      .request { st with phase := .querying, qnames := rest, qname := q,
                         nameservers := env.cfg.servers, current := env.cfg.servers, nameserver := none,
                         tcpAttempt := false, retryWithTcp := false, backoff := env.bo.init }
    if env.cfg.cacheOn then
      match cacheGet st.cache (mkKey q env.rdtype env.rdclass) st.now with
      | some a =>
        if !a.hasRRset && env.raiseOnNoAnswer then .raise .noAnswer else .hit a
      | none =>
        match cacheGet st.cache (mkKey q tyANY env.rdclass) st.now with
        | some a =>
          if a.rcode = rcNXDOMAIN then
            nextRequest env rest { st with qnames := rest, qname := q, nxNames := recordNx st.nxNames q }
          else build st
        | none => build st
    else build st

inductive NextNs where
  | raise (r : Result)
  | ok (ns : Server) (tcp : Bool) (backoff : Nat) (st : St)

/-- `_Resolution.next_nameserver` -/
def nextNameserver (env : Env) (st : St) : NextNs :=
  if st.retryWithTcp then
    match st.nameserver with
    | some ns => .ok ns true 0 { st with tcpAttempt := true, retryWithTcp := false }
    | none => .raise .noNameservers      -- unreachable (`assert self.nameserver is not None`)
  else
    match st.current with
    | [] =>
      match st.nameservers with
      | [] => .raise .noNameservers
      | ns :: rest =>
        let t := env.tcp || ns.alwaysMax
        .ok ns t st.backoff { st with current := rest, nameserver := some ns, tcpAttempt := t,
                                      backoff := min (st.backoff * env.bo.factor) env.bo.cap }
    | ns :: rest =>
      let t := env.tcp || ns.alwaysMax
      .ok ns t 0 { st with current := rest, nameserver := some ns, tcpAttempt := t }

/-- `BaseResolver._compute_timeout` on a monotone clock: `none` = `LifetimeTimeout` -/
def computeTimeout (env : Env) (now : Nat) : Option Nat :=
  let duration := now - env.start
  if duration ≥ env.lifetime then none else some (min (env.lifetime - duration) env.cfg.timeout)

/-- `BaseResolver._compute_timeout` on an arbitrary clock, which may also run backwards (`start`, `now` in integer
milliseconds): a step back of at most one second is treated as no time elapsed, a larger one gives up. -/
def computeTimeoutZ (lifetime timeout : Nat) (start now : Int) : Option Nat :=
  let d := now - start
  if d < 0 then
    if d < -1000 then none
    else if lifetime = 0 then none else some (min lifetime timeout)
  else if d ≥ (lifetime : Int) then none
  else some (min (lifetime - d.toNat) timeout)

inductive QR where
  | raise (r : Result) (st : St)
  | ret (a : Option Answer) (done : Bool) (st : St)

def removeNs (st : St) (ns : Server) : St := { st with nameservers := st.nameservers.erase ns }

/-- `_Resolution.query_result`, every branch -/
def queryResult (env : Env) (st : St) (ns : Server) (out : Outcome) : QR :=
  match out with
  | .exc k =>
    match k with
    | .formError | .eof | .os | .notImpl => .ret none false (removeNs st ns)
    | .truncated =>
      if st.tcpAttempt then .ret none false (removeNs st ns)
      else .ret none false { st with retryWithTcp := true }
    | .timeout | .other => .ret none false st
  | .resp r =>
    if r.rcode = rcNOERROR then
      match mkAnswer env.maxChain st.qname env.rdtype env.rdclass env.rdclass env.rdtype r (some ns.id) st.now with
      | .error _ => .ret none false (removeNs st ns)
      | .ok a =>
        let st1 := if env.cfg.cacheOn then
            { st with cache := cachePut st.cache (mkKey st.qname env.rdtype env.rdclass) a } else st
        if !a.hasRRset && env.raiseOnNoAnswer then .raise .noAnswer st1
        else .ret (some a) true st1
    else if r.rcode = rcNXDOMAIN then
      match mkAnswer env.maxChain st.qname tyANY clsIN env.rdclass env.rdtype r none st.now with
      | .error _ => .ret none false (removeNs st ns)
      | .ok a =>
        let st1 := { st with nxNames := recordNx st.nxNames st.qname }
        let st2 := if env.cfg.cacheOn then
            { st1 with cache := cachePut st1.cache (mkKey st.qname tyANY env.rdclass) a } else st1
        .ret none true st2
    else if r.rcode = rcYXDOMAIN then .raise .yxdomain st
    else
      if r.rcode ≠ rcSERVFAIL || !env.cfg.retryServfail then .ret none false (removeNs st ns)
      else .ret none false st

/-- `if backoff: time.sleep(backoff)`.  As shipped the sleep ignores the lifetime; the intended variant
(`time.sleep(min(backoff, max(0, start + lifetime - now)))`) never sleeps past it. -/
def sleepFor (env : Env) (backoff now : Nat) : Nat :=
  if env.clipSleep then min backoff (env.lifetime - (now - env.start)) else backoff

inductive StepR where
  | cont (evs : List Event) (st : St)
  | done (evs : List Event) (r : Result) (st : St)

/-- the rest of one pass of the inner loop once `next_nameserver` has picked `(ns, tcp, backoff)`:
sleep, `_compute_timeout`, the query, `query_result` -/
def afterPick (env : Env) (qname : Name) (ns : Server) (tcp : Bool) (backoff : Nat) (st1 : St) : StepR :=
  let ms := sleepFor env backoff st1.now
  let evs0 : List Event := if backoff ≠ 0 then [.sleep ms] else []
  let st2 := { st1 with now := st1.now + ms }
  match computeTimeout env st2.now with
  | none => .done evs0 .lifetimeTimeout st2
  | some timeout =>
    let q := doQuery st2.script timeout
    let st3 := { st2 with now := st2.now + q.2.1, script := q.2.2 }
    let evs := evs0 ++ [.query qname ns tcp timeout q.1]
    match queryResult env st3 ns q.1 with
    | .raise r st4 => .done evs r st4
    | .ret (some a) _ st4 => .done evs (.answer a) st4
    | .ret none done st4 =>
      .cont evs (if done then { st4 with phase := .needRequest } else st4)

/-- one iteration of the `resolve` loops: either `next_request`, or one pass of the inner `while not done` -/
def step (env : Env) (st : St) : StepR :=
  match st.phase with
  | .needRequest =>
    match nextRequest env st.qnames st with
    | .raise r => .done [] r st
    | .hit a => .done [] (.answer a) st
    | .request st' => .cont [.candidate st'.qname] st'
  | .querying =>
    match nextNameserver env st with
    | .raise r => .done [] r st
    | .ok ns tcp backoff st1 => afterPick env st.qname ns tcp backoff st1

/-- iterate `step`; the fuel is an upper bound on the number of iterations (`Props/C16` shows `fuelBound` suffices) -/
def run (env : Env) : Nat → St → List Event × Result × St
  | 0, st => ([], .outOfFuel, st)
  | fuel + 1, st =>
    match step env st with
    | .done evs r st' => (evs, r, st')
    | .cont evs st' =>
      let (evs', r, st'') := run env fuel st'
      (evs ++ evs', r, st'')

/-- number of re-armings that can still pass the lifetime test, given the smallest back-off -/
def roundsLeft (bo : Backoff) (lifetime elapsed : Nat) : Nat :=
  (lifetime - elapsed + (bo.init - 1)) / bo.init

/-- enough iterations for any script: see `C16.terminates_within_lifetime` -/
def fuelBound (bo : Backoff) (nservers ncands lifetime : Nat) : Nat :=
  (2 * nservers + 2) * ncands + 2 * nservers * roundsLeft bo lifetime 0 + 1

def isMetatype (ty : Nat) : Bool := (decide (128 ≤ ty) && decide (ty < 256)) || Consts.metatypes.contains ty
def isMetaclass (cls : Nat) : Bool := cls == 254 || cls == 255

def initSt (now : Nat) (cache : Cache) (script : List ScriptStep) (qnames : List Name) : St :=
  { phase := .needRequest, qnames := qnames, qname := [], nxNames := [], nameservers := [], current := [],
    nameserver := none, tcpAttempt := false, retryWithTcp := false, backoff := 0, now := now, cache := cache,
    script := script }

def mkEnv (cfg : Config) (bo : Backoff) (clip : Bool) (maxChain : Nat) (req : Request) (now : Nat) (qnames : List Name) : Env :=
  { cfg := cfg, bo := bo, clipSleep := clip, maxChain := maxChain, rdtype := req.rdtype, rdclass := req.rdclass, tcp := req.tcp,
    raiseOnNoAnswer := req.raiseOnNoAnswer, lifetime := req.lifetime.getD cfg.lifetime, start := now,
    qnamesToTry := qnames }

/-- `Resolver.resolve`: `_Resolution.__init__` (meta-query test, candidate names), then the loop -/
def resolve (cfg : Config) (bo : Backoff) (clip : Bool) (maxChain : Nat) (req : Request) (now : Nat) (cache : Cache)
    (script : List ScriptStep) : List Event × Result × St :=
  if isMetatype req.rdtype || isMetaclass req.rdclass then ([], .noMetaqueries, initSt now cache script [])
  else
    match getQnamesToTry cfg req.qname req.search with
    | .error e => ([], .nameError e, initSt now cache script [])
    | .ok qnames =>
      let env := mkEnv cfg bo clip maxChain req now qnames
      run env (fuelBound bo cfg.servers.length qnames.length env.lifetime) (initSt now cache script qnames)

end Model.Resolver

import Model.Bytes
import Model.Name
/-!
Model of the key-free DNSSEC computations of dnspython (property C15):

* `Rdata.to_digestable` / `Rdata.to_wire` seen as a list of fields (opaque octets or an embedded name) whose
  per-(class,type,field) canonicalisation flag comes from a behavioural table regenerated from the code
  (`Generated/C15.lean`; the table is a *parameter* here so that proofs do not rebuild when it changes);
* `DNSKEYBase.key_id`, `dns.dnssec._make_rrsig_signature_data`, `make_ds` (input composition),
  `nsec3_hash` (hash as a parameter), `Bitmap.from_rdtypes`/`to_wire`, `_sign_zone_nsec`,
  `Zone._compute_digest` (hash input).

Everything follows the code branch by branch, including its error order and the places where the code
tests a `Name` for truthiness (`if last_secure:` — a name of zero labels is falsy).
-/
namespace Model
namespace Dnssec

/-! ## errors (families the property can observe) -/

inductive DErr where
  | needAbsolute | validation | value | unsupported | denied | name (e : NameErr)
  | unsupportedDigestHash | unsupportedDigestScheme
  deriving DecidableEq, Repr

def DErr.toString : DErr → String
  | .needAbsolute => "NeedAbsoluteNameOrOrigin" | .validation => "ValidationFailure"
  | .value => "ValueError" | .unsupported => "UnsupportedAlgorithm" | .denied => "DeniedByPolicy"
  | .name e => e.toString
  | .unsupportedDigestHash => "UnsupportedDigestHashAlgorithm" | .unsupportedDigestScheme => "UnsupportedDigestScheme"

def liftName {α} : Except NameErr α → Except DErr α
  | .ok a => .ok a
  | .error e => .error (.name e)

/-! ## struct.pack big-endian -/

def be16 (n : Nat) : Bytes := [n / 256 % 256, n % 256]
def be32 (n : Nat) : Bytes := [n / 16777216 % 256, n / 65536 % 256, n / 256 % 256, n % 256]

/-! ## stable sort (`sorted`) -/

def insertBy {α} (le : α → α → Bool) (x : α) : List α → List α
  | [] => [x]
  | y :: ys => if le x y then x :: y :: ys else y :: insertBy le x ys

def insSort {α} (le : α → α → Bool) : List α → List α
  | [] => []
  | x :: xs => insertBy le x (insSort le xs)

/-- Python `bytes.__le__` -/
def bytesLe (a b : Bytes) : Bool := decide (cmpBytes a b ≤ 0)
/-- `Name.__le__` (canonical DNSSEC order through `fullcompare`) -/
def nameLe (a b : Name) : Bool := decide (cmpOrder a b ≤ 0)

/-! ## names -/

/-- `Name.to_wire(file=None, origin=…, canonicalize=…)`: the branch without a file (used by
`Name.to_digestable`): no re-validation of the concatenation. -/
def nameWireNoFile (n : Name) (origin : Option Name) (canon : Bool) : Except DErr Bytes :=
  let f := fun (m : Name) => toWire (if canon then lowerName m else m)
  if isAbs n then .ok (f n)
  else match origin with
    | some o => if isAbs o then .ok (f n ++ f o) else .error .needAbsolute
    | none => .error .needAbsolute

/-- `Name.to_wire(file, None, origin, canonicalize)`: the branch with a file and no compression table (what
every `_to_wire` of an rdata calls): `Name(labels[i:])` re-validates the concatenation with the origin. -/
def nameWireFile (n : Name) (origin : Option Name) (canon : Bool) : Except DErr Bytes :=
  let f := fun (m : Name) => toWire (if canon then lowerName m else m)
  if isAbs n then .ok (f n)
  else match origin with
    | some o =>
      if isAbs o then
        match validate (n ++ o) with
        | .ok m => .ok (f m)
        | .error e => .error (.name e)
      else .error .needAbsolute
    | none => .error .needAbsolute

/-- `Name.to_digestable(origin)` -/
def nameDigestable (n : Name) (origin : Option Name) : Except DErr Bytes := nameWireNoFile n origin true

/-! ## rdata as a field list; canonical form -/

inductive Field where
  | raw (b : Bytes)
  | name (n : Name)
  deriving Repr, DecidableEq

abbrev Rdata := List Field

/-- (class, type, slot, lowered, compressed, anomaly) -/
abbrev CanonEntry := Nat × Nat × Nat × Bool × Bool × Bool
abbrev CanonTable := List CanonEntry

def classANY : Nat := 255

def findEntry (t : CanonTable) (cls ty slot : Nat) : Option CanonEntry :=
  t.find? (fun e => e.1 == cls && e.2.1 == ty && e.2.2.1 == slot)

/-- `get_rdata_class(rdclass, rdtype)`: class-specific implementation first, then the class-independent one;
a field that is not in the table belongs to `GenericRdata` (opaque) or has no name: never lower-cased. -/
def lowered (t : CanonTable) (cls ty slot : Nat) : Bool :=
  match findEntry t cls ty slot with
  | some e => e.2.2.2.1
  | none =>
    match findEntry t classANY ty slot with
    | some e => e.2.2.2.1
    | none => false

/-- `_to_wire(file, None, origin, canonicalize)` of an rdata: fields in order; the `k`-th embedded name is
written with `canonicalize` as the implementation of that type passes it on (`lower k`). -/
def fieldsWire (lower : Nat → Bool) (origin : Option Name) : Rdata → Nat → Except DErr Bytes
  | [], _ => .ok []
  | .raw b :: rest, k =>
    match fieldsWire lower origin rest k with
    | .ok r => .ok (b ++ r)
    | .error e => .error e
  | .name n :: rest, k =>
    match nameWireFile n origin (lower k) with
    | .error e => .error e
    | .ok w =>
      match fieldsWire lower origin rest (k + 1) with
      | .ok r => .ok (w ++ r)
      | .error e => .error e

/-- `Rdata.to_digestable(origin)` -/
def toDigestable (t : CanonTable) (cls ty : Nat) (rd : Rdata) (origin : Option Name) : Except DErr Bytes :=
  fieldsWire (lowered t cls ty) origin rd 0

/-- `Rdata.to_wire(origin=origin)` (no file, no compression table) -/
def toWirePlain (rd : Rdata) (origin : Option Name) : Except DErr Bytes :=
  fieldsWire (fun _ => false) origin rd 0

def mapExcept {α β ε} (f : α → Except ε β) : List α → Except ε (List β)
  | [] => .ok []
  | x :: xs =>
    match f x with
    | .error e => .error e
    | .ok y =>
      match mapExcept f xs with
      | .ok ys => .ok (y :: ys)
      | .error e => .error e

/-! ## key tag (`DNSKEYBase.key_id`) -/

/-- the `for i in range(len(wire) // 2)` loop plus the odd trailing octet -/
def keyIdSum : Bytes → Nat
  | a :: b :: rest => (a * 256 + b) + keyIdSum rest
  | [a] => a * 256
  | [] => 0

/-- `key_id()` on the RDATA wire form (flags, protocol, algorithm, key).  A DNSKEY RDATA has at least 4
octets, so `wire[-3]`/`wire[-2]` exist. -/
def keyId (algRSAMD5 : Nat) (wire : Bytes) : Nat :=
  if wire.getD 3 0 = algRSAMD5 then
    wire.getD (wire.length - 3) 0 * 256 + wire.getD (wire.length - 2) 0
  else
    let total := keyIdSum wire
    (total + total / 65536 % 65536) % 65536

/-! ## RRSIG signing input (`_make_rrsig_signature_data`) -/

structure RRSig where
  typeCovered : Nat
  algorithm : Nat
  labels : Nat
  originalTtl : Nat
  expiration : Nat
  inception : Nat
  keyTag : Nat
  signer : Name
  deriving Repr

/-- first 18 octets of the RRSIG RDATA (`struct.pack("!HBBIIIH", …)`) -/
def rrsigHeader (s : RRSig) : Bytes :=
  be16 s.typeCovered ++ [s.algorithm, s.labels] ++ be32 s.originalTtl ++ be32 s.expiration ++
    be32 s.inception ++ be16 s.keyTag

def wildLabel : Label := [42]

def derelativizeD (n : Name) (origin : Option Name) : Except DErr Name :=
  if isAbs n then .ok n
  else match origin with
    | none => .error .validation
    | some o => liftName (concatenate n o)

def rrRecord (owner fixed rdata : Bytes) : Bytes := owner ++ fixed ++ be16 rdata.length ++ rdata

def rrsigData (t : CanonTable) (sig : RRSig) (origin : Option Name)
    (rrname : Name) (rdtype rdclass : Nat) (rdatas : List Rdata) : Except DErr Bytes :=
  -- signer = rrsig.signer, derelativized
  match derelativizeD sig.signer origin with
  | .error e => .error e
  | .ok signer =>
  -- wire = rrsig.to_wire(origin=signer); only wire[:18] is used but the whole RDATA is rendered
  match nameWireFile sig.signer (some signer) false with
  | .error e => .error e
  | .ok _ =>
  -- `data += signer.to_digestable()` (commit b931905; before it: `rrsig.signer.to_digestable(signer)`)
  match nameDigestable signer none with
  | .error e => .error e
  | .ok signerBuf =>
  match derelativizeD rrname origin with
  | .error e => .error e
  | .ok rrname =>
  let nameLen := rrname.length
  -- `rrname.is_wild() and rrsig.labels != name_len - 2`  (Python ints: name_len - 2 may be negative)
  if rrname.head? = some wildLabel ∧ (sig.labels : Int) ≠ (nameLen : Int) - 2 then .error .validation
  else if (nameLen : Int) - 1 < (sig.labels : Int) then .error .validation
  else
    let owner : Name :=
      if (sig.labels : Int) < (nameLen : Int) - 1 then
        -- suffix = rrname.split(labels + 1)[1];  rrname = from_text("*", suffix)
        wildLabel :: rrname.drop (nameLen - (sig.labels + 1))
      else rrname
    match nameDigestable owner none with
    | .error e => .error e
    | .ok rrnamebuf =>
    let rrfixed := be16 rdtype ++ be16 rdclass ++ be32 sig.originalTtl
    match mapExcept (fun rd => toDigestable t rdclass rdtype rd origin) rdatas with
    | .error e => .error e
    | .ok ds =>
      .ok (rrsigHeader sig ++ signerBuf ++ (insSort bytesLe ds).flatMap (rrRecord rrnamebuf rrfixed))

/-! ## DS / CDS (`make_ds`) -/

/-- what is fed to the hash: canonical owner wire form, then the DNSKEY RDATA -/
def dsInput (name : Name) (keyWire : Bytes) : Except DErr Bytes :=
  -- `name.canonicalize().to_wire()`: no origin
  match nameWireNoFile (lowerName name) none false with
  | .error e => .error e
  | .ok w => .ok (w ++ keyWire)

/-- `make_ds` up to the digest: policy check, digest selection, input composition and the 4 fixed octets
of the DS RDATA.  `deny` is the policy's `deny_create_ds` set; supported digests are SHA1/SHA256/SHA384. -/
def makeDsParts (algRSAMD5 : Nat) (deny : List Nat) (name : Name) (keyWire : Bytes) (digestType : Nat) :
    Except DErr (Bytes × Bytes) :=
  if digestType ∈ deny then .error .denied
  else if digestType ≠ 1 ∧ digestType ≠ 2 ∧ digestType ≠ 4 then .error .unsupported
  else match dsInput name keyWire with
    | .error e => .error e
    | .ok inp => .ok (be16 (keyId algRSAMD5 keyWire) ++ [keyWire.getD 3 0, digestType], inp)

def makeDs (H : Bytes → Bytes) (algRSAMD5 : Nat) (deny : List Nat) (name : Name) (keyWire : Bytes)
    (digestType : Nat) : Except DErr Bytes :=
  match makeDsParts algRSAMD5 deny name keyWire digestType with
  | .error e => .error e
  | .ok (pre, inp) => .ok (pre ++ H inp)

/-! ## NSEC3 hash -/

/-- the `for _ in range(iterations)` loop -/
def nsec3Iter (H : Bytes → Bytes) (salt : Bytes) : Nat → Bytes → Bytes
  | 0, d => d
  | k + 1, d => nsec3Iter H salt k (H (d ++ salt))

def b32Std (i : Nat) : Nat := if i < 26 then 65 + i else 24 + i          -- A-Z 2-7
def b32Hex (i : Nat) : Nat := if i < 10 then 48 + i else 55 + i          -- 0-9 A-V

/-- the 8 symbols of one 5-octet group -/
def b32Group (alpha : Nat → Nat) (a b c d e : Nat) : List Nat :=
  let n := (((a * 256 + b) * 256 + c) * 256 + d) * 256 + e
  [alpha (n / 34359738368 % 32), alpha (n / 1073741824 % 32), alpha (n / 33554432 % 32),
   alpha (n / 1048576 % 32), alpha (n / 32768 % 32), alpha (n / 1024 % 32), alpha (n / 32 % 32), alpha (n % 32)]

/-- `base64.b32encode` (RFC 4648 §6 with `=` padding), parametrised by the alphabet -/
def b32encode (alpha : Nat → Nat) : Bytes → List Nat
  | a :: b :: c :: d :: e :: rest => b32Group alpha a b c d e ++ b32encode alpha rest
  | [a, b, c, d] => (b32Group alpha a b c d 0).take 7 ++ [61]
  | [a, b, c] => (b32Group alpha a b c 0 0).take 5 ++ [61, 61, 61]
  | [a, b] => (b32Group alpha a b 0 0 0).take 4 ++ [61, 61, 61, 61]
  | [a] => (b32Group alpha a 0 0 0 0).take 2 ++ [61, 61, 61, 61, 61, 61]
  | [] => []

/-- `str.translate(b32_conversion)`: `"ABCDEFGHIJKLMNOPQRSTUVWXYZ234567"` ↦ `"0123456789ABCDEFGHIJKLMNOPQRSTUV"` -/
def b32Translate (c : Nat) : Nat :=
  if 65 ≤ c ∧ c ≤ 90 then b32Hex (c - 65)
  else if 50 ≤ c ∧ c ≤ 55 then b32Hex (c - 24)
  else c

/-- `nsec3_hash(domain, salt, iterations, algorithm)` for a `Name` domain and bytes/None salt -/
def nsec3Hash (H : Bytes → Bytes) (domain : Name) (salt : Bytes) (iterations : Nat) (algorithm : Nat) :
    Except DErr (List Nat) :=
  if algorithm ≠ 1 then .error .value
  else match nameWireNoFile (lowerName domain) none false with
    | .error e => .error e
    | .ok w => .ok ((b32encode b32Std (nsec3Iter H salt iterations (H (w ++ salt)))).map b32Translate)

/-! ### argument normalisation of `nsec3_hash` (ASCII text only; IDNA is outside the model) -/

/-- ASCII whitespace skipped by `bytes.fromhex` between octets -/
def hexWs (c : Nat) : Bool := c == 32 || c == 9 || c == 10 || c == 13 || c == 11 || c == 12

def hexValN (c : Nat) : Option Nat :=
  if 48 ≤ c ∧ c ≤ 57 then some (c - 48)
  else if 97 ≤ c ∧ c ≤ 102 then some (c - 87)
  else if 65 ≤ c ∧ c ≤ 70 then some (c - 55)
  else none

/-- `bytes.fromhex(text)` -/
def pyFromHex : List Nat → Option Bytes
  | [] => some []
  | [c] => if hexWs c then some [] else none
  | c :: d :: rest =>
    if hexWs c then pyFromHex (d :: rest)
    else match hexValN c, hexValN d, pyFromHex rest with
      | some x, some y, some r => some ((16 * x + y) :: r)
      | _, _, _ => none

inductive SaltArg where
  | none | text (t : List Nat) | bytes (b : Bytes)
  deriving Repr

/-- `None` -> empty; `str` -> even length required, then `bytes.fromhex`; `bytes` as is -/
def saltEncode : SaltArg → Except DErr Bytes
  | .none => .ok []
  | .bytes b => .ok b
  | .text t =>
    if t.length % 2 = 0 then
      match pyFromHex t with
      | some b => .ok b
      | none => .error .value
    else .error .value

inductive AlgArg where
  | num (n : Nat) | text (t : List Nat)
  deriving Repr

def upperOctet (c : Nat) : Nat := if 97 ≤ c ∧ c ≤ 122 then c - 32 else c

/-- `NSEC3Hash[algorithm.upper()]` for a string (the enum has the single member SHA1 = 1), the integer itself otherwise -/
def algDecode : AlgArg → Except DErr Nat
  | .num n => .ok n
  | .text t => if t.map upperOctet = [83, 72, 65, 49] then .ok 1 else .error .value

inductive DomainArg where
  | name (n : Name) | text (t : List Nat)
  deriving Repr

/-- `dns.name.from_text(domain)` (origin defaults to the root) for a string -/
def domainDecode : DomainArg → Except DErr Name
  | .name n => .ok n
  | .text t => liftName (fromText t (some [[]]))

/-- `nsec3_hash(domain, salt, iterations, algorithm)` with every accepted argument form; checks in code order:
algorithm, salt, domain -/
def nsec3HashArgs (H : Bytes → Bytes) (domain : DomainArg) (salt : SaltArg) (iterations : Nat) (alg : AlgArg) :
    Except DErr (List Nat) :=
  match algDecode alg with
  | .error e => .error e
  | .ok a =>
    if a ≠ 1 then .error .value
    else match saltEncode salt with
      | .error e => .error e
      | .ok s =>
        match domainDecode domain with
        | .error e => .error e
        | .ok n => nsec3Hash H n s iterations 1

/-- the owner name of the NSEC3 record for `domain` in zone `zone`, as callers build it:
`dns.name.from_text(nsec3_hash(…), zone)` (RFC 5155 §3: the base32hex hash as one label prepended to the zone name) -/
def nsec3Owner (H : Bytes → Bytes) (domain : DomainArg) (salt : SaltArg) (iterations : Nat) (alg : AlgArg) (zone : Name) :
    Except DErr Name :=
  match nsec3HashArgs H domain salt iterations alg with
  | .error e => .error e
  | .ok h => liftName (fromText h (some zone))

/-! ## type bitmaps (`Bitmap.from_rdtypes`, `Bitmap.to_wire`) -/

structure BmState where
  window : Nat
  octets : Nat
  prior : Nat
  bitmap : Bytes
  windows : List (Nat × Bytes)
  deriving Repr

def bmInit : BmState := { window := 0, octets := 0, prior := 0, bitmap := List.replicate 32 0, windows := [] }

def bmFlush (s : BmState) : List (Nat × Bytes) :=
  if s.octets ≠ 0 then s.windows ++ [(s.window, s.bitmap.take s.octets)] else s.windows

/-- one iteration of `for rdtype in rdtypes` -/
def bmStep (s : BmState) (rdtype : Nat) : BmState :=
  if rdtype = s.prior then s
  else
    let newWindow := rdtype / 256
    let s1 : BmState :=
      if newWindow ≠ s.window then
        { s with windows := bmFlush s, bitmap := List.replicate 32 0, window := newWindow, prior := rdtype }
      else { s with prior := rdtype }
    let offset := rdtype % 256
    let byte := offset / 8
    let bit := offset % 8
    { s1 with octets := byte + 1, bitmap := s1.bitmap.set byte (s1.bitmap.getD byte 0 ||| (0x80 >>> bit)) }

def natLe (a b : Nat) : Bool := decide (a ≤ b)

def fromRdtypes (rdtypes : List Nat) : List (Nat × Bytes) :=
  bmFlush ((insSort natLe rdtypes).foldl bmStep bmInit)

def bitmapWire (ws : List (Nat × Bytes)) : Bytes :=
  ws.flatMap fun w => w.1 :: w.2.length :: w.2

/-! ## NSEC chain (`_sign_zone_nsec`) -/

/-- a node of the transaction as the walk sees it: owner name as stored (relative in a relativized zone)
and the rdatatypes of its rdatasets in node order -/
structure ZNode where
  name : Name
  types : List Nat
  deriving Repr, DecidableEq

inductive Evt where
  | sign (name : Name) (rdtype : Nat)                       -- `rrset_signer(txn, rrset)`
  | nsec (owner next : Name) (windows : List (Nat × Bytes)) -- `txn.add(NSEC rrset)`
  deriving Repr

/-- Python truthiness of a `Name`: `__len__() != 0` -/
def truthy (n : Name) : Bool := n.length != 0

structure NsecConsts where
  tNS : Nat
  tDS : Nat
  tRRSIG : Nat
  tNSEC : Nat

def lookupNode (nodes : List ZNode) (n : Name) : Option ZNode :=
  nodes.find? (fun z => nameEq z.name n)

/-- the types of `node` that are announced in its NSEC bitmap (before RRSIG and NSEC are added): at a
delegation point only NS and DS (dnspython commit 61a6394, RFC 4035 §2.3; before it: every rdataset of the node).
The code passes `last_secure_is_delegation = bool(delegation)`, recorded when the name was visited; that value is
`optTruthy (newDeleg …)` of the node, i.e. exactly this test on the node itself (`optTruthy_newDeleg` in
Proofs/DnssecSignSet). -/
def nsecTypes (c : NsecConsts) (zorigin : Name) (node : ZNode) : List Nat :=
  if node.types.contains c.tNS && !(nameEq node.name zorigin) && truthy node.name then
    node.types.filter fun t => t == c.tNS || t == c.tDS
  else node.types

/-- `_txn_add_nsec` -/
def addNsec (c : NsecConsts) (zorigin : Name) (nodes : List ZNode) (withSigner : Bool) (name next : Name) : List Evt :=
  match lookupNode nodes name with
  | none => []
  | some node =>
    if node.types.length != 0 && truthy next then
      [Evt.nsec name next (fromRdtypes (nsecTypes c zorigin node ++ [c.tRRSIG, c.tNSEC]))] ++
        (if withSigner then [Evt.sign name c.tNSEC] else [])
    else []

structure WalkSt where
  delegation : Option Name
  lastSecure : Option Name
  out : List Evt

def optTruthy : Option Name → Bool
  | some d => truthy d
  | none => false

/-- `delegation and name.is_subdomain(delegation)` -/
def skipTest (deleg : Option Name) (name : Name) : Bool :=
  match deleg with
  | some d => truthy d && isSubdomain name d
  | none => false

/-- the `rrset_signer` calls for one node: everything but RRSIGs; at a delegation only DS -/
def signEvts (c : NsecConsts) (withSigner : Bool) (deleg : Option Name) (node : ZNode) : List Evt :=
  if withSigner then
    node.types.filterMap fun ty =>
      if ty = c.tRRSIG then none
      else if optTruthy deleg && ty != c.tDS then none
      else some (Evt.sign node.name ty)
  else []

/-- `if last_secure is not None: _txn_add_nsec(txn, last_secure, name, …)` -/
def linkFrom (c : NsecConsts) (zorigin : Name) (nodes : List ZNode) (withSigner : Bool) (last : Option Name) (name : Name) : List Evt :=
  match last with
  | some l => addNsec c zorigin nodes withSigner l name
  | none => []

/-- `txn.get(name, NS) and name != zone.origin` decides the new value of `delegation` -/
def newDeleg (c : NsecConsts) (origin : Name) (node : ZNode) : Option Name :=
  if node.types.contains c.tNS && !(nameEq node.name origin) then some node.name else none

/-- body of `for name in sorted(txn.iterate_names())` -/
def walkStep (c : NsecConsts) (origin : Name) (nodes : List ZNode) (withSigner : Bool) (st : WalkSt) (node : ZNode) :
    WalkSt :=
  if skipTest st.delegation node.name then st
  else
    { delegation := newDeleg c origin node, lastSecure := some node.name,
      out := st.out ++ signEvts c withSigner (newDeleg c origin node) node ++
        linkFrom c origin nodes withSigner st.lastSecure node.name }

/-- the walk over an already sorted node list, and the wrap-around to the origin -/
def walkSorted (c : NsecConsts) (origin : Name) (nodes : List ZNode) (withSigner : Bool)
    (sorted : List ZNode) : List Evt :=
  let st := sorted.foldl (walkStep c origin nodes withSigner) { delegation := none, lastSecure := none, out := [] }
  match st.lastSecure with
  | none => st.out
  | some l =>
    -- `if last_secure is not None:` (commit 67da86e; before it `if last_secure:`, false for the empty name)
    st.out ++ addNsec c origin nodes withSigner l origin

def signZoneNsec (c : NsecConsts) (origin : Name) (nodes : List ZNode) (withSigner : Bool) : List Evt :=
  walkSorted c origin nodes withSigner (insSort (fun a b => nameLe a.name b.name) nodes)

/-! ## specification side of the NSEC chain (no code of dnspython corresponds to these definitions) -/

/-- a delegation point as `_sign_zone_nsec` recognises it: has NS, is not the origin (and, because the code
tests the remembered name for truthiness, is not the empty name) -/
def isCut (c : NsecConsts) (origin : Name) (z : ZNode) : Bool :=
  z.types.contains c.tNS && !(nameEq z.name origin) && truthy z.name

def subOf (y d : ZNode) : Bool := isSubdomain y.name d.name

/-- `z` lies strictly beneath a delegation point of the zone -/
def occluded (c : NsecConsts) (origin : Name) (L : List ZNode) (z : ZNode) : Bool :=
  L.any fun d => isCut c origin d && subOf z d && !subOf d z

/-- the names that get an NSEC: those not beneath a delegation, in the order of the sorted list -/
def secure (c : NsecConsts) (origin : Name) (L : List ZNode) : List ZNode :=
  L.filter fun z => !occluded c origin L z

/-- subdomains of `d` among the later names form one block directly after `d` -/
def blockOk (d : ZNode) (rest : List ZNode) : Bool :=
  (rest.dropWhile fun y => subOf y d).all fun y => !subOf y d

def contig : List ZNode → Bool
  | [] => true
  | d :: rest => blockOk d rest && contig rest

/-- hypotheses of `C15.nsec_chain_partial` on a concrete sorted list, as a Boolean (evaluated by the
correspondence check on every generated zone): strictly sorted; no earlier name beneath a later one;
`is_subdomain` transitive on the list; subtrees contiguous -/
def chainHyps (L : List ZNode) : Bool × Bool × Bool × Bool :=
  let rec pairwiseB (r : ZNode → ZNode → Bool) : List ZNode → Bool
    | [] => true
    | a :: rest => rest.all (r a) && pairwiseB r rest
  (pairwiseB (fun a b => decide (cmpOrder a.name b.name < 0)) L,
   pairwiseB (fun a b => !subOf a b) L,
   L.all fun x => L.all fun y => L.all fun z => !(subOf x y && subOf y z) || subOf x z,
   contig L)

/-- wire RDATA of an NSEC record as `NSEC._to_wire` emits it (next name verbatim, uncompressed) -/
def nsecRdata (next : Name) (origin : Option Name) (ws : List (Nat × Bytes)) : Except DErr Bytes :=
  match nameWireFile next origin false with
  | .error e => .error e
  | .ok w => .ok (w ++ bitmapWire ws)

/-! ## ZONEMD (`Zone._compute_digest`, SIMPLE scheme): the octets fed to the hash -/

structure ZRdataset where
  rdtype : Nat
  covers : Nat
  rdclass : Nat
  ttl : Nat
  rdatas : List Rdata
  deriving Repr

structure ZMNode where
  name : Name
  rdatasets : List ZRdataset
  deriving Repr

def rdsLe (a b : ZRdataset) : Bool :=
  decide (a.rdtype < b.rdtype ∨ (a.rdtype = b.rdtype ∧ a.covers ≤ b.covers))

def zonemdRdataset (t : CanonTable) (origin : Option Name) (rrnamebuf : Bytes) (rds : ZRdataset) :
    Except DErr Bytes :=
  let rrfixed := be16 rds.rdtype ++ be16 rds.rdclass ++ be32 rds.ttl
  match mapExcept (fun rd => toDigestable t rds.rdclass rds.rdtype rd origin) rds.rdatas with
  | .error e => .error e
  | .ok ds => .ok ((insSort bytesLe ds).flatMap (rrRecord rrnamebuf rrfixed))

def concatExcept {ε} : List (Except ε Bytes) → Except ε Bytes
  | [] => .ok []
  | x :: xs =>
    match x with
    | .error e => .error e
    | .ok b =>
      match concatExcept xs with
      | .ok r => .ok (b ++ r)
      | .error e => .error e

/-- is this rdataset left out at owner `name`?  (`name == origin_name and ZONEMD in (rdtype, covers)`) -/
def zonemdExcluded (tZONEMD : Nat) (originName name : Name) (rds : ZRdataset) : Bool :=
  nameEq name originName && (rds.rdtype == tZONEMD || rds.covers == tZONEMD)

def zonemdNode (tZONEMD : Nat) (t : CanonTable) (origin : Option Name) (originName : Name) (node : ZMNode) :
    Except DErr Bytes :=
  match nameDigestable node.name origin with
  | .error e => .error e
  | .ok rrnamebuf =>
    concatExcept (((insSort rdsLe node.rdatasets).filter fun rds => !zonemdExcluded tZONEMD originName node.name rds).map
      (zonemdRdataset t origin rrnamebuf))

/-- `origin` = `zone.origin`; `relativize` = `zone.relativize` -/
def zonemdInput (tZONEMD : Nat) (t : CanonTable) (origin : Name) (relativize : Bool) (nodes : List ZMNode) :
    Except DErr Bytes :=
  let originName : Name := if relativize then [] else origin
  concatExcept ((insSort (fun a b => nameLe a.name b.name) nodes).map (zonemdNode tZONEMD t (some origin) originName))

/-- `_compute_digest(hash_algorithm, scheme)` up to the hash: the algorithm and scheme checks come first.
`hashes` = keys of `_digest_hashers` (SHA384 = 1, SHA512 = 2); SIMPLE = 1. -/
def zonemdCompute (hashes : List Nat) (tZONEMD : Nat) (t : CanonTable) (origin : Name) (relativize : Bool)
    (hashAlg scheme : Nat) (nodes : List ZMNode) : Except DErr Bytes :=
  if !hashes.contains hashAlg then .error .unsupportedDigestHash
  else if scheme ≠ 1 then .error .unsupportedDigestScheme
  else zonemdInput tZONEMD t origin relativize nodes

end Dnssec
end Model

import Model.Bytes
import Model.Name
/-!
Model of `dns/tokenizer.py` (`Token`, `Tokenizer`), `dns/ttl.py` (`from_text`) and `dns/grange.py`
(`from_text`).

Text is a list of code points (`Nat`).  The file object and the one-character unget buffer of the
tokenizer (`_get_char` / `_unget_char`) are represented together as *the list of characters not yet
consumed*: `_get_char` pops the head (`""` = the list is empty, sticky), `_unget_char c` pushes `c`
back (`_unget_char("")` leaves the empty list).  Every `_unget_char` in the code follows a
`_get_char` of the same character with no other unget in between, so `UngetBufferFull` is
unreachable for characters and the push-back list is an exact representation; `line_number`
and `filename` only feed error messages and are not modelled.

`Tokenizer.get` contains three loops (the main loop, `skip_whitespace`, and the comment loop).
They are fused into one structurally recursive automaton `getLoop` with a mode
(`skip` = inside a `skip_whitespace()` that was called from the main loop and then `continue`d,
`comment acc` = inside the `while 1` loop after `;`).  The first `skip_whitespace()` of `get`
is the separate function `skipWs`, exactly as in the code.
-/
namespace Model

inductive TType where
  | eof | eol | whitespace | identifier | quotedString | comment | delimiter
  deriving DecidableEq, Repr

def TType.code : TType → Nat
  | .eof => 0 | .eol => 1 | .whitespace => 2 | .identifier => 3 | .quotedString => 4
  | .comment => 5 | .delimiter => 6

structure Token where
  ttype : TType
  value : List Nat := []
  hasEscape : Bool := false
  comment : Option (List Nat) := none
  deriving DecidableEq, Repr

def Token.isEolOrEof (t : Token) : Bool := t.ttype == .eol || t.ttype == .eof
def Token.isIdentifier (t : Token) : Bool := t.ttype == .identifier

/-- error families of the tokenizer layer (`UnexpectedEnd` and `BadTTL` are `SyntaxError`s in the
library; they are kept apart here and merged where the code merges them). -/
inductive TokErr where
  | unexpectedEnd | syntaxError | ungetBufferFull | badTTL
  | valueError | assertionError            -- `dns.grange.from_text` lets these escape
  | name (e : NameErr)                      -- `dns.name.from_text` errors passing through `as_name`
  deriving DecidableEq, Repr

def TokErr.toString : TokErr → String
  | .unexpectedEnd => "UnexpectedEnd" | .syntaxError => "SyntaxError"
  | .ungetBufferFull => "UngetBufferFull" | .badTTL => "BadTTL"
  | .valueError => "ValueError" | .assertionError => "AssertionError"
  | .name e => e.toString

/-- `_DELIMITERS` = space, tab, newline, `;`, `(`, `)`, `"`; `_QUOTING_DELIMITERS` = `"`.
`self.delimiters` is always `_QUOTING_DELIMITERS` exactly when `self.quoting`. -/
def delimiters : List Nat := [32, 9, 10, 59, 40, 41, 34]
def quotingDelimiters : List Nat := [34]

def isDelim (quoting : Bool) (c : Nat) : Bool :=
  if quoting then quotingDelimiters.contains c else delimiters.contains c

/-- tokenizer state -/
structure TState where
  input : List Nat
  ungotten : Option Token := none
  multiline : Nat := 0
  quoting : Bool := false
  deriving Repr

def TState.init (text : List Nat) : TState := { input := text }

/-- `skip_whitespace`: returns the number of characters skipped and the remaining input
(the first non-whitespace character is ungotten, i.e. still at the head). -/
def skipWs (ml : Bool) : List Nat → Nat × List Nat
  | [] => (0, [])
  | c :: cs =>
    if c = 32 ∨ c = 9 ∨ (c = 10 ∧ ml = true) then
      let r := skipWs ml cs
      (r.1 + 1, r.2)
    else (0, c :: cs)

inductive GMode where
  | tok                       -- at the top of the main `while True`
  | skip                      -- inside `skip_whitespace()` called from the main loop
  | comment (acc : List Nat)  -- inside the comment loop
  deriving Repr, DecidableEq

/-- what `get` hands back besides the token: remaining input, multiline depth, quoting flag -/
structure GOut where
  token : Token
  rest : List Nat
  ml : Nat
  q : Bool
  deriving Repr, DecidableEq

/-- loop state of `get`: the Python locals `token`/`ttype`/`has_escape`, the attributes
`self.multiline`/`self.quoting`, and which of the three loops we are in -/
structure LS where
  tok : List Nat := []
  tt : TType := .identifier
  esc : Bool := false
  ml : Nat := 0
  q : Bool := false
  mode : GMode := .tok
  deriving Repr, DecidableEq

/-- end of the main loop of `get` (`break` reached, or EOF): the code after the loop. -/
def finishTok (tok : List Nat) (tt : TType) (esc : Bool) (ml : Nat) (q : Bool) (rest : List Nat) :
    Except TokErr GOut :=
  if tok = [] ∧ tt ≠ .quotedString then
    if ml > 0 then .error .syntaxError
    else .ok ⟨{ ttype := .eof, value := [], hasEscape := esc }, rest, ml, q⟩
  else .ok ⟨{ ttype := tt, value := tok, hasEscape := esc }, rest, ml, q⟩

/-- what one character does to the loop -/
inductive Act where
  | ret (r : Except TokErr GOut)   -- `return` / `raise`
  | next (s : LS)                  -- go on with the following character
  | next2 (s : LS)                 -- an escape also consumed the following character

/-- `_get_char()` returned `""` -/
def stepEof (wantComment : Bool) (s : LS) : Except TokErr GOut :=
  match s.mode with
  | .comment acc =>
    -- comment loop ended by EOF
    if wantComment then .ok ⟨{ ttype := .comment, value := acc }, [], s.ml, s.q⟩
    else if s.ml > 0 then .error .syntaxError
    else .ok ⟨{ ttype := .eof, value := [], comment := some acc }, [], s.ml, s.q⟩
  | _ =>
    if s.q then .error .unexpectedEnd
    else
      -- token == "" and ttype != QUOTED_STRING: `token = c; ttype = DELIMITER`, break, then EOF;
      -- otherwise `_unget_char("")` and break
      if s.tok = [] ∧ s.tt ≠ .quotedString then finishTok [] .delimiter s.esc s.ml s.q []
      else finishTok s.tok s.tt s.esc s.ml s.q []

/-- one iteration of the main loop of `get` on a real character `c` (`cs` = what follows) -/
def stepMain (s : LS) (c : Nat) (cs : List Nat) : Act :=
  if isDelim s.q c then
    if s.tok = [] ∧ s.tt ≠ .quotedString then
      if c = 40 then .next { s with tok := [], ml := s.ml + 1, mode := .skip }
      else if c = 41 then
        if s.ml = 0 then .ret (.error .syntaxError)
        else .next { s with tok := [], ml := s.ml - 1, mode := .skip }
      else if c = 34 then
        if !s.q then .next { s with tok := [], tt := .quotedString, q := true, mode := .tok }
        else .next { s with tok := [], q := false, mode := .skip }
      else if c = 10 then .ret (.ok ⟨{ ttype := .eol, value := [10] }, cs, s.ml, s.q⟩)
      else if c = 59 then .next { s with tok := [], mode := .comment [] }
      else
        -- "in case we ever want a delimiter to be returned": token = c, ttype = DELIMITER, break
        .ret (finishTok [c] .delimiter s.esc s.ml s.q cs)
    else
      -- `_unget_char(c); break`
      .ret (finishTok s.tok s.tt s.esc s.ml s.q (c :: cs))
  else if s.q ∧ c = 10 then .ret (.error .syntaxError)      -- newline in quoted string
  else if c = 92 then
    match cs with
    | [] => .ret (.error .unexpectedEnd)
    | c2 :: _ =>
      if c2 = 10 ∧ !s.q then .ret (.error .unexpectedEnd)
      else .next2 { s with tok := s.tok ++ [92, c2], esc := true, mode := .tok }
  else .next { s with tok := s.tok ++ [c], mode := .tok }

/-- one character, in whichever of the three loops we are -/
def stepChar (wantComment : Bool) (s : LS) (c : Nat) (cs : List Nat) : Act :=
  match s.mode with
  | .comment acc =>
    if c = 10 then
      if wantComment then .ret (.ok ⟨{ ttype := .comment, value := acc }, 10 :: cs, s.ml, s.q⟩)
      else if s.ml > 0 then .next { s with tok := [], mode := .skip }
      else .ret (.ok ⟨{ ttype := .eol, value := [10], comment := some acc }, cs, s.ml, s.q⟩)
    else .next { s with mode := .comment (acc ++ [c]) }
  | .skip =>
    if c = 32 ∨ c = 9 ∨ (c = 10 ∧ s.ml > 0) then .next s
    else stepMain s c cs
  | .tok => stepMain s c cs

/-- the main loop of `Tokenizer.get` (after the unget-token test and the first `skip_whitespace`).
Structural recursion on the unread input. -/
def getLoop (wantComment : Bool) : LS → List Nat → Except TokErr GOut
  | s, [] => stepEof wantComment s
  | s, c :: cs =>
    match stepChar wantComment s c cs with
    | .ret r => r
    | .next s' => getLoop wantComment s' cs
    | .next2 s' =>
      match cs with
      | [] => .error .unexpectedEnd
      | _ :: cs2 => getLoop wantComment s' cs2

/-- `Tokenizer.get(want_leading, want_comment)` -/
def TState.get (s : TState) (wantLeading : Bool := false) (wantComment : Bool := false) :
    Except TokErr (Token × TState) :=
  let via : Option Token :=
    match s.ungotten with
    | some u =>
      if u.ttype = .whitespace then (if wantLeading then some u else none)
      else if u.ttype = .comment then (if wantComment then some u else none)
      else some u
    | none => none
  match via with
  | some u => .ok (u, { s with ungotten := none })
  | none =>
    let sk := skipWs (decide (s.multiline > 0)) s.input
    if wantLeading ∧ sk.1 > 0 then
      .ok ({ ttype := .whitespace, value := [32] }, { s with ungotten := none, input := sk.2 })
    else
      match getLoop wantComment { ml := s.multiline, q := s.quoting } sk.2 with
      | .error e => .error e
      | .ok o => .ok (o.token, { input := o.rest, ungotten := none, multiline := o.ml, quoting := o.q })

/-- `Tokenizer.unget` -/
def TState.unget (s : TState) (t : Token) : Except TokErr TState :=
  if s.ungotten.isSome then .error .ungetBufferFull else .ok { s with ungotten := some t }

/-! ## `Token.unescape` / `Token.unescape_to_bytes` -/

def isDecimal (c : Nat) : Bool := decide (48 ≤ c ∧ c ≤ 57)

/-- UTF-8 encoding of one code point (`str.encode()`); surrogates are outside the model. -/
def utf8 (c : Nat) : List Nat :=
  if c < 0x80 then [c]
  else if c < 0x800 then [0xC0 + c / 64, 0x80 + c % 64]
  else if c < 0x10000 then [0xE0 + c / 4096, 0x80 + c / 64 % 64, 0x80 + c % 64]
  else [0xF0 + c / 262144, 0x80 + c / 4096 % 64, 0x80 + c / 64 % 64, 0x80 + c % 64]

/-- the common loop of `unescape` (`enc = fun c => [c]`, escapes become code points) and
`unescape_to_bytes` (`enc = utf8`, escapes become octets). -/
def unescapeWith (enc : Nat → List Nat) : List Nat → Except TokErr (List Nat)
  | [] => .ok []
  | c :: rest =>
    if c = 92 then
      match rest with
      | [] => .error .unexpectedEnd
      | c1 :: rest1 =>
        if isDecimal c1 then
          match rest1 with
          | [] => .error .unexpectedEnd
          | [_] => .error .unexpectedEnd
          | c2 :: c3 :: rest3 =>
            if !(isDecimal c2 && isDecimal c3) then .error .syntaxError
            else
              let cp := (c1 - 48) * 100 + (c2 - 48) * 10 + (c3 - 48)
              if cp > 255 then .error .syntaxError
              else match unescapeWith enc rest3 with
                | .ok r => .ok (cp :: r)
                | .error e => .error e
        else match unescapeWith enc rest1 with
          | .ok r => .ok (enc c1 ++ r)
          | .error e => .error e
    else match unescapeWith enc rest with
      | .ok r => .ok (enc c ++ r)
      | .error e => .error e

def Token.unescape (t : Token) : Except TokErr Token :=
  if !t.hasEscape then .ok t
  else match unescapeWith (fun c => [c]) t.value with
    | .ok v => .ok { ttype := t.ttype, value := v }
    | .error e => .error e

/-- `unescape_to_bytes` does not look at `has_escape` -/
def Token.unescapeToBytes (t : Token) : Except TokErr Token :=
  match unescapeWith utf8 t.value with
  | .ok v => .ok { ttype := t.ttype, value := v }
  | .error e => .error e

/-! ## Python `int(text, 10)` on the characters the model admits -/

/-- the characters `int()` strips: U+001C..U+001F are `str.isspace()` but are *not* stripped by `int` (checked on the
implementation: `int("1\x1c")` is a ValueError) -/
def isPySpace (c : Nat) : Bool := c = 32 ∨ (9 ≤ c ∧ c ≤ 13) ∨ c = 0x85 ∨ c = 0xA0

def digitsVal : List Nat → Nat → Nat
  | [], acc => acc
  | c :: cs, acc => digitsVal cs (acc * 10 + (c - 48))

/-- digits with optional single underscores between digits -/
def pyDigits : List Nat → Bool → Option (List Nat)
  | [], prevDigit => if prevDigit then some [] else none
  | c :: cs, prevDigit =>
    if isDecimal c then (pyDigits cs true).map (c :: ·)
    else if c = 95 ∧ prevDigit then
      match cs with
      | [] => none
      | d :: _ => if isDecimal d then pyDigits cs false else none
    else none

def stripSpaces (l : List Nat) : List Nat :=
  ((l.dropWhile isPySpace).reverse.dropWhile isPySpace).reverse

/-- optional sign -/
def signSplit : List Nat → Bool × List Nat
  | 45 :: r => (true, r)
  | 43 :: r => (false, r)
  | r => (false, r)

/-- `int(s, 10)`; `none` = `ValueError` -/
def pyInt (s : List Nat) : Option Int :=
  let s := stripSpaces s
  let neg := (signSplit s).1
  let body := (signSplit s).2
  match body with
  | [] => none
  | c :: _ =>
    if !isDecimal c then none
    else match pyDigits body false with
      | some ds => some (if neg then - (digitsVal ds 0 : Int) else (digitsVal ds 0 : Int))
      | none => none

/-- `as_int` (base 10) -/
def Token.asInt (t : Token) : Except TokErr Nat :=
  if !t.isIdentifier then .error .syntaxError
  else match pyInt t.value with
    | some v => if v < 0 then .error .syntaxError else .ok v.toNat
    | none => .error .syntaxError

def Token.asUint (bound : Nat) (t : Token) : Except TokErr Nat :=
  match t.asInt with
  | .ok v => if v > bound then .error .syntaxError else .ok v
  | .error e => .error e

/-! ## `dns.ttl.from_text` -/

def lowerAscii (c : Nat) : Nat := if 65 ≤ c ∧ c ≤ 90 then c + 32 else c

/-- the `for c in text` loop of the BIND 8 units branch; state `(total, current, need_digit)` -/
def ttlLoop : List Nat → Nat → Nat → Bool → Except TokErr Nat
  | [], total, current, _ => if current ≠ 0 then .error .badTTL else .ok total
  | c :: cs, total, current, needDigit =>
    if isDecimal c then ttlLoop cs total (current * 10 + (c - 48)) false
    else if needDigit then .error .badTTL
    else
      let u := lowerAscii c
      if u = 119 then ttlLoop cs (total + current * 604800) 0 true
      else if u = 100 then ttlLoop cs (total + current * 86400) 0 true
      else if u = 104 then ttlLoop cs (total + current * 3600) 0 true
      else if u = 109 then ttlLoop cs (total + current * 60) 0 true
      else if u = 115 then ttlLoop cs (total + current) 0 true
      else .error .badTTL

def ttlFromText (text : List Nat) : Except TokErr Nat :=
  let totalE : Except TokErr Nat :=
    if text ≠ [] ∧ text.all isDecimal then .ok (digitsVal text 0)
    else if text = [] then .error .badTTL
    else ttlLoop text 0 0 true
  match totalE with
  | .error e => .error e
  | .ok total => if total > Consts.maxTTL then .error .badTTL else .ok total

/-! ## `dns.grange.from_text` -/

/-- `int(cur)` for a string of ASCII digits; the empty string is a `ValueError` -/
def intOfDigits (cur : List Nat) : Except TokErr Nat :=
  if cur = [] then .error .valueError else .ok (digitsVal cur 0)

/-- loop state: `start`/`stop` as `Option` (`none` = the initial `-1`), `cur`, `state` -/
def grangeLoop : List Nat → Option Nat → Option Nat → List Nat → Nat →
    Except TokErr (Option Nat × Option Nat × List Nat × Nat)
  | [], start, stop, cur, st => .ok (start, stop, cur, st)
  | c :: cs, start, stop, cur, st =>
    if c = 45 ∧ st = 0 then
      match intOfDigits cur with
      | .ok v => grangeLoop cs (some v) stop [] 1
      | .error e => .error e
    else if c = 47 then
      match intOfDigits cur with
      | .ok v => grangeLoop cs start (some v) [] 2
      | .error e => .error e
    else if isDecimal c then grangeLoop cs start stop (cur ++ [c]) st
    else .error .syntaxError

def grangeFromText (text : List Nat) : Except TokErr (Nat × Nat × Nat) :=
  match text with
  | 45 :: _ => .error .syntaxError
  | _ =>
    match grangeLoop text none none [] 0 with
    | .error e => .error e
    | .ok (start, stop, cur, st) =>
      if st = 0 then .error .syntaxError
      else
        let r : Except TokErr (Option Nat × Nat) :=
          if st = 1 then (match intOfDigits cur with | .ok v => .ok (some v, 1) | .error e => .error e)
          else (match intOfDigits cur with | .ok v => .ok (stop, v) | .error e => .error e)
        match r with
        | .error e => .error e
        | .ok (stop, step) =>
          if step < 1 then .error .assertionError
          else match start with
            | none => .error .assertionError      -- `assert start >= 0` with start = -1
            | some a =>
              match stop with
              | none => .error .assertionError    -- unreachable: state ≥ 1 sets stop
              | some b => if a > b then .error .syntaxError else .ok (a, b, step)

/-! ## tokenizer helpers used by the zone-file reader and the rdata parsers -/

abbrev TokM := Except TokErr

def TState.getIdentifier (s : TState) : TokM (List Nat × TState) := do
  let (t, s) ← s.get
  let t ← t.unescape
  if !t.isIdentifier then .error .syntaxError else pure (t.value, s)

def TState.getInt (s : TState) : TokM (Nat × TState) := do
  let (t, s) ← s.get
  let t ← t.unescape
  let v ← t.asInt
  pure (v, s)

def TState.getUint (bound : Nat) (s : TState) : TokM (Nat × TState) := do
  let (t, s) ← s.get
  let t ← t.unescape
  let v ← t.asUint bound
  pure (v, s)

def TState.getTTL (s : TState) : TokM (Nat × TState) := do
  let (t, s) ← s.get
  let t ← t.unescape
  if !t.isIdentifier then .error .syntaxError
  else
    let v ← ttlFromText t.value
    pure (v, s)

/-- `name.choose_relativity(origin, relativize)`; `if origin:` is false for `None` and the empty name -/
def chooseRelativity (n : Name) (origin : Option Name) (rel : Bool) : Except NameErr Name :=
  match origin with
  | some o => if o = [] then .ok n else if rel then relativize n o else derelativize n o
  | none => .ok n

/-- `as_name(token, origin, relativize, relativize_to)` -/
def Token.asName (t : Token) (origin : Option Name) (rel : Bool) (relTo : Option Name) :
    TokM Name :=
  if !t.isIdentifier then .error .syntaxError
  else match fromText t.value origin with
    | .error e => .error (.name e)
    | .ok n =>
      -- `relativize_to or origin`
      let o := match relTo with
        | some r => if r = [] then origin else some r
        | none => origin
      match chooseRelativity n o rel with
      | .ok n => .ok n
      | .error e => .error (.name e)

def TState.getName (s : TState) (origin : Option Name) (rel : Bool) (relTo : Option Name) :
    TokM (Name × TState) := do
  let (t, s) ← s.get
  let n ← t.asName origin rel relTo
  pure (n, s)

/-- `get_eol_as_token` -/
def TState.getEol (s : TState) : TokM (Token × TState) := do
  let (t, s) ← s.get
  if !t.isEolOrEof then .error .syntaxError else pure (t, s)

/-- `get_remaining()` (no `max_tokens`); fuel = an upper bound on the number of tokens left -/
def getRemainingAux : Nat → TState → List Token → TokM (List Token × TState)
  | 0, _, _ => .error .syntaxError   -- unreachable with fuel = input length + 2
  | fuel + 1, s, acc => do
    let (t, s) ← s.get
    if t.isEolOrEof then
      let s ← s.unget t
      pure (acc, s)
    else getRemainingAux fuel s (acc ++ [t])

def TState.getRemaining (s : TState) : TokM (List Token × TState) :=
  getRemainingAux (s.input.length + 2) s []

/-- `concatenate_remaining_identifiers(allow_empty)` -/
def concatRemainingAux (allowEmpty : Bool) : Nat → TState → List Nat → TokM (List Nat × TState)
  | 0, _, _ => .error .syntaxError
  | fuel + 1, s, acc => do
    let (t, s) ← s.get
    let t ← t.unescape
    if t.isEolOrEof then
      let s ← s.unget t
      if !(allowEmpty || !acc.isEmpty) then .error .syntaxError else pure (acc, s)
    else if !t.isIdentifier then .error .syntaxError
    else concatRemainingAux allowEmpty fuel s (acc ++ t.value)

def TState.concatRemaining (s : TState) (allowEmpty : Bool) : TokM (List Nat × TState) :=
  concatRemainingAux allowEmpty (s.input.length + 2) s []

end Model

/-!
Model of version retention and read transactions of `dns/versioned.py` (`Zone.reader`, `_end_read`, `writer` admission
reduced to "one writer at a time" — the admission protocol itself is C12 —, `_commit_version_unlocked`,
`_end_write_unlocked`, `_prune_versions_unlocked`, `set_max_versions`, `set_pruning_policy`, `_get_next_version_id`)
and of the commit / rollback decision of `dns.zone.Transaction._end_transaction`.

* A version is `(id, content, serial)`: `content` is an opaque identifier of the zone content (the harness maps
  deep dumps of real versions to such identifiers), `serial` the SOA serial at the origin if there is one
  (`reader(serial=…)` looks at nothing else).  Versions are persistent values: a committed version never changes in
  the model — Python-level immutability is checked by enumeration in the harness, not here.
* `versions` is the deque `Zone._versions`, oldest first.  `history` is **ghost**: every version ever committed.
* `readers` is `Zone._readers`: (handle, the version object the transaction holds).
* the pruning policy is an **arbitrary** function of (number of versions retained at the moment it is asked, the
  version it is asked about): `Policy = Nat → Ver → Bool`.  The default (always prune), `set_max_versions(n)`,
  `set_max_versions(None)` and "true on these ids" are instances; `Op.setPred f` installs any `f` whatsoever (not
  necessarily monotone in the id or in the count).  Assumption: the callable is pure and looks at nothing else.
-/
namespace Model.Versioned

structure Ver where
  id : Nat
  content : Nat
  serial : Option Nat
  deriving DecidableEq, Repr

abbrev Policy := Nat → Ver → Bool

/-- `_default_pruning_policy` -/
def Policy.default : Policy := fun _ _ => true
/-- `set_max_versions(n)`: `len(zone._versions) > max_versions` -/
def Policy.maxN (n : Nat) : Policy := fun len _ => decide (len > n)
/-- `set_max_versions(None)` -/
def Policy.unlimited : Policy := fun _ _ => false
/-- a predicate on the version alone, true exactly on these ids -/
def Policy.allowed (ids : List Nat) : Policy := fun _ v => ids.contains v.id
/-- a family of predicates that depend on both arguments and are monotone in neither (used by the harness) -/
def Policy.modp (a b : Nat) : Policy := fun len v => (a * len + v.id) % (b + 2) != 0

structure State where
  versions : List Ver
  readers : List (Nat × Ver)
  policy : Policy
  writer : Option Nat
  history : List Ver       -- ghost

inductive Err where
  | keyError | valueError | alreadyEnded | noWriter
  deriving DecidableEq, Repr

inductive Op where
  | openLatest (h : Nat)
  | openId (h : Nat) (id : Nat)
  | openSerial (h : Nat) (serial : Nat)
  | close (h : Nat)
  | wopen
  | commit (content : Nat) (serial : Option Nat) (changed : Bool)
  | rollback
  | setMax (n : Option Int)
  | setPolicy (p : Option (List Nat))
  | setModp (a b : Nat)                     -- set_pruning_policy(lambda zone, v: (a*len(zone._versions)+v.id) % (b+2) != 0)
  | setPred (f : Nat → Ver → Bool)          -- set_pruning_policy(any pure callable)
  | observe (h : Nat)

inductive Out where
  | ok
  | pinned (id : Nat) (content : Nat)
  | err (e : Err)
  | blocked
  deriving DecidableEq, Repr

/-- `Zone.__init__`: the empty version with id 1 is committed -/
def init : State :=
  { versions := [⟨1, 0, none⟩], readers := [], policy := .default, writer := none, history := [⟨1, 0, none⟩] }

/-- the policy callable applied to `(zone, version)`; `len` is `len(zone._versions)` at the time of the call -/
def prunable (p : Policy) (len : Nat) (v : Ver) : Bool := p len v

def newestId (vs : List Ver) : Nat :=
  match vs.getLast? with
  | some v => v.id
  | none => 0

/-- `least_kept` of `_prune_versions_unlocked` -/
def leastKept (readers : List (Nat × Ver)) (vs : List Ver) : Nat :=
  match readers with
  | [] => newestId vs
  | r :: rest => rest.foldl (fun m x => min m x.2.id) r.2.id

/-- `while self._versions[0].id < least_kept and self._pruning_policy(self, self._versions[0]): popleft()` -/
def pruneLoop (p : Policy) (least : Nat) : List Ver → List Ver
  | [] => []
  | v :: rest => if v.id < least ∧ prunable p (rest.length + 1) v = true then pruneLoop p least rest else v :: rest

def prune (s : State) : State :=
  { s with versions := pruneLoop s.policy (leastKept s.readers s.versions) s.versions }

def findId (vs : List Ver) (id : Nat) : Option Ver := vs.reverse.find? (fun v => v.id = id)
def findSerial (vs : List Ver) (sn : Nat) : Option Ver := vs.reverse.find? (fun v => v.serial = some sn)
def findReader (rs : List (Nat × Ver)) (h : Nat) : Option Ver := (rs.find? (fun r => r.1 = h)).map (·.2)

/-- remove one reader with handle `h` (`self._readers.remove(txn)`) -/
def removeReader : List (Nat × Ver) → Nat → List (Nat × Ver)
  | [], _ => []
  | r :: rest, h => if r.1 = h then rest else r :: removeReader rest h

/-- `_get_next_version_id` -/
def nextId (vs : List Ver) : Nat :=
  match vs.getLast? with
  | some v => v.id + 1
  | none => 1

def step (s : State) : Op → State × Out
  | .openLatest h =>
    match s.versions.getLast? with
    | some v => ({ s with readers := s.readers ++ [(h, v)] }, .pinned v.id v.content)
    | none => (s, .err .keyError)
  | .openId h id =>
    match findId s.versions id with
    | some v => ({ s with readers := s.readers ++ [(h, v)] }, .pinned v.id v.content)
    | none => (s, .err .keyError)
  | .openSerial h sn =>
    match findSerial s.versions sn with
    | some v => ({ s with readers := s.readers ++ [(h, v)] }, .pinned v.id v.content)
    | none => (s, .err .keyError)
  | .close h =>
    match findReader s.readers h with
    | some _ => (prune { s with readers := removeReader s.readers h }, .ok)
    | none => (s, .err .alreadyEnded)
  | .wopen =>
    match s.writer with
    | some _ => (s, .blocked)
    | none => ({ s with writer := some (nextId s.versions) }, .ok)
  | .commit c sn changed =>
    match s.writer with
    | none => (s, .err .noWriter)
    | some id =>
      if changed then
        let v : Ver := ⟨id, c, sn⟩
        (prune { s with versions := s.versions ++ [v], history := s.history ++ [v], writer := none }, .ok)
      else ({ s with writer := none }, .ok)
  | .rollback =>
    match s.writer with
    | none => (s, .err .noWriter)
    | some _ => ({ s with writer := none }, .ok)
  | .setMax none => (prune { s with policy := .unlimited }, .ok)
  | .setMax (some n) =>
    if n < 1 then (s, .err .valueError) else (prune { s with policy := .maxN n.toNat }, .ok)
  | .setPolicy none => (prune { s with policy := .default }, .ok)
  | .setPolicy (some ids) => (prune { s with policy := .allowed ids }, .ok)
  | .setModp a b => (prune { s with policy := .modp a b }, .ok)
  | .setPred f => (prune { s with policy := f }, .ok)
  | .observe h =>
    match findReader s.readers h with
    | some v => (s, .pinned v.id v.content)
    | none => (s, .err .alreadyEnded)

def run (s : State) : List Op → State × List Out
  | [] => (s, [])
  | op :: rest =>
    let r := step s op
    let q := run r.1 rest
    (q.1, r.2 :: q.2)

end Model.Versioned

/-!
Model of version retention and read transactions of `dns/versioned.py` (`Zone.reader`, `_end_read`, `writer` admission
reduced to "one writer at a time" — the admission protocol itself is C12 —, `_commit_version_unlocked`,
`_end_write_unlocked`, `_prune_versions_unlocked`, `set_max_versions`, `set_pruning_policy`, `_get_next_version_id`)
and of the commit / rollback decision of `dns.zone.Transaction._end_transaction`.

* A version is `(id, content, serial)`: `content` is an opaque identifier of the zone content (the harness maps
  deep dumps of real versions to such identifiers), `serial` the SOA serial at the origin if there is one
  (`reader(serial=…)` looks at nothing else).  Versions are persistent values: a committed version never changes in
  the model — Python-level immutability is checked by enumeration in the harness, not here.
* `versions` is the deque `Zone._versions`, oldest first.  `history` is **ghost**: every version ever committed.
* `readers` is `Zone._readers`: (handle, the version object the transaction holds).
* the pruning policy is an **arbitrary** function of (number of versions retained at the moment it is asked, the
  version it is asked about): `Policy = Nat → Ver → Bool`.  The default (always prune), `set_max_versions(n)`,
  `set_max_versions(None)` and "true on these ids" are instances; `Op.setPred f` installs any `f` whatsoever (not
  necessarily monotone in the id or in the count).  Assumption: the callable is pure and looks at nothing else.
-/
namespace Model.Versioned

structure Ver where
  id : Nat
  content : Nat
  serial : Option Nat
  deriving DecidableEq, Repr

abbrev Policy := Nat → Ver → Bool

/-- `_default_pruning_policy` -/
def Policy.default : Policy := fun _ _ => true
/-- `set_max_versions(n)`: `len(zone._versions) > max_versions` -/
def Policy.maxN (n : Nat) : Policy := fun len _ => decide (len > n)
/-- `set_max_versions(None)` -/
def Policy.unlimited : Policy := fun _ _ => false
/-- a predicate on the version alone, true exactly on these ids -/
def Policy.allowed (ids : List Nat) : Policy := fun _ v => ids.contains v.id
/-- a family of predicates that depend on both arguments and are monotone in neither (used by the harness) -/
def Policy.modp (a b : Nat) : Policy := fun len v => (a * len + v.id) % (b + 2) != 0

structure State where
  versions : List Ver
  readers : List (Nat × Ver)
  policy : Policy
  writer : Option Nat
  history : List Ver       -- ghost

inductive Err where
  | keyError | valueError | alreadyEnded | noWriter
  deriving DecidableEq, Repr

inductive Op where
  | openLatest (h : Nat)
  | openId (h : Nat) (id : Nat)
  | openSerial (h : Nat) (serial : Nat)
  | openBoth (h : Nat) (id : Nat) (serial : Nat)   -- reader(id=…, serial=…): refused before anything is looked at
  | close (h : Nat)
  | wopen
  | commit (content : Nat) (serial : Option Nat) (changed : Bool)
  | rollback
  | setMax (n : Option Int)
  | setPolicy (p : Option (List Nat))
  | setModp (a b : Nat)                     -- set_pruning_policy(lambda zone, v: (a*len(zone._versions)+v.id) % (b+2) != 0)
  | setPred (f : Nat → Ver → Bool)          -- set_pruning_policy(any pure callable)
  | observe (h : Nat)

inductive Out where
  | ok
  | pinned (id : Nat) (content : Nat)
  | err (e : Err)
  | blocked
  deriving DecidableEq, Repr

/-- `Zone.__init__`: the empty version with id 1 is committed -/
def init : State :=
  { versions := [⟨1, 0, none⟩], readers := [], policy := .default, writer := none, history := [⟨1, 0, none⟩] }

/-- the policy callable applied to `(zone, version)`; `len` is `len(zone._versions)` at the time of the call -/
def prunable (p : Policy) (len : Nat) (v : Ver) : Bool := p len v

def newestId (vs : List Ver) : Nat :=
  match vs.getLast? with
  | some v => v.id
  | none => 0

/-- `least_kept` of `_prune_versions_unlocked` -/
def leastKept (readers : List (Nat × Ver)) (vs : List Ver) : Nat :=
  match readers with
  | [] => newestId vs
  | r :: rest => rest.foldl (fun m x => min m x.2.id) r.2.id

/-- `while self._versions[0].id < least_kept and self._pruning_policy(self, self._versions[0]): popleft()` -/
def pruneLoop (p : Policy) (least : Nat) : List Ver → List Ver
  | [] => []
  | v :: rest => if v.id < least ∧ prunable p (rest.length + 1) v = true then pruneLoop p least rest else v :: rest

def prune (s : State) : State :=
  { s with versions := pruneLoop s.policy (leastKept s.readers s.versions) s.versions }

def findId (vs : List Ver) (id : Nat) : Option Ver := vs.reverse.find? (fun v => v.id = id)
def findSerial (vs : List Ver) (sn : Nat) : Option Ver := vs.reverse.find? (fun v => v.serial = some sn)
def findReader (rs : List (Nat × Ver)) (h : Nat) : Option Ver := (rs.find? (fun r => r.1 = h)).map (·.2)

/-- remove one reader with handle `h` (`self._readers.remove(txn)`) -/
def removeReader : List (Nat × Ver) → Nat → List (Nat × Ver)
  | [], _ => []
  | r :: rest, h => if r.1 = h then rest else r :: removeReader rest h

/-- `_get_next_version_id` -/
def nextId (vs : List Ver) : Nat :=
  match vs.getLast? with
  | some v => v.id + 1
  | none => 1

def step (s : State) : Op → State × Out
  | .openLatest h =>
    match s.versions.getLast? with
    | some v => ({ s with readers := s.readers ++ [(h, v)] }, .pinned v.id v.content)
    | none => (s, .err .keyError)
  | .openId h id =>
    match findId s.versions id with
    | some v => ({ s with readers := s.readers ++ [(h, v)] }, .pinned v.id v.content)
    | none => (s, .err .keyError)
  | .openSerial h sn =>
    match findSerial s.versions sn with
    | some v => ({ s with readers := s.readers ++ [(h, v)] }, .pinned v.id v.content)
    | none => (s, .err .keyError)
  | .openBoth _ _ _ => (s, .err .valueError)
  | .close h =>
    match findReader s.readers h with
    | some _ => (prune { s with readers := removeReader s.readers h }, .ok)
    | none => (s, .err .alreadyEnded)
  | .wopen =>
    match s.writer with
    | some _ => (s, .blocked)
    | none => ({ s with writer := some (nextId s.versions) }, .ok)
  | .commit c sn changed =>
    match s.writer with
    | none => (s, .err .noWriter)
    | some id =>
      if changed then
        let v : Ver := ⟨id, c, sn⟩
        (prune { s with versions := s.versions ++ [v], history := s.history ++ [v], writer := none }, .ok)
      else ({ s with writer := none }, .ok)
  | .rollback =>
    match s.writer with
    | none => (s, .err .noWriter)
    | some _ => ({ s with writer := none }, .ok)
  | .setMax none => (prune { s with policy := .unlimited }, .ok)
  | .setMax (some n) =>
    if n < 1 then (s, .err .valueError) else (prune { s with policy := .maxN n.toNat }, .ok)
  | .setPolicy none => (prune { s with policy := .default }, .ok)
  | .setPolicy (some ids) => (prune { s with policy := .allowed ids }, .ok)
  | .setModp a b => (prune { s with policy := .modp a b }, .ok)
  | .setPred f => (prune { s with policy := f }, .ok)
  | .observe h =>
    match findReader s.readers h with
    | some v => (s, .pinned v.id v.content)
    | none => (s, .err .alreadyEnded)

def run (s : State) : List Op → State × List Out
  | [] => (s, [])
  | op :: rest =>
    let r := step s op
    let q := run r.1 rest
    (q.1, r.2 :: q.2)

/-! ## the copy-on-write mechanism behind a snapshot

Model of `dns.zone.WritableVersion` (`changed`, `_maybe_cow_with_name`, `delete_node`, `put_rdataset`),
`dns.btreezone.WritableVersion.update_glue_flag`, `ImmutableVersion.__init__` (freeze the changed names) and of
`Transaction._end_transaction`, with **node identity**: a node is a heap cell; versions map names to cell ids and
share cells.  A write is a write to a cell whatever versions point to it — nothing is isolated by construction.
`content` stands for everything a node holds (rdatasets, flags). -/

structure Cell where
  frozen : Bool
  content : Nat
  deriving DecidableEq, Repr

abbrev NMap := List (Nat × Nat)      -- name ↦ cell id, at most one pair per name

def nlookup (m : NMap) (name : Nat) : Option Nat := (m.find? (fun p => p.1 = name)).map (·.2)
def nerase (m : NMap) (name : Nat) : NMap := m.filter (fun p => p.1 ≠ name)
def nset (m : NMap) (name id : Nat) : NMap := (name, id) :: nerase m name

structure Writer where
  nodes : NMap
  changed : List Nat
  base : Nat            -- ghost: heap size when the transaction began
  deriving Repr

structure CowState where
  heap : List Cell
  versions : List NMap  -- committed versions, oldest first
  w : Option Writer
  deriving Repr

inductive CowOp where
  | begin (replacement : Bool)
  | put (name : Nat) (c : Nat)                 -- put_rdataset / delete_rdataset on a node that stays
  | del (name : Nat)                           -- delete_node
  | flip (names : List Nat) (c : Nat)          -- update_glue_flag over the names beneath a cut
  | commit
  | rollback
  deriving Repr

def cellContent (heap : List Cell) (id : Nat) : Nat := (heap[id]?.map (·.content)).getD 0

/-- `_maybe_cow_with_name`: `if node is None or name not in self.changed: new node, copy, changed.add(name)` -/
def cowName (heap : List Cell) (x : Writer) (name : Nat) : List Cell × Writer × Nat :=
  match nlookup x.nodes name with
  | some id =>
    if name ∈ x.changed then (heap, x, id)
    else (heap ++ [⟨false, cellContent heap id⟩],
          { x with nodes := nset x.nodes name heap.length, changed := name :: x.changed }, heap.length)
  | none => (heap ++ [⟨false, 0⟩], { x with nodes := nset x.nodes name heap.length, changed := name :: x.changed }, heap.length)

/-- a write to a node object: it hits the cell, whoever shares it -/
def writeCell (heap : List Cell) (id c : Nat) : List Cell := heap.set id ⟨(heap[id]?.map (·.frozen)).getD false, c⟩

/-- one name of `update_glue_flag`: `if ename not in self.changed: copy; self.changed.add(ename)`, set the flag,
`self.nodes[ename] = node` -/
def flipOne (c : Nat) (hx : List Cell × Writer) (ename : Nat) : List Cell × Writer :=
  match nlookup hx.2.nodes ename with
  | none => hx
  | some id =>
    if ename ∈ hx.2.changed then (writeCell hx.1 id c, hx.2)
    else (hx.1 ++ [⟨false, c⟩], { hx.2 with nodes := nset hx.2.nodes ename hx.1.length, changed := ename :: hx.2.changed })

/-- `ImmutableVersion.__init__`: every changed name that still has a node gets a new immutable node object -/
def freezeOne (hm : List Cell × NMap) (name : Nat) : List Cell × NMap :=
  match nlookup hm.2 name with
  | none => hm
  | some id => (hm.1 ++ [⟨true, cellContent hm.1 id⟩], nset hm.2 name hm.1.length)

def cowStep (s : CowState) : CowOp → CowState
  | .begin repl =>
    match s.w with
    | some _ => s
    | none => { s with w := some { nodes := if repl then [] else (s.versions.getLast?.getD []), changed := [], base := s.heap.length } }
  | .put name c =>
    match s.w with
    | none => s
    | some x => let r := cowName s.heap x name; { s with heap := writeCell r.1 r.2.2 c, w := some r.2.1 }
  | .del name =>
    match s.w with
    | none => s
    | some x =>
      match nlookup x.nodes name with
      | none => s
      | some _ => { s with w := some { x with nodes := nerase x.nodes name, changed := name :: x.changed } }
  | .flip names c =>
    match s.w with
    | none => s
    | some x => let r := names.foldl (flipOne c) (s.heap, x); { s with heap := r.1, w := some r.2 }
  | .commit =>
    match s.w with
    | none => s
    | some x =>
      if x.changed = [] then { s with w := none }
      else let r := x.changed.foldl freezeOne (s.heap, x.nodes); { heap := r.1, versions := s.versions ++ [r.2], w := none }
  | .rollback => { s with w := none }

def cowRun (s : CowState) : List CowOp → CowState
  | [] => s
  | op :: rest => cowRun (cowStep s op) rest

/-- `Zone.__init__`: the empty version -/
def cowInit : CowState := { heap := [], versions := [[]], w := none }

/-- what a reader of version `m` sees: every name with the content of its node -/
def view (heap : List Cell) (m : NMap) : List (Nat × Nat) := m.map (fun p => (p.1, cellContent heap p.2))

end Model.Versioned

/-!
Model of `dns/btree.py` (copy-on-write B-tree, cursors, tree handle).

* Keys and value ids are `Nat`; an element (`KV` / `Member`) is the pair `(key, value id)`.
* A node is `leaf elts | node elts children`, exactly the two `is_leaf` cases of `_Node`.
* Mutation becomes returning the new value.  The copy-on-write mechanism (`creator` tokens,
  `maybe_cow`, `maybe_cow_child`, `clone`) is modelled away: nodes are persistent values, so a clone
  is the same value and can never observe a later mutation.  The real content of "clones are
  isolated" is carried by the correspondence check (original and clones re-read after every mutation).
* Python list operations are expressed with `take`/`drop` (`insAt` = `list.insert`, `popAt` = `list.pop`,
  `setAt` = item assignment), for in-range indices.
* Recursion over the tree takes explicit fuel = height of the subtree (`height`); every loop has an
  explicit bound.  Branches that the Python code can only reach by a failing `assert` return the
  state unchanged.
-/
namespace Model.BTree

abbrev Elt := Nat × Nat

inductive Node where
  | leaf (elts : List Elt)
  | node (elts : List Elt) (children : List Node)

instance : Inhabited Node := ⟨.leaf []⟩

/-- `_MIN(t)` -/
def minKeys (t : Nat) : Nat := t - 1
/-- `_MAX(t)` -/
def maxKeys (t : Nat) : Nat := 2 * t - 1

def Node.elts : Node → List Elt
  | .leaf es => es
  | .node es _ => es

def Node.children : Node → List Node
  | .leaf _ => []
  | .node _ cs => cs

def Node.isLeaf : Node → Bool
  | .leaf _ => true
  | .node _ _ => false

def isMaximal (t : Nat) (n : Node) : Bool := n.elts.length == maxKeys t
def isMinimal (t : Nat) (n : Node) : Bool := n.elts.length == minKeys t

/-! ## Python list operations -/

/-- `l.insert(i, x)` for `i ≤ len(l)` -/
def insAt {α} (l : List α) (i : Nat) (x : α) : List α := l.take i ++ x :: l.drop i
/-- `l.pop(i)` (the remaining list) for `i < len(l)` -/
def popAt {α} (l : List α) (i : Nat) : List α := l.take i ++ l.drop (i + 1)
/-- `l[i] = x` for `i < len(l)` -/
def setAt {α} (l : List α) (i : Nat) (x : α) : List α := l.take i ++ x :: l.drop (i + 1)

def eltAt (es : List Elt) (i : Nat) : Elt := es.getD i (0, 0)
def kidAt (cs : List Node) (i : Nat) : Node := cs.getD i (.leaf [])

/-! ## traversal: `visit_in_order`, `_visit_preorder_by_node`, `minimum`, `maximum` -/

/-- `visit_in_order` of an internal node given the in-order lists of its children:
child 0, elt 0, child 1, elt 1, …, last child. -/
def inter : List (List Elt) → List Elt → List Elt
  | [], es => es
  | c :: cs, [] => c ++ inter cs []
  | c :: cs, e :: es => c ++ e :: inter cs es

mutual
/-- `visit_in_order`: the elements of the subtree in visiting order -/
def flat : Node → List Elt
  | .leaf es => es
  | .node es cs => inter (flatL cs) es
def flatL : List Node → List (List Elt)
  | [] => []
  | c :: cs => flat c :: flatL cs
end

mutual
/-- number of levels below this node, measured along the first children -/
def height : Node → Nat
  | .leaf _ => 0
  | .node _ cs => heightL cs + 1
def heightL : List Node → Nat
  | [] => 0
  | c :: _ => height c
end

mutual
/-- `_visit_preorder_by_node`: the nodes in preorder -/
def preorder : Node → List Node
  | .leaf es => [.leaf es]
  | .node es cs => .node es cs :: preorderL cs
def preorderL : List Node → List Node
  | [] => []
  | c :: cs => preorder c ++ preorderL cs
end

/-- `minimum` (fuel = height) -/
def minimum : Nat → Node → Elt
  | _, .leaf es => eltAt es 0
  | 0, .node _ _ => (0, 0)
  | f + 1, .node _ cs => minimum f (kidAt cs 0)

/-- `maximum` (fuel = height) -/
def maximum : Nat → Node → Elt
  | _, .leaf es => eltAt es (es.length - 1)
  | 0, .node _ _ => (0, 0)
  | f + 1, .node _ cs => maximum f (kidAt cs (cs.length - 1))

/-! ## `search_in_node` -/

/-- the `while l <= r` loop; `hi = r + 1`, and the variable `i` of the code always equals `hi`. -/
def bsearch (es : List Elt) (key : Nat) : Nat → Nat → Nat → Nat × Bool
  | 0, _, hi => (hi, false)
  | fuel + 1, l, hi =>
    if l < hi then
      let m := (l + hi - 1) / 2
      let k := (eltAt es m).1
      if key = k then (m, true)
      else if key < k then bsearch es key fuel l m
      else bsearch es key fuel (m + 1) hi
    else (hi, false)

/-- `search_in_node`: index of the element with this key, or of its least successor; with the
"greater than the last element" fast path taken first, as coded. -/
def searchInNode (es : List Elt) (key : Nat) : Nat × Bool :=
  let l := es.length
  if l > 0 ∧ key > (eltAt es (l - 1)).1 then (l, false)
  else bsearch es key (l + 1) 0 l

/-! ## `get` -/

def get : Nat → Node → Nat → Option Elt
  | fuel, n, key =>
    let (i, eq) := searchInNode n.elts key
    if eq then some (eltAt n.elts i)
    else match fuel, n with
      | _, .leaf _ => none
      | 0, .node _ _ => none
      | f + 1, .node _ cs => get f (kidAt cs i) key

/-! ## `split`, `adopt` -/

/-- `split` of a maximal node: (left, middle, right) -/
def split (t : Nat) : Node → Node × Elt × Node
  | .leaf es => (.leaf (es.take (minKeys t)), eltAt es (minKeys t), .leaf (es.drop (minKeys t + 1)))
  | .node es cs =>
    (.node (es.take (minKeys t)) (cs.take (minKeys t + 1)), eltAt es (minKeys t),
     .node (es.drop (minKeys t + 1)) (cs.drop (minKeys t + 1)))

/-- `adopt(left, middle, right)` on the node `(es, cs)`.  `left` is the (already updated, in the
code: mutated in place) child at the index found by searching for the middle key. -/
def adopt (es : List Elt) (cs : List Node) (left : Node) (middle : Elt) (right : Node) :
    List Elt × List Node :=
  let i := (searchInNode es middle.1).1
  (insAt es i middle, if cs.isEmpty then [left, right] else insAt cs (i + 1) right)

/-! ## stealing and merging -/

/-- the element/child movement of `try_right_steal` once it is decided: `(self', up, right')` -/
def stealFromRight (self right : Node) (pelt : Elt) : Node × Elt × Node :=
  match self, right with
  | .leaf se, .leaf (r :: re) => (.leaf (se ++ [pelt]), r, .leaf re)
  | .node se sc, .node (r :: re) (c :: rc) => (.node (se ++ [pelt]) (sc ++ [c]), r, .node re rc)
  | s, r => (s, pelt, r)

/-- the element/child movement of `try_left_steal` once it is decided: `(left', up, self')` -/
def stealFromLeft (left self : Node) (pelt : Elt) : Node × Elt × Node :=
  match left, self with
  | .leaf le, .leaf se =>
    if le.isEmpty then (left, pelt, self) else (.leaf le.dropLast, eltAt le (le.length - 1), .leaf (pelt :: se))
  | .node le lc, .node se sc =>
    if le.isEmpty ∨ lc.isEmpty then (left, pelt, self)
    else (.node le.dropLast lc.dropLast, eltAt le (le.length - 1), .node (pelt :: se) (kidAt lc (lc.length - 1) :: sc))
  | l, s => (l, pelt, s)

/-- `self.try_left_steal(parent, index)` with `self = parent.children[index]`; `none` = returned `False` -/
def tryLeftSteal (t : Nat) (es : List Elt) (cs : List Node) (idx : Nat) : Option (List Elt × List Node) :=
  if idx ≠ 0 then
    let left := kidAt cs (idx - 1)
    if !isMinimal t left then
      let (left', up, self') := stealFromLeft left (kidAt cs idx) (eltAt es (idx - 1))
      some (setAt es (idx - 1) up, setAt (setAt cs (idx - 1) left') idx self')
    else none
  else none

/-- `self.try_right_steal(parent, index)` with `self = parent.children[index]` -/
def tryRightSteal (t : Nat) (es : List Elt) (cs : List Node) (idx : Nat) : Option (List Elt × List Node) :=
  if idx + 1 < cs.length then
    let right := kidAt cs (idx + 1)
    if !isMinimal t right then
      let (self', up, right') := stealFromRight (kidAt cs idx) right (eltAt es idx)
      some (setAt es idx up, setAt (setAt cs idx self') (idx + 1) right')
    else none
  else none

/-- the node resulting from `self.merge(parent, index)`: self ++ [parent elt] ++ right -/
def mergeNodes (self : Node) (pelt : Elt) (right : Node) : Node :=
  match self with
  | .leaf se => .leaf (se ++ pelt :: right.elts)
  | .node se sc => .node (se ++ pelt :: right.elts) (sc ++ right.children)

/-- `parent.children[idx].merge(parent, idx)`; `none` = the `IndexError` of
`parent.children.pop(index + 1)` when there is no right sibling -/
def merge (es : List Elt) (cs : List Node) (idx : Nat) : Option (List Elt × List Node) :=
  if idx + 1 < cs.length then
    let m := mergeNodes (kidAt cs idx) (eltAt es idx) (kidAt cs (idx + 1))
    some (popAt es idx, setAt (popAt cs (idx + 1)) idx m)
  else none

/-- `parent.children[idx].balance(parent, idx)`; `none` = `IndexError` (see `merge`) -/
def balance (t : Nat) (es : List Elt) (cs : List Node) (idx : Nat) : Option (List Elt × List Node) :=
  match tryLeftSteal t es cs idx with
  | some r => some r
  | none =>
    match tryRightSteal t es cs idx with
    | some r => some r
    | none => if idx = 0 then merge es cs 0 else merge es cs (idx - 1)

/-! ## insertion -/

/-- the `while len(left.elts) < _MAX` loop of `optimize_in_order_insertion` -/
def optLoop (t : Nat) : Nat → List Elt → List Node → Nat → List Elt × List Node
  | 0, es, cs, _ => (es, cs)
  | k + 1, es, cs, li =>
    if (kidAt cs li).elts.length < maxKeys t then
      match tryRightSteal t es cs li with
      | some (es', cs') => optLoop t k es' cs' li
      | none => (es, cs)
    else (es, cs)

/-- `optimize_in_order_insertion(index)` -/
def optimizeInOrder (t : Nat) (es : List Elt) (cs : List Node) (index : Nat) : List Elt × List Node :=
  if index = 0 then (es, cs)
  else if (kidAt cs (index - 1)).elts.length = maxKeys t then (es, cs)
  else optLoop t (maxKeys t + 1) es cs (index - 1)

/-- the `while True` loop of `insert_nonfull` on an internal node; `rec` is the recursive call on
a child; `k` bounds the number of passes (a `continue` happens at most once). -/
def insLoop (t : Nat) (io : Bool) (rec : Node → Node × Option Elt) (e : Elt) :
    Nat → List Elt → List Node → Node × Option Elt
  | 0, es, cs => (.node es cs, none)
  | k + 1, es, cs =>
    let (i, eq) := searchInNode es e.1
    if eq then (.node (setAt es i e) cs, some (eltAt es i))
    else
      let child := kidAt cs i
      if isMaximal t child then
        let (l, m, r) := split t child
        let (es', cs') := adopt es (setAt cs i l) l m r
        insLoop t io rec e k es' cs'
      else
        let (child', old) := rec child
        let cs' := setAt cs i child'
        let (es'', cs'') := if io then optimizeInOrder t es cs' i else (es, cs')
        (.node es'' cs'', old)

/-- `insert_nonfull(element, in_order)`; fuel = height -/
def insertNonfull (t : Nat) (io : Bool) : Nat → Node → Elt → Node × Option Elt
  | _, .leaf es, e =>
    let (i, eq) := searchInNode es e.1
    if eq then (.leaf (setAt es i e), some (eltAt es i)) else (.leaf (insAt es i e), none)
  | 0, .node es cs, _ => (.node es cs, none)
  | h + 1, .node es cs, e => insLoop t io (fun c => insertNonfull t io h c e) e 2 es cs

/-- the root handling of `insert_element`: grow a new root when the root is maximal -/
def growRoot (t : Nat) (root : Node) : Node :=
  if isMaximal t root then
    let (l, m, r) := split t root
    let (es, cs) := adopt [] [] l m r
    .node es cs
  else root

def insertRoot (t : Nat) (io : Bool) (root : Node) (e : Elt) : Node × Option Elt :=
  let r := growRoot t root
  insertNonfull t io (height r) r e

/-! ## deletion -/

/-- `_get_node(key)` followed by `node.elts[i] = elt`: replace the element with this key,
returning the old one. -/
def replaceAt : Nat → Node → Nat → Elt → Node × Option Elt
  | fuel, n, key, s =>
    let (i, eq) := searchInNode n.elts key
    if eq then
      (match n with
        | .leaf es => .leaf (setAt es i s)
        | .node es cs => .node (setAt es i s) cs, some (eltAt n.elts i))
    else match fuel, n with
      | _, .leaf es => (.leaf es, none)
      | 0, .node es cs => (.node es cs, none)
      | f + 1, .node es cs =>
        let (c', o) := replaceAt f (kidAt cs i) key s
        (.node es (setAt cs i c'), o)

inductive DelRes where
  | ok (elt : Option Elt)
  | valueError
  | indexError

/-- the step of `delete` before recursing into `children[i]`: if that child is minimal, balance it and
search again ("things may have moved"); returns the parent's lists and the index to recurse into. -/
def delPrep (t : Nat) (es : List Elt) (cs : List Node) (i : Nat) (key : Nat) :
    Option (List Elt × List Node × Nat) :=
  if isMinimal t (kidAt cs i) then
    match balance t es cs i with
    | some (es1, cs1) => some (es1, cs1, (searchInNode es1 key).1)
    | none => none
  else some (es, cs, i)

/-- the step of `delete` after the recursive call: when the key was found in this (internal) node, the
deleted least successor replaces it (`_get_node(original_key)`, `node.elts[i] = elt`). -/
def delFinish (eq : Bool) (key : Nat) (fuel : Nat) (n1 : Node) (r : DelRes) : Node × DelRes :=
  match r with
  | .valueError => (n1, .valueError)
  | .indexError => (n1, .indexError)
  | .ok elt =>
    if eq then
      match elt with
      | some s =>
        let (n2, old) := replaceAt fuel n1 key s
        (n2, .ok old)
      | none => (n1, .ok none)
    else (n1, .ok elt)

/-- `delete(key, parent, exact)`; fuel = height.  The node must not be minimal unless it is the root. -/
def delete (t : Nat) : Nat → Node → Nat → Option Elt → Node × DelRes
  | fuel, n, key, exact =>
    let (i, eq) := searchInNode n.elts key
    if eq ∧ exact.isSome ∧ exact ≠ some (eltAt n.elts i) then (n, .valueError)
    else match fuel, n with
      | _, .leaf es =>
        if eq then (.leaf (popAt es i), .ok (some (eltAt es i)))
        else if exact.isSome then (.leaf es, .valueError)
        else (.leaf es, .ok none)
      | 0, .node es cs => (.node es cs, .ok none)
      | f + 1, .node es cs =>
        -- on a match the target becomes the least successor, `exact` is dropped
        let key' := if eq then (minimum f (kidAt cs (i + 1))).1 else key
        let i' := if eq then i + 1 else i
        let exact' := if eq then none else exact
        match delPrep t es cs i' key' with
        | none => (.node es cs, .indexError)
        | some (es1, cs1, i1) =>
          let (child', r) := delete t f (kidAt cs1 i1) key' exact'
          delFinish eq key (f + 1) (.node es1 (setAt cs1 i1 child')) r

/-- the root collapse of `_delete` -/
def collapseRoot (root : Node) : Node :=
  match root with
  | .node [] (c :: _) => c
  | r => r

/-- `_delete` below the mutability check.  `always = false` is the code as shipped: the root is
collapsed only when an element was deleted.  `always = true` is the intended behaviour (collapse an
empty root whenever `delete` returned normally). -/
def deleteRoot (always : Bool) (t : Nat) (root : Node) (key : Nat) (exact : Option Elt) : Node × DelRes :=
  let (r, res) := delete t (height root) root key exact
  match res with
  | .ok old => (if always || old.isSome then collapseRoot r else r, .ok old)
  | res => (r, res)

/-! ## the tree handle (`BTree`, `BTreeDict`, `BTreeSet`) -/

structure Tree where
  t : Nat
  root : Node
  size : Nat
  immutable : Bool
  inOrder : Bool
  /-- which `_delete` the code implements (see `deleteRoot`) -/
  collapseAlways : Bool
  /-- whether `_delete` also collapses an emptied root when `delete` raised (`delete_exact` of an element that is
  not stored): `false` = the code before 90d7725, `true` = the repaired code (the reference of the check) -/
  collapseOnError : Bool

inductive Outcome (α : Type) where
  | ok (a : α)
  | immutableErr
  | valueError
  | indexError

def Tree.empty (t : Nat) (io : Bool) (collapseAlways : Bool := false) (collapseOnError : Bool := false) : Tree :=
  ⟨t, .leaf [], 0, false, io, collapseAlways, collapseOnError⟩

/-- `BTree(original=…)` / `copy.copy`: allowed only from an immutable tree -/
def Tree.clone (o : Tree) (io : Bool) : Option Tree :=
  if o.immutable then some { o with immutable := false, inOrder := io } else none

def Tree.makeImmutable (tr : Tree) : Tree := { tr with immutable := true }

/-- `insert_element(elt, self.in_order)` -/
def Tree.insert (tr : Tree) (e : Elt) : Tree × Outcome (Option Elt) :=
  if tr.immutable then (tr, .immutableErr)
  else
    let (r, old) := insertRoot tr.t tr.inOrder tr.root e
    ({ tr with root := r, size := if old.isNone then tr.size + 1 else tr.size }, .ok old)

/-- `_delete(key, exact)`; on `ValueError` the structural changes made on the way down stay -/
def Tree.delete (tr : Tree) (key : Nat) (exact : Option Elt) : Tree × Outcome (Option Elt) :=
  if tr.immutable then (tr, .immutableErr)
  else
    match deleteRoot tr.collapseAlways tr.t tr.root key exact with
    | (r, .ok old) =>
      ({ tr with root := r, size := if old.isSome then tr.size - 1 else tr.size }, .ok old)
    | (r, .valueError) => ({ tr with root := if tr.collapseOnError then collapseRoot r else r }, .valueError)
    | (r, .indexError) => ({ tr with root := r }, .indexError)

def Tree.get (tr : Tree) (key : Nat) : Option Elt := BTree.get (height tr.root) tr.root key

def Tree.items (tr : Tree) : List Elt := flat tr.root

/-! ## cursors -/

structure Cursor where
  node : Option Node := none
  idx : Nat := 0
  recurse : Bool := false
  increasing : Bool := true
  parents : List (Node × Nat) := []   -- head = top of the stack
  parked : Bool := false
  pkey : Option Nat := none
  pread : Bool := false

/-- `_seek_least` from `(node, idx)` -/
def seekLeast : Nat → Node → Nat → List (Node × Nat) → Node × Nat × List (Node × Nat)
  | _, .leaf es, i, ps => (.leaf es, i, ps)
  | 0, n, i, ps => (n, i, ps)
  | f + 1, .node es cs, i, ps => seekLeast f (kidAt cs i) 0 ((.node es cs, i) :: ps)

/-- `_seek_greatest` from `(node, idx)` -/
def seekGreatest : Nat → Node → Nat → List (Node × Nat) → Node × Nat × List (Node × Nat)
  | _, .leaf es, i, ps => (.leaf es, i, ps)
  | 0, n, i, ps => (n, i, ps)
  | f + 1, .node es cs, i, ps =>
    let c := kidAt cs i
    seekGreatest f c c.elts.length ((.node es cs, i) :: ps)

/-- the descent of `seek(key, before)` -/
def seekLoop (key : Nat) (before : Bool) : Nat → Node → List (Node × Nat) → Node × Nat × List (Node × Nat)
  | fuel, n, ps =>
    let (i, eq) := searchInNode n.elts key
    match fuel, n with
    | _, .leaf es => (.leaf es, if eq then (if before then i else i + 1) else i, ps)
    | 0, n => (n, i, ps)
    | f + 1, .node es cs =>
      if eq then
        if before then seekGreatest (f + 1) (.node es cs) i ps
        else seekLeast (f + 1) (.node es cs) (i + 1) ps
      else seekLoop key before f (kidAt cs i) ((.node es cs, i) :: ps)

/-- `seek(key, before)` -/
def Cursor.seek (root : Node) (key : Nat) (before : Bool) : Cursor :=
  let (n, i, ps) := seekLoop key before (height root + 1) root []
  { node := some n, idx := i, recurse := false, increasing := before, parents := ps,
    parked := false, pkey := some key, pread := false }

def Cursor.seekFirst (c : Cursor) : Cursor :=
  { c with node := none, idx := 0, recurse := false, increasing := true, parents := [],
           parked := false, pkey := none }

def Cursor.seekLast (c : Cursor) : Cursor :=
  { c with node := none, idx := 1, recurse := false, increasing := false, parents := [],
           parked := false, pkey := none }

def Cursor.park (c : Cursor) : Cursor := { c with parked := true }

/-- `_maybe_unpark` -/
def Cursor.maybeUnpark (c : Cursor) (root : Node) : Cursor :=
  if c.parked then
    match c.pkey with
    | some k =>
      let before := if c.pread then !c.increasing else c.increasing
      let c' := Cursor.seek root k before
      { c' with increasing := c.increasing, parked := false, pkey := none }
    | none => { c with parked := false, pkey := none }
  else c

/-- the `while True` loop of `next()` -/
def nextLoop (h : Nat) : Nat → Cursor → Node → Cursor × Option Elt
  | 0, c, _ => (c, none)
  | k + 1, c, n =>
    let (n, i, ps) := if c.recurse ∧ c.increasing then seekLeast h n c.idx c.parents else (n, c.idx, c.parents)
    if i < n.elts.length then
      let e := eltAt n.elts i
      ({ c with node := some n, idx := i + 1, parents := ps, recurse := !n.isLeaf, increasing := true,
                pkey := some e.1, pread := true }, some e)
    else
      match ps with
      | (pn, pi) :: ps' =>
        nextLoop h k { c with node := some pn, idx := pi, parents := ps', recurse := false, increasing := true } pn
      | [] => ({ c with node := none, idx := 1, parents := [], recurse := false, increasing := true }, none)

/-- `next()` -/
def Cursor.next (c : Cursor) (root : Node) : Cursor × Option Elt :=
  let c := { c.maybeUnpark root with pkey := none }
  let h := height root + 1
  match c.node with
  | none =>
    if c.idx = 1 then (c, none)
    else
      let (n, i, ps) := seekLeast h root 0 c.parents
      let c := { c with node := some n, idx := i, parents := ps }
      nextLoop h (ps.length + 2) c n
  | some n => nextLoop h (c.parents.length + h + 2) c n

/-- the `while True` loop of `prev()` -/
def prevLoop (h : Nat) : Nat → Cursor → Node → Cursor × Option Elt
  | 0, c, _ => (c, none)
  | k + 1, c, n =>
    let (n, i, ps) := if c.recurse ∧ !c.increasing then seekGreatest h n c.idx c.parents else (n, c.idx, c.parents)
    if i ≥ 1 then
      let e := eltAt n.elts (i - 1)
      ({ c with node := some n, idx := i - 1, parents := ps, recurse := !n.isLeaf, increasing := false,
                pkey := some e.1, pread := true }, some e)
    else
      match ps with
      | (pn, pi) :: ps' =>
        prevLoop h k { c with node := some pn, idx := pi, parents := ps', recurse := false, increasing := false } pn
      | [] => ({ c with node := none, idx := 0, parents := [], recurse := false, increasing := false }, none)

/-- `prev()` -/
def Cursor.prev (c : Cursor) (root : Node) : Cursor × Option Elt :=
  let c := { c.maybeUnpark root with pkey := none }
  let h := height root + 1
  match c.node with
  | none =>
    if c.idx = 0 then (c, none)
    else
      let (n, i, ps) := seekGreatest h root root.elts.length c.parents
      let c := { c with node := some n, idx := i, parents := ps }
      prevLoop h (ps.length + 2) c n
  | some n => prevLoop h (c.parents.length + h + 2) c n

/-! ## registered cursors (`BTree.cursors`, `register_cursor`, `_check_mutable_and_park`) -/

/-- a tree handle together with its cursors; the flag says whether the cursor is currently registered
(`with tree.cursor() as c:` registers on entry and deregisters on exit) -/
structure TreeC where
  tree : Tree
  cursors : List (Bool × Cursor)

/-- `for cursor in self.cursors: cursor.park()` -/
def TreeC.parkAll (tc : TreeC) : TreeC :=
  { tc with cursors := tc.cursors.map fun bc => if bc.1 then (bc.1, bc.2.park) else bc }

/-- `insert_element`: `_check_mutable_and_park` raises `Immutable` before parking anything -/
def TreeC.insert (tc : TreeC) (e : Elt) : TreeC × Outcome (Option Elt) :=
  if tc.tree.immutable then (tc, .immutableErr)
  else ({ tc.parkAll with tree := (tc.tree.insert e).1 }, (tc.tree.insert e).2)

/-- `_delete` -/
def TreeC.delete (tc : TreeC) (key : Nat) (exact : Option Elt) : TreeC × Outcome (Option Elt) :=
  if tc.tree.immutable then (tc, .immutableErr)
  else ({ tc.parkAll with tree := (tc.tree.delete key exact).1 }, (tc.tree.delete key exact).2)

/-- `cursor()` + `register_cursor`: returns the index of the new cursor -/
def TreeC.register (tc : TreeC) : TreeC × Nat :=
  ({ tc with cursors := tc.cursors ++ [(true, {})] }, tc.cursors.length)

/-- `deregister_cursor` -/
def TreeC.deregister (tc : TreeC) (i : Nat) : TreeC :=
  match tc.cursors[i]? with
  | some (_, c) => { tc with cursors := tc.cursors.set i (false, c) }
  | none => tc

/-- apply a cursor method that returns an element -/
def TreeC.withCursor (tc : TreeC) (i : Nat) (f : Cursor → Node → Cursor × Option Elt) : TreeC × Option Elt :=
  match tc.cursors[i]? with
  | some (b, c) => let r := f c tc.tree.root; ({ tc with cursors := tc.cursors.set i (b, r.1) }, r.2)
  | none => (tc, none)

def TreeC.next (tc : TreeC) (i : Nat) : TreeC × Option Elt := tc.withCursor i Cursor.next
def TreeC.prev (tc : TreeC) (i : Nat) : TreeC × Option Elt := tc.withCursor i Cursor.prev

/-- apply a cursor method that only repositions -/
def TreeC.setCursor (tc : TreeC) (i : Nat) (f : Cursor → Cursor) : TreeC :=
  match tc.cursors[i]? with
  | some (b, c) => { tc with cursors := tc.cursors.set i (b, f c) }
  | none => tc

/-! ## the mapping and set API (`BTreeDict`, `BTreeSet` and the `MutableMapping` / `MutableSet` mixins) -/

/-- `__iter__`: `with self.cursor() as cursor: while True: elt = cursor.next(); if elt is None: break; yield …`
(the loop without interleaved mutations; `fuel` bounds the number of elements) -/
def iterLoop (root : Node) : Nat → Cursor → List Elt
  | 0, _ => []
  | f + 1, c =>
    match c.next root with
    | (c', some e) => e :: iterLoop root f c'
    | (_, none) => []

def Tree.iter (tr : Tree) : List Elt := iterLoop tr.root (tr.size + 1) {}

inductive ApiErr where
  | keyError | immutable | valueError | indexError
  deriving DecidableEq

def apiErrOf {α} : Outcome α → Except ApiErr α
  | .ok a => .ok a
  | .immutableErr => .error .immutable
  | .valueError => .error .valueError
  | .indexError => .error .indexError

namespace Dict

/-- `d[key]` -/
def getitem (tr : Tree) (key : Nat) : Except ApiErr Nat :=
  match tr.get key with
  | some e => .ok e.2
  | none => .error .keyError

/-- `d[key] = value` -/
def setitem (tc : TreeC) (key value : Nat) : TreeC × Except ApiErr Unit :=
  let r := tc.insert (key, value)
  (r.1, (apiErrOf r.2).map fun _ => ())

/-- `del d[key]` -/
def delitem (tc : TreeC) (key : Nat) : TreeC × Except ApiErr Unit :=
  let r := tc.delete key none
  match apiErrOf r.2 with
  | .ok (some _) => (r.1, .ok ())
  | .ok none => (r.1, .error .keyError)
  | .error e => (r.1, .error e)

/-- `key in d` (`Mapping.__contains__`: `try: self[key]` / `except KeyError`) -/
def contains (tr : Tree) (key : Nat) : Bool := (getitem tr key).toBool

/-- `d.get(key)` (`Mapping.get`) -/
def get (tr : Tree) (key : Nat) : Option Nat := (getitem tr key).toOption

/-- `d.pop(key)` (`MutableMapping.pop` without default: `value = self[key]`, then `del self[key]`) -/
def pop (tc : TreeC) (key : Nat) : TreeC × Except ApiErr Nat :=
  match getitem tc.tree key with
  | .error e => (tc, .error e)
  | .ok v =>
    let r := delitem tc key
    (r.1, r.2.map fun _ => v)

/-- `len(d)` -/
def len (tr : Tree) : Nat := tr.size

/-- `list(d)` / `d.keys()` -/
def keys (tr : Tree) : List Nat := tr.iter.map (·.1)

/-- `d.items()` (`ItemsView.__iter__`: `for key in self._mapping: yield (key, self._mapping[key])`) -/
def items (tr : Tree) : List (Nat × Nat) :=
  (keys tr).filterMap fun k => (get tr k).map fun v => (k, v)

/-- `d.values()` -/
def values (tr : Tree) : List Nat := (keys tr).filterMap (get tr)

end Dict

namespace SetApi

/-- `x in s` -/
def contains (tr : Tree) (key : Nat) : Bool := (tr.get key).isSome

/-- `s.add(x)` -/
def add (tc : TreeC) (key : Nat) : TreeC × Except ApiErr Unit :=
  let r := tc.insert (key, 0)
  (r.1, (apiErrOf r.2).map fun _ => ())

/-- `s.discard(x)` -/
def discard (tc : TreeC) (key : Nat) : TreeC × Except ApiErr Unit :=
  let r := tc.delete key none
  (r.1, (apiErrOf r.2).map fun _ => ())

/-- `s.remove(x)` (`MutableSet.remove`: `if value not in self: raise KeyError(value)`, then `discard`) -/
def remove (tc : TreeC) (key : Nat) : TreeC × Except ApiErr Unit :=
  if contains tc.tree key then discard tc key else (tc, .error .keyError)

def len (tr : Tree) : Nat := tr.size

/-- `list(s)` -/
def members (tr : Tree) : List Nat := tr.iter.map (·.1)

end SetApi

end Model.BTree

import Model.Name
import Model.ZoneNode
import Model.Serial
/-!
Model of zone write transactions: `dns/transaction.py` (`Transaction.get/add/replace/delete/delete_exact/
update_serial/name_exists/changed/commit/rollback/__exit__/_add/_delete/_rdataset_from_args/_end/_checked_*`),
`dns/zone.py` (`_validate_name`, `Version.get_node/get_rdataset`, `WritableVersion._maybe_cow/put_rdataset/
delete_rdataset/delete_node`, `zone.Transaction._end_transaction`, `Zone._commit_version`), and through them
`dns/versioned.py` / `dns/btreezone.py` (whose content behaviour is the same; their locking, version retention,
flags and delegation index belong to C11, C12, C20).

Zones are persistent values: the copy-on-write of `WritableVersion` is modelled away (DESIGN §5), the published
node map `Txn.zone` is replaced only by a commit.  Node keys are names up to ASCII case (`Name.__eq__`/`__hash__`),
represented by their lower-cased form.  Nothing here depends on the order of a node map.

Three decision points are parameters; `false` is the intended behaviour:
* `Cfg.d09` – LEGACY (before repair 48a5b1a; the code no longer does this): `dns.zone.WritableVersion.delete_rdataset`
  removed the emptied node with `del self.nodes[name]` using the name *as given* instead of the validated name;
* `Cfg.d10` – LEGACY (before repair 32c445c): `Transaction._add` compared the name *as given* with the effective
  origin for the "SOA only at the origin" rule;
* `Cfg.gn` – as shipped today: `Transaction.get_node` has no `_check_ended()`, so an ended transaction still answers it.
The harness drives the model with `d09 = d10 = false` always (the legacy variants are retained only for the
counter-example theorems) and with `gn` as probed on the working tree.
-/
namespace Model.ZT
open Model

inductive Err where
  | typeError | valueError | keyError | deleteNotExact | readOnly | alreadyEnded | veto | nameError
  deriving DecidableEq, Repr

def Err.toString : Err → String
  | .typeError => "TypeError" | .valueError => "ValueError" | .keyError => "KeyError"
  | .deleteNotExact => "DeleteNotExact" | .readOnly => "ReadOnly" | .alreadyEnded => "AlreadyEnded"
  | .veto => "Veto" | .nameError => "NameError"

structure Cfg where
  origin : Name
  relativize : Bool
  rdclass : Nat
  d09 : Bool
  d10 : Bool
  gn : Bool := false
  deriving Repr

abbrev Nodes := List (Name × Node)

/-! ## the node map (a `dict` / `BTreeDict` keyed by names up to case) -/

def nodesGet : Nodes → Name → Option Node
  | [], _ => none
  | (k', nd) :: rest, k => if k' = k then some nd else nodesGet rest k

def nodesErase (v : Nodes) (k : Name) : Nodes := v.filter (fun e => decide (e.1 ≠ k))

def nodesSet (v : Nodes) (k : Name) (nd : Node) : Nodes := (k, nd) :: nodesErase v k

/-! ## `_validate_name` -/

/-- `dns.zone._validate_name(name, origin, relativize)`; the result is the dictionary key (lower-cased). -/
def validateName (cfg : Cfg) (name : Name) : Except Err Name :=
  if isAbs name then
    if !isSubdomain name cfg.origin then .error .keyError
    else if cfg.relativize then
      match relativize name cfg.origin with
      | .ok n => .ok (lowerName n)
      | .error _ => .error .nameError
    else .ok (lowerName name)
  else
    match derelativize name cfg.origin with
    | .error .nameTooLong => .error .keyError
    | .error _ => .error .nameError
    | .ok absName => if !cfg.relativize then .ok (lowerName absName) else .ok (lowerName name)

/-- the effective origin of `origin_information()`: the empty name if relativizing, else the origin -/
def effectiveOrigin (cfg : Cfg) : Name := if cfg.relativize then [] else cfg.origin

/-- the "SOA only at the origin" test of `Transaction._add`.
As shipped (`d10`): `name == effective_origin` on the name as given.
Intended: the name as given is one of the spellings of the origin (`@`, the absolute origin, the effective origin). -/
def soaNameOk (cfg : Cfg) (name : Name) : Bool :=
  if cfg.d10 then lowerName name == lowerName (effectiveOrigin cfg)
  else lowerName name == lowerName (effectiveOrigin cfg) || lowerName name == lowerName cfg.origin || name == []

/-! ## `Version` / `WritableVersion` -/

/-- `Version.get_node` -/
def getNode (cfg : Cfg) (v : Nodes) (name : Name) : Except Err (Option Node) :=
  match validateName cfg name with
  | .error e => .error e
  | .ok key => .ok (nodesGet v key)

/-- `Version.get_rdataset` -/
def getRdataset (cfg : Cfg) (v : Nodes) (name : Name) (t c : Nat) : Except Err (Option Rdataset) :=
  match validateName cfg name with
  | .error e => .error e
  | .ok key =>
    match nodesGet v key with
    | none => .ok none
    | some nd => .ok (nd.find cfg.rdclass t c)

/-- `WritableVersion.put_rdataset` : `_maybe_cow` (copy of the node, or a fresh one) then `replace_rdataset` -/
def putRdataset (cfg : Cfg) (v : Nodes) (name : Name) (r : Rdataset) : Except Err Nodes :=
  match validateName cfg name with
  | .error e => .error e
  | .ok key => .ok (nodesSet v key (((nodesGet v key).getD []).replace r))

/-- `WritableVersion.delete_rdataset` : `_maybe_cow`, `Node.delete_rdataset`, and removal of the node when it
became empty.  Returns the new map and the exception raised, if any (the map may have changed even so). -/
def deleteRdataset (cfg : Cfg) (v : Nodes) (name : Name) (t c : Nat) : Nodes × Option Err :=
  match validateName cfg name with
  | .error e => (v, some e)
  | .ok key =>
    let node' := ((nodesGet v key).getD []).delete cfg.rdclass t c
    let v' := nodesSet v key node'
    if node'.length = 0 then
      if cfg.d09 then
        -- `del self.nodes[name]` with the name as given
        let raw := lowerName name
        if (nodesGet v' raw).isSome then (nodesErase v' raw, none) else (v', some .keyError)
      else (nodesErase v' key, none)
    else (v', none)

/-- `WritableVersion.delete_node` : returns the new map and whether the name was present (`changed.add`) -/
def deleteNode (cfg : Cfg) (v : Nodes) (name : Name) : Except Err (Nodes × Bool) :=
  match validateName cfg name with
  | .error e => .error e
  | .ok key => if (nodesGet v key).isSome then .ok (nodesErase v key, true) else .ok (v, false)

/-! ## the transaction -/

structure Txn where
  zone : Nodes        -- `Zone.nodes`, the published map
  ver : Nodes         -- `version.nodes` of the open transaction
  changed : Bool      -- `len(version.changed) > 0`
  readOnly : Bool
  ended : Bool
  deriving Repr

/-- `zone.writer()` on a zone whose content is `z` -/
def beginWrite (z : Nodes) : Txn := { zone := z, ver := z, changed := false, readOnly := false, ended := false }
/-- `zone.reader()` -/
def beginRead (z : Nodes) : Txn := { zone := z, ver := z, changed := false, readOnly := true, ended := false }
/-- `zone.writer(replacement=True)` : the version starts empty (`WritableVersion.__init__` skips the copy); nothing is
published unless something was changed -/
def beginReplace (z : Nodes) : Txn := { zone := z, ver := [], changed := false, readOnly := false, ended := false }

/-- an argument of the variadic `add/replace/delete/delete_exact` -/
inductive Arg where
  | name (n : Name)
  | rrset (n : Name) (r : Rdataset)
  | rds (r : Rdataset)
  | rdata (rd : Rdata)
  | int (i : Nat)
  | other
  deriving Repr

/-- the flat finite map of the reference model: `(owner, type, covers) ↦ rdataset` -/
abbrev Key := Name × Nat × Nat
abbrev SZone := List (Key × Rdataset)

inductive Out where
  | unit
  | rds (r : Option Rdataset)
  | bool (b : Bool)
  | flag (b : Bool)       -- `changed()`
  | nodes (v : Nodes)     -- `iterate_names()` / `iterate_rdatasets()` of the model of the code
  | node (k : Name) (nd : Option Node)       -- `get_node()` of the model of the code (validated key, node)
  | szone (z : SZone)     -- iteration in the reference model
  | snode (k : Name) (zs : Option SZone)     -- `get_node()` in the reference model: the owner's entries
  deriving Repr

abbrev Res := Except Err Out

/-- `RRset.to_rdataset()` : `from_rdata_list(ttl, list(self))` raises `ValueError` on an empty list -/
def rrsetToRdataset (r : Rdataset) : Except Err Rdataset :=
  if r.items.length = 0 then .error .valueError else .ok r

/-- `Transaction._rdataset_from_args(method, deleting, args)`; returns the rdataset (`None` only when deleting and
no argument is left) and the remaining arguments -/
def rdsFromArgs (deleting : Bool) : List Arg → Except Err (Option Rdataset × List Arg)
  | [] => if deleting then .ok (none, []) else .error .typeError
  | .rrset _ r :: rest =>
    match rrsetToRdataset r with
    | .error e => .error e
    | .ok r' => .ok (some r', rest)
  | .rds r :: rest => .ok (some r, rest)
  | arg :: rest =>
    if deleting then
      match arg with
      | .rdata rd => .ok (some (Rdataset.fromRdata 0 rd), rest)
      | _ => .error .typeError
    else
      match arg with
      | .int ttl =>
        if ttl > ConstsC10.maxTTL then .error .valueError
        else match rest with
          | [] => .error .typeError
          | .rdata rd :: rest' => .ok (some (Rdataset.fromRdata ttl rd), rest')
          | _ :: _ => .error .typeError
      | _ => .error .typeError

/-- `_checked_put_rdataset` : the registered checks run first (`veto` = a check raises), then `_put_rdataset` -/
def checkedPut (cfg : Cfg) (s : Txn) (name : Name) (r : Rdataset) (veto : Bool) : Txn × Res :=
  if veto then (s, .error .veto)
  else match putRdataset cfg s.ver name r with
    | .error e => (s, .error e)
    | .ok v => ({ s with ver := v, changed := true }, .ok .unit)

/-- `_checked_delete_rdataset` -/
def checkedDeleteRdataset (cfg : Cfg) (s : Txn) (name : Name) (t c : Nat) (veto : Bool) : Txn × Res :=
  if veto then (s, .error .veto)
  else match validateName cfg name with
    | .error e => (s, .error e)
    | .ok _ =>
      match deleteRdataset cfg s.ver name t c with
      | (v, none) => ({ s with ver := v, changed := true }, .ok .unit)
      | (v, some e) => ({ s with ver := v, changed := true }, .error e)

/-- `_checked_delete_name` -/
def checkedDeleteName (cfg : Cfg) (s : Txn) (name : Name) (veto : Bool) : Txn × Res :=
  if veto then (s, .error .veto)
  else match deleteNode cfg s.ver name with
    | .error e => (s, .error e)
    | .ok (v, present) => ({ s with ver := v, changed := s.changed || present }, .ok .unit)

/-- what to delete at a name (the argument forms of `delete` / `delete_exact` after parsing) -/
inductive Sel where
  | all
  | type (t c : Nat)
  | rds (r : Rdataset)
  deriving Repr

/-- the argument parsing of `Transaction._add` : owner name, rdataset, and whether surplus arguments remain
(reported by `_raise_if_not_empty` only after the class and origin-SOA checks) -/
def parseAddArgs (args : List Arg) : Except Err (Name × Rdataset × Bool) :=
  match args with
  | [] => .error .typeError
  | .name n :: rest =>
    match rdsFromArgs false rest with
    | .error e => .error e
    | .ok (some r, rest') => .ok (n, r, rest'.length ≠ 0)
    | .ok (none, _) => .error .typeError
  | .rrset n r :: rest =>
    match rrsetToRdataset r with
    | .error e => .error e
    | .ok r' => .ok (n, r', rest.length ≠ 0)
  | _ :: _ => .error .typeError

/-- `Transaction._add(replace, args)` after argument parsing -/
def addCore (cfg : Cfg) (s : Txn) (replace : Bool) (name : Name) (rds : Rdataset) (extra veto : Bool) : Txn × Res :=
  if rds.rdclass ≠ cfg.rdclass then (s, .error .valueError)
  else if rds.rdtype = ConstsC10.soa ∧ !soaNameOk cfg name then (s, .error .valueError)
  else if extra then (s, .error .typeError)
  else if replace then checkedPut cfg s name rds veto
  else
    match getRdataset cfg s.ver name rds.rdtype rds.covers with
    | .error e => (s, .error e)
    | .ok none => checkedPut cfg s name rds veto
    | .ok (some existing) => checkedPut cfg s name (existing.union rds) veto

/-- `Transaction._add(replace, args)` -/
def txnAdd (cfg : Cfg) (s : Txn) (replace : Bool) (args : List Arg) (veto : Bool) : Txn × Res :=
  match parseAddArgs args with
  | .error e => (s, .error e)
  | .ok (name, rds, extra) => addCore cfg s replace name rds extra veto

/-- `RdataType.make(int)` : out of range is a `ValueError` -/
def makeType (i : Nat) : Except Err Nat := if i > 65535 then .error .valueError else .ok i

/-- the argument parsing of `Transaction._delete` (surplus arguments are a `TypeError` right away) -/
def parseDeleteArgs (args : List Arg) : Except Err (Name × Sel) :=
  match args with
  | [] => .error .typeError
  | .name name :: .int t :: rest =>
    -- deleting by type and (optionally) covers
    match makeType t with
    | .error e => .error e
    | .ok t =>
      match rest with
      | [] => .ok (name, .type t 0)
      | .int c :: rest' =>
        match makeType c with
        | .error e => .error e
        | .ok c => if rest'.length ≠ 0 then .error .typeError else .ok (name, .type t c)
      | _ :: _ => .error .typeError   -- `RdataType.make` of a non-int
  | .name name :: rest =>
    match rdsFromArgs true rest with
    | .error e => .error e
    | .ok (rdsO, rest') =>
      if rest'.length ≠ 0 then .error .typeError
      else match rdsO with
        | none => .ok (name, .all)
        | some r => .ok (name, .rds r)
  | .rrset name r :: rest =>
    if rest.length ≠ 0 then .error .typeError else .ok (name, .rds r)
  | _ :: _ => .error .typeError

/-- delete the whole name (`rdataset` absent or empty, hence falsy) -/
def deleteAll (cfg : Cfg) (s : Txn) (exact : Bool) (name : Name) (veto : Bool) : Txn × Res :=
  if exact then
    match getNode cfg s.ver name with
    | .error e => (s, .error e)
    | .ok none => (s, .error .deleteNotExact)
    | .ok (some _) => checkedDeleteName cfg s name veto
  else checkedDeleteName cfg s name veto

/-- `Transaction._delete(exact, args)` after argument parsing -/
def deleteCore (cfg : Cfg) (s : Txn) (exact : Bool) (name : Name) (sel : Sel) (veto : Bool) : Txn × Res :=
  match sel with
  | .all => deleteAll cfg s exact name veto
  | .type t c =>
    match getRdataset cfg s.ver name t c with
    | .error e => (s, .error e)
    | .ok none => if exact then (s, .error .deleteNotExact) else (s, .ok .unit)
    | .ok (some _) => checkedDeleteRdataset cfg s name t c veto
  | .rds rds =>
    if rds.items.length = 0 then deleteAll cfg s exact name veto
    else if rds.rdclass ≠ cfg.rdclass then (s, .error .valueError)
    else
      match getRdataset cfg s.ver name rds.rdtype rds.covers with
      | .error e => (s, .error e)
      | .ok none => if exact then (s, .error .deleteNotExact) else (s, .ok .unit)
      | .ok (some existing) =>
        if exact ∧ !(existing.intersection rds).eq rds then (s, .error .deleteNotExact)
        else
          let d := existing.difference rds
          if d.items.length = 0 then checkedDeleteRdataset cfg s name d.rdtype d.covers veto
          else checkedPut cfg s name d veto

/-- `Transaction._delete(exact, args)` -/
def txnDelete (cfg : Cfg) (s : Txn) (exact : Bool) (args : List Arg) (veto : Bool) : Txn × Res :=
  match parseDeleteArgs args with
  | .error e => (s, .error e)
  | .ok (name, sel) => deleteCore cfg s exact name sel veto

/-- the new serial of `update_serial` : RFC 1982 addition or the absolute value, reduced, with 0 replaced -/
def newSerial (old : Nat) (value : Int) (relative : Bool) : Except Err Nat :=
  let r : Except Err Nat :=
    if relative then
      match Serial.add (Serial.make old) value with
      | none => .error .valueError
      | some v => .ok v
    else .ok (Serial.make value)
  match r with
  | .error e => .error e
  | .ok v => .ok (if v = 0 then ConstsC10.zeroSerialBecomes else v)

/-- `Transaction.update_serial(value, relative, name)` (after `_check_ended`) -/
def txnUpdateSerial (cfg : Cfg) (s : Txn) (value : Int) (relative : Bool) (name : Name) (veto : Bool) : Txn × Res :=
  if value < 0 then (s, .error .valueError)
  else
    match getRdataset cfg s.ver name ConstsC10.soa 0 with
    | .error e => (s, .error e)
    | .ok none => (s, .error .keyError)
    | .ok (some rds) =>
      match rds.items with
      | [] => (s, .error .keyError)
      | rd0 :: _ =>
        match newSerial rd0.val value relative with
        | .error e => (s, .error e)
        | .ok serial =>
          let newRds := Rdataset.fromRdata rds.ttl { rd0 with val := serial }
          -- `self.replace(name, new_rdataset)`
          if s.readOnly then (s, .error .readOnly)
          else txnAdd cfg s true [.name name, .rds newRds] veto

/-- `Transaction._end(commit)` : `_check_ended`, `_end_transaction`, `_ended = True` -/
def endTxn (s : Txn) (commit : Bool) : Txn × Res :=
  if s.ended then (s, .error .alreadyEnded)
  else if s.readOnly then ({ s with ended := true }, .ok .unit)
  else if commit ∧ s.changed then ({ s with zone := s.ver, ended := true }, .ok .unit)
  else ({ s with ended := true }, .ok .unit)

inductive Op where
  | add (args : List Arg) (veto : Bool)
  | replace (args : List Arg) (veto : Bool)
  | delete (args : List Arg) (veto : Bool)
  | deleteExact (args : List Arg) (veto : Bool)
  | updateSerial (value : Int) (relative : Bool) (name : Name) (veto : Bool)
  | get (name : Name) (t c : Nat)
  | nameExists (name : Name)
  | getNode (name : Name)
  | changed
  | dump
  | commit
  | rollback
  | commitRaise     -- `commit()` while a callback of the commit path (the versioned zone's pruning policy) raises
  deriving Repr

/-- `commit()` during which a user callback consulted by the commit path raises (`versioned.Zone._commit_version_unlocked`
-> `_prune_versions_unlocked` -> pruning policy): the version is withdrawn, the write ended, the exception re-raised;
nothing is published.  A transaction that changed nothing, and a reader, never reach the callback. -/
def endTxnRaise (s : Txn) : Txn × Res :=
  if s.ended then (s, .error .alreadyEnded)
  else if s.readOnly then ({ s with ended := true }, .ok .unit)
  else if s.changed then ({ s with ended := true }, .error .veto)
  else ({ s with ended := true }, .ok .unit)

/-- one call of the public API -/
def step (cfg : Cfg) (s : Txn) (op : Op) : Txn × Res :=
  match op with
  | .commit => endTxn s true
  | .rollback => endTxn s false
  | .commitRaise => endTxnRaise s
  | .add args veto =>
    if s.ended then (s, .error .alreadyEnded) else if s.readOnly then (s, .error .readOnly)
    else txnAdd cfg s false args veto
  | .replace args veto =>
    if s.ended then (s, .error .alreadyEnded) else if s.readOnly then (s, .error .readOnly)
    else txnAdd cfg s true args veto
  | .delete args veto =>
    if s.ended then (s, .error .alreadyEnded) else if s.readOnly then (s, .error .readOnly)
    else txnDelete cfg s false args veto
  | .deleteExact args veto =>
    if s.ended then (s, .error .alreadyEnded) else if s.readOnly then (s, .error .readOnly)
    else txnDelete cfg s true args veto
  | .updateSerial value relative name veto =>
    if s.ended then (s, .error .alreadyEnded) else txnUpdateSerial cfg s value relative name veto
  | .get name t c =>
    if s.ended then (s, .error .alreadyEnded)
    else match getRdataset cfg s.ver name t c with
      | .error e => (s, .error e)
      | .ok r => (s, .ok (.rds r))
  | .nameExists name =>
    if s.ended then (s, .error .alreadyEnded)
    else match getNode cfg s.ver name with
      | .error e => (s, .error e)
      | .ok nd => (s, .ok (.bool nd.isSome))
  | .getNode name =>
    -- `Transaction.get_node` : no `_check_ended()` as shipped (`cfg.gn`)
    if s.ended ∧ !cfg.gn then (s, .error .alreadyEnded)
    else match validateName cfg name with
      | .error e => (s, .error e)
      | .ok key => (s, .ok (.node key (nodesGet s.ver key)))
  | .changed =>
    if s.ended then (s, .error .alreadyEnded)
    else (s, .ok (.flag (if s.readOnly then false else s.changed)))
  | .dump =>
    if s.ended then (s, .error .alreadyEnded) else (s, .ok (.nodes s.ver))

/-- the body of a `with` block: the calls in order, each result recorded (an exception of a call is caught by
the caller of the history; leaving the block through an exception is `exitTxn … true`) -/
def run (cfg : Cfg) : Txn → List Op → Txn × List Res
  | s, [] => (s, [])
  | s, op :: ops =>
    let (s1, r) := step cfg s op
    let (s2, rs) := run cfg s1 ops
    (s2, r :: rs)

/-- `Transaction.__exit__` : nothing if already ended, commit on a clean exit, rollback on an exception -/
def exitTxn (s : Txn) (exc : Bool) : Txn :=
  if s.ended then s else (endTxn s (!exc)).1

/-! ## the reference model: a flat finite map `(owner, type, covers) ↦ rdataset` -/

namespace SZone

def get : SZone → Key → Option Rdataset
  | [], _ => none
  | (k', r) :: rest, k => if k' = k then some r else get rest k

/-- does the owner name have any rdataset? -/
def has (z : SZone) (n : Name) : Bool := z.any (fun e => decide (e.1.1 = n))

/-- CNAME exclusivity: a CNAME-kind rdataset displaces other data, other data displaces CNAME-kind ones;
KEY/NSEC/NSEC3 and their signatures coexist with both -/
def excluded (new old : Kind) : Bool :=
  (new == .cname && old == .regular) || (new == .regular && old == .cname)

/-- store `r` at owner `n`, displacing the same (type, covers) and whatever CNAME exclusivity forbids next to it -/
def put (z : SZone) (n : Name) (r : Rdataset) : SZone :=
  ((n, r.rdtype, r.covers), r) ::
    z.filter (fun e => !(decide (e.1.1 = n) &&
      (decide (e.1.2 = (r.rdtype, r.covers)) || excluded r.kind (classify e.1.2.1 e.1.2.2))))

def delRds (z : SZone) (n : Name) (t c : Nat) : SZone := z.filter (fun e => decide (e.1 ≠ (n, t, c)))

def delName (z : SZone) (n : Name) : SZone := z.filter (fun e => decide (e.1.1 ≠ n))

/-- the entries of one owner -/
def atName (z : SZone) (n : Name) : SZone := z.filter (fun e => decide (e.1.1 = n))

end SZone

/-- the operations of the reference model, over canonical arguments -/
inductive SOp where
  | add (n : Name) (r : Rdataset) (extra : Bool) (veto : Bool)
  | replace (n : Name) (r : Rdataset) (extra : Bool) (veto : Bool)
  | delete (n : Name) (sel : Sel) (exact : Bool) (veto : Bool)
  | updateSerial (value : Int) (relative : Bool) (n : Name) (veto : Bool)
  | get (n : Name) (t c : Nat)
  | nameExists (n : Name)
  | getNode (n : Name)
  | fail (e : Err)          -- a call whose argument list is malformed: raises, no effect
  | changed
  | dump
  | commit
  | rollback
  | commitRaise
  deriving Repr

structure STxn where
  zone : SZone
  ver : SZone
  touched : Bool      -- some store / deletion went through (what `changed()` reports)
  readOnly : Bool
  ended : Bool
  deriving Repr

def sBeginWrite (z : SZone) : STxn := { zone := z, ver := z, touched := false, readOnly := false, ended := false }
def sBeginRead (z : SZone) : STxn := { zone := z, ver := z, touched := false, readOnly := true, ended := false }
def sBeginReplace (z : SZone) : STxn := { zone := z, ver := [], touched := false, readOnly := false, ended := false }

/-- the reference model never looks at the decision points: it is the intended behaviour -/
def specCfg (cfg : Cfg) : Cfg := { cfg with d09 := false, d10 := false, gn := false }

/-- store an rdataset (class, origin-SOA and surplus-argument checks in the order the API reports them) -/
def sPut (cfg : Cfg) (t : STxn) (n : Name) (r : Rdataset) (extra merge veto : Bool) : STxn × Res :=
  if r.rdclass ≠ cfg.rdclass then (t, .error .valueError)
  else if r.rdtype = ConstsC10.soa ∧ !soaNameOk (specCfg cfg) n then (t, .error .valueError)
  else if extra then (t, .error .typeError)
  else match validateName cfg n with
    | .error e => if veto ∧ merge = false then (t, .error .veto) else (t, .error e)
    | .ok k =>
      if veto then (t, .error .veto)
      else
        let r' := if merge then
            match t.ver.get (k, r.rdtype, r.covers) with
            | some e => e.union r
            | none => r
          else r
        ({ t with ver := t.ver.put k r', touched := true }, .ok .unit)

def sDelete (cfg : Cfg) (t : STxn) (n : Name) (sel : Sel) (exact veto : Bool) : STxn × Res :=
  let delAll : STxn × Res :=
    match validateName cfg n with
    | .error e => if veto ∧ exact = false then (t, .error .veto) else (t, .error e)
    | .ok k =>
      if exact ∧ !t.ver.has k then (t, .error .deleteNotExact)
      else if veto then (t, .error .veto)
      else ({ t with ver := t.ver.delName k, touched := t.touched || t.ver.has k }, .ok .unit)
  match sel with
  | .all => delAll
  | .type ty c =>
    match validateName cfg n with
    | .error e => (t, .error e)
    | .ok k =>
      match t.ver.get (k, ty, c) with
      | none => if exact then (t, .error .deleteNotExact) else (t, .ok .unit)
      | some _ =>
        if veto then (t, .error .veto) else ({ t with ver := t.ver.delRds k ty c, touched := true }, .ok .unit)
  | .rds r =>
    if r.items.length = 0 then delAll
    else if r.rdclass ≠ cfg.rdclass then (t, .error .valueError)
    else match validateName cfg n with
      | .error e => (t, .error e)
      | .ok k =>
        match t.ver.get (k, r.rdtype, r.covers) with
        | none => if exact then (t, .error .deleteNotExact) else (t, .ok .unit)
        | some e =>
          if exact ∧ !(e.intersection r).eq r then (t, .error .deleteNotExact)
          else if veto then (t, .error .veto)
          else
            let d := e.difference r
            if d.items.length = 0 then ({ t with ver := t.ver.delRds k d.rdtype d.covers, touched := true }, .ok .unit)
            else ({ t with ver := t.ver.put k d, touched := true }, .ok .unit)

def sEnd (t : STxn) (commit : Bool) : STxn × Res :=
  if t.ended then (t, .error .alreadyEnded)
  else if t.readOnly then ({ t with ended := true }, .ok .unit)
  else if commit ∧ t.touched then ({ t with zone := t.ver, ended := true }, .ok .unit)   -- nothing touched: nothing published
  else ({ t with ended := true }, .ok .unit)

/-- a commit that fails: all or nothing, so nothing -/
def sEndRaise (t : STxn) : STxn × Res :=
  if t.ended then (t, .error .alreadyEnded)
  else if t.readOnly then ({ t with ended := true }, .ok .unit)
  else if t.touched then ({ t with ended := true }, .error .veto)
  else ({ t with ended := true }, .ok .unit)

def sStep (cfg : Cfg) (t : STxn) (op : SOp) : STxn × Res :=
  match op with
  | .commit => sEnd t true
  | .rollback => sEnd t false
  | .commitRaise => sEndRaise t
  | .fail e =>
    if t.ended then (t, .error .alreadyEnded) else if t.readOnly then (t, .error .readOnly) else (t, .error e)
  | .changed =>
    if t.ended then (t, .error .alreadyEnded) else (t, .ok (.flag (if t.readOnly then false else t.touched)))
  | .dump => if t.ended then (t, .error .alreadyEnded) else (t, .ok (.szone t.ver))
  | .getNode n =>
    if t.ended then (t, .error .alreadyEnded)
    else match validateName cfg n with
      | .error e => (t, .error e)
      | .ok k => (t, .ok (.snode k (if t.ver.has k then some (t.ver.atName k) else none)))
  | .add n r extra veto =>
    if t.ended then (t, .error .alreadyEnded) else if t.readOnly then (t, .error .readOnly)
    else sPut cfg t n r extra true veto
  | .replace n r extra veto =>
    if t.ended then (t, .error .alreadyEnded) else if t.readOnly then (t, .error .readOnly)
    else sPut cfg t n r extra false veto
  | .delete n sel exact veto =>
    if t.ended then (t, .error .alreadyEnded) else if t.readOnly then (t, .error .readOnly)
    else sDelete cfg t n sel exact veto
  | .updateSerial value relative n veto =>
    if t.ended then (t, .error .alreadyEnded)
    else if value < 0 then (t, .error .valueError)
    else match validateName cfg n with
      | .error e => (t, .error e)
      | .ok k =>
        match t.ver.get (k, ConstsC10.soa, 0) with
        | none => (t, .error .keyError)
        | some rds =>
          match rds.items with
          | [] => (t, .error .keyError)
          | rd0 :: _ =>
            match newSerial rd0.val value relative with
            | .error e => (t, .error e)
            | .ok serial =>
              if t.readOnly then (t, .error .readOnly)
              else sPut cfg t n (Rdataset.fromRdata rds.ttl { rd0 with val := serial }) false false veto
  | .get n ty c =>
    if t.ended then (t, .error .alreadyEnded)
    else match validateName cfg n with
      | .error e => (t, .error e)
      | .ok k => (t, .ok (.rds (t.ver.get (k, ty, c))))
  | .nameExists n =>
    if t.ended then (t, .error .alreadyEnded)
    else match validateName cfg n with
      | .error e => (t, .error e)
      | .ok k => (t, .ok (.bool (t.ver.has k)))

/-- the call of the public API as an operation of the reference model (argument forms normalised) -/
def toSOp : Op → SOp
  | .add args veto =>
    match parseAddArgs args with
    | .error e => .fail e
    | .ok (n, r, extra) => .add n r extra veto
  | .replace args veto =>
    match parseAddArgs args with
    | .error e => .fail e
    | .ok (n, r, extra) => .replace n r extra veto
  | .delete args veto =>
    match parseDeleteArgs args with
    | .error e => .fail e
    | .ok (n, sel) => .delete n sel false veto
  | .deleteExact args veto =>
    match parseDeleteArgs args with
    | .error e => .fail e
    | .ok (n, sel) => .delete n sel true veto
  | .updateSerial v rel n veto => .updateSerial v rel n veto
  | .get n t c => .get n t c
  | .nameExists n => .nameExists n
  | .getNode n => .getNode n
  | .changed => .changed
  | .dump => .dump
  | .commit => .commit
  | .rollback => .rollback
  | .commitRaise => .commitRaise

def sRun (cfg : Cfg) : STxn → List SOp → STxn × List Res
  | t, [] => (t, [])
  | t, op :: ops =>
    let (t1, r) := sStep cfg t op
    let (t2, rs) := sRun cfg t1 ops
    (t2, r :: rs)

def sExit (t : STxn) (exc : Bool) : STxn := if t.ended then t else (sEnd t (!exc)).1

/-- the flat map of a node map: one entry per rdataset, keyed by (owner, type, covers) -/
def flatten (v : Nodes) : SZone :=
  v.flatMap fun e => e.2.map fun r => ((e.1, r.rdtype, r.covers), r)

end Model.ZT

import Model.Bytes
/-!
`dns.rdata.get_rdata_class` / `load_all_types` as a state machine (C02, dispatch dimension).

The module state is the dictionary `_rdata_classes` and the flag `_dynamic_load_allowed`.  An implementation is
identified by the directory its module lives in and its type code (`module 255 15` = `dns.rdtypes.ANY.MX.MX`).
`files` is the list of module files `(class of the directory, type code)`; `import_module` succeeds iff the file
exists.  `register_type` is not modelled.
-/
namespace Model

inductive Impl where
  | generic
  | module (dir typ : Nat)
  deriving DecidableEq, Repr

structure DState where
  cache : List ((Nat × Nat) × Impl)
  dynamic : Bool

def DState.init : DState := { cache := [], dynamic := true }

/-- `_rdata_classes.get(key)` -/
def cacheGet (s : DState) (k : Nat × Nat) : Option Impl := s.cache.lookup k

/-- `_rdata_classes[key] = cls` -/
def cacheSet (s : DState) (k : Nat × Nat) (v : Impl) : DState := { s with cache := (k, v) :: s.cache }

def hasModule (files : List (Nat × Nat)) (d t : Nat) : Bool := files.contains (d, t)

/-- `get_rdata_class(rdclass, rdtype, use_generic)`: returns the class (or `None`) and the new module state -/
def getClass (files : List (Nat × Nat)) (s : DState) (c t : Nat) (useGeneric : Bool) : Option Impl × DState :=
  match cacheGet s (c, t) with
  | some k => (some k, s)
  | none =>
    match cacheGet s (255, t) with
    | some k => (some k, s)
    | none =>
      let r : Option Impl × DState :=
        if s.dynamic then
          if hasModule files c t then (some (.module c t), cacheSet s (c, t) (.module c t))
          else if hasModule files 255 t then
            (some (.module 255 t), cacheSet (cacheSet s (255, t) (.module 255 t)) (c, t) (.module 255 t))
          else (none, s)
        else (none, s)
      match r.1 with
      | some k => (some k, r.2)
      | none =>
        if useGeneric then
          -- the generic fallback must not occupy the class-independent slot (ANY, rdtype)
          (some .generic, if c = 255 then r.2 else cacheSet r.2 (c, t) .generic)
        else (none, r.2)

/-- `load_all_types(disable_dynamic_load)`; `enums` = the members of `dns.rdatatype.RdataType` -/
def loadAll (files : List (Nat × Nat)) (enums : List Nat) (s : DState) (disable : Bool) : DState :=
  let s1 := enums.foldl (fun s t => (getClass files s 1 t false).2) s
  let s2 := (getClass files s1 3 1 false).2
  { s2 with dynamic := s2.dynamic && !disable }

/-- the stateless rule: the class's own module, else the one under ANY, else `GenericRdata` -/
def dispatchSpec (files : List (Nat × Nat)) (c t : Nat) : Impl :=
  if hasModule files c t then .module c t
  else if hasModule files 255 t then .module 255 t
  else .generic

inductive DOp where
  | get (c t : Nat) (useGeneric : Bool)
  | loadAll (disable : Bool)

def stepD (files : List (Nat × Nat)) (enums : List Nat) (s : DState) : DOp → DState
  | .get c t ug => (getClass files s c t ug).2
  | .loadAll d => loadAll files enums s d

/-- what the module tree must satisfy for dispatch to be history independent: no type has both a class-specific
and an ANY module; `load_all_types` reaches every module (IN and ANY through class IN, `CH/A` explicitly) -/
def filesOk (files : List (Nat × Nat)) (enums : List Nat) : Bool :=
  files.all fun p =>
    (p.1 == 255 || !files.contains (255, p.2)) && enums.contains p.2 &&
      (p.1 == 255 || p.1 == 1 || (p.1 == 3 && p.2 == 1))

end Model

import Model.Tokenizer
import Generated.C09
/-!
Model of the zone-file layer:

* reader — `dns/zonefile.py` (`_check_cname_and_other_data`, `Reader.{_rr_line,_parse_modify,_generate_line,read}`
  without `$INCLUDE` and without the `force_*` parameters), `Transaction._add` as used by the reader
  (`Rdataset.union`/`update_ttl`/singleton replacement, `Node.replace_rdataset`/`_append_rdataset`/`classify`),
  `dns.zone._from_text`/`check_origin`;
* writer — `Zone.to_styled_file`, `Node.to_styled_text`, `Rdataset.to_styled_text`, `justify`, `Name.to_styled_text`;
* RDATA — concrete text and wire codecs of A, NS/CNAME/PTR (`NSBase`), MX, TXT, SOA, and the RFC 3597 generic form
  (`GenericRdata`, `dns.rdata.from_text` incl. the `\#` path for known types, `to_generic`).  Every other
  implemented type is *outside the model* (`RErr.unmodelled`; the correspondence check never feeds one).

Zones are insertion-ordered association lists (Python `dict`), nodes are lists of rdatasets, an rdataset is a
duplicate-free list of rdatas (`dns.set.Set`) with one TTL.  The zone class is IN.
-/
namespace Model

def s2l (s : String) : List Nat := s.toList.map Char.toNat

/-! ## decimal -/

def decAux : Nat → Nat → List Nat → List Nat
  | 0, _, acc => acc
  | f + 1, n, acc => if n < 10 then (48 + n) :: acc else decAux f (n / 10) ((48 + n % 10) :: acc)

/-- `str(n)` -/
def natToDec (n : Nat) : List Nat := decAux (n + 1) n []

/-! ## mnemonics (`dns.enum.IntEnum.from_text` / `to_text`) -/

def upperAscii (c : Nat) : Nat := if 97 ≤ c ∧ c ≤ 122 then c - 32 else c

def lookupName (tbl : List (List Nat × Nat)) (t : List Nat) : Option Nat :=
  (tbl.find? (fun p => p.1 == t)).map (·.2)

/-- `cls.from_text(text)`: `none` = any exception (unknown mnemonic, or a value above 65535) -/
def enumFromText (tbl : List (List Nat × Nat)) (pre : List Nat) (text : List Nat) : Option Nat :=
  let t := text.map upperAscii
  match lookupName tbl t with
  | some v => some v
  | none =>
    let rest := t.drop pre.length
    if t.take pre.length = pre ∧ rest ≠ [] ∧ rest.all isDecimal then
      let v := digitsVal rest 0
      if v > 65535 then none else some v
    else none

def typeFromText (text : List Nat) : Option Nat := enumFromText ConstsC09.typeNames (s2l "TYPE") text
def classFromText (text : List Nat) : Option Nat := enumFromText ConstsC09.classNames (s2l "CLASS") text

def enumToText (tbl : List (Nat × List Nat)) (pre : List Nat) (v : Nat) : List Nat :=
  match tbl.find? (fun p => p.1 == v) with
  | some p => p.2
  | none => pre ++ natToDec v

def typeToText (v : Nat) : List Nat := enumToText ConstsC09.typeText (s2l "TYPE") v
def classToText (v : Nat) : List Nat := enumToText ConstsC09.classText (s2l "CLASS") v

/-! ## errors of the zone layer -/

inductive RErr where
  | syntaxError            -- `dns.exception.SyntaxError` and subclasses (`read()` re-raises them as SyntaxError)
  | unknownOrigin
  | cnameAndOtherData
  | valueError             -- `txn.add`: non-origin SOA
  | keyError
  | nameTooLong            -- `dns.name.NameTooLong` (a FormError, so not re-wrapped)
  | needAbsolute           -- writer: `NeedAbsoluteNameOrOrigin`
  | noSOA | noNS
  | other (what : String)
  | unmodelled             -- left the modelled fragment (not an implementation outcome)
  deriving DecidableEq, Repr

def RErr.toString : RErr → String
  | .syntaxError => "SyntaxError" | .unknownOrigin => "UnknownOrigin"
  | .cnameAndOtherData => "CNAMEAndOtherData" | .valueError => "ValueError" | .keyError => "KeyError"
  | .nameTooLong => "NameTooLong" | .needAbsolute => "NeedAbsoluteNameOrOrigin"
  | .noSOA => "NoSOA" | .noNS => "NoNS"
  | .other w => w | .unmodelled => "unmodelled"

abbrev RM := Except RErr

/-- how an exception of the tokenizer / name layer surfaces from `Reader.read` -/
def RErr.ofName : NameErr → RErr
  | .nameTooLong => .nameTooLong
  | .emptyLabel => .syntaxError | .badEscape => .syntaxError | .labelTooLong => .syntaxError
  | .needAbsolute => .needAbsolute
  | e => .other e.toString

def RErr.ofTok : TokErr → RErr
  | .unexpectedEnd => .syntaxError | .syntaxError => .syntaxError | .badTTL => .syntaxError
  | .ungetBufferFull => .other "UngetBufferFull"
  | .valueError => .valueError | .assertionError => .other "FOREIGN AssertionError"
  | .name e => .ofName e

def liftT {α} (x : TokM α) : RM α :=
  match x with
  | .ok a => .ok a
  | .error e => .error (.ofTok e)

/-- `with ExceptionWrapper(SyntaxError)` / `except Exception: raise SyntaxError`: everything becomes SyntaxError
(`unmodelled` is not an exception of the code and is passed through) -/
def wrapSyntax {α} (x : RM α) : RM α :=
  match x with
  | .ok a => .ok a
  | .error .unmodelled => .error .unmodelled
  | .error _ => .error .syntaxError

/-! ## RDATA -/

inductive Rdata where
  | a (addr : List Nat)
  | name1 (target : Name)                -- NS, CNAME, PTR
  | mx (pref : Nat) (exch : Name)
  | txt (strings : List Bytes)
  | soa (mname rname : Name) (serial refresh retry expire minimum : Nat)
  | generic (data : Bytes)
  deriving DecidableEq, Repr

def tA := 1
def tNS := 2
def tCNAME := 5
def tSOA := 6
def tPTR := 12
def tMX := 15
def tTXT := 16

def isName1Type (ty : Nat) : Bool := ty = tNS ∨ ty = tCNAME ∨ ty = tPTR
def isModelledType (ty : Nat) : Bool := ty = tA ∨ isName1Type ty ∨ ty = tSOA ∨ ty = tMX ∨ ty = tTXT
/-- types parsed by `GenericRdata` (no implementation class) -/
def isGenericType (ty : Nat) : Bool := !ConstsC09.implementedIN.contains ty

/-- split on a separator (`bytes.split(b".")`) -/
def splitOn (sep : Nat) : List Nat → List (List Nat)
  | [] => [[]]
  | c :: cs =>
    match splitOn sep cs with
    | [] => [[c]]      -- unreachable
    | p :: ps => if c = sep then [] :: p :: ps else (c :: p) :: ps

/-- `dns.ipv4.inet_aton` on text -/
def inetAton (text : List Nat) : Option (List Nat) :=
  let parts := splitOn 46 text
  if parts.length ≠ 4 then none
  else if parts.any (fun p => p = [] ∨ !p.all isDecimal ∨ (p.length > 1 ∧ p.head? = some 48)) then none
  else
    let b := parts.map (fun p => digitsVal p 0)
    if b.any (· > 255) then none else some b

def joinWith (sep : List Nat) : List (List Nat) → List Nat
  | [] => []
  | [x] => x
  | x :: rest => x ++ sep ++ joinWith sep rest

def inetNtoa (b : List Nat) : List Nat := joinWith [46] (b.map natToDec)

/-- `dns.rdata._escapify` -/
def rdEscOctet (c : Nat) : List Nat :=
  if ConstsC09.rdataEscaped.contains c then [92, c]
  else if 0x20 ≤ c ∧ c < 0x7F then [c]
  else 92 :: dec3 c

def rdEscapify (b : Bytes) : List Nat := b.flatMap rdEscOctet

/-- name style part of a style object -/
structure NameStyle where
  origin : Option Name := none
  relativize : Bool := false
  deriving Repr

/-- `Name.to_styled_text(style)` (no `omit_final_dot`, no IDNA) -/
def nameToStyledText (st : NameStyle) (n : Name) : Except NameErr (List Nat) :=
  match chooseRelativity n st.origin st.relativize with
  | .ok m => .ok (toText m)
  | .error e => .error e

def hexDigitN (n : Nat) : Nat := if n < 10 then 48 + n else 87 + n
def hexlify (b : Bytes) : List Nat := b.flatMap fun x => [hexDigitN (x / 16 % 16), hexDigitN (x % 16)]

def chunks (k : Nat) : Nat → List Nat → List (List Nat)
  | 0, _ => []
  | _, [] => []
  | f + 1, l => l.take k :: chunks k f (l.drop k)

/-- `_wordbreak(data, chunksize, separator)` -/
def wordbreak (data : List Nat) (chunk : Nat) (sep : List Nat) : List Nat :=
  if chunk = 0 then data else joinWith sep (chunks chunk data.length data)

def hexVal? (c : Nat) : Option Nat :=
  if 48 ≤ c ∧ c ≤ 57 then some (c - 48)
  else if 97 ≤ c ∧ c ≤ 102 then some (c - 87)
  else if 65 ≤ c ∧ c ≤ 70 then some (c - 55)
  else none

/-- `binascii.unhexlify` -/
def unhexlify : List Nat → Option Bytes
  | [] => some []
  | [_] => none
  | a :: b :: rest =>
    match hexVal? a, hexVal? b, unhexlify rest with
    | some x, some y, some r => some ((16 * x + y) :: r)
    | _, _, _ => none

structure RdStyle extends NameStyle where
  hexChunk : Nat := 128
  hexSep : List Nat := [32]
  deriving Repr

/-- `rd.to_styled_text(style)` -/
def rdataToText (st : RdStyle) : Rdata → Except NameErr (List Nat)
  | .a addr => .ok (inetNtoa addr)
  | .name1 t => nameToStyledText st.toNameStyle t
  | .mx p e => do
    let et ← nameToStyledText st.toNameStyle e
    pure (natToDec p ++ [32] ++ et)
  | .txt ss => .ok (joinWith [32] (ss.map fun s => [34] ++ rdEscapify s ++ [34]))
  | .soa m r se rf rt ex mi => do
    let mt ← nameToStyledText st.toNameStyle m
    let rt' ← nameToStyledText st.toNameStyle r
    pure (joinWith [32] [mt, rt', natToDec se, natToDec rf, natToDec rt, natToDec ex, natToDec mi])
  | .generic d => .ok (s2l "\\# " ++ natToDec d.length ++ [32] ++ wordbreak (hexlify d) st.hexChunk st.hexSep)

def be (width : Nat) (n : Nat) : Bytes :=
  (List.range width).reverse.map fun i => n / (256 ^ i) % 256

/-- `Name.to_wire(file, None, origin)` -/
def nameToWireO (n : Name) (origin : Option Name) : Except NameErr Bytes :=
  if isAbs n then .ok (toWire n)
  else match origin with
    | some o => if isAbs o then .ok (toWire (n ++ o)) else .error .needAbsolute
    | none => .error .needAbsolute

/-- `rd.to_wire(origin=origin)` -/
def rdataToWire (origin : Option Name) : Rdata → Except NameErr Bytes
  | .a addr => .ok addr
  | .name1 t => nameToWireO t origin
  | .mx p e => do
    let w ← nameToWireO e origin
    pure (be 2 p ++ w)
  | .txt ss => .ok (ss.flatMap fun s => s.length :: s)
  | .soa m r se rf rt ex mi => do
    let mw ← nameToWireO m origin
    let rw ← nameToWireO r origin
    pure (mw ++ rw ++ be 4 se ++ be 4 rf ++ be 4 rt ++ be 4 ex ++ be 4 mi)
  | .generic d => .ok d

def ofBe (b : Bytes) : Nat := b.foldl (fun acc x => acc * 256 + x) 0

/-- `parser.get_name(origin)` inside an rdata: the name at `cur`, relativized when `origin` is truthy -/
def wireGetName (w : Bytes) (cur : Nat) (origin : Option Name) : Option (Name × Nat) :=
  if cur > w.length then none
  else match fromWire w cur with
    | .error _ => none
    | .ok (n, k) =>
      match origin with
      | some o =>
        if o = [] then some (n, cur + k)
        else match relativize n o with
          | .ok m => some (m, cur + k)
          | .error _ => none
      | none => some (n, cur + k)

def wireTxt : Nat → Bytes → Option (List Bytes)
  | 0, _ => none
  | _, [] => some []
  | f + 1, l :: rest =>
    if l > rest.length then none
    else (wireTxt f (rest.drop l)).map (rest.take l :: ·)

/-- `from_wire(IN, ty, data, 0, len(data), origin)` for the modelled types; `none` = any exception -/
def rdataFromWire (ty : Nat) (w : Bytes) (origin : Option Name) : Option Rdata :=
  if ty = tA then (if w.length = 4 then some (.a w) else none)
  else if isName1Type ty then
    match wireGetName w 0 origin with
    | some (n, k) => if k = w.length then some (.name1 n) else none
    | none => none
  else if ty = tMX then
    if w.length < 2 then none
    else match wireGetName w 2 origin with
      | some (n, k) => if k = w.length then some (.mx (ofBe (w.take 2)) n) else none
      | none => none
  else if ty = tTXT then
    match wireTxt (w.length + 1) w with
    | some ss => if ss = [] then none else some (.txt ss)
    | none => none
  else if ty = tSOA then
    match wireGetName w 0 origin with
    | none => none
    | some (m, k1) =>
      match wireGetName w k1 origin with
      | none => none
      | some (r, k2) =>
        if k2 + 20 ≠ w.length then none
        else
          let f := fun i => ofBe ((w.drop (k2 + 4 * i)).take 4)
          some (.soa m r (f 0) (f 1) (f 2) (f 3) (f 4))
  else none

/-- `GenericRdata.from_text` -/
def genericFromText (s : TState) : RM (Bytes × TState) := do
  let (t, s) ← liftT s.get
  if !(t.isIdentifier ∧ t.value = [92, 35]) then .error .syntaxError
  else
    let (len, s) ← liftT s.getInt
    let (hex, s) ← liftT (s.concatRemaining true)
    match unhexlify hex with
    | none => .error .syntaxError
    | some data => if data.length ≠ len then .error .syntaxError else pure (data, s)

/-- one `<character-string>` of a TXT record: escapes applied to bytes, at most 255 octets -/
def txtString (t : Token) : RM Bytes := do
  let u ← liftT t.unescapeToBytes
  if u.value.length > 255 then (.error .syntaxError : RM Bytes) else pure u.value

/-- the type-specific `cls.from_text` -/
def rdataFromTextTyped (ty : Nat) (s : TState) (origin : Option Name) (rel : Bool) (relTo : Option Name) :
    RM (Rdata × TState) :=
  if ty = tA then do
    let (v, s) ← liftT s.getIdentifier
    match inetAton (v.flatMap utf8) with
    | some b => pure (.a b, s)
    | none => .error .syntaxError
  else if isName1Type ty then do
    let (n, s) ← liftT (s.getName origin rel relTo)
    pure (.name1 n, s)
  else if ty = tMX then do
    let (p, s) ← liftT (s.getUint 65535)
    let (n, s) ← liftT (s.getName origin rel relTo)
    pure (.mx p n, s)
  else if ty = tTXT then do
    let (ts, s) ← liftT s.getRemaining
    let strs ← ts.mapM txtString
    if strs = [] then .error .syntaxError else pure (.txt strs, s)
  else if ty = tSOA then do
    let (m, s) ← liftT (s.getName origin rel relTo)
    let (r, s) ← liftT (s.getName origin rel relTo)
    let (se, s) ← liftT (s.getUint 4294967295)
    let (rf, s) ← liftT s.getTTL
    let (rt, s) ← liftT s.getTTL
    let (ex, s) ← liftT s.getTTL
    let (mi, s) ← liftT s.getTTL
    pure (.soa m r se rf rt ex mi, s)
  else .error .unmodelled

/-- `(relativize_to or origin) if relativize else None`: the origin against which the generic form of a known type
is decoded and re-encoded (repaired reader) -/
def wireOrigin (origin : Option Name) (rel : Bool) (relTo : Option Name) : Option Name :=
  if rel then (match relTo with | some r => if r = [] then origin else some r | none => origin) else none

/-- `dns.rdata.from_text(IN, ty, tok, origin, relativize, relativize_to)`; returns the rdata and its comment -/
def rdataFromText (ty : Nat) (s : TState) (origin : Option Name) (rel : Bool) (relTo : Option Name)
    (gfix : Bool := false) : RM (Rdata × Option (List Nat) × TState) :=
  wrapSyntax do
    let (rd, s) ←
      if isGenericType ty then do
        let (d, s) ← genericFromText s
        pure (Rdata.generic d, s)
      else if !isModelledType ty then .error .unmodelled
      else do
        -- peek at the first token
        let (t, s1) ← liftT s.get
        let s1 ← liftT (s1.unget t)
        if t.isIdentifier ∧ t.value = [92, 35] then do
          let (d, s2) ← genericFromText s1
          -- as shipped: `from_wire(..., origin)` then `rdata.to_wire()` (D08, read side).  Variant `gfix`
          -- (proposed repair): both with `(relativize_to or origin) if relativize else None`.
          let relOrigin : Option Name := wireOrigin origin rel relTo
          match rdataFromWire ty d (if gfix then relOrigin else origin) with
          | none => .error .syntaxError
          | some rd =>
            match rdataToWire (if gfix then relOrigin else none) rd with
            | .error _ => .error .syntaxError
            | .ok w => if w ≠ d then .error .syntaxError else pure (rd, s2)
        else rdataFromTextTyped ty s1 origin rel relTo
    let (t, s) ← liftT s.getEol
    pure (rd, t.comment, s)

/-! ## zone contents -/

structure RR where
  rd : Rdata
  comment : Option (List Nat) := none
  deriving DecidableEq, Repr

structure Rdataset where
  rdtype : Nat
  ttl : Nat
  rrs : List RR
  deriving DecidableEq, Repr

abbrev Node := List Rdataset
abbrev ZoneMap := List (Name × Node)

/-- rdata equality is equality of the DNSSEC canonical form: embedded names of NS/CNAME/PTR/MX/SOA fold case -/
def rdKey : Rdata → Rdata
  | .name1 t => .name1 (lowerName t)
  | .mx p e => .mx p (lowerName e)
  | .soa m r a b c d e => .soa (lowerName m) (lowerName r) a b c d e
  | x => x

inductive NodeKind where
  | regular | neutral | cname
  deriving DecidableEq, Repr

/-- `_matches_type_or_its_signature(rdtypes, rdtype, covers)`: the type itself, or an RRSIG (and only an RRSIG — not the
legacy SIG, type 24) covering one of the types -/
def matchesTypeOrItsSignature (rdtypes : List Nat) (ty covers : Nat) : Bool :=
  rdtypes.contains ty || (ty == ConstsC09.rrsigType && rdtypes.contains covers)

/-- `NodeKind.classify(rdtype, covers)` on the full grid -/
def classifyTC (ty covers : Nat) : NodeKind :=
  if matchesTypeOrItsSignature ConstsC09.cnameTypes ty covers then .cname
  else if matchesTypeOrItsSignature ConstsC09.neutralTypes ty covers then .neutral
  else .regular

/-- may an rdataset of kind `k` be put at a node of kind `n` (`_check_cname_and_other_data`)? -/
def kindsCoexist (n k : NodeKind) : Bool :=
  !((n == .cname && k == .regular) || (n == .regular && k == .cname))

/-- `NodeKind.classify(rdtype, covers)` with `covers = NONE` (no RRSIG in the model) -/
def classifyType (ty : Nat) : NodeKind :=
  if ConstsC09.cnameTypes.contains ty then .cname
  else if ConstsC09.neutralTypes.contains ty then .neutral
  else .regular

/-- `Node.classify()` -/
def classifyNode : Node → NodeKind
  | [] => .neutral
  | rds :: rest =>
    match classifyType rds.rdtype with
    | .neutral => classifyNode rest
    | k => k

def zoneFind (z : ZoneMap) (n : Name) : Option Node :=
  (z.find? (fun p => nameEq p.1 n)).map (·.2)

def zonePut (z : ZoneMap) (n : Name) (node : Node) : ZoneMap :=
  if z.any (fun p => nameEq p.1 n) then z.map (fun p => if nameEq p.1 n then (p.1, node) else p)
  else z ++ [(n, node)]

/-- `existing.union(from_rdata(ttl, rd))`: TTL minimisation, singleton replacement, set insertion -/
def rdsUnion (existing : Option Rdataset) (ty ttl : Nat) (rr : RR) : Rdataset :=
  match existing with
  | none => ⟨ty, ttl, [rr]⟩
  | some e =>
    let ttl' := if e.rrs = [] then ttl else if ttl < e.ttl then ttl else e.ttl
    let rrs :=
      if Consts.singletons.contains ty ∧ e.rrs ≠ [] then [rr]
      else if e.rrs.any (fun x => rdKey x.rd == rdKey rr.rd) then e.rrs
      else e.rrs ++ [rr]
    ⟨ty, ttl', rrs⟩

/-- `Node.replace_rdataset` = `delete_rdataset` + `_append_rdataset` -/
def nodeReplace (node : Node) (rds : Rdataset) : Node :=
  let node := node.filter (fun r => r.rdtype ≠ rds.rdtype)
  let node :=
    if node = [] then node
    else match classifyType rds.rdtype with
      | .cname => node.filter (fun r => classifyType r.rdtype ≠ .regular)
      | .regular => node.filter (fun r => classifyType r.rdtype ≠ .cname)
      | .neutral => node
  node ++ [rds]

/-- `_add`: "has non-origin SOA" -/
def soaElsewhere (effOrigin : Option Name) (name : Name) (ty : Nat) : Bool :=
  ty == tSOA && !(match effOrigin with | some o => nameEq name o | none => false)

/-- `_check_cname_and_other_data(txn, name, rdataset)` raises -/
def cnameConflict (node : Option Node) (ty : Nat) : Bool :=
  match node with
  | none => false       -- empty nodes are neutral
  | some nd =>
    let nk := classifyNode nd
    let rk := classifyType ty
    (nk == .cname && rk == .regular) || (nk == .regular && rk == .cname)

/-- `txn.add(name, ttl, rd)` with the reader's `_check_cname_and_other_data` hook installed.
`effOrigin` is the "effective" origin of `origin_information()`. -/
def zoneAdd (z : ZoneMap) (effOrigin : Option Name) (name : Name) (ttl ty : Nat) (rr : RR) : RM ZoneMap :=
  if soaElsewhere effOrigin name ty then .error .valueError
  else if cnameConflict (zoneFind z name) ty then .error .cnameAndOtherData
  else
    let node := zoneFind z name
    let existing := node.bind (fun nd => nd.find? (fun r => r.rdtype = ty))
    .ok (zonePut z name (nodeReplace (node.getD []) (rdsUnion existing ty ttl rr)))

/-! ## reader

The reader is split into a *zone-independent parser* (state `PState`: tokenizer, origins, TTL defaults,
last owner) that turns the next line into an event, and the application of events to the zone
(`zoneAdd`).  The code interleaves the two in exactly this way: nothing the parser does depends on the
zone contents; the zone only decides whether `txn.add` raises. -/

/-- one record as handed to `txn.add(name, ttl, rd)` -/
structure Entry where
  name : Name
  ttl : Nat
  rdtype : Nat
  rr : RR
  deriving DecidableEq, Repr

/-- one entry of `Reader.saved_state`: what `$INCLUDE` pushes and the end of the included file pops — the parent's
tokenizer (positioned after the `$INCLUDE` line), `current_origin`, `last_name`, `last_ttl(_known)`,
`default_ttl(_known)` (`current_file` has no counterpart: files are texts here) -/
structure Saved where
  tok : TState
  currentOrigin : Option Name
  lastName : Option Name
  lastTTL : Nat
  lastTTLKnown : Bool
  defaultTTL : Nat
  defaultTTLKnown : Bool
  deriving Repr

structure PState where
  tok : TState
  zoneOrigin : Option Name
  relativize : Bool
  currentOrigin : Option Name
  lastName : Option Name
  lastTTL : Nat := 0
  lastTTLKnown : Bool := false
  defaultTTL : Nat := 0
  defaultTTLKnown : Bool := false
  /-- which variant of the generic-syntax reader the code implements (false = as shipped) -/
  gfix : Bool := false
  /-- `$INCLUDE`: the stack `saved_state`, the files that can be opened (name as written ↦ content) and whether
  `$INCLUDE` is among `allowed_directives` -/
  saved : List Saved := []
  files : List (List Nat × List Nat) := []
  allowInclude : Bool := false
  deriving Repr

/-- `open(filename)` -/
def lookupFile (files : List (List Nat × List Nat)) (name : List Nat) : Option (List Nat) :=
  match files with
  | [] => none
  | (n, c) :: rest => if n = name then some c else lookupFile rest name

/-- the end of an included file: `(...) = self.saved_state.pop(-1)` -/
def PState.restore (r : PState) (sv : Saved) (rest : List Saved) : PState :=
  { r with tok := sv.tok, currentOrigin := sv.currentOrigin, lastName := sv.lastName, lastTTL := sv.lastTTL,
           lastTTLKnown := sv.lastTTLKnown, defaultTTL := sv.defaultTTL, defaultTTLKnown := sv.defaultTTLKnown,
           saved := rest }

def PState.init (text : List Nat) (origin : Option Name) (rel : Bool) (gfix : Bool := false) : PState :=
  { tok := TState.init text, zoneOrigin := origin, relativize := rel, currentOrigin := origin, lastName := origin,
    gfix := gfix }

/-- the "effective" origin of `origin_information()` -/
def PState.effOrigin (r : PState) : Option Name := if r.relativize then some [] else r.zoneOrigin

def addEntry (z : ZoneMap) (eff : Option Name) (e : Entry) : RM ZoneMap :=
  zoneAdd z eff e.name e.ttl e.rdtype e.rr

/-- `_eat_line` -/
def eatLine : Nat → TState → RM TState
  | 0, _ => .error (.other "fuel")
  | f + 1, s => do
    let (t, s) ← liftT s.get
    if t.isEolOrEof then pure s else eatLine f s

/-- `_get_identifier` -/
def getIdent (s : TState) : RM (Token × TState) := do
  let (t, s) ← liftT s.get
  if !t.isIdentifier then .error .syntaxError else pure (t, s)

def ttlOf (v : List Nat) : Option Nat :=
  match ttlFromText v with
  | .ok n => some n
  | .error _ => none

/-- the owner-name part of `_rr_line`: `none` = the line is finished (blank, or out of zone) -/
def rrOwner (r : PState) : RM (Option Name × PState) := do
  match r.currentOrigin with
  | none => .error .unknownOrigin
  | some co =>
    let (t, s) ← liftT (r.tok.get (wantLeading := true))
    let step : RM (Option Unit × PState) :=
      if t.ttype ≠ .whitespace then do
        let n ← liftT (t.asName (some co) false none)
        pure (some (), { r with tok := s, lastName := some n })
      else do
        let (t2, s2) ← liftT s.get
        if t2.isEolOrEof then pure (none, { r with tok := s2 })
        else do
          let s3 ← liftT (s2.unget t2)
          pure (some (), { r with tok := s3 })
    let (go, r) ← step
    match go with
    | none => pure (none, r)
    | some () =>
      match r.lastName with
      | none => .error .syntaxError
      | some name =>
        match r.zoneOrigin with
        | none => .error (.other "FOREIGN AssertionError")
        | some zo =>
          if !isSubdomain name zo then do
            let s ← eatLine (r.tok.input.length + 2) r.tok
            pure (none, { r with tok := s })
          else if r.relativize then
            match relativize name zo with
            | .ok n => pure (some n, r)
            | .error e => .error (.ofName e)
          else pure (some name, r)

/-- the TTL / class / TTL / type part of `_rr_line`: the TTL written on the line or inherited (`none` = still
unknown: only an SOA can supply it), the type, and the reader positioned at the RDATA -/
def rrHeader (r : PState) : RM ((Option Nat × Nat) × PState) := do
  -- TTL
  let (t, s) ← getIdent r.tok
  let (ttl, r) ← match ttlOf t.value with
    | some v => pure (some v, { r with tok := s, lastTTL := v, lastTTLKnown := true })
    | none => do
      let s ← liftT (s.unget t)
      pure ((none : Option Nat), { r with tok := s })
  -- class
  let (t, s) ← getIdent r.tok
  let (rdclass, r) ← match classFromText t.value with
    | some c => pure (c, { r with tok := s })
    | none => do
      let s ← liftT (s.unget t)
      pure (1, { r with tok := s })
  if rdclass ≠ 1 then .error .syntaxError
  else
    -- `<class> <ttl> <type>` order
    let (ttl, r) ← match ttl with
      | some v => pure (some v, r)
      | none => do
        let (t, s) ← getIdent r.tok
        match ttlOf t.value with
        | some v => pure (some v, { r with tok := s, lastTTL := v, lastTTLKnown := true })
        | none =>
          let s ← liftT (s.unget t)
          let ttl := if r.defaultTTLKnown then some r.defaultTTL
                     else if r.lastTTLKnown then some r.lastTTL else none
          pure (ttl, { r with tok := s })
    -- type
    let (t, s) ← getIdent r.tok
    match typeFromText t.value with
    | none => .error .syntaxError
    | some ty => pure ((ttl, ty), { r with tok := s })

/-- the RDATA part of `_rr_line`, the SOA-minimum default and the final TTL check -/
def rrFinish (name : Name) (ttl : Option Nat) (ty : Nat) (r : PState) : RM (Option Entry × PState) := do
  -- call site 1 of `dns.rdata.from_text` (`_rr_line`): (origin, relativize, relativize_to) =
  -- (self.current_origin, self.relativize, self.zone_origin)
  let (rd, comment, s) ← rdataFromText ty r.tok r.currentOrigin r.relativize r.zoneOrigin r.gfix
  let r := { r with tok := s }
  let (ttl, r) :=
    if !r.defaultTTLKnown ∧ ty = tSOA then
      match rd with
      | .soa _ _ _ _ _ _ minimum =>
        ((match ttl with | some v => some v | none => some minimum),
         { r with defaultTTL := minimum, defaultTTLKnown := true })
      | _ => (ttl, r)
    else (ttl, r)
  match ttl with
  | none => .error .syntaxError
  | some ttl => pure (some ⟨name, ttl, ty, ⟨rd, comment⟩⟩, r)

/-- `_rr_line` up to (not including) `self.txn.add(name, ttl, rd)`: the record the line denotes, if any -/
def rrParse (r : PState) : RM (Option Entry × PState) := do
  let (owner, r) ← rrOwner r
  match owner with
  | none => pure (none, r)
  | some name =>
    let ((ttl, ty), r) ← rrHeader r
    rrFinish name ttl ty r

/-! ### `$GENERATE` -/

/-- greedy `(\d+)` -/
def spanDigits (l : List Nat) : List Nat × List Nat := l.span isDecimal

structure Modify where
  mod : List Nat := []
  sign : Nat := 43
  offset : Nat := 0
  width : Nat := 0
  base : Nat := 100
  deriving Repr, DecidableEq

/-- match `{(\+|-?)(\d+)` at the head; returns sign text, offset digits, rest -/
def modHead (l : List Nat) : Option (List Nat × List Nat × List Nat) :=
  match l with
  | 123 :: r =>
    let (sg, r) := match r with
      | 43 :: r' => ([43], r')
      | 45 :: r' => ([45], r')
      | r' => ([], r')
    let (d, r) := spanDigits r
    if d = [] then none else some (sg, d, r)
  | _ => none

/-- the three regular expressions of `_parse_modify`, matched right after a `$`.
shape 1: `{s d,d,c}`, shape 2: `{s d}`, shape 3: `{s d,d}`; result: text of the group (`mod`), sign, offset, width, base -/
def modAt (shape : Nat) (l : List Nat) : Option Modify :=
  match modHead l with
  | none => none
  | some (sg, off, r) =>
    let sgn := match sg with | [45] => 45 | _ => 43
    if shape = 2 then
      match r with
      | 125 :: _ => some { mod := [123] ++ sg ++ off ++ [125], sign := sgn, offset := digitsVal off 0 }
      | _ => none
    else
      match r with
      | 44 :: r1 =>
        let (w, r2) := spanDigits r1
        if w = [] then none
        else if shape = 3 then
          match r2 with
          | 125 :: _ => some { mod := [123] ++ sg ++ off ++ [44] ++ w ++ [125], sign := sgn,
                               offset := digitsVal off 0, width := digitsVal w 0 }
          | _ => none
        else
          match r2 with
          | 44 :: b :: 125 :: _ =>
            if b = 10 then none
            else some { mod := [123] ++ sg ++ off ++ [44] ++ w ++ [44, b, 125], sign := sgn,
                        offset := digitsVal off 0, width := digitsVal w 0, base := b }
          | _ => none
      | _ => none

/-- last position (greedy leading `.*`) where `\$` followed by the shape matches -/
def lastMod (shape : Nat) : List Nat → Option Modify
  | [] => none
  | c :: cs =>
    match lastMod shape cs with
    | some m => some m
    | none => if c = 36 then modAt shape cs else none

/-- `_parse_modify`; `none` = SyntaxError (invalid base) -/
def parseModify (side : List Nat) : Option Modify :=
  let m := match lastMod 1 side with
    | some m => m
    | none => match lastMod 2 side with
      | some m => m
      | none => match lastMod 3 side with
        | some m => m
        | none => {}
  if [100, 111, 120, 88, 110, 78].contains m.base then some m else none

def digitChar (upper : Bool) (d : Nat) : Nat := if d < 10 then 48 + d else (if upper then 55 else 87) + d

def toBaseAux (b : Nat) (upper : Bool) : Nat → Nat → List Nat → List Nat
  | 0, _, acc => acc
  | f + 1, n, acc =>
    if n < b then digitChar upper n :: acc else toBaseAux b upper f (n / b) (digitChar upper (n % b) :: acc)

/-- `format(index, base)` for base in d, o, x, X -/
def formatInt (i : Int) (base : Nat) : List Nat :=
  let b := if base = 100 then 10 else if base = 111 then 8 else 16
  let body := toBaseAux (if b < 2 then 10 else b) (base = 88) (i.natAbs + 1) i.natAbs []
  if i < 0 then 45 :: body else body

/-- `str.zfill(width)` -/
def zfill (s : List Nat) (width : Nat) : List Nat :=
  if s.length ≥ width then s
  else match s with
    | 45 :: r => 45 :: (List.replicate (width - s.length) 48 ++ r)
    | 43 :: r => 43 :: (List.replicate (width - s.length) 48 ++ r)
    | r => List.replicate (width - s.length) 48 ++ r

/-- `_format_index` -/
def formatIndex (i : Int) (base width : Nat) : List Nat :=
  if [100, 111, 120, 88].contains base then zfill (formatInt i base) width
  else
    let hexa := zfill (formatInt i 120) width
    let nib := (joinWith [46] (hexa.reverse.map fun c => [c])).take width
    if base = 78 then nib.map upperAscii else nib

/-- `str.replace(old, new)` for non-empty `old` -/
def replaceAll (old new : List Nat) : Nat → List Nat → List Nat
  | 0, l => l
  | _, [] => []
  | f + 1, c :: cs =>
    if old ≠ [] ∧ (c :: cs).take old.length = old then new ++ replaceAll old new f ((c :: cs).drop old.length)
    else c :: replaceAll old new f cs

def substIndex (side : List Nat) (m : Modify) (i : Nat) : List Nat :=
  let idx : Int := if m.sign = 45 then (i : Int) - m.offset else (i : Int) + m.offset
  replaceAll (36 :: m.mod) (formatIndex idx m.base m.width) (side.length + 1) side

/-- the records a `$GENERATE` line stands for: `(owner text, rdata text)` for every index of the range -/
def generateExpansion (start stop step : Nat) (lhs rhs : List Nat) (lm rm : Modify) : List (List Nat × List Nat) :=
  ((List.range (stop + 1 - start)).filter (fun k => k % step = 0)).map fun k =>
    (substIndex lhs lm (start + k), substIndex rhs rm (start + k))

/-- one index of the `for` loop of `_generate_line`, up to `txn.add`: `none` = the owner is out of zone
(`continue`) -/
def genItem (ttl ty : Nat) (item : List Nat × List Nat) (r : PState) : RM (Option Entry × PState) :=
  match fromText item.1 r.currentOrigin with
  | .error e => .error (.ofName e)
  | .ok ln =>
    let r := { r with lastName := some ln }
    match r.zoneOrigin with
    | none => .error (.other "FOREIGN AssertionError")
    | some zo =>
      if !isSubdomain ln zo then pure (none, r)
      else
        let nameE : RM Name :=
          if r.relativize then (match relativize ln zo with | .ok n => .ok n | .error e => .error (.ofName e))
          else .ok ln
        match nameE with
        | .error e => .error e
        | .ok name =>
          -- the rdata is parsed from a fresh tokenizer over the substituted string; call site 2 of
          -- `dns.rdata.from_text` (`_generate_line`), with its own argument triple (origin, relativize, relativize_to) =
          -- (self.current_origin, self.relativize, self.zone_origin) — names are completed with the current origin and
          -- relativized against the zone origin, as at call site 1
          match rdataFromText ty (TState.init item.2) r.currentOrigin r.relativize r.zoneOrigin r.gfix with
          | .error e => .error e
          | .ok (rd, comment, _) => pure (some ⟨name, ttl, ty, ⟨rd, comment⟩⟩, r)

/-- the `for` loop of `_generate_line`: a generated owner outside the zone is skipped (`continue`; `fix:` commit
202894b — the loop used to stop there), every other index hands its record to `txn.add` -/
def generateLoop (ttl ty : Nat) : List (List Nat × List Nat) → PState → ZoneMap → RM (PState × ZoneMap)
  | [], r, z => pure (r, z)
  | item :: rest, r, z => do
    let (e, r) ← genItem ttl ty item r
    match e with
    | none => generateLoop ttl ty rest r z
    | some e =>
      let z ← addEntry z r.effOrigin e
      generateLoop ttl ty rest r z

/-- `tok.get()` then "must be an identifier", as in the `try` blocks of `_generate_line` -/
def genNextIdent (s : TState) : RM (Token × TState) := do
  let (t, s) ← wrapSyntax (liftT s.get)
  if !t.isIdentifier then .error .syntaxError else pure (t, s)

/-- header of a `$GENERATE` line -/
structure GenHeader where
  ttl : Nat
  rdtype : Nat
  items : List (List Nat × List Nat)
  deriving Repr

/-- `_generate_line` up to the `for` loop -/
def generateParse (r : PState) : RM (GenHeader × PState) := do
  if r.currentOrigin.isNone then .error .unknownOrigin
  let (t, s) ← liftT r.tok.get
  -- range
  let (start, stop, step) ← match grangeFromText t.value with
    | .ok x => pure x
    | .error _ => (.error .syntaxError : RM (Nat × Nat × Nat))
  let (t, s) ← genNextIdent s
  let lhs := t.value
  let (t, s) ← genNextIdent s
  -- TTL
  let (ttl, t, s, r) ← match ttlOf t.value with
    | some v => do
      let (t', s') ← liftT s.get
      if !t'.isIdentifier then (.error .syntaxError : RM (Nat × Token × TState × PState))
      else pure (v, t', s', { r with lastTTL := v, lastTTLKnown := true })
    | none =>
      if !(r.lastTTLKnown ∨ r.defaultTTLKnown) then .error .syntaxError
      else if r.defaultTTLKnown then pure (r.defaultTTL, t, s, r)
      else pure (r.lastTTL, t, s, r)
  -- class
  let (rdclass, t, s) ← match classFromText t.value with
    | some c => do
      let (t', s') ← wrapSyntax (liftT s.get)
      if !t'.isIdentifier then (.error .syntaxError : RM (Nat × Token × TState)) else pure (c, t', s')
    | none => pure (1, t, s)
  if rdclass ≠ 1 then .error .syntaxError
  -- type
  let (ty, t, _s') ← match typeFromText t.value with
    | some ty => do
      let (t', s') ← wrapSyntax (liftT s.get)
      if !t'.isIdentifier then (.error .syntaxError : RM (Nat × Token × TState)) else pure (ty, t', s')
    | none => .error .syntaxError
  let s := _s'
  let rhs := t.value
  let lm ← match parseModify lhs with | some m => pure m | none => (.error .syntaxError : RM Modify)
  let rm ← match parseModify rhs with | some m => pure m | none => (.error .syntaxError : RM Modify)
  pure (⟨ttl, ty, generateExpansion start stop step lhs rhs lm rm⟩, { r with tok := s })

/-- `_generate_line` -/
def generateLine (r : PState) (z : ZoneMap) : RM (PState × ZoneMap) := do
  let (h, r) ← generateParse r
  generateLoop h.ttl h.rdtype h.items r z

/-- `c.upper()` of the directive token -/
def directiveOf (v : List Nat) : List Nat := v.map upperAscii

/-- what the next line is, as far as the zone is concerned -/
inductive LineEv where
  | eof
  | nothing                         -- blank line, comment, `$TTL`, `$ORIGIN`, out-of-zone owner
  | entry (e : Entry)               -- a record line
  | generate                        -- a `$GENERATE` directive: the caller runs `generateLine`
  deriving Repr

/-- one iteration of the `while 1` loop of `Reader.read`, up to the zone update -/
def lineStep (r : PState) : RM (LineEv × PState) := do
  let (t, s) ← liftT (r.tok.get (wantLeading := true) (wantComment := true))
  if t.ttype = .eof then
    -- the end of an included file pops the saved state and the parent file goes on; of the top file: `break`
    match r.saved with
    | [] => pure (.eof, r)
    | sv :: rest => pure (.nothing, r.restore sv rest)
  else if t.ttype = .eol then pure (.nothing, { r with tok := s })
  else if t.ttype = .comment then do
    let (_, s) ← liftT s.getEol
    pure (.nothing, { r with tok := s })
  -- `token.value.startswith("$")` (the `fix:` commit for D02 replaced `token.value[0] == "$"`)
  else if t.value.head? = some 36 then
    let c := directiveOf t.value
    if c = s2l "$TTL" then do
      let (t, s) ← liftT s.get
      if !t.isIdentifier then .error .syntaxError
      else match ttlOf t.value with
        | none => .error .syntaxError
        | some v =>
          let (_, s) ← liftT s.getEol
          pure (.nothing, { r with tok := s, defaultTTL := v, defaultTTLKnown := true })
    else if c = s2l "$ORIGIN" then do
      -- `fix:` commit c444c98: the argument is completed with the current origin (RFC 1035 5.1); still relative
      -- (no origin to complete it) is a SyntaxError
      let (n, s) ← liftT (s.getName r.currentOrigin false none)
      if !isAbs n then .error .syntaxError else
      let (_, s) ← liftT s.getEol
      pure (.nothing, { r with tok := s, currentOrigin := some n,
                               zoneOrigin := (match r.zoneOrigin with | none => some n | some z => some z) })
    else if c = s2l "$GENERATE" then pure (.generate, { r with tok := s })
    else if c = s2l "$UNICODE" then .error .unmodelled
    else if c = s2l "$INCLUDE" then
      if !r.allowInclude then .error .syntaxError          -- not in `allowed_directives`
      else do
        -- `$INCLUDE file [origin]`
        let (t1, s) ← liftT s.get
        let filename := t1.value
        let (t2, s) ← liftT s.get
        let (newOrigin, s) ←
          if t2.isIdentifier then
            match fromText t2.value r.currentOrigin with
            | .error e => (.error (.ofName e) : RM (Option Name × TState))
            | .ok n => do
              let (_, s) ← liftT s.getEol
              pure (some n, s)
          else if !t2.isEolOrEof then .error .syntaxError
          else pure (r.currentOrigin, s)
        -- the state saved is the parent's: tokenizer after the line, and the origin *before* the include's own
        match lookupFile r.files filename with
        | none => .error (.other "OSError")
        | some content =>
          pure (.nothing, { r with tok := TState.init content, currentOrigin := newOrigin,
                                   saved := ⟨s, r.currentOrigin, r.lastName, r.lastTTL, r.lastTTLKnown, r.defaultTTL,
                                             r.defaultTTLKnown⟩ :: r.saved })
    else .error .syntaxError                     -- unknown directive
  else do
    let s ← liftT (s.unget t)
    let (e, r) ← rrParse { r with tok := s }
    match e with
    | none => pure (.nothing, r)
    | some e => pure (.entry e, r)

/-- one iteration of the loop of `Reader.read`; `none` = EOF reached (`break`) -/
def readStep (r : PState) (z : ZoneMap) : RM (Option (PState × ZoneMap)) := do
  let (ev, r) ← lineStep r
  match ev with
  | .eof => pure none
  | .nothing => pure (some (r, z))
  | .entry e => do
    let z ← addEntry z r.effOrigin e
    pure (some (r, z))
  | .generate => do
    let (r, z) ← generateLine r z
    pure (some (r, z))

def readLoop : Nat → PState → ZoneMap → RM (PState × ZoneMap)
  | 0, _, _ => .error (.other "fuel")
  | f + 1, r, z => do
    match ← readStep r z with
    | none => pure (r, z)
    | some (r, z) => readLoop f r z

/-- fuel for the files `$INCLUDE` may open (every step consumes input or pops; a file is charged 16 times, which
covers every include tree the harness builds) -/
def includeFuel : List (List Nat × List Nat) → Nat
  | [] => 0
  | f :: rest => 16 * (f.2.length + 2) + includeFuel rest

/-- `Reader.read()` into an empty zone -/
def PState.read (r : PState) : RM (PState × ZoneMap) :=
  readLoop (r.tok.input.length + 2 + includeFuel r.files) r []

/-- `Zone.check_origin()` -/
def checkOrigin (z : ZoneMap) (origin : Option Name) (rel : Bool) : RM Unit :=
  let apex : Option Node :=
    if rel then zoneFind z []
    else match origin with
      | some o => zoneFind z o
      | none => none
  let has := fun ty => match apex with
    | some nd => nd.any (fun r => r.rdtype = ty)
    | none => false
  -- `fix:` commit f3dc7b6: a non-relativized zone without an origin raises UnknownOrigin (was an `assert`)
  if !rel ∧ origin.isNone then .error .unknownOrigin
  else if !has tSOA then .error .noSOA else if !has tNS then .error .noNS else .ok ()

/-- `dns.zone.from_text(text, origin, relativize=rel, check_origin=chk)` (class IN): the loaded nodes and the
zone's origin -/
def zoneFromText (text : List Nat) (origin : Option Name) (rel chk : Bool) (gfix : Bool := false)
    (files : List (List Nat × List Nat) := []) (allowInclude : Bool := false) :
    RM (ZoneMap × Option Name) := do
  let (r, z) ← ({ PState.init text origin rel gfix with files := files, allowInclude := allowInclude } : PState).read
  -- `_end_transaction` commits (and with it hands the origin learnt from `$ORIGIN` to the zone) only when the
  -- version changed, i.e. when at least one record was added; otherwise the zone keeps the origin it was given
  let zorigin := if z.isEmpty then origin else r.zoneOrigin
  if chk then checkOrigin z zorigin rel
  pure (z, zorigin)

/-! ## writer -/

structure Style extends RdStyle where
  sorted : Bool := true
  wantOrigin : Bool := false
  defaultTTL : Option Nat := none
  dedup : Bool := false
  firstNameIsDuplicate : Bool := false
  nameJust : Int := 0
  ttlJust : Int := 0
  classJust : Int := 0
  typeJust : Int := 0
  wantGeneric : Bool := false
  wantComments : Bool := false
  omitClass : Bool := false
  omitTTL : Bool := false
  /-- which variant of `want_generic` the code implements: 0 = as shipped (`rd.to_generic()`), 1 = `rd.to_generic(style.origin)`,
  2 = additionally `Zone.to_styled_file` supplies the zone's origin when the style has none -/
  genFix : Nat := 0
  deriving Repr

/-- `justify(text, amount)` -/
def justify (text : List Nat) (amount : Int) : List Nat :=
  if amount = 0 then text
  else if amount < 0 then text ++ List.replicate (amount.natAbs - text.length) 32
  else List.replicate (amount.natAbs - text.length) 32 ++ text

/-- the lines of `Rdataset.to_styled_text(style, name)` for a non-empty rdataset -/
def rdatasetLines (st : Style) (name : Name) (rds : Rdataset) : Except NameErr (List (List Nat)) := do
  let ntext ←
    if st.dedup ∧ st.firstNameIsDuplicate then pure (s2l "    ")
    else do
      let t ← nameToStyledText st.toNameStyle name
      pure (t ++ [32])
  let ntext := justify ntext st.nameJust
  let classText :=
    if st.omitClass then []
    else if st.wantGeneric then s2l "CLASS" ++ natToDec 1 ++ [32]
    else classToText 1 ++ [32]
  let classText := justify classText st.classJust
  let typeText := if st.wantGeneric then s2l "TYPE" ++ natToDec rds.rdtype else typeToText rds.rdtype
  let typeText := justify typeText st.typeJust
  let ttlText := if st.omitTTL ∨ st.defaultTTL = some rds.ttl then [] else natToDec rds.ttl ++ [32]
  let ttlText := justify ttlText st.ttlJust
  let dupText := justify (s2l "    ") st.nameJust
  let rec go (nt : List Nat) : List RR → Except NameErr (List (List Nat))
    | [] => pure []
    | rr :: rest => do
      let extra := if st.wantComments then
          (match rr.comment with | some c => if c = [] then [] else [32, 59] ++ c | none => [])
        else []
      let rtext ←
        if st.wantGeneric then do
          -- `rd.to_generic()`: no origin (as shipped, D08); `rd.to_generic(style.origin)` in the repaired variants
          let w ← rdataToWire (if st.genFix ≥ 1 then st.origin else none) rr.rd
          rdataToText st.toRdStyle (.generic w)
        else rdataToText st.toRdStyle rr.rd
      let line := nt ++ ttlText ++ classText ++ typeText ++ [32] ++ rtext ++ extra
      let more ← go (if st.dedup then dupText else nt) rest
      pure (line :: more)
  go ntext rds.rrs

/-- `Node.to_styled_text(style, name)` as a list of lines (joined by "\n" in the file) -/
def nodeLines (st : Style) (name : Name) : Node → Except NameErr (List (List Nat))
  | [] => pure []
  | rds :: rest =>
    if rds.rrs = [] then nodeLines st name rest
    else do
      let ls ← rdatasetLines st name rds
      let st' := if st.dedup ∧ !st.firstNameIsDuplicate then { st with firstNameIsDuplicate := true } else st
      let more ← nodeLines st' name rest
      pure (ls ++ more)

/-- stable insertion sort by the canonical name order (`names.sort()`) -/
def insertName (n : Name × Node) : List (Name × Node) → List (Name × Node)
  | [] => [n]
  | m :: rest => if cmpOrder n.1 m.1 < 0 then n :: m :: rest else m :: insertName n rest

def sortNames (z : ZoneMap) : ZoneMap := z.foldl (fun acc n => insertName n acc) []

/-- `Zone.to_styled_file(style, f)` with `nl = "\n"`: the text written -/
def zoneToText (st : Style) (origin : Option Name) (z : ZoneMap) (zrel : Bool := true) : Except NameErr (List Nat) := do
  let st : Style :=
    if st.genFix ≥ 2 ∧ st.wantGeneric ∧ st.origin.isNone ∧ origin.isSome then
      { st with origin := origin, relativize := zrel }
    else st
  let l1 ← if st.wantOrigin then
      match origin with
      | some o => do
        let t ← nameToStyledText { origin := none, relativize := st.relativize } o
        pure [s2l "$ORIGIN " ++ t]
      | none => .error .valueError       -- `assert self.origin is not None`
    else pure []
  let l2 := match st.defaultTTL with
    | some v => [s2l "$TTL " ++ natToDec v]
    | none => []
  let names := if st.sorted then sortNames z else z
  let body ← names.mapM fun p => do
    let ls ← nodeLines st p.1 p.2
    pure (joinWith [10] ls)
  pure ((l1 ++ l2 ++ body).flatMap (· ++ [10]))

end Model

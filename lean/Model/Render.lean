import Model.MsgTypes
/-!
Model of `dns/renderer.py` (`Renderer`), `dns/_render_util.py` (`prefixed_length`),
`Rdataset.to_wire` / `RRset.to_wire` (`want_shuffle=False`) and `Message.to_wire`.

The output buffer is `out : Bytes` (`output.tell() = out.length`; every write is at the end except the two
back-patches, which are modelled as the same splice the seek/write performs).
-/
namespace Model

inductive RErr where
  | tooBig | formError | needAbsolute | valueError
  deriving DecidableEq, Repr

def RErr.toString : RErr → String
  | .tooBig => "TooBig" | .formError => "FormError" | .needAbsolute => "NeedAbsoluteNameOrOrigin"
  | .valueError => "ValueError"

structure Counts where
  c0 : Nat := 0
  c1 : Nat := 0
  c2 : Nat := 0
  c3 : Nat := 0
  deriving DecidableEq, Repr

def Counts.bump (c : Counts) (sec n : Nat) : Counts :=
  if sec = 0 then { c with c0 := c.c0 + n }
  else if sec = 1 then { c with c1 := c.c1 + n }
  else if sec = 2 then { c with c2 := c.c2 + n }
  else { c with c3 := c.c3 + n }

/-- `Renderer` instance state -/
structure RState where
  out : Bytes
  tbl : CTable := []
  counts : Counts := {}
  sec : Nat := 0
  maxSize : Nat
  reserved : Nat := 0
  id : Nat
  flags : Nat
  origin : Option Name := none
  wasPadded : Bool := false
  deriving Repr

def RState.init (id flags maxSize : Nat) (origin : Option Name) : RState :=
  { out := List.replicate 12 0, maxSize := maxSize, id := id, flags := flags, origin := origin }

/-- `_rollback(where)`: truncate the buffer, delete table entries with offset ≥ where -/
def RState.rollback (s : RState) (wh : Nat) : RState :=
  { s with out := s.out.take wh, tbl := s.tbl.filter (fun p => decide (p.2 < wh)) }

/-- `_set_section` -/
def RState.setSection (s : RState) (sec : Nat) : Except RErr RState :=
  if s.sec ≠ sec then
    if s.sec > sec then .error .formError else .ok { s with sec := sec }
  else .ok s

/-- result of an `add_*` call: done, or rolled back with `TooBig`, or another exception -/
inductive Step where
  | ok (s : RState)
  | tooBig (s : RState)
  | err (e : RErr)
  deriving Repr

/-- exit of `with self._track_size()`: `start` is the offset at entry -/
def RState.endTrack (s : RState) (start : Nat) (out : Bytes) (tbl : CTable) (sec n : Nat) : Step :=
  if out.length > s.maxSize then .tooBig ({ s with out := out, tbl := tbl }.rollback start)
  else .ok { s with out := out, tbl := tbl, counts := s.counts.bump sec n }

def nameErr (_ : NameErr) : RErr := .needAbsolute

/-- `add_question` -/
def RState.addQuestion (s : RState) (qname : Name) (rdtype rdclass : Nat) : Step :=
  match s.setSection 0 with
  | .error e => .err e
  | .ok s =>
    match toWireC s.out s.tbl qname s.origin with
    | .error e => .err (nameErr e)
    | .ok (o, t) => s.endTrack s.out.length (o ++ u16 rdtype ++ u16 rdclass) t 0 1

/-! ### `Rdata.to_wire(file, compress, origin)` for the modelled shapes -/

def rdataToWire (out : Bytes) (t : CTable) (origin : Option Name) : RData → Except NameErr (Bytes × CTable)
  | .raw b => .ok (out ++ b, t)
  | .name1 n => toWireC out t n origin
  | .mx p n => toWireC (out ++ u16 p) t n origin
  | .soa m r a b c d e =>
    match toWireC out t m origin with
    | .error e => .error e
    | .ok (o1, t1) =>
      match toWireC o1 t1 r origin with
      | .error e => .error e
      | .ok (o2, t2) => .ok (o2 ++ u32 a ++ u32 b ++ u32 c ++ u32 d ++ u32 e, t2)

/-- exit of `with prefixed_length(file, 2)`: `start` = offset just after the two placeholder octets -/
def patchLen (out : Bytes) (start : Nat) : Except RErr Bytes :=
  let len := out.length - start
  if len > 0 then
    if len > 65535 then .error .formError          -- OverflowError -> FormError
    else .ok (out.take (start - 2) ++ u16 len ++ out.drop start)
  else .ok out

/-- the `for rd in l` loop of `Rdataset.to_wire` -/
def rdsLoop (owner : Name) (rdtype rdclass ttl : Nat) (origin : Option Name) :
    Bytes → CTable → List RData → Except RErr (Bytes × CTable)
  | out, t, [] => .ok (out, t)
  | out, t, rd :: rest =>
    match toWireC out t owner origin with
    | .error e => .error (nameErr e)
    | .ok (o1, t1) =>
      let o2 := o1 ++ u16 rdtype ++ u16 rdclass ++ u32 ttl ++ [0, 0]
      match rdataToWire o2 t1 origin rd with
      | .error e => .error (nameErr e)
      | .ok (o3, t3) =>
        match patchLen o3 o2.length with
        | .error e => .error e
        | .ok o4 => rdsLoop owner rdtype rdclass ttl origin o4 t3 rest

/-- `RRset.to_wire(file, compress, origin)` = `Rdataset.to_wire(name, …, override_rdclass=deleting)`;
returns the buffer, the table and the number of records written. -/
def rrsetToWire (out : Bytes) (t : CTable) (origin : Option Name) (r : RRset) : Except RErr (Bytes × CTable × Nat) :=
  let rdclass := r.wireClass
  if r.rdatas.length = 0 then
    match toWireC out t r.name origin with
    | .error e => .error (nameErr e)
    | .ok (o, t') => .ok (o ++ u16 r.rdtype ++ u16 rdclass ++ u32 0 ++ u16 0, t', 1)
  else
    match rdsLoop r.name r.rdtype rdclass r.ttl origin out t r.rdatas with
    | .error e => .error e
    | .ok (o, t') => .ok (o, t', r.rdatas.length)

/-- `add_rrset(section, rrset)` -/
def RState.addRRset (s : RState) (sec : Nat) (r : RRset) : Step :=
  match s.setSection sec with
  | .error e => .err e
  | .ok s =>
    match rrsetToWire s.out s.tbl s.origin r with
    | .error e => .err e
    | .ok (o, t, n) => s.endTrack s.out.length o t sec n

/-- `add_opt(opt, pad, opt_size, tsig_size)` once the padding is known to fit a PADDING option -/
def RState.addOptCore (s : RState) (o : EOpt) (pad optSize tsigSize : Nat) : Step :=
  if pad ≠ 0 then
    let sizeWithoutPadding := s.out.length + optSize + tsigSize
    let remainder := sizeWithoutPadding % pad
    let padding := if remainder ≠ 0 then List.replicate (pad - remainder) 0 else []
    let o' : EOpt := { o with options := o.options ++ [(ConstsC03.optPADDING, padding)] }
    { s with wasPadded := true }.addRRset ConstsC03.secADDITIONAL (optRRset o')
  else s.addRRset ConstsC03.secADDITIONAL (optRRset o)

/-- the number of padding octets `add_opt` computes -/
def padLen (outLen pad optSize tsigSize : Nat) : Nat :=
  if (outLen + optSize + tsigSize) % pad ≠ 0 then pad - (outLen + optSize + tsigSize) % pad else 0

/-- `add_opt(opt, pad, opt_size, tsig_size)`: a padding that a PADDING option cannot carry (16-bit option length) is
`TooBig`, raised before anything is written or marked (repair 2d35a76) -/
def RState.addOpt (s : RState) (o : EOpt) (pad optSize tsigSize : Nat) : Step :=
  if pad ≠ 0 ∧ padLen s.out.length pad optSize tsigSize > 65535 then .tooBig s
  else s.addOptCore o pad optSize tsigSize

/-- `add_edns(edns, ednsflags, payload, options)`: the version octet of the flags is replaced by `edns` -/
def RState.addEdns (s : RState) (edns ednsflags payload : Nat) (options : List (Nat × Bytes)) : Step :=
  s.addOpt { ttl := (ednsflags &&& 0xFF00FFFF) ||| (edns <<< 16), payload := payload, options := options } 0 0 0

/-- `Renderer._write_tsig` — the route of `add_tsig` / `add_multi_tsig`, the MAC being given: the owner name is written
without the compression table (and leaves it alone) iff padding was applied, because the `tsig_size` the padding was
computed from assumes an uncompressed owner; ARCOUNT is patched in place -/
def RState.writeTsig (s : RState) (t : Tsig) : Step :=
  let s0 : RState := if s.wasPadded then { s with tbl := [] } else s
  match s0.addRRset ConstsC03.secADDITIONAL (tsigRRset t) with
  | .err e => .err e
  | .tooBig r => .tooBig (if s.wasPadded then { r with tbl := s.tbl } else r)
  | .ok r =>
    let r1 : RState := if s.wasPadded then { r with tbl := s.tbl } else r
    .ok { r1 with out := r1.out.take 10 ++ u16 r1.counts.c3 ++ r1.out.drop 12 }

/-- `write_header` -/
def RState.writeHeader (s : RState) : RState :=
  { s with out := u16 s.id ++ u16 s.flags ++ u16 s.counts.c0 ++ u16 s.counts.c1 ++ u16 s.counts.c2
      ++ u16 s.counts.c3 ++ s.out.drop 12 }

/-- `reserve(size)` (size is never negative here) -/
def RState.reserve (s : RState) (size : Nat) : Except RErr RState :=
  if size > s.maxSize then .error .valueError
  else .ok { s with reserved := s.reserved + size, maxSize := s.maxSize - size }

def RState.releaseReserved (s : RState) : RState :=
  { s with maxSize := s.maxSize + s.reserved, reserved := 0 }

/-! ### `Message.to_wire` -/

/-- the things the four `for` loops of `to_wire` hand to the renderer, in order -/
inductive Item where
  | q (name : Name) (rdtype rdclass : Nat)
  | rr (sec : Nat) (r : RRset)
  deriving Repr

def Message.items (m : Message) : List Item :=
  m.q.map (fun r => Item.q r.name r.rdtype r.rdclass) ++ m.an.map (Item.rr 1) ++ m.au.map (Item.rr 2)
    ++ m.ad.map (Item.rr 3)

def Item.sec : Item → Nat
  | .q .. => 0
  | .rr s _ => s

def RState.addItem (s : RState) : Item → Step
  | .q n t c => s.addQuestion n t c
  | .rr sec r => s.addRRset sec r

/-- the `try:` block: stops at the first `TooBig` (state rolled back by `_track_size`, `section` already
advanced); `true` = a `TooBig` was raised. -/
def RState.addItems : RState → List Item → Except RErr (RState × Bool)
  | s, [] => .ok (s, false)
  | s, it :: rest =>
    match s.addItem it with
    | .err e => .error e
    | .tooBig s' => .ok (s', true)
    | .ok s' => s'.addItems rest

/-- `_compute_opt_reserve` -/
def Message.optReserve (m : Message) : Nat :=
  match m.opt with
  | none => 0
  | some o =>
    ConstsC03.optBase + (o.options.map fun p => p.2.length + ConstsC03.optHdr).sum
      + (if m.pad ≠ 0 then ConstsC03.optHdr else 0)

/-- `_compute_tsig_reserve`: the TSIG RRset rendered without compression and without origin -/
def Message.tsigReserve (m : Message) : Except RErr Nat :=
  match m.tsig with
  | none => .ok 0
  | some t =>
    if isAbs t.name then .ok ((toWire t.name).length + 10 + (tsigRdataWire t).length)
    else .error .needAbsolute

def clampSize (maxSize requestPayload : Nat) : Nat :=
  let ms := if maxSize = 0 then (if requestPayload ≠ 0 then requestPayload else 65535) else maxSize
  if ms < ConstsC03.minSize then ConstsC03.minSize
  else if ms > ConstsC03.maxSize then ConstsC03.maxSize
  else ms

def stepToExcept : Step → Except RErr RState
  | .ok s => .ok s
  | .tooBig _ => .error .tooBig
  | .err e => .error e

/-- the `except dns.exception.TooBig:` handler after the section loops -/
def RState.afterItems (r : RState) (big preferTruncation : Bool) : Except RErr RState :=
  if big then
    if preferTruncation then
      .ok (if r.sec < ConstsC03.secADDITIONAL then { r with flags := r.flags ||| ConstsC03.tcFlag } else r)
    else .error .tooBig
  else .ok r

/-- the reserve check (`TooBig` when OPT and TSIG alone do not fit), reserves, the section loops and the
`TooBig` handler -/
def Message.renderSections (m : Message) (limit : Nat) (preferTruncation : Bool) (optRes tsigRes : Nat) :
    Except RErr RState :=
  if optRes + tsigRes > limit then .error .tooBig else
  match (RState.init m.id m.flags limit m.origin).reserve optRes with
  | .error e => .error e
  | .ok r =>
    match r.reserve tsigRes with
    | .error e => .error e
    | .ok r =>
      match r.addItems m.items with
      | .error e => .error e
      | .ok (r, big) => r.afterItems big preferTruncation

/-- `release_reserved`, `add_opt`, `write_header`, TSIG (rendered against a fresh, empty compression table:
`r.compress = {}`, so that its owner name is never compressed and the reserve is exact), `write_header` -/
def RState.finish (r : RState) (opt : Option EOpt) (tsig : Option Tsig) (pad optRes tsigRes : Nat) :
    Except RErr RState :=
  let r := r.releaseReserved
  let r1 : Except RErr RState := match opt with
    | none => .ok r
    | some o => stepToExcept (r.addOpt o pad optRes tsigRes)
  match r1 with
  | .error e => .error e
  | .ok r =>
    let r := r.writeHeader
    match tsig with
    | none => .ok r
    | some t =>
      match stepToExcept (({ r with tbl := [] } : RState).addRRset ConstsC03.secADDITIONAL (tsigRRset t)) with
      | .error e => .error e
      | .ok r => .ok r.writeHeader

/-- the renderer state just before `get_wire()` -/
def Message.render (m : Message) (maxSize : Nat) (preferTruncation : Bool) : Except RErr RState :=
  match m.tsigReserve with
  | .error e => .error e
  | .ok tsigRes =>
    match m.renderSections (clampSize maxSize m.requestPayload) preferTruncation m.optReserve tsigRes with
    | .error e => .error e
    | .ok r => r.finish m.opt m.tsig m.pad m.optReserve tsigRes

/-- `Message.to_wire(origin, max_size, prefer_truncation=…, want_shuffle=False)` -/
def Message.toWire (m : Message) (maxSize : Nat) (preferTruncation : Bool) : Except RErr Bytes :=
  match m.render maxSize preferTruncation with
  | .error e => .error e
  | .ok r => .ok r.out

end Model

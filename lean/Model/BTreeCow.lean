import Model.BTree
/-!
Mechanism-level model of `dns/btree.py`: the copy-on-write machinery that `Model.BTree` abstracts away.

* A heap (`Array Cell`) of nodes; an address is an index.  A cell carries the `creator` token of the tree that
  created it, `is_leaf`, `elts` and the addresses of its `children`.
* A tree handle holds a root *pointer* and its own creator token; `BTree(original=…)` / `copy.copy` share the
  root pointer under a fresh token.
* Every method of `_Node` mutates its cells in place (`wr`), and copies exactly where the code copies:
  `maybe_cow` on the root in `insert_element` / `_delete`, `maybe_cow_child` on the way down in
  `insert_nonfull`, `delete`, `_get_node`, on the sibling in `try_left_steal` / `try_right_steal` (only when the
  steal happens), on the left sibling in `balance` before `merge`, and on the left sibling in
  `optimize_in_order_insertion`.  `split` allocates the right half with the creator of the node being split.
* Cells are never freed; nodes that drop out of every tree (a merged right sibling, a collapsed root) stay in
  the heap unreachable.

`Proofs/BTreeCow*.lean` prove that each operation writes only cells whose creator is the operating tree's token
(or fresh cells), and that its effect on the abstraction of its own tree is the operation of `Model.BTree`.
-/
namespace Model.BTreeCow
open Model.BTree

structure Cell where
  creator : Nat
  leaf : Bool
  elts : List Elt
  kids : List Nat

instance : Inhabited Cell := ⟨⟨0, true, [], []⟩⟩

abbrev Heap := Array Cell

def rd (H : Heap) (a : Nat) : Cell := H[a]?.getD default
def wr (H : Heap) (a : Nat) (c : Cell) : Heap := H.setIfInBounds a c
def alloc (H : Heap) (c : Cell) : Heap × Nat := (H.push c, H.size)

def kidA (ks : List Nat) (i : Nat) : Nat := ks.getD i 0

def isMaximalC (t : Nat) (c : Cell) : Bool := c.elts.length == maxKeys t
def isMinimalC (t : Nat) (c : Cell) : Bool := c.elts.length == minKeys t

/-! ## copy-on-write -/

/-- `node.maybe_cow(creator)`: the node itself if `creator` made it, else a fresh shallow copy owned by
`creator` -/
def cow (H : Heap) (c : Nat) (a : Nat) : Heap × Nat :=
  if (rd H a).creator = c then (H, a) else alloc H { rd H a with creator := c }

/-- `parent.maybe_cow_child(index)`: copies with the *parent's* creator and stores the copy in the parent -/
def cowChild (H : Heap) (p : Nat) (i : Nat) : Heap × Nat :=
  let k := kidA (rd H p).kids i
  let (H1, k') := cow H (rd H p).creator k
  if k' = k then (H1, k) else (wr H1 p { rd H1 p with kids := setAt (rd H1 p).kids i k' }, k')

/-! ## read-only walks -/

/-- `get(key)` -/
def hGet (H : Heap) : Nat → Nat → Nat → Option Elt
  | fuel, a, key =>
    let s := rd H a
    let (i, eq) := searchInNode s.elts key
    if eq then some (eltAt s.elts i)
    else if s.leaf then none
    else match fuel with
      | 0 => none
      | f + 1 => hGet H f (kidA s.kids i) key

/-- `minimum()` -/
def hMinimum (H : Heap) : Nat → Nat → Elt
  | fuel, a =>
    let s := rd H a
    if s.leaf then eltAt s.elts 0
    else match fuel with
      | 0 => (0, 0)
      | f + 1 => hMinimum H f (kidA s.kids 0)

/-- `maximum()` -/
def hMaximum (H : Heap) : Nat → Nat → Elt
  | fuel, a =>
    let s := rd H a
    if s.leaf then eltAt s.elts (s.elts.length - 1)
    else match fuel with
      | 0 => (0, 0)
      | f + 1 => hMaximum H f (kidA s.kids (s.kids.length - 1))

/-- height along the first children -/
def hHeight (H : Heap) : Nat → Nat → Nat
  | 0, _ => 0
  | f + 1, a => if (rd H a).leaf then 0 else hHeight H f (kidA (rd H a).kids 0) + 1

/-! ## `split`, `adopt` -/

/-- `self.split()`: the right half is a new node with `self.creator`; `self` keeps the left half in place.
Returns the heap, the middle element and the address of the right half. -/
def hSplit (t : Nat) (H : Heap) (self : Nat) : Heap × Elt × Nat :=
  let s := rd H self
  let (H1, r) := alloc H { creator := s.creator, leaf := s.leaf, elts := s.elts.drop (minKeys t + 1),
                           kids := if s.leaf then [] else s.kids.drop (minKeys t + 1) }
  let H2 := wr H1 self { s with elts := s.elts.take (minKeys t),
                                kids := if s.leaf then s.kids else s.kids.take (minKeys t + 1) }
  (H2, eltAt s.elts (minKeys t), r)

/-- `self.adopt(left, middle, right)` -/
def hAdopt (H : Heap) (self left : Nat) (middle : Elt) (right : Nat) : Heap :=
  let s := rd H self
  let i := (searchInNode s.elts middle.1).1
  wr H self { s with elts := insAt s.elts i middle,
                     kids := if s.kids.isEmpty then [left, right] else insAt s.kids (i + 1) right }

/-! ## stealing and merging -/

/-- `self.try_left_steal(parent, index)` -/
def hTryLeftSteal (t : Nat) (H : Heap) (self parent index : Nat) : Heap × Bool :=
  if index ≠ 0 then
    let left := kidA (rd H parent).kids (index - 1)
    if !isMinimalC t (rd H left) then
      let (H1, left') := cowChild H parent (index - 1)
      let p := rd H1 parent
      let l := rd H1 left'
      let elt := eltAt p.elts (index - 1)
      let H2 := wr H1 parent { p with elts := setAt p.elts (index - 1) (eltAt l.elts (l.elts.length - 1)) }
      let H3 := wr H2 left' { l with elts := l.elts.dropLast,
                                     kids := if l.leaf then l.kids else l.kids.dropLast }
      let s := rd H3 self
      let H4 := wr H3 self { s with elts := elt :: s.elts,
                                    kids := if l.leaf then s.kids else kidA l.kids (l.kids.length - 1) :: s.kids }
      (H4, true)
    else (H, false)
  else (H, false)

/-- `self.try_right_steal(parent, index)` -/
def hTryRightSteal (t : Nat) (H : Heap) (self parent index : Nat) : Heap × Bool :=
  if index + 1 < (rd H parent).kids.length then
    let right := kidA (rd H parent).kids (index + 1)
    if !isMinimalC t (rd H right) then
      let (H1, right') := cowChild H parent (index + 1)
      let p := rd H1 parent
      let r := rd H1 right'
      let elt := eltAt p.elts index
      let H2 := wr H1 parent { p with elts := setAt p.elts index (eltAt r.elts 0) }
      let H3 := wr H2 right' { r with elts := r.elts.drop 1, kids := if r.leaf then r.kids else r.kids.drop 1 }
      let s := rd H3 self
      let H4 := wr H3 self { s with elts := s.elts ++ [elt],
                                    kids := if r.leaf then s.kids else s.kids ++ [kidA r.kids 0] }
      (H4, true)
    else (H, false)
  else (H, false)

/-- `self.merge(parent, index)`; `none` = `IndexError` of `parent.children.pop(index + 1)` -/
def hMerge (H : Heap) (self parent index : Nat) : Option Heap :=
  let p := rd H parent
  if index + 1 < p.kids.length then
    let right := rd H (kidA p.kids (index + 1))
    let H1 := wr H parent { p with elts := popAt p.elts index, kids := popAt p.kids (index + 1) }
    let s := rd H1 self
    some (wr H1 self { s with elts := s.elts ++ eltAt p.elts index :: right.elts,
                              kids := if s.leaf then s.kids else s.kids ++ right.kids })
  else none

/-- `self.balance(parent, index)` -/
def hBalance (t : Nat) (H : Heap) (self parent index : Nat) : Option Heap :=
  match hTryLeftSteal t H self parent index with
  | (H1, true) => some H1
  | (_, false) =>
    match hTryRightSteal t H self parent index with
    | (H1, true) => some H1
    | (_, false) =>
      if index = 0 then hMerge H self parent 0
      else
        let (H1, left) := cowChild H parent (index - 1)
        hMerge H1 left parent (index - 1)

/-! ## insertion -/

def hOptLoop (t : Nat) : Nat → Heap → Nat → Nat → Nat → Heap
  | 0, H, _, _, _ => H
  | k + 1, H, left, self, li =>
    if (rd H left).elts.length < maxKeys t then
      match hTryRightSteal t H left self li with
      | (H1, true) => hOptLoop t k H1 left self li
      | (_, false) => H
    else H

/-- `self.optimize_in_order_insertion(index)` -/
def hOptimize (t : Nat) (H : Heap) (self index : Nat) : Heap :=
  if index = 0 then H
  else if (rd H (kidA (rd H self).kids (index - 1))).elts.length = maxKeys t then H
  else
    let (H1, left) := cowChild H self (index - 1)
    hOptLoop t (maxKeys t + 1) H1 left self (index - 1)

/-- the `while True` loop of `insert_nonfull` on an internal node -/
def hInsLoop (t : Nat) (io : Bool) (rec : Heap → Nat → Heap × Option Elt) (e : Elt) :
    Nat → Heap → Nat → Heap × Option Elt
  | 0, H, _ => (H, none)
  | k + 1, H, self =>
    let s := rd H self
    let (i, eq) := searchInNode s.elts e.1
    if eq then (wr H self { s with elts := setAt s.elts i e }, some (eltAt s.elts i))
    else
      let (H1, child) := cowChild H self i
      if isMaximalC t (rd H1 child) then
        let (H2, m, r) := hSplit t H1 child
        let H3 := hAdopt H2 self child m r
        hInsLoop t io rec e k H3 self
      else
        let (H2, old) := rec H1 child
        (if io then hOptimize t H2 self i else H2, old)

/-- `self.insert_nonfull(element, in_order)`; `self` is mutated in place -/
def hInsertNonfull (t : Nat) (io : Bool) : Nat → Heap → Nat → Elt → Heap × Option Elt
  | fuel, H, self, e =>
    let s := rd H self
    if s.leaf then
      let (i, eq) := searchInNode s.elts e.1
      if eq then (wr H self { s with elts := setAt s.elts i e }, some (eltAt s.elts i))
      else (wr H self { s with elts := insAt s.elts i e }, none)
    else match fuel with
      | 0 => (H, none)
      | f + 1 => hInsLoop t io (fun H' a => hInsertNonfull t io f H' a e) e 2 H self

/-! ## deletion -/

/-- `self._get_node(key)` (copying the path) followed by `node.elts[i] = elt` -/
def hReplaceAt : Nat → Heap → Nat → Nat → Elt → Heap × Option Elt
  | fuel, H, self, key, s =>
    let c := rd H self
    let (i, eq) := searchInNode c.elts key
    if eq then (wr H self { c with elts := setAt c.elts i s }, some (eltAt c.elts i))
    else if c.leaf then (H, none)
    else match fuel with
      | 0 => (H, none)
      | f + 1 =>
        let (H1, child) := cowChild H self i
        hReplaceAt f H1 child key s

/-- the step of `delete` before recursing: copy the child, balance it if minimal, search again -/
def hDelPrep (t : Nat) (H : Heap) (self i : Nat) (key : Nat) : Heap × Option Nat :=
  let (H1, child) := cowChild H self i
  if isMinimalC t (rd H1 child) then
    match hBalance t H1 child self i with
    | some H2 => (H2, some (kidA (rd H2 self).kids (searchInNode (rd H2 self).elts key).1))
    | none => (H1, none)   -- `IndexError`: the child has been copied, nothing else happened
  else (H1, some child)

/-- `self.delete(key, parent, exact)`; `self` is mutated in place -/
def hDelete (t : Nat) : Nat → Heap → Nat → Nat → Option Elt → Heap × DelRes
  | fuel, H, self, key, exact =>
    let s := rd H self
    let (i, eq) := searchInNode s.elts key
    if eq ∧ exact.isSome ∧ exact ≠ some (eltAt s.elts i) then (H, .valueError)
    else if s.leaf then
      if eq then (wr H self { s with elts := popAt s.elts i }, .ok (some (eltAt s.elts i)))
      else if exact.isSome then (H, .valueError)
      else (H, .ok none)
    else match fuel with
      | 0 => (H, .ok none)
      | f + 1 =>
        let key' := if eq then (hMinimum H f (kidA s.kids (i + 1))).1 else key
        let i' := if eq then i + 1 else i
        let exact' := if eq then none else exact
        match hDelPrep t H self i' key' with
        | (H1, none) => (H1, .indexError)
        | (H1, some child) =>
          let (H2, r) := hDelete t f H1 child key' exact'
          match r with
          | .valueError => (H2, .valueError)
          | .indexError => (H2, .indexError)
          | .ok elt =>
            if eq then
              match elt with
              | some su =>
                let (H3, old) := hReplaceAt (f + 1) H2 self key su
                (H3, .ok old)
              | none => (H2, .ok none)
            else (H2, .ok elt)

/-! ## tree handles -/

structure Handle where
  t : Nat
  root : Nat
  size : Nat
  immutable : Bool
  inOrder : Bool
  creator : Nat
  collapseAlways : Bool
  collapseOnError : Bool

/-- heap and the number of creator tokens handed out so far -/
structure World where
  heap : Heap
  nextCreator : Nat

def heightOf (H : Heap) (root : Nat) : Nat := hHeight H (H.size + 1) root

/-- `BTree(t=…)` -/
def newTree (w : World) (t : Nat) (io ca : Bool) (ce : Bool := false) : World × Handle :=
  let (H, r) := alloc w.heap { creator := w.nextCreator, leaf := true, elts := [], kids := [] }
  ({ heap := H, nextCreator := w.nextCreator + 1 }, ⟨t, r, 0, false, io, w.nextCreator, ca, ce⟩)

/-- `BTree(original=…)`: a fresh creator token, the same root pointer -/
def cloneTree (w : World) (o : Handle) (io : Bool) : Option (World × Handle) :=
  if o.immutable then
    some ({ w with nextCreator := w.nextCreator + 1 },
          { o with immutable := false, inOrder := io, creator := w.nextCreator })
  else none

/-- root growth in `insert_element`: `self.root = _Node(self.t, self.creator, False)` and
`self.root.adopt(*old_root.split())` -/
def hGrow (t : Nat) (H : Heap) (c : Nat) (r1 : Nat) : Heap × Nat :=
  let (Ha, nr) := alloc H { creator := c, leaf := false, elts := [], kids := [] }
  let (Hb, m, r) := hSplit t Ha r1
  (hAdopt Hb nr r1 m r, nr)

/-- the heap part of `insert_element` below the mutability check -/
def hInsertRoot (t : Nat) (io : Bool) (H : Heap) (c : Nat) (root : Nat) (e : Elt) : Heap × Nat × Option Elt :=
  let (H1, r1) := cow H c root
  let (H2, r2) := if isMaximalC t (rd H1 r1) then hGrow t H1 c r1 else (H1, r1)
  let (H3, old) := hInsertNonfull t io (heightOf H2 r2) H2 r2 e
  (H3, r2, old)

/-- the heap part of `_delete` below the mutability check -/
def hDeleteRoot (always : Bool) (t : Nat) (H : Heap) (c : Nat) (root : Nat) (key : Nat) (exact : Option Elt) :
    Heap × Nat × DelRes :=
  let (H1, r1) := cow H c root
  let (H2, res) := hDelete t (heightOf H1 r1) H1 r1 key exact
  match res with
  | .ok old =>
    let s := rd H2 r1
    let r2 := if (always || old.isSome) && s.elts.isEmpty && !s.leaf && !s.kids.isEmpty then kidA s.kids 0 else r1
    (H2, r2, .ok old)
  | res => (H2, r1, res)

def Handle.insert (w : World) (h : Handle) (e : Elt) : World × Handle × Outcome (Option Elt) :=
  if h.immutable then (w, h, .immutableErr)
  else
    let (H, r, old) := hInsertRoot h.t h.inOrder w.heap h.creator h.root e
    ({ w with heap := H }, { h with root := r, size := if old.isNone then h.size + 1 else h.size }, .ok old)

def Handle.delete (w : World) (h : Handle) (key : Nat) (exact : Option Elt) :
    World × Handle × Outcome (Option Elt) :=
  if h.immutable then (w, h, .immutableErr)
  else
    match hDeleteRoot h.collapseAlways h.t w.heap h.creator h.root key exact with
    | (H, r, .ok old) =>
      ({ w with heap := H }, { h with root := r, size := if old.isSome then h.size - 1 else h.size }, .ok old)
    | (H, r, .valueError) =>
      let s := rd H r
      let r' := if h.collapseOnError && s.elts.isEmpty && !s.leaf && !s.kids.isEmpty then kidA s.kids 0 else r
      ({ w with heap := H }, { h with root := r' }, .valueError)
    | (H, r, .indexError) => ({ w with heap := H }, { h with root := r }, .indexError)

def Handle.get (w : World) (h : Handle) (key : Nat) : Option Elt :=
  hGet w.heap (heightOf w.heap h.root) h.root key

/-! ## abstraction -/

/-- the persistent node that the heap represents at an address, for a subtree of the given height -/
def absN (H : Heap) : Nat → Nat → Node
  | 0, a => .leaf (rd H a).elts
  | h + 1, a => .node (rd H a).elts ((rd H a).kids.map (absN H h))

/-- the persistent tree of a handle -/
def Handle.abs (w : World) (h : Handle) : Node := absN w.heap (heightOf w.heap h.root) h.root

/-! ## sessions: any number of trees over one heap, and the persistent reference -/

inductive Op where
  | new (t : Nat) (io ca : Bool)
  | insert (i : Nat) (e : Elt)
  | delete (i : Nat) (k : Nat)
  | clone (i : Nat) (io : Bool)
  | freeze (i : Nat)

/-- the tree an operation mutates (none for operations that only add a tree) -/
def Op.target : Op → Option Nat
  | .insert i _ => some i
  | .delete i _ => some i
  | .freeze i => some i
  | _ => none

structure Sess where
  w : World
  hs : List Handle

def Sess.init : Sess := ⟨⟨#[], 0⟩, []⟩

/-- one operation of the mechanism-level model on tree handle `i` -/
def Sess.step (s : Sess) : Op → Sess
  | .new t io ca => let (w, h) := newTree s.w t io ca; ⟨w, s.hs ++ [h]⟩
  | .insert i e =>
    match s.hs[i]? with
    | none => s
    | some h => let r := h.insert s.w e; ⟨r.1, s.hs.set i r.2.1⟩
  | .delete i k =>
    match s.hs[i]? with
    | none => s
    | some h => let r := h.delete s.w k none; ⟨r.1, s.hs.set i r.2.1⟩
  | .clone i io =>
    match s.hs[i]? with
    | none => s
    | some h =>
      match cloneTree s.w h io with
      | none => s
      | some (w, c) => ⟨w, s.hs ++ [c]⟩
  | .freeze i =>
    match s.hs[i]? with
    | none => s
    | some h => ⟨s.w, s.hs.set i { h with immutable := true }⟩

/-- the same operation on the persistent reference: a list of independent `Model.BTree.Tree` values -/
def refStep (ts : List Tree) : Op → List Tree
  | .new t io ca => ts ++ [Tree.empty t io ca]
  | .insert i e =>
    match ts[i]? with
    | none => ts
    | some tr => ts.set i (tr.insert e).1
  | .delete i k =>
    match ts[i]? with
    | none => ts
    | some tr => ts.set i (tr.delete k none).1
  | .clone i io =>
    match ts[i]? with
    | none => ts
    | some tr =>
      match tr.clone io with
      | none => ts
      | some c => ts ++ [c]
  | .freeze i =>
    match ts[i]? with
    | none => ts
    | some tr => ts.set i tr.makeImmutable

/-- the persistent tree a handle denotes -/
def Handle.toTree (w : World) (h : Handle) : Tree :=
  ⟨h.t, h.abs w, h.size, h.immutable, h.inOrder, h.collapseAlways, h.collapseOnError⟩

/-- the abstraction of a session -/
def Sess.abs (s : Sess) : List Tree := s.hs.map (Handle.toTree s.w)

end Model.BTreeCow

import Generated.C10
/-!
Model of `dns/serial.py` (`Serial` with the default `bits`): a serial is a `Nat` below `2^bits`;
construction reduces modulo `2^bits`; `+` refuses a delta whose magnitude exceeds `2^(bits-1) - 1`;
`<` / `>` are the RFC 1982 comparisons exactly as coded (undefined pairs compare false both ways).
-/
namespace Model.Serial

/-- `2 ** bits` for the default width read from the code. -/
def modulus : Nat := 2 ^ ConstsC10.serialBits
/-- `2 ** (bits - 1)` -/
def half : Nat := 2 ^ (ConstsC10.serialBits - 1)

/-- `Serial(value).value` : `value % 2**bits` (Python `%` of a possibly negative int is non-negative) -/
def make (v : Int) : Nat := (v % (modulus : Int)).toNat

/-- `Serial.__add__` with an `int` delta: `ValueError` (here `none`) when `abs(delta) > 2**(bits-1) - 1` -/
def add (v : Nat) (delta : Int) : Option Nat :=
  if delta.natAbs > half - 1 then none
  else some (((v : Int) + delta) % (modulus : Int)).toNat

/-- `Serial.__lt__` -/
def lt (a b : Nat) : Bool :=
  if a < b ∧ b - a < half then true
  else if a > b ∧ a - b > half then true
  else false

/-- `Serial.__gt__` -/
def gt (a b : Nat) : Bool :=
  if a < b ∧ b - a > half then true
  else if a > b ∧ a - b < half then true
  else false

def le (a b : Nat) : Bool := a == b || lt a b
def ge (a b : Nat) : Bool := a == b || gt a b

end Model.Serial

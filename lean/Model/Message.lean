import Model.MsgTypes
/-!
Model of `dns/message.py` `_WireReader.read` / `from_wire` (without `continue_on_error`, `xfr`, `multi`,
`question_only`), `Message.find_rrset` with its index, `Rdataset.add` as the reader uses it,
`Message._parse_rr_header` / `_parse_special_rr_header`, `UpdateMessage._parse_rr_header`.
The parser is `wire` + a position; `restrict_to` is the explicit end offset handed to the RDATA decoders.
TSIG validation is abstract (`hasKey`: a key is available and the MAC verifies — C14's business).
-/
namespace Model

inductive PErr where
  | shortHeader | trailingJunk | badEDNS | badTSIG | unknownTSIGKey | formError
  deriving DecidableEq, Repr

def PErr.toString : PErr → String
  | .shortHeader => "ShortHeader" | .trailingJunk => "TrailingJunk" | .badEDNS => "BadEDNS"
  | .badTSIG => "BadTSIG" | .unknownTSIGKey => "UnknownTSIGKey" | .formError => "FormError"

structure PCfg where
  origin : Option Name := none
  oneRRPerRRset : Bool := false
  ignoreTrailing : Bool := false
  hasKey : Bool := false
  deriving Repr

def slice (w : Bytes) (i n : Nat) : Bytes := (w.drop i).take n

/-- `parser.get_name()` with the parser's end at `endp`: the name and the new position.  Every failure of
name decoding is in the FormError family. -/
def getName (w : Bytes) (endp cur : Nat) : Except PErr (Name × Nat) :=
  match fromWireAux w endp cur cur cur [] with
  | .error _ => .error .formError
  | .ok (n, f) =>
    match validate n with
    | .error _ => .error .formError
    | .ok n => .ok (n, f)

/-- `name.relativize(origin)` when an origin is given (`if origin:` — an empty name counts as none) -/
def relTo (origin : Option Name) (n : Name) : Name :=
  match origin with
  | none => n
  | some o =>
    if o = [] then n
    else match relativize n o with
      | .ok r => r
      | .error _ => n

/-! ### RDATA decoders (inside `restrict_to(rdlen)`: must end exactly at `endp`) -/

def parseOptions (w : Bytes) (endp : Nat) : Nat → Nat → Except PErr (List (Nat × Bytes))
  | 0, cur => if cur < endp then .error .formError else .ok []
  | fuel + 1, cur =>
    if endp - cur > 0 then
      if endp - cur < 4 then .error .formError
      else
        let otype := beVal (slice w cur 2)
        let olen := beVal (slice w (cur + 2) 2)
        if olen > endp - (cur + 4) then .error .formError
        else
          match parseOptions w endp fuel (cur + 4 + olen) with
          | .error e => .error e
          | .ok rest => .ok ((otype, slice w (cur + 4) olen) :: rest)
    else .ok []

def parseRData (w : Bytes) (start endp : Nat) (origin : Option Name) (rdtype : Nat) : Except PErr RData :=
  match shapeOf rdtype with
  | .raw => .ok (.raw (slice w start (endp - start)))
  | .name1 =>
    match getName w endp start with
    | .error e => .error e
    | .ok (n, c) => if c ≠ endp then .error .formError else .ok (.name1 (relTo origin n))
  | .mx =>
    if endp - start < 2 then .error .formError
    else match getName w endp (start + 2) with
      | .error e => .error e
      | .ok (n, c) =>
        if c ≠ endp then .error .formError else .ok (.mx (beVal (slice w start 2)) (relTo origin n))
  | .soa =>
    match getName w endp start with
    | .error e => .error e
    | .ok (m, c1) =>
      match getName w endp c1 with
      | .error e => .error e
      | .ok (r, c2) =>
        if endp - c2 < 20 then .error .formError
        else if c2 + 20 ≠ endp then .error .formError
        else .ok (.soa (relTo origin m) (relTo origin r) (beVal (slice w c2 4)) (beVal (slice w (c2 + 4) 4))
          (beVal (slice w (c2 + 8) 4)) (beVal (slice w (c2 + 12) 4)) (beVal (slice w (c2 + 16) 4)))

/-- TSIG RDATA `from_wire_parser` -/
def parseTsigRData (w : Bytes) (start endp : Nat) (owner : Name) : Except PErr Tsig :=
  match getName w endp start with
  | .error e => .error e
  | .ok (alg, c) =>
    if endp - c < 10 then .error .formError
    else
      let time := beVal (slice w c 6)
      let fudge := beVal (slice w (c + 6) 2)
      let maclen := beVal (slice w (c + 8) 2)
      let c := c + 10
      if maclen > endp - c then .error .formError
      else
        let mac := slice w c maclen
        let c := c + maclen
        if endp - c < 4 then .error .formError
        else
          let origId := beVal (slice w c 2)
          let error := beVal (slice w (c + 2) 2)
          let c := c + 4
          if endp - c < 2 then .error .formError
          else
            let olen := beVal (slice w c 2)
            let c := c + 2
            if olen > endp - c then .error .formError
            else if c + olen ≠ endp then .error .formError
            else .ok { name := owner, alg := alg, time := time, fudge := fudge, mac := mac, origId := origId,
                       error := error, other := slice w c olen }

/-! ### `find_rrset` (with the index) and `Rdataset.add` -/

def keyMatch (name : Name) (rdclass rdtype covers : Nat) (deleting : Option Nat) (r : RRset) : Bool :=
  lowerName r.name == lowerName name && r.rdclass == rdclass && r.rdtype == rdtype && r.covers == covers
    && r.deleting == deleting

/-- apply `f` to the last element satisfying `p` (the index maps a key to the most recently created RRset) -/
def updLast (p : RRset → Bool) (f : RRset → RRset) : List RRset → Option (List RRset)
  | [] => none
  | r :: rest =>
    match updLast p f rest with
    | some rest' => some (r :: rest')
    | none => if p r then some (f r :: rest) else none

/-- `rrset.add(rd, ttl)` on an RRset found by key (class, type and covers agree by construction) -/
def rrsetAdd (rd : RData) (ttl : Nat) (r : RRset) : RRset :=
  let ttl' := if r.rdatas.length = 0 then ttl else if ttl < r.ttl then ttl else r.ttl
  let base := if r.rdtype ∈ ConstsC03.singletons ∧ r.rdatas.length > 0 then [] else r.rdatas
  let rdatas' := if base.any (fun x => x.eqv rd) then base else base ++ [rd]
  { r with ttl := ttl', rdatas := rdatas' }

/-- `find_rrset(section, …, create=True, force_unique)` followed by the optional `add` -/
def sectionAdd (sec : List RRset) (name : Name) (rdclass rdtype covers : Nat) (deleting : Option Nat)
    (forceUnique : Bool) (rd : Option (RData × Nat)) : List RRset :=
  let f : RRset → RRset := match rd with
    | some (rd, ttl) => rrsetAdd rd ttl
    | none => id
  let fresh : RRset := f { name := name, rdclass := rdclass, rdtype := rdtype, covers := covers, deleting := deleting }
  if forceUnique then sec ++ [fresh]
  else match updLast (keyMatch name rdclass rdtype covers deleting) f sec with
    | some sec' => sec'
    | none => sec ++ [fresh]

/-! ### RR headers -/

/-- `Message._parse_rr_header` / `UpdateMessage._parse_rr_header`: (class, deleting, empty) -/
def parseRRHeader (upd : Bool) (zone : List RRset) (sec rdclass rdtype : Nat) :
    Except PErr (Nat × Option Nat × Bool) :=
  if !upd then .ok (rdclass, none, false)
  else if sec = 0 then
    if rdclass ∈ ConstsC03.metaclasses ∨ rdtype ≠ ConstsC03.typeSOA ∨ zone ≠ [] then .error .formError
    else .ok (rdclass, none, false)
  else
    match zone with
    | [] => .error .formError
    | z :: _ =>
      if rdclass = ConstsC03.classANY ∨ rdclass = ConstsC03.classNONE then
        .ok (z.rdclass, some rdclass, rdclass == ConstsC03.classANY || sec == 1)
      else .ok (rdclass, none, false)

/-- `_parse_special_rr_header` for OPT and TSIG -/
def parseSpecialHeader (sec count pos : Nat) (name : Name) (rdclass rdtype : Nat) (optSet : Bool) :
    Except PErr Unit :=
  if rdtype = ConstsC03.typeOPT then
    if sec ≠ ConstsC03.secADDITIONAL ∨ optSet ∨ lowerName name ≠ [[]] then .error .badEDNS else .ok ()
  else
    if sec ≠ ConstsC03.secADDITIONAL ∨ rdclass ≠ ConstsC03.classANY ∨ pos ≠ count - 1 then .error .badTSIG
    else .ok ()

/-! ### the reader -/

structure PState where
  cur : Nat
  q : List RRset := []
  an : List RRset := []
  au : List RRset := []
  ad : List RRset := []
  opt : Option EOpt := none
  tsig : Option Tsig := none
  deriving Repr

def PState.section (st : PState) (sec : Nat) : List RRset :=
  if sec = 0 then st.q else if sec = 1 then st.an else if sec = 2 then st.au else st.ad

def PState.setSection (st : PState) (sec : Nat) (l : List RRset) : PState :=
  if sec = 0 then { st with q := l } else if sec = 1 then { st with an := l }
  else if sec = 2 then { st with au := l } else { st with ad := l }

def rdCovers (rdtype : Nat) : RData → Nat
  | .raw b => if rdtype ∈ ConstsC03.sigTypes then beVal (b.take 2) else 0
  | _ => 0

/-- one iteration of the loop of `_get_question` -/
def parseQuestion (cfg : PCfg) (upd : Bool) (w : Bytes) (st : PState) : Except PErr PState :=
  match getName w w.length st.cur with
  | .error e => .error e
  | .ok (n, c) =>
    let qname := relTo cfg.origin n
    if w.length - c < 4 then .error .formError
    else
      let rdtype := beVal (slice w c 2)
      let rdclass := beVal (slice w (c + 2) 2)
      match parseRRHeader upd st.q 0 rdclass rdtype with
      | .error e => .error e
      | .ok (rdclass, _, _) =>
        .ok { st with cur := c + 4, q := sectionAdd st.q qname rdclass rdtype 0 none true none }

/-- one iteration of the loop of `_get_section` -/
def parseRR (cfg : PCfg) (upd : Bool) (w : Bytes) (sec count i : Nat) (st : PState) : Except PErr PState :=
  match getName w w.length st.cur with
  | .error e => .error e
  | .ok (absName, c) =>
    let name := match cfg.origin with
      | some o => (match relativize absName o with | .ok r => r | .error _ => absName)
      | none => absName
    if w.length - c < 10 then .error .formError
    else
      let rdtype := beVal (slice w c 2)
      let rdclass0 := beVal (slice w (c + 2) 2)
      let ttl := beVal (slice w (c + 4) 4)
      let rdlen := beVal (slice w (c + 8) 2)
      let start := c + 10
      let special := rdtype = ConstsC03.typeOPT ∨ rdtype = ConstsC03.typeTSIG
      let hdr : Except PErr (Nat × Option Nat × Bool) :=
        if special then
          match parseSpecialHeader sec count i absName rdclass0 rdtype st.opt.isSome with
          | .error e => .error e
          | .ok _ => .ok (rdclass0, none, false)
        else parseRRHeader upd st.q sec rdclass0 rdtype
      match hdr with
      | .error e => .error e
      | .ok (rdclass, deleting, empty) =>
        if empty then
          if rdlen > 0 then .error .formError
          else
            let l := sectionAdd (st.section sec) name rdclass rdtype 0 deleting (cfg.oneRRPerRRset || upd) none
            .ok ({ st with cur := start }.setSection sec l)
        else if rdlen > w.length - start then .error .formError
        else
          let endp := start + rdlen
          if rdtype = ConstsC03.typeOPT then
            match parseOptions w endp rdlen start with
            | .error e => .error e
            | .ok opts => .ok { st with cur := endp, opt := some { ttl := ttl, payload := rdclass, options := opts } }
          else if rdtype = ConstsC03.typeTSIG then
            match parseTsigRData w start endp absName with
            | .error e => .error e
            | .ok t =>
              if ttl ≠ 0 then .error .badTSIG      -- RFC 8945 §4.2: the TTL MUST be 0
              else if cfg.hasKey then .ok { st with cur := endp, tsig := some t } else .error .unknownTSIGKey
          else
            match parseRData w start endp cfg.origin rdtype with
            | .error e => .error e
            | .ok rd =>
              let ttl := if ttl > ConstsC03.ttlClampAbove then 0 else ttl
              let l := sectionAdd (st.section sec) name rdclass rdtype (rdCovers rdtype rd) deleting
                (cfg.oneRRPerRRset || upd) (some (rd, ttl))
              .ok ({ st with cur := endp }.setSection sec l)

def parseQuestions (cfg : PCfg) (upd : Bool) (w : Bytes) : Nat → PState → Except PErr PState
  | 0, st => .ok st
  | n + 1, st =>
    match parseQuestion cfg upd w st with
    | .error e => .error e
    | .ok st => parseQuestions cfg upd w n st

/-- `_get_section(section, count)`: `n` records still to read, `i` the loop index -/
def parseSection (cfg : PCfg) (upd : Bool) (w : Bytes) (sec count : Nat) : Nat → Nat → PState → Except PErr PState
  | 0, _, st => .ok st
  | n + 1, i, st =>
    match parseRR cfg upd w sec count i st with
    | .error e => .error e
    | .ok st => parseSection cfg upd w sec count n (i + 1) st

/-- `_WireReader.read` -/
def parseMessage (cfg : PCfg) (w : Bytes) : Except PErr Message :=
  if w.length < 12 then .error .shortHeader
  else
    let id := beVal (slice w 0 2)
    let flags := beVal (slice w 2 2)
    let qd := beVal (slice w 4 2)
    let an := beVal (slice w 6 2)
    let au := beVal (slice w 8 2)
    let ad := beVal (slice w 10 2)
    let upd := isUpdate flags
    match parseQuestions cfg upd w qd { cur := 12 } with
    | .error e => .error e
    | .ok st =>
      match parseSection cfg upd w 1 an an 0 st with
      | .error e => .error e
      | .ok st =>
        match parseSection cfg upd w 2 au au 0 st with
        | .error e => .error e
        | .ok st =>
          match parseSection cfg upd w 3 ad ad 0 st with
          | .error e => .error e
          | .ok st =>
            if !cfg.ignoreTrailing ∧ w.length - st.cur ≠ 0 then .error .trailingJunk
            else .ok { id := id, flags := flags, origin := cfg.origin, q := st.q, an := st.an, au := st.au,
                       ad := st.ad, opt := st.opt, tsig := st.tsig }

end Model

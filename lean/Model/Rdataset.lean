import Model.SetAlg
import Model.Name
/-!
Model of `dns/rdata.py` value semantics (`__eq__`, `__hash__`, `_cmp`) over an abstract record, and of
`dns/rdataset.py` `Rdataset` / `ImmutableRdataset` on top of `Model.SetAlg`.

A record is abstract: class, type, whether one of its embedded names is relative (`to_digestable()` raised
`NeedAbsoluteNameOrOrigin`), and its DNSSEC canonical encoding `to_digestable(origin = root)`.  The covered
type of a SIG/RRSIG is the first two octets of that encoding.

Python methods that can raise after having mutated the object (`add` raises `DifferingCovers` after
`update_ttl`; `union_update` raises `IncompatibleTypes` in the middle of its loop) return the state reached
together with the error.
-/
namespace Model

structure Rd where
  cls : Nat
  typ : Nat
  rel : Bool
  dig : Bytes
  deriving DecidableEq, Repr

def sigTypes : List Nat := [24, 46]     -- SIG, RRSIG (`Rdataset.add` tests exactly these two)

/-- `Rdata.covers()`: `type_covered` for SIG/RRSIG (the leading `!H` of the RDATA), `NONE` otherwise -/
def Rd.covers (r : Rd) : Nat :=
  if r.typ ∈ sigTypes then
    match r.dig with
    | a :: b :: _ => a * 256 + b
    | _ => 0
  else 0

/-- `Rdata.__eq__` as coded -/
def rdEq (a b : Rd) : Bool :=
  if a.cls != b.cls || a.typ != b.typ then false
  else if a.rel != b.rel then false
  else a.dig == b.dig

/-- `if our == their: 0 elif our > their: 1 else: -1` on `bytes` -/
def digCmp (x y : Bytes) : Int :=
  if x = y then 0 else if cmpBytes x y > 0 then 1 else -1

/-- `Rdata._cmp` as coded, `_allow_relative_comparisons = True` (callers have checked class and type) -/
def rdCmp (a b : Rd) : Int :=
  if a.rel != b.rel then (if a.rel then -1 else 1)
  else digCmp a.dig b.dig

/-- `Rdata.__hash__` = `hash(self.to_digestable(root))`; Python's `hash` on bytes is a parameter -/
def rdHash (H : Bytes → Nat) (a : Rd) : Nat := H a.dig

inductive RdsErr where
  | incompatibleTypes | differingCovers | valueError | keyError | immutable | stopIteration
  deriving DecidableEq, Repr

def RdsErr.toString : RdsErr → String
  | .incompatibleTypes => "IncompatibleTypes" | .differingCovers => "DifferingCovers"
  | .valueError => "ValueError" | .keyError => "KeyError" | .immutable => "Immutable"
  | .stopIteration => "StopIteration"

structure Rds where
  cls : Nat
  typ : Nat
  covers : Nat
  ttl : Nat
  items : List Rd
  deriving DecidableEq, Repr

abbrev RdsR := Rds × Option RdsErr

def rdsNew (cls typ covers ttl : Nat) : Rds := { cls, typ, covers, ttl, items := [] }

/-- `Rdataset.update_ttl` (TTL already validated by `dns.ttl.make`) -/
def updateTtl (s : Rds) (ttl : Nat) : Rds :=
  if s.items.length = 0 then { s with ttl := ttl }
  else if ttl < s.ttl then { s with ttl := ttl }
  else s

/-- `if ttl is not None: self.update_ttl(ttl)` -/
def mergeTtl (s : Rds) (ttl : Option Nat) : Rds :=
  match ttl with
  | some t => updateTtl s t
  | none => s

/-- the SIG/RRSIG block of `Rdataset.add`: initialise or check `covers` -/
def coversStep (s : Rds) (rd : Rd) : RdsR :=
  if s.typ = 46 ∨ s.typ = 24 then
    if s.items.length = 0 ∧ s.covers = 0 then ({ s with covers := rd.covers }, none)
    else if s.covers ≠ rd.covers then (s, some .differingCovers)
    else (s, none)
  else (s, none)

/-- `if is_singleton(rd.rdtype) and len(self) > 0: self.clear()` then `super().add(rd)` -/
def insertStep (sing : List Nat) (s : Rds) (rd : Rd) : Rds :=
  let s3 := if rd.typ ∈ sing ∧ s.items.length > 0 then { s with items := [] } else s
  { s3 with items := SetAlg.add s3.items rd }

/-- `Rdataset.add(rd, ttl)`; `sing` is `dns.rdatatype._singletons` -/
def rdsAdd (sing : List Nat) (s : Rds) (rd : Rd) (ttl : Option Nat) : RdsR :=
  if s.cls ≠ rd.cls ∨ s.typ ≠ rd.typ then (s, some .incompatibleTypes)
  else
    match coversStep (mergeTtl s ttl) rd with
    | (s2, some e) => (s2, some e)
    | (s2, none) => (insertStep sing s2 rd, none)

/-- `for item in xs: self.add(item)` with `Rdataset.add` (stops at the first exception) -/
def rdsAddAll (sing : List Nat) : Rds → List Rd → RdsR
  | s, [] => (s, none)
  | s, x :: xs =>
    match rdsAdd sing s x none with
    | (s', none) => rdsAddAll sing s' xs
    | (s', some e) => (s', some e)

/-- `Rdataset.union_update(other)`: `update_ttl(other.ttl)` then `Set.union_update` (whose loop calls the
overridden `add`); `alias` = `self is other` -/
def rdsUnionUpdate (sing : List Nat) (s o : Rds) (alias : Bool) : RdsR :=
  let s1 := updateTtl s o.ttl
  if alias then (s1, none) else rdsAddAll sing s1 o.items

/-- `Rdataset.intersection_update(other)` -/
def rdsInterUpdate (s o : Rds) (alias : Bool) : RdsR :=
  let s1 := updateTtl s o.ttl
  if alias then (s1, none) else ({ s1 with items := SetAlg.interUpdate s1.items o.items }, none)

/-- `Rdataset.update(other)`: `update_ttl(other.ttl)` then `Set.update` (no aliasing test; iterating `other`
while adding items already present does not change the dict) -/
def rdsUpdate (sing : List Nat) (s o : Rds) : RdsR :=
  let s1 := updateTtl s o.ttl
  rdsAddAll sing s1 o.items

/-- `Set.difference_update` (inherited: the TTL is not touched) -/
def rdsDiffUpdate (s o : Rds) (alias : Bool) : RdsR :=
  if alias then ({ s with items := [] }, none)
  else ({ s with items := SetAlg.diffUpdate s.items o.items }, none)

/-- `Set.symmetric_difference_update` (inherited), with the overridden methods it dispatches to:
`overlap = self.intersection(other)` (a clone, its TTL update is discarded), `self.union_update(other)`
(`Rdataset.union_update`: TTL update and `Rdataset.add` per item), `self.difference_update(overlap)` -/
def rdsSymDiffUpdate (sing : List Nat) (s o : Rds) (alias : Bool) : RdsR :=
  if alias then ({ s with items := [] }, none)
  else
    let overlap := (rdsInterUpdate s o false).1
    match rdsUnionUpdate sing s o false with
    | (s1, some e) => (s1, some e)
    | (s1, none) => rdsDiffUpdate s1 overlap false

/-! copying forms: `_clone()` (copies class, type, covers, ttl and the dict), then the update on the clone -/
def rdsUnion (sing : List Nat) (s o : Rds) : RdsR := rdsUnionUpdate sing s o false
def rdsInter (s o : Rds) : RdsR := rdsInterUpdate s o false
def rdsDiff (s o : Rds) : RdsR := rdsDiffUpdate s o false
def rdsSymDiff (sing : List Nat) (s o : Rds) : RdsR := rdsSymDiffUpdate sing s o false

/-- `Rdataset.__eq__`: class, type, covers, then `Set.__eq__`; the TTL is not compared -/
def rdsEq (s o : Rds) : Bool :=
  if s.cls != o.cls || s.typ != o.typ || s.covers != o.covers then false
  else SetAlg.setEq s.items o.items

/-- `Rdataset.match(rdclass, rdtype, covers)` -/
def rdsMatch (s : Rds) (cls typ covers : Nat) : Bool := s.cls == cls && s.typ == typ && s.covers == covers

/-! ## ImmutableRdataset

An rdataset object is a value plus the flag "is an `ImmutableRdataset`".  `ImmutableRdataset` overrides
`update_ttl`, `add`, `union_update`, `intersection_update`, `update`, `__delitem__`, `__ior__`, `__iand__`,
`__iadd__`, `__isub__`, `clear` to raise `TypeError("immutable")`; the mutators it does not override
(`remove`, `discard`, `pop`, `difference_update`, `symmetric_difference_update`, `__ixor__`) fail on the first
write to its read-only `dns.immutable.Dict` (`TypeError` / `AttributeError`) — so `difference_update` with an
empty, distinct argument performs no write and returns normally.  All of these are the error `immutable` here. -/

/-- every in-place operation of an rdataset object; binary ones take the other operand's value and whether
it is the same object -/
inductive InPlace where
  | add (rd : Rd) (ttl : Option Nat)
  | updateTtl (t : Nat)
  | remove (rd : Rd) | discard (rd : Rd) | pop | clear
  | delItem (i : Nat) | delSlice (a : Nat) (b : Option Nat) (st : Nat)
  | unionUpdate | interUpdate | update | diffUpdate | isub | symDiffUpdate

structure Reg where
  s : Rds
  imm : Bool
  deriving DecidableEq, Repr

/-- the operation on a mutable rdataset -/
def mutApply (sing : List Nat) (s : Rds) (op : InPlace) (o : Rds) (alias : Bool) : RdsR :=
  match op with
  | .add rd ttl => rdsAdd sing s rd ttl
  | .updateTtl t => (updateTtl s t, none)
  | .remove rd =>
    (match SetAlg.remove s.items rd with
     | some v => ({ s with items := v }, none)
     | none => (s, some .valueError))
  | .discard rd => ({ s with items := SetAlg.discard s.items rd }, none)
  | .pop =>
    (match SetAlg.pop s.items with
     | some (_, v) => ({ s with items := v }, none)
     | none => (s, some .keyError))
  | .clear => ({ s with items := [] }, none)
  | .delItem i =>
    (match SetAlg.delItem s.items i with
     | some v => ({ s with items := v }, none)
     | none => (s, some .stopIteration))
  | .delSlice a b st => ({ s with items := SetAlg.delSlice s.items a b st }, none)
  | .unionUpdate => rdsUnionUpdate sing s o alias
  | .interUpdate => rdsInterUpdate s o alias
  | .update => rdsUpdate sing s o
  | .diffUpdate => rdsDiffUpdate s o alias
  | .isub => rdsDiffUpdate s o alias
  | .symDiffUpdate => rdsSymDiffUpdate sing s o alias

/-- the operation on an rdataset object, mutable or immutable -/
def regApply (sing : List Nat) (r : Reg) (op : InPlace) (o : Rds) (alias : Bool) : Reg × Option RdsErr :=
  if r.imm then
    match op with
    | .diffUpdate => if !alias && o.items.isEmpty then (r, none) else (r, some .immutable)
    | _ => (r, some .immutable)
  else
    let res := mutApply sing r.s op o alias
    (⟨res.1, false⟩, res.2)

/-- `ImmutableRdataset(rdataset)`: a private copy of the value -/
def regFreeze (r : Reg) : Reg := ⟨r.s, true⟩

/-- the copying forms (`union`, `intersection`, `difference`, `symmetric_difference`): computed on a mutable
clone (`_clone_class = Rdataset`), the result wrapped again when the receiver is immutable; `kind` 0..3 -/
def regFun (sing : List Nat) (r : Reg) (kind : Nat) (o : Rds) : Reg × Option RdsErr :=
  let res : RdsR :=
    match kind with
    | 0 => rdsUnion sing r.s o
    | 1 => rdsInter r.s o
    | 2 => rdsDiff r.s o
    | _ => rdsSymDiff sing r.s o
  (⟨res.1, r.imm⟩, res.2)

end Model

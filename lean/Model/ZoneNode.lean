import Generated.C10
/-!
Model of the value layer under zone transactions:
`dns/set.py` + `dns/rdataset.py` (`Rdataset.update_ttl/add/union/intersection/difference/__eq__/match`) and
`dns/node.py` (`NodeKind.classify`, `Node._append_rdataset/find_rdataset/get_rdataset/delete_rdataset/replace_rdataset`).

Rdata is abstract: class, type, covered type (non-zero only for SIG/RRSIG) and a value id; for SOA the value id
is the serial (all other SOA fields are held constant by the harness).  An rdataset keeps its rdatas in the
insertion order of the underlying `dict`; no rdata occurs twice.
Not modelled (well-formed inputs only; the harness builds every rdataset through the public constructors, which
enforce it): `IncompatibleTypes` / `DifferingCovers` in `Rdataset.add`.
-/
namespace Model.ZT

structure Rdata where
  rdclass : Nat
  rdtype : Nat
  covers : Nat
  val : Nat
  deriving DecidableEq, Repr

structure Rdataset where
  rdclass : Nat
  rdtype : Nat
  covers : Nat
  ttl : Nat
  items : List Rdata
  deriving DecidableEq, Repr

def isSingleton (t : Nat) : Bool := t ∈ ConstsC10.singletons

namespace Rdataset

/-- `Rdataset.match(rdclass, rdtype, covers)` -/
def isMatch (r : Rdataset) (cls t c : Nat) : Bool := r.rdclass == cls && r.rdtype == t && r.covers == c

/-- `Rdataset.update_ttl` : TTL minimisation; an empty set takes the new TTL -/
def updateTtl (s : Rdataset) (ttl : Nat) : Rdataset :=
  if s.items.length = 0 then { s with ttl := ttl }
  else if ttl < s.ttl then { s with ttl := ttl }
  else s

/-- `Rdataset.add(rd)` (no ttl argument): singleton types clear the set first; `Set.add` appends if absent -/
def add (s : Rdataset) (rd : Rdata) : Rdataset :=
  let s := if isSingleton rd.rdtype ∧ s.items.length > 0 then { s with items := [] } else s
  if rd ∈ s.items then s else { s with items := s.items ++ [rd] }

/-- `Rdataset.union_update(other)` : `update_ttl(other.ttl)` then `Set.union_update` = `self.add(item)` for each item -/
def unionUpdate (s o : Rdataset) : Rdataset := o.items.foldl add (s.updateTtl o.ttl)

/-- `Set.union` : clone, then `union_update` (header and TTL of `self`) -/
def union (s o : Rdataset) : Rdataset := unionUpdate s o

/-- `Set.intersection` via `Rdataset.intersection_update` (which also minimises the TTL) -/
def intersection (s o : Rdataset) : Rdataset :=
  let s := s.updateTtl o.ttl
  { s with items := s.items.filter (fun x => x ∈ o.items) }

/-- `Set.difference` via `Set.difference_update` (no TTL change) -/
def difference (s o : Rdataset) : Rdataset :=
  { s with items := s.items.filter (fun x => !(x ∈ o.items)) }

/-- `Rdataset.__eq__` : class, type, covers, and the same *set* of rdatas (TTL is not compared) -/
def eq (a b : Rdataset) : Bool :=
  a.rdclass == b.rdclass && a.rdtype == b.rdtype && a.covers == b.covers &&
    a.items.all (fun x => x ∈ b.items) && b.items.all (fun x => x ∈ a.items)

/-- `dns.rdataset.from_rdata(ttl, rd)` : `Rdataset(rd.rdclass, rd.rdtype)`, `update_ttl`, `add` (which sets
`covers` from the rdata for the signature types) -/
def fromRdata (ttl : Nat) (rd : Rdata) : Rdataset :=
  { rdclass := rd.rdclass, rdtype := rd.rdtype,
    covers := if rd.rdtype = ConstsC10.rrsig ∨ rd.rdtype = ConstsC10.sig then rd.covers else 0,
    ttl := ttl, items := [rd] }

end Rdataset

/-! ## nodes -/

inductive Kind where
  | regular | neutral | cname
  deriving DecidableEq, Repr

/-- `_matches_type_or_its_signature` -/
def matchesTypeOrSig (ts : List Nat) (t c : Nat) : Bool := t ∈ ts || (t == ConstsC10.rrsig && c ∈ ts)

/-- `NodeKind.classify` -/
def classify (t c : Nat) : Kind :=
  if matchesTypeOrSig ConstsC10.cnameTypes t c then .cname
  else if matchesTypeOrSig ConstsC10.neutralTypes t c then .neutral
  else .regular

def Rdataset.kind (r : Rdataset) : Kind := classify r.rdtype r.covers

/-- a node is the list `Node.rdatasets` -/
abbrev Node := List Rdataset

namespace Node

/-- `Node.get_rdataset(rdclass, rdtype, covers)` (first match, `None` if absent) -/
def find (nd : Node) (cls t c : Nat) : Option Rdataset := List.find? (fun r => r.isMatch cls t c) nd

/-- `Node.delete_rdataset` : `self.rdatasets.remove(rds)` removes the first match -/
def delete (nd : Node) (cls t c : Nat) : Node := List.eraseP (fun r => r.isMatch cls t c) nd

/-- `Node._append_rdataset` : CNAME / other-data exclusion, then append -/
def append (nd : Node) (r : Rdataset) : Node :=
  let nd' :=
    if nd.length > 0 then
      match r.kind with
      | .cname => nd.filter (fun x => x.kind != .regular)
      | .regular => nd.filter (fun x => x.kind != .cname)
      | .neutral => nd
    else nd
  nd' ++ [r]

/-- `Node.replace_rdataset` -/
def replace (nd : Node) (r : Rdataset) : Node := (nd.delete r.rdclass r.rdtype r.covers).append r

end Node

end Model.ZT

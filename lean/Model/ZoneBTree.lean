import Model.ZoneTxn
/-!
Second model instance for the B-tree zone (`dns/btreezone.py` `WritableVersion._maybe_cow_with_name /
update_glue_flag / put_rdataset / delete_rdataset / delete_node`): the version class that interleaves the content
operations with node flags (ORIGIN, DELEGATION, GLUE), the delegation index and the `changed` set.

Only the *content* of this instance is claimed (C10); the flags and the index are C20's subject.  What the flag
logic needs from name order (`Delegations.is_glue`, the subtree walk of `update_glue_flag`, `_is_origin`) is
therefore a parameter `BParams`, and `Proofs/ZoneTxnBTree.lean` shows that for every such parameter the content
of this instance is the content of the plain `WritableVersion` model.  Keys are validated names.
-/
namespace Model.ZT
open Model

structure BNode where
  rds : Node
  origin : Bool
  deleg : Bool
  glue : Bool
  deriving Repr

structure BVer where
  nodes : List (Name × BNode)
  delegs : List Name
  changed : List Name
  deriving Repr

/-- the name-order facts the flag logic consults -/
structure BParams where
  isOrigin : Name → Bool                 -- `_is_origin(name)`
  isGlue : List Name → Name → Bool       -- `Delegations.is_glue(name)`
  below : Name → Name → Bool             -- `ename` is reached by the walk of `update_glue_flag(name, …)`

def bGet : List (Name × BNode) → Name → Option BNode
  | [], _ => none
  | (k', b) :: rest, k => if k' = k then some b else bGet rest k

def bErase (v : List (Name × BNode)) (k : Name) : List (Name × BNode) := v.filter (fun e => decide (e.1 ≠ k))
def bSet (v : List (Name × BNode)) (k : Name) (b : BNode) : List (Name × BNode) := (k, b) :: bErase v k

/-- `node_factory()` with the rdatasets of `old` copied: all flags cleared -/
def bFresh (old : Option BNode) : BNode :=
  { rds := (old.map (·.rds)).getD [], origin := false, deleg := false, glue := false }

/-- the btreezone override of `_maybe_cow_with_name`: ORIGIN at the apex, else GLUE below a delegation -/
def bFlag (P : BParams) (delegs : List Name) (key : Name) (node : BNode) : BNode :=
  if P.isOrigin key then { node with origin := true }
  else if P.isGlue delegs key then { node with glue := true } else node

/-- `_maybe_cow_with_name` (zone.py, then the btreezone override): the node now in the map at `key` -/
def bCow (P : BParams) (v : BVer) (key : Name) : BVer × BNode :=
  let old := bGet v.nodes key
  let (v1, node) : BVer × BNode :=
    match old with
    | some nd =>
      if key ∈ v.changed then (v, nd)
      else ({ v with changed := key :: v.changed }, bFresh old)
    | none => ({ v with changed := key :: v.changed }, bFresh none)
  let node := bFlag P v1.delegs key node
  ({ v1 with nodes := bSet v1.nodes key node }, node)

/-- `update_glue_flag(name, is_glue)`: every node reached by the walk is (copied if untouched so far and) re-flagged -/
def bUpdateGlue (P : BParams) (v : BVer) (name : Name) (flag : Bool) : BVer :=
  let touched := (v.nodes.filter (fun e => P.below e.1 name)).map (·.1)
  { v with
    nodes := v.nodes.map (fun e =>
      if P.below e.1 name then
        (e.1, { (if e.1 ∈ v.changed then e.2 else bFresh (some e.2)) with glue := flag })
      else e),
    changed := touched.filter (fun k => !(k ∈ v.changed)) ++ v.changed }

/-- `put_rdataset` -/
def bPut (P : BParams) (v : BVer) (key : Name) (r : Rdataset) : BVer :=
  let (v1, node) := bCow P v key
  let (v2, node) : BVer × BNode :=
    if r.rdtype = 2 ∧ !(node.origin || node.glue) then
      let node := { node with deleg := true }
      if key ∈ v1.delegs then (v1, node)
      else (bUpdateGlue P { v1 with delegs := key :: v1.delegs } key true, node)
    else (v1, node)
  -- `node.replace_rdataset(rdataset)` on the node object held at `key`
  { v2 with nodes := bSet v2.nodes key { node with rds := node.rds.replace r } }

/-- `delete_rdataset` -/
def bDelRds (P : BParams) (cls : Nat) (v : BVer) (key : Name) (t c : Nat) : BVer :=
  let (v1, node) := bCow P v key
  let (v2, node) : BVer × BNode :=
    if t = 2 ∧ key ∈ v1.delegs then
      (bUpdateGlue P { v1 with delegs := v1.delegs.filter (· ≠ key) } key false, { node with deleg := false })
    else (v1, node)
  let node := { node with rds := node.rds.delete cls t c }
  if node.rds.length = 0 then { v2 with nodes := bErase v2.nodes key }
  else { v2 with nodes := bSet v2.nodes key node }

/-- `delete_node` -/
def bDelNode (P : BParams) (v : BVer) (key : Name) : BVer :=
  match bGet v.nodes key with
  | none => v
  | some node =>
    let v1 := if node.deleg then bUpdateGlue P { v with delegs := v.delegs.filter (· ≠ key) } key false else v
    { v1 with nodes := bErase v1.nodes key, changed := key :: v1.changed }

/-- the content of a B-tree version: flags, index and `changed` forgotten -/
def bContent (v : List (Name × BNode)) : Nodes := v.map fun e => (e.1, e.2.rds)

end Model.ZT

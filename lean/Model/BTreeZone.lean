import Model.Name
import Generated.C20
/-!
Model of `dns/btreezone.py` (with the parts of `dns/zone.py` `WritableVersion`, `dns/node.py` and
`dns/transaction.py` it rests on), for property C20.

* The node store (`BTreeDict`) and the delegation index (`BTreeSet`) are **strictly sorted association
  lists keyed by names in canonical order** (`cmpOrder` of `Model.Name`); cursor walks (`seek`, `prev`,
  `next`) become `takeWhile`/`dropWhile` over that list.  The B-tree itself is property C19.
* Keys are the *validated* owner names (`dns.zone._validate_name`), **lower-cased**: dnspython compares owner
  names case-insensitively and keeps the spelling of the first insertion; spelling is not something C20
  speaks about, so the correspondence check lower-cases the names it reads from the implementation.
* A node is the list of its rdataset keys `(rdtype, covers)` plus the three flag bits.  Rdatasets are atomic.
* Copy-on-write is modelled by the per-version `changed` set exactly as coded, because the flags of a
  re-created node depend on it (`_maybe_cow_with_name` re-derives ORIGIN/GLUE only).
* `Variant` carries the decision points at which the pinned tree violated C20 (DESIGN §6 D15, D16, D19,
  D20, and the CNAME-at-a-cut case found while building).  All are repaired in /repo now: `intended` is the code,
  `asShipped` the code before the repairs.
-/
namespace Model
namespace BTZ

/-! ## decision points (DESIGN §6) -/

structure Variant where
  /-- D15: `_maybe_cow_with_name` also re-derives DELEGATION (from the index) on the node it returns -/
  fixCow : Bool
  /-- D16: `update_glue_flag` re-derives DELEGATION/GLUE and the index inside the subtree (nested cuts) -/
  fixNested : Bool
  /-- CNAME put at a cut removes the NS rdataset (`Node._append_rdataset`): un-delegate afterwards -/
  fixCname : Bool
  /-- D19: `bounds` skips glue when stepping left -/
  fixLeft : Bool
  /-- D20: `bounds` closest encloser of zero labels is the empty name, not `name[-0:]` -/
  fixCE : Bool
  deriving DecidableEq, Repr

def asShipped : Variant := ⟨false, false, false, false, false⟩
def intended : Variant := ⟨true, true, true, true, true⟩

/-! ## nodes (`dns/node.py`, `dns/btreezone.py` Node) -/

abbrev RdKey := Nat × Nat      -- (rdtype, covers)

structure Flags where
  origin : Bool := false
  deleg : Bool := false
  glue : Bool := false
  deriving DecidableEq, Repr

def Flags.toNat (f : Flags) : Nat :=
  (if f.origin then ConstsC20.flagOrigin else 0) + (if f.deleg then ConstsC20.flagDelegation else 0)
    + (if f.glue then ConstsC20.flagGlue else 0)

structure Node where
  rds : List RdKey
  flags : Flags
  deriving DecidableEq, Repr

inductive Kind where
  | regular | neutral | cname
  deriving DecidableEq, Repr

/-- `_matches_type_or_its_signature` -/
def matchesTypeOrSig (tys : List Nat) (k : RdKey) : Bool :=
  tys.contains k.1 || (k.1 == ConstsC20.rrsigType && tys.contains k.2)

/-- `NodeKind.classify` -/
def classify (k : RdKey) : Kind :=
  if matchesTypeOrSig ConstsC20.cnameTypes k then .cname
  else if matchesTypeOrSig ConstsC20.neutralTypes k then .neutral
  else .regular

def isNS (k : RdKey) : Bool := k.1 == ConstsC20.nsType

def hasNS (rds : List RdKey) : Bool := rds.any isNS

/-- `Node.delete_rdataset` (first match removed; there is at most one) -/
def deleteRds (rds : List RdKey) (k : RdKey) : List RdKey := rds.erase k

/-- `Node._append_rdataset` with its CNAME / other-data exclusion -/
def appendRds (rds : List RdKey) (k : RdKey) : List RdKey :=
  let kept :=
    if rds.isEmpty then rds
    else match classify k with
      | .cname => rds.filter (fun r => classify r != .regular)
      | .regular => rds.filter (fun r => classify r != .cname)
      | .neutral => rds
  kept ++ [k]

/-- `Node.replace_rdataset` -/
def replaceRds (rds : List RdKey) (k : RdKey) : List RdKey := appendRds (deleteRds rds k) k

/-! ## the sorted stores -/

abbrev Nodes := List (Name × Node)

def nget (l : Nodes) (k : Name) : Option Node :=
  match l.find? (fun e => nameEq e.1 k) with
  | some e => some e.2
  | none => none

def nins : Nodes → Name → Node → Nodes
  | [], k, v => [(k, v)]
  | e :: r, k, v =>
    if cmpOrder k e.1 < 0 then (k, v) :: e :: r
    else if cmpOrder k e.1 == 0 then (k, v) :: r
    else e :: nins r k v

def ndel (l : Nodes) (k : Name) : Nodes := l.filter (fun e => !nameEq e.1 k)

def dmem (l : List Name) (k : Name) : Bool := l.any (fun e => nameEq e k)

def dins : List Name → Name → List Name
  | [], k => [k]
  | e :: r, k =>
    if cmpOrder k e < 0 then k :: e :: r
    else if cmpOrder k e == 0 then k :: r
    else e :: dins r k

def ddel (l : List Name) (k : Name) : List Name := l.filter (fun e => !nameEq e k)

/-- the `changed` set of a writable version -/
def cadd (l : List Name) (k : Name) : List Name := if dmem l k then l else k :: l

/-- `properSub a b`: `a` is a proper subdomain of `b` (`NameRelation.SUBDOMAIN`) -/
def properSub (a b : Name) : Bool := (fullcompare a b).1 == 2

/-! ## zone configuration and name validation (`dns/zone.py` `_validate_name`) -/

structure Cfg where
  origin : Name        -- the absolute zone origin
  relativize : Bool
  deriving Repr

inductive ZErr where
  | keyError | valueError | assertion
  deriving DecidableEq, Repr

/-- `_validate_name` as coded; the only failure family is `KeyError`. -/
def validateName (cfg : Cfg) (name : Name) : Except ZErr Name :=
  if isAbs name then
    if !isSubdomain name cfg.origin then .error .keyError
    else if cfg.relativize then
      match relativize name cfg.origin with
      | .ok n => .ok n
      | .error _ => .error .keyError      -- unreachable for legal names; kept total
    else .ok name
  else
    match derelativize name cfg.origin with
    | .error _ => .error .keyError        -- NameTooLong mapped to KeyError
    | .ok absName => if !cfg.relativize then .ok absName else .ok name

/-- validated key, lower-cased (see the header) -/
def vname (cfg : Cfg) (name : Name) : Except ZErr Name :=
  match validateName cfg name with
  | .ok n => .ok (lowerName n)
  | .error e => .error e

/-- the key of the apex: the empty name in a relativized zone, the origin otherwise -/
def apex (cfg : Cfg) : Name := if cfg.relativize then [] else lowerName cfg.origin

/-- `WritableVersion._is_origin` -/
def isOrigin (cfg : Cfg) (name : Name) : Bool := nameEq name (apex cfg)

/-! ## `Delegations` -/

/-- `cursor.seek(name, before=False); cursor.prev()`: the greatest key `≤ name` -/
def lastLE (l : List Name) (name : Name) : Option Name :=
  (l.takeWhile (fun e => cmpOrder e name ≤ 0)).getLast?

/-- `Delegations.get_delegation` -/
def getDelegation (delegs : List Name) (name : Name) : Option Name × Bool :=
  match lastLE delegs name with
  | none => (none, false)
  | some cut =>
    let reln := (fullcompare name cut).1
    if reln == 2 then (some cut, true)
    else if reln == 3 then (some cut, false)
    else (none, false)

/-- `Delegations.is_glue` -/
def isGlueIdx (delegs : List Name) (name : Name) : Bool :=
  match getDelegation delegs name with
  | (none, _) => false
  | (some _, isSub) => isSub

/-! ## `WritableVersion` -/

structure Ver where
  nodes : Nodes
  delegs : List Name
  changed : List Name
  deriving Repr

/-- `dns.zone.WritableVersion._maybe_cow_with_name` followed by the flag re-derivation of
`dns.btreezone.WritableVersion._maybe_cow_with_name`.  `name` is already validated.
Returns the version (node stored, `changed` updated) and the node object the caller goes on mutating. -/
def maybeCow (v : Variant) (cfg : Cfg) (ver : Ver) (name : Name) : Ver × Node :=
  let old := nget ver.nodes name
  let fresh := old.isNone || !dmem ver.changed name
  let base : Node :=
    match old with
    | some nd => if fresh then { rds := nd.rds, flags := {} } else nd
    | none => { rds := [], flags := {} }
  let fl :=
    if isOrigin cfg name then { base.flags with origin := true }
    else if isGlueIdx ver.delegs name then { base.flags with glue := true }
    else if v.fixCow && dmem ver.delegs name then { base.flags with deleg := true }
    else base.flags
  let node : Node := { base with flags := fl }
  ({ ver with nodes := nins ver.nodes name node,
              changed := if fresh then cadd ver.changed name else ver.changed }, node)

/-- one step of the `update_glue_flag` loop on an element of the subtree, as shipped -/
def glueStep (changed : List Name) (isGlue : Bool) (e : Name × Node) : Name × Node :=
  let nd : Node := if dmem changed e.1 then e.2 else { rds := e.2.rds, flags := {} }
  (e.1, { nd with flags := { nd.flags with glue := isGlue } })

/-- the repaired step: inside the subtree of a name that just became a cut everything is plain glue;
inside the subtree of a name that just stopped being a cut, flags follow the NS owners *inside the subtree*
(`sub` is the list of subtree elements) -/
def glueStepFixed (sub : Nodes) (isGlue : Bool) (e : Name × Node) : Name × Node :=
  if isGlue then (e.1, { rds := e.2.rds, flags := { glue := true } })
  else
    let nsAbove := sub.any (fun a => properSub e.1 a.1 && hasNS a.2.rds)
    (e.1, { rds := e.2.rds, flags := { glue := nsAbove, deleg := hasNS e.2.rds && !nsAbove } })

/-- `update_glue_flag`: walk the elements after `name` while they are subdomains of it. -/
def updateGlue (v : Variant) (ver : Ver) (name : Name) (isGlue : Bool) : Ver :=
  let pre := ver.nodes.takeWhile (fun e => cmpOrder e.1 name ≤ 0)
  let rest := ver.nodes.dropWhile (fun e => cmpOrder e.1 name ≤ 0)
  let sub := rest.takeWhile (fun e => isSubdomain e.1 name)
  let post := rest.dropWhile (fun e => isSubdomain e.1 name)
  let changed' := sub.foldl (fun c e => cadd c e.1) ver.changed
  if v.fixNested then
    let sub' := sub.map (glueStepFixed sub isGlue)
    let delegs' :=
      if isGlue then ver.delegs.filter (fun d => !properSub d name)
      else (sub'.filter (fun e => e.2.flags.deleg)).foldl (fun d e => dins d e.1) ver.delegs
    { nodes := pre ++ sub' ++ post, delegs := delegs', changed := changed' }
  else
    { ver with nodes := pre ++ sub.map (glueStep ver.changed isGlue) ++ post, changed := changed' }

/-- the NS branch of `put_rdataset`: set DELEGATION, and for a name new to the index add it and walk the
subtree.  `node0` is the node object returned by `_maybe_cow_with_name`; returns the version and the node object. -/
def putNS (v : Variant) (ver1 : Ver) (node0 : Node) (name : Name) (k : RdKey) : Ver × Node :=
  if isNS k && !(node0.flags.origin || node0.flags.glue) then
    if !dmem ver1.delegs name then
      (updateGlue v { ver1 with delegs := dins ver1.delegs name } name true,
        ({ node0 with flags := { node0.flags with deleg := true } } : Node))
    else (ver1, ({ node0 with flags := { node0.flags with deleg := true } } : Node))
  else (ver1, node0)

/-- `node.replace_rdataset(rdataset)` and, in the repaired variant, the un-delegation when the NS rdataset was
dropped by the CNAME / other-data exclusion; the node object is then (re)stored -/
def putFinish (v : Variant) (ver2 : Ver) (node1 : Node) (name : Name) (k : RdKey) : Ver :=
  if v.fixCname && node1.flags.deleg && !hasNS (replaceRds node1.rds k) then
    { updateGlue v { ver2 with delegs := ddel ver2.delegs name } name false with
      nodes := nins (updateGlue v { ver2 with delegs := ddel ver2.delegs name } name false).nodes name
        { rds := replaceRds node1.rds k, flags := { node1.flags with deleg := false } } }
  else { ver2 with nodes := nins ver2.nodes name { node1 with rds := replaceRds node1.rds k } }

/-- `WritableVersion.put_rdataset` -/
def putRdataset (v : Variant) (cfg : Cfg) (ver : Ver) (name0 : Name) (k : RdKey) : Except ZErr Ver :=
  match vname cfg name0 with
  | .error e => .error e
  | .ok name =>
    .ok (putFinish v (putNS v (maybeCow v cfg ver name).1 (maybeCow v cfg ver name).2 name k).1
      (putNS v (maybeCow v cfg ver name).1 (maybeCow v cfg ver name).2 name k).2 name k)

/-- the NS branch of `delete_rdataset`: clear DELEGATION, drop the index entry, walk the subtree -/
def delNS (v : Variant) (ver1 : Ver) (node0 : Node) (name : Name) (k : RdKey) : Ver × Node :=
  if isNS k && dmem ver1.delegs name then
    (updateGlue v { ver1 with delegs := ddel ver1.delegs name } name false,
      ({ node0 with flags := { node0.flags with deleg := false } } : Node))
  else (ver1, node0)

/-- `node.delete_rdataset(...)`; an empty node is removed from the store -/
def delFinish (ver2 : Ver) (node1 : Node) (name : Name) (k : RdKey) : Ver :=
  if (deleteRds node1.rds k).isEmpty then { ver2 with nodes := ndel ver2.nodes name }
  else { ver2 with nodes := nins ver2.nodes name { node1 with rds := deleteRds node1.rds k } }

/-- `WritableVersion.delete_rdataset` -/
def deleteRdataset (v : Variant) (cfg : Cfg) (ver : Ver) (name0 : Name) (k : RdKey) : Except ZErr Ver :=
  match vname cfg name0 with
  | .error e => .error e
  | .ok name =>
    .ok (delFinish (delNS v (maybeCow v cfg ver name).1 (maybeCow v cfg ver name).2 name k).1
      (delNS v (maybeCow v cfg ver name).1 (maybeCow v cfg ver name).2 name k).2 name k)

/-- `WritableVersion.delete_node` -/
def deleteNode (v : Variant) (cfg : Cfg) (ver : Ver) (name0 : Name) : Except ZErr Ver :=
  match vname cfg name0 with
  | .error e => .error e
  | .ok name =>
    match nget ver.nodes name with
    | none => .ok ver
    | some node =>
      let ver1 :=
        if node.flags.deleg then updateGlue v { ver with delegs := ddel ver.delegs name } name false
        else ver
      .ok { ver1 with nodes := ndel ver1.nodes name, changed := cadd ver1.changed name }

/-! ## the transaction layer (`dns/transaction.py` `_add`, `_delete`) -/

inductive Op where
  /-- `txn.add(name, rdataset)` / `txn.replace(name, rdataset)`: both end in `put_rdataset` of the same key -/
  | put (name : Name) (k : RdKey)
  /-- `txn.delete(name)` -/
  | delName (name : Name)
  /-- `txn.delete(name, rdtype, covers)` -/
  | delRds (name : Name) (k : RdKey)
  /-- `txn.delete(name, rdataset)`: `hit` = the argument contains the stored rdata (the difference is empty) -/
  | delRdata (name : Name) (k : RdKey) (hit : Bool)
  deriving Repr

/-- `Version.get_rdataset` existence test (validates the name first) -/
def rdsExists (cfg : Cfg) (ver : Ver) (name0 : Name) (k : RdKey) : Except ZErr Bool :=
  match vname cfg name0 with
  | .error e => .error e
  | .ok name =>
    match nget ver.nodes name with
    | none => .ok false
    | some nd => .ok (nd.rds.contains k)

/-- the third component of `_origin_information`: what an SOA owner must be equal to -/
def effOrigin (cfg : Cfg) : Name := if cfg.relativize then [] else cfg.origin

def applyOp (v : Variant) (cfg : Cfg) (ver : Ver) : Op → Except ZErr Ver
  | .put name k =>
    if k.1 == ConstsC20.soaType && !nameEq name (effOrigin cfg) then .error .valueError
    else match rdsExists cfg ver name k with
      | .error e => .error e
      | .ok _ => putRdataset v cfg ver name k
  | .delName name => deleteNode v cfg ver name
  | .delRds name k =>
    match rdsExists cfg ver name k with
    | .error e => .error e
    | .ok false => .ok ver
    | .ok true => deleteRdataset v cfg ver name k
  | .delRdata name k hit =>
    match rdsExists cfg ver name k with
    | .error e => .error e
    | .ok false => .ok ver
    | .ok true => if hit then deleteRdataset v cfg ver name k else putRdataset v cfg ver name k

/-- a failing operation raises before anything is mutated: the version is unchanged -/
def stepOp (v : Variant) (cfg : Cfg) (ver : Ver) (op : Op) : Ver :=
  match applyOp v cfg ver op with
  | .ok ver' => ver'
  | .error _ => ver

structure Txn where
  replacement : Bool
  ops : List Op
  commit : Bool
  deriving Repr

/-- committed state of the zone: `none` is the version installed by `dns.versioned.Zone.__init__`
(a plain `dns.zone.WritableVersion`, from which only a *replacement* writer can start) -/
abbrev ZState := Option (Nodes × List Name)

/-- the state of a new zone: `dns.versioned.Zone.__init__` installs either a plain `dns.zone.WritableVersion`
(`false`; the pinned snapshot) or an empty immutable B-tree version built with the zone's factories (`true`) -/
def initState (emptyBTreeVersion : Bool) : ZState := if emptyBTreeVersion then some ([], []) else none

/-- the writable version a transaction starts from (`WritableVersion.__init__`) -/
def beginTxn (z : ZState) (replacement : Bool) : Except ZErr Ver :=
  if replacement then .ok { nodes := [], delegs := [], changed := [] }
  else match z with
    | some (nodes, delegs) => .ok { nodes := nodes, delegs := delegs, changed := [] }
    | none => .error .valueError

/-- `_end_transaction`: a version is installed only on commit with a non-empty `changed` -/
def endTxn (z : ZState) (ver : Ver) (commit : Bool) : ZState :=
  if commit && !ver.changed.isEmpty then some (ver.nodes, ver.delegs) else z

def runTxn (v : Variant) (cfg : Cfg) (z : ZState) (t : Txn) : ZState :=
  match beginTxn z t.replacement with
  | .error _ => z
  | .ok ver => endTxn z (t.ops.foldl (stepOp v cfg) ver) t.commit

def runHist (v : Variant) (cfg : Cfg) (z : ZState) (h : List Txn) : ZState := h.foldl (runTxn v cfg) z

/-! ## `ImmutableVersion.bounds` -/

structure Bounds where
  name : Name
  left : Name
  right : Option Name
  closestEncloser : Name
  isEqual : Bool
  isDelegation : Bool
  deriving DecidableEq, Repr

/-- `name[-k:]` (Python slice: `-0` is `0`, i.e. the whole name) -/
def lastLabels (v : Variant) (name : Name) (k : Nat) : Name :=
  if k == 0 && !v.fixCE then name else name.drop (name.length - k)

/-- `bounds` after the name has been validated -/
def boundsAt (v : Variant) (cfg : Cfg) (nodes : Nodes) (delegs : List Name) (name : Name) : Except ZErr Bounds :=
  let originLen := if cfg.relativize then 0 else cfg.origin.length
  let cut? := (getDelegation delegs name).1
  let target := match cut? with
    | some cut => cut
    | none => name
  let les := nodes.takeWhile (fun e => cmpOrder e.1 target ≤ 0)
  let gts := nodes.dropWhile (fun e => cmpOrder e.1 target ≤ 0)
  let left? := if v.fixLeft then (les.filter (fun e => !e.2.flags.glue)).getLast? else les.getLast?
  match left? with
  | none => .error .assertion
  | some left =>
    let right? := gts.find? (fun e => !e.2.flags.glue)
    let rcn := match right? with
      | some r => (fullcompare r.1 name).2.2
      | none => originLen
    .ok { name := name, left := left.1, right := right?.map (·.1),
          closestEncloser := lastLabels v name (max (fullcompare left.1 name).2.2 rcn),
          isEqual := (fullcompare left.1 name).1 == 3, isDelegation := cut?.isSome }

def bounds (v : Variant) (cfg : Cfg) (nodes : Nodes) (delegs : List Name) (name0 : Name) : Except ZErr Bounds :=
  match vname cfg name0 with
  | .error e => .error e
  | .ok name => boundsAt v cfg nodes delegs name

/-! ## the specification: functions of zone content only (documentation of `dns/btreezone.py`) -/

/-- `n` owns an NS rdataset -/
def nsAt (nodes : Nodes) (n : Name) : Bool :=
  match nget nodes n with
  | some nd => hasNS nd.rds
  | none => false

/-- some proper ancestor of `n` other than the apex owns NS -/
def nsAbove (cfg : Cfg) (nodes : Nodes) (n : Name) : Bool :=
  nodes.any (fun e => properSub n e.1 && !isOrigin cfg e.1 && hasNS e.2.rds)

/-- delegation point: a non-apex NS owner that is not beneath another one -/
def isDelegSpec (cfg : Cfg) (nodes : Nodes) (n : Name) : Bool :=
  !isOrigin cfg n && nsAt nodes n && !nsAbove cfg nodes n

/-- glue: strictly beneath a delegation point -/
def isGlueSpec (cfg : Cfg) (nodes : Nodes) (n : Name) : Bool :=
  nodes.any (fun e => properSub n e.1 && isDelegSpec cfg nodes e.1)

def flagsSpec (cfg : Cfg) (nodes : Nodes) (n : Name) : Flags :=
  { origin := isOrigin cfg n, deleg := isDelegSpec cfg nodes n, glue := isGlueSpec cfg nodes n }

/-- the delegation index as a function of content (in canonical order when `nodes` is) -/
def delegsSpec (cfg : Cfg) (nodes : Nodes) : List Name :=
  (nodes.filter (fun e => isDelegSpec cfg nodes e.1)).map (·.1)

/-- the names that are not occluded -/
def visible (cfg : Cfg) (nodes : Nodes) : List Name :=
  (nodes.filter (fun e => !isGlueSpec cfg nodes e.1)).map (·.1)

/-- number of labels of the closest encloser of `name`: the longest suffix of `name` at or above some
visible name (so empty non-terminals count) -/
def ceLen (vis : List Name) (name : Name) : Nat :=
  match ((List.range (name.length + 1)).reverse.find?
      (fun k => vis.any (fun w => isSubdomain w (name.drop (name.length - k))))) with
  | some k => k
  | none => 0

def boundsSpec (cfg : Cfg) (nodes : Nodes) (name : Name) : Option Bounds :=
  let vis := visible cfg nodes
  match (vis.filter (fun w => cmpOrder w name ≤ 0)).getLast? with
  | none => none
  | some left =>
    some { name := name, left := left,
           right := vis.find? (fun w => cmpOrder w name > 0),
           closestEncloser := name.drop (name.length - ceLen vis name),
           isEqual := nameEq left name,
           isDelegation := nodes.any (fun e => isDelegSpec cfg nodes e.1 && isSubdomain name e.1) }

/-- flags and index agree with the specification -/
def consistent (cfg : Cfg) (nodes : Nodes) (delegs : List Name) : Bool :=
  nodes.all (fun e => e.2.flags == flagsSpec cfg nodes e.1) && delegs == delegsSpec cfg nodes

/-! ## guards of the theorems of record

Decidable conditions (computed on the model state) under which the code *as shipped* keeps the derived state
right; each conjunct is vacuous when the corresponding repair is in, so they are identically `true` for
`intended`.  They are stated here, next to the model, because the driver reports them along every history. -/

/-- some NS owner strictly below `name` -/
def nsBelow (N : Nodes) (name : Name) : Bool := N.any (fun e => properSub e.1 name && hasNS e.2.rds)


/-- guard of `put_rdataset`: each conjunct is vacuous when the corresponding repair is in.
1. (D15) no non-NS rdataset is written at a delegation point whose node was not yet copied in this version;
2. (D16) no delegation point is created above, or removed from above, an NS owner;
3. no CNAME-kind rdataset is written at a delegation point. -/
def putGuard (v : Variant) (cfg : Cfg) (ver : Ver) (name : Name) (k : RdKey) : Bool :=
  (v.fixCow || !(dmem ver.delegs name && !dmem ver.changed name && !isNS k))
  && (v.fixNested || !(nsBelow ver.nodes name &&
        ((isNS k && !dmem ver.delegs name && !isOrigin cfg name && !isGlueIdx ver.delegs name)
          || (dmem ver.delegs name && classify k == Kind.cname))))
  && (v.fixCname || !(dmem ver.delegs name && classify k == Kind.cname))


/-- guard of `delete_rdataset` (D15, D16) -/
def delRdsGuard (v : Variant) (ver : Ver) (name : Name) (k : RdKey) : Bool :=
  (v.fixCow || !(dmem ver.delegs name && !dmem ver.changed name && !isNS k))
  && (v.fixNested || !(nsBelow ver.nodes name && isNS k && dmem ver.delegs name))


/-- guard of `delete_node` (D16) -/
def delNodeGuard (v : Variant) (ver : Ver) (name : Name) : Bool :=
  v.fixNested || !(nsBelow ver.nodes name && dmem ver.delegs name)


/-- guard of one operation (on the raw owner name; a failing or ineffective operation needs no guard) -/
def opGuard (v : Variant) (cfg : Cfg) (ver : Ver) : Op → Bool
  | .put n k =>
    match vname cfg n with
    | .ok name => putGuard v cfg ver name k
    | .error _ => true
  | .delName n =>
    match vname cfg n with
    | .ok name => delNodeGuard v ver name
    | .error _ => true
  | .delRds n k =>
    match rdsExists cfg ver n k, vname cfg n with
    | .ok true, .ok name => delRdsGuard v ver name k
    | _, _ => true
  | .delRdata n k hit =>
    match rdsExists cfg ver n k, vname cfg n with
    | .ok true, .ok name => if hit then delRdsGuard v ver name k else putGuard v cfg ver name k
    | _, _ => true


/-- guard of a list of operations applied in sequence -/
def opsGuard (v : Variant) (cfg : Cfg) : Ver → List Op → Bool
  | _, [] => true
  | ver, op :: r => opGuard v cfg ver op && opsGuard v cfg (stepOp v cfg ver op) r


def txnGuard (v : Variant) (cfg : Cfg) (z : ZState) (t : Txn) : Bool :=
  match beginTxn z t.replacement with
  | .ok ver => opsGuard v cfg ver t.ops
  | .error _ => true


def histGuard (v : Variant) (cfg : Cfg) : ZState → List Txn → Bool
  | _, [] => true
  | z, t :: r => txnGuard v cfg z t && histGuard v cfg (runTxn v cfg z t) r


/-- guard of `bounds` for the decision points left as shipped: (D19) the name is at or below a cut, or the
greatest node not after it is not glue; (D20) the closest encloser has at least one label -/
def boundsGuard (v : Variant) (cfg : Cfg) (N : Nodes) (D : List Name) (name : Name) : Bool :=
  (v.fixLeft || (getDelegation D name).1.isSome ||
    (match (N.takeWhile (fun e => decide (cmpOrder e.1 name ≤ 0))).getLast? with
     | some x => !x.2.flags.glue
     | none => true))
  && (v.fixCE || ceLen (visible cfg N) name != 0)


/-- guard of a `bounds` query on a committed state -/
def queryGuard (v : Variant) (cfg : Cfg) (q : Name) : ZState → Bool
  | none => true
  | some (nodes, delegs) =>
    match vname cfg q with
    | .error _ => true
    | .ok name => boundsGuard v cfg nodes delegs name


end BTZ
end Model

import Model.Name
/-!
Model of `dns/namedict.py` `NameDict`: a dict keyed by names (so keyed up to ASCII case, `Name.__eq__` /
`__hash__`) that also tracks the maximum label count of its keys so that `get_deepest_match` only has to try
the suffixes of the queried name of at most that many labels.

The store is the insertion-ordered list of `(key, value)` pairs, keys unique up to `nameEq`; assigning to an
existing key keeps the stored key object and its position (Python dict semantics).  `max_depth_items` is
followed exactly as coded, including that `__setitem__` counts a re-assignment of an existing key again.
`Name(name[i:])` cannot raise for a legal `name` (a suffix of a legal name is legal), so it is not modelled.
-/
namespace Model

structure NDict where
  store : List (Name × Nat)
  maxDepth : Nat
  maxDepthItems : Nat
  deriving Repr

def NDict.empty : NDict := ⟨[], 0, 0⟩

/-- `self.__store[key]` / `key in self.__store` -/
def ndFind (st : List (Name × Nat)) (k : Name) : Option Nat :=
  match st.find? (fun p => nameEq p.1 k) with
  | some p => some p.2
  | none => none

def ndHas (st : List (Name × Nat)) (k : Name) : Bool := (ndFind st k).isSome

/-- `__update_max_depth` -/
def updateMaxDepth (d : NDict) (k : Name) : NDict :=
  if k.length = d.maxDepth then { d with maxDepthItems := d.maxDepthItems + 1 }
  else if k.length > d.maxDepth then { d with maxDepth := k.length, maxDepthItems := 1 }
  else d

/-- `self.__store[key] = value` -/
def storeSet : List (Name × Nat) → Name → Nat → List (Name × Nat)
  | [], k, v => [(k, v)]
  | (k', v') :: rest, k, v => if nameEq k' k then (k', v) :: rest else (k', v') :: storeSet rest k v

/-- `__setitem__` (the key is a Name) -/
def ndSet (d : NDict) (k : Name) (v : Nat) : NDict :=
  updateMaxDepth { d with store := storeSet d.store k v } k

/-- `self.max_depth = 0; for k in self.__store: self.__update_max_depth(k)` (entered with `max_depth_items = 0`) -/
def recomputeDepth (d : NDict) : NDict :=
  d.store.foldl (fun acc p => updateMaxDepth acc p.1) { d with maxDepth := 0 }

/-- the bookkeeping of `__delitem__` after the key has been popped -/
def delBook (d : NDict) (k : Name) : NDict :=
  let d2 : NDict := if k.length = d.maxDepth then { d with maxDepthItems := d.maxDepthItems - 1 } else d
  if d2.maxDepthItems = 0 then recomputeDepth d2 else d2

/-- `__delitem__`: `self.__store.pop(key)` (KeyError = `none`), then the depth bookkeeping -/
def ndDel (d : NDict) (k : Name) : Option NDict :=
  if !ndHas d.store k then none
  else some (delBook { d with store := d.store.filter (fun p => !nameEq p.1 k) } k)

/-- the loop `for i in range(-depth, 0): n = Name(name[i:]); if n in self: return (n, self[n])`,
as "try the suffixes of `j`, `j-1`, …, `1` labels" -/
def tryFrom (st : List (Name × Nat)) (name : Name) : Nat → Option (Name × Nat)
  | 0 => none
  | j + 1 =>
    match ndFind st (name.drop (name.length - (j + 1))) with
    | some v => some (name.drop (name.length - (j + 1)), v)
    | none => tryFrom st name j

/-- `get_deepest_match(name)`; `none` is the `KeyError` of `self[dns.name.empty]` -/
def ndDeepest (d : NDict) (name : Name) : Option (Name × Nat) :=
  let depth := if name.length > d.maxDepth then d.maxDepth else name.length
  match tryFrom d.store name depth with
  | some r => some r
  | none =>
    match ndFind d.store [] with
    | some v => some ([], v)
    | none => none

/-- `Name.choose_relativity(origin, relativize)`: `if origin:` is false for `None` and for the zero-label name
(`Name.__len__`); C06's own copy, independent of the text-path models -/
def chooseRelativity06 (n : Name) (origin : Option Name) (rel : Bool) : Except NameErr Name :=
  match origin with
  | none => .ok n
  | some o => if o.length = 0 then .ok n else if rel then relativize n o else derelativize n o

end Model

import Model.Bytes
/-!
Model of `dns/set.py` `Set`: the insertion-ordered `dict` used as a set is an insertion-ordered,
duplicate-free `List` (invariant `Nodup`, proved preserved by every operation in `Proofs/SetAlg.lean`).
Exactly the dict behaviours the code uses are modelled: `item in d`, `d[item] = None` on an absent key
(append), `del d[item]` / `d.pop(item, None)` (erase), `d.popitem()` (LIFO), `d.clear()`, iteration in
insertion order, `d == d'` (same keys, order ignored).

Every `*_update` method has two functions here: the general loop, and the `self is other` branch as a
separate function (`…Self`), because the code special-cases aliasing (mutating a dict while iterating it
raises).  The copying forms are `clone` followed by the update on the clone, which is never aliased.
-/
namespace Model
namespace SetAlg

variable {α : Type} [DecidableEq α]

/-- `Set.add`: `if item not in self.items: self.items[item] = None` -/
def add (s : List α) (x : α) : List α := if x ∈ s then s else s ++ [x]

/-- `Set.remove`: `del self.items[item]`, `KeyError` turned into `ValueError` (`none`) -/
def remove (s : List α) (x : α) : Option (List α) := if x ∈ s then some (s.erase x) else none

/-- `Set.discard`: `self.items.pop(item, None)` -/
def discard (s : List α) (x : α) : List α := s.erase x

/-- `Set.pop`: `self.items.popitem()` (last inserted; `KeyError` on an empty dict = `none`) -/
def pop (s : List α) : Option (α × List α) :=
  match s.getLast? with
  | some x => some (x, s.dropLast)
  | none => none

/-- `Set.update(iterable)` / `Set.__init__(items)`: `for item in other: self.add(item)` -/
def update (s : List α) (xs : List α) : List α := xs.foldl add s

def ofList (xs : List α) : List α := update [] xs

/-- `Set._clone`: a new dict with the same keys in the same order -/
def clone (s : List α) : List α := s

/-- `Set.union_update`, general branch: `for item in other.items: self.add(item)` -/
def unionUpdate (s o : List α) : List α := o.foldl add s

/-- `Set.union_update`, `self is other` branch: `return` -/
def unionUpdateSelf (s : List α) : List α := s

/-- `Set.intersection_update`, general branch:
`for item in list(self.items): if item not in other.items: del self.items[item]` -/
def interUpdate (s o : List α) : List α :=
  s.foldl (fun acc x => if x ∈ o then acc else acc.erase x) s

/-- `Set.intersection_update`, `self is other` branch: `return` -/
def interUpdateSelf (s : List α) : List α := s

/-- `Set.difference_update`, general branch: `for item in other.items: self.discard(item)` -/
def diffUpdate (s o : List α) : List α := o.foldl discard s

/-- `Set.difference_update`, `self is other` branch: `self.items.clear()` -/
def diffUpdateSelf (_s : List α) : List α := []

/-- `Set.symmetric_difference_update`, general branch:
`overlap = self.intersection(other); self.union_update(other); self.difference_update(overlap)` -/
def symDiffUpdate (s o : List α) : List α :=
  let overlap := interUpdate (clone s) o
  diffUpdate (unionUpdate s o) overlap

/-- `Set.symmetric_difference_update`, `self is other` branch: `self.items.clear()` -/
def symDiffUpdateSelf (_s : List α) : List α := []

/-! copying forms: `obj = self._clone(); obj.xxx_update(other); return obj` (the clone is never `other`) -/
def union (s o : List α) : List α := unionUpdate (clone s) o
def inter (s o : List α) : List α := interUpdate (clone s) o
def diff (s o : List α) : List α := diffUpdate (clone s) o
def symDiff (s o : List α) : List α := symDiffUpdate (clone s) o

/-- `issubset`: `for item in self.items: if item not in other.items: return False` -/
def isSubset (s o : List α) : Bool := s.all (fun x => decide (x ∈ o))

/-- `issuperset`: `for item in other.items: if item not in self.items: return False` -/
def isSuperset (s o : List α) : Bool := o.all (fun x => decide (x ∈ s))

/-- `isdisjoint`: `for item in other.items: if item in self.items: return False` -/
def isDisjoint (s o : List α) : Bool := o.all (fun x => !decide (x ∈ s))

/-- `__eq__`: `self.items == other.items` — dict equality: same number of keys and every key of one is a key
of the other (values are all `None`); insertion order is ignored -/
def setEq (s o : List α) : Bool := s.length == o.length && s.all (fun x => decide (x ∈ o))

/-- `__getitem__(i)` for an int `i ≥ 0`: `next(islice(self.items, i, i + 1))` (`none`: the iterator is exhausted) -/
def getItem (s : List α) (i : Nat) : Option α := s[i]?

/-- `islice(self.items, start, stop, step)` with `None` defaults (`start = 0`, `stop = ∞`, `step = 1`), `step ≥ 1` -/
def getSlice (s : List α) (start : Nat) (stop : Option Nat) (step : Nat) : List α :=
  let upto := match stop with | some e => s.take e | none => s
  let rec every (l : List α) (k : Nat) (fuel : Nat) : List α :=
    match fuel, l with
    | 0, _ => []
    | _, [] => []
    | f + 1, x :: rest => x :: every (rest.drop (k - 1)) k f
  every (upto.drop start) step s.length

/-- `__delitem__(i)` for an int: `del self.items[self[i]]` -/
def delItem (s : List α) (i : Nat) : Option (List α) :=
  match getItem s i with
  | some x => some (s.erase x)
  | none => none

/-- `__delitem__(slice)`: `for elt in list(self[i]): del self.items[elt]` -/
def delSlice (s : List α) (start : Nat) (stop : Option Nat) (step : Nat) : List α :=
  (getSlice s start stop step).foldl (fun acc x => acc.erase x) s

end SetAlg
end Model

/-!
# Model of the writer-admission protocol of `dns/versioned.py` (property C12)

Small-step system.  Shared state = the fields of `dns.versioned.Zone` guarded by `_version_lock`
(`_write_txn`, `_write_event`, `_write_waiters`, `_versions`, `_readers`, `nodes`), the lock itself and the set
of `threading.Event`s that have been `set()`.  Every thread has a program counter that walks through

* `Zone.writer()` at line granularity (`event = None`; `with self._version_lock` = acquire; the test
  `self._write_txn is None and event == self._write_event`; `self._write_txn = Transaction(..)`;
  `self._write_event = None`; `break` = release; `event = threading.Event()`; `self._write_waiters.append(event)`;
  end of the `with` = release; `event.wait()`; back to the `with`; and, outside the lock, the deferred
  `_setup_version()` = read of `_versions[-1].id` followed by the copy of `zone.nodes`; `return`),
* the private transaction body, then `_commit_version` (`acquire; _versions.append; _prune_versions_unlocked;
  self.nodes = version.nodes; _end_write_unlocked`) or `_end_write` (`acquire; _end_write_unlocked`),
  `_end_write_unlocked` = `self._write_txn = None; _maybe_wakeup_one_waiter_unlocked` =
  `if len(waiters) > 0: self._write_event = waiters.popleft(); self._write_event.set()`, release,
* `Zone.reader()` (`acquire; version = _versions[-1]; _readers.add(txn); return` = release), the read, and
  `_end_read` (`acquire; _readers.remove; prune; release`).

`step c s t` is what thread `t` does next in state `s` (`none` = blocked or finished).  Which thread moves is
not fixed by the model: the theorems quantify over every choice (see `Proofs/Writers*.lean`, `Props/C12.lean`).

Contract assumed of `threading` (DESIGN §5): `Lock` = mutual exclusion, non-reentrant; `Event.set` makes every
current and future `wait` on that event return; `Event()` returns an object different from all others and from
`None` (`event == self._write_event` is identity).  Version pruning (`_prune_versions_unlocked`) is the business of
C11 and is a no-op here: `versions` is the whole history, of which the implementation's deque is a suffix that
always contains the last element.

Import-free: links into the native driver.
-/
namespace Model.Writers

abbrev Tid := Nat
abbrev Ev := Nat
abbrev Content := List Nat

inductive Role
  | writer (commit : Bool)   -- `commit = false`: roll back, or commit with nothing changed (same code path)
  | reader
deriving DecidableEq, Repr

inductive Pc
  | idle
  -- Zone.writer()
  | wInit | wAcq | wTest | wMkTxn | wClrEv | wRelA | wNewEv | wAppend | wRelB | wWait
  | wSetupId | wSetupCopy | wReturn
  -- transaction body (private version)
  | wBody
  -- _commit_version / _commit_version_unlocked
  | cAcq | cAppend | cPrune | cNodes
  -- the pruning policy raised inside `_prune_versions_unlocked()`: `self._versions.pop()`, end the write, re-raise
  | cUndo
  -- _end_write
  | rAcq
  -- _end_write_unlocked / _maybe_wakeup_one_waiter_unlocked
  | eTxnNone | eTestW | ePop | eSet | eRel
  -- Zone.reader(), the read, _end_read
  | rdAcq | rdPick | rdAdd | rdRel | rdRet | rdBody | xAcq | xRemove | xPrune | xRel
  -- reader(id=..) / reader(serial=..) found no such version: `raise KeyError` leaves the `with` (release)
  | rdFail
  | done
deriving DecidableEq, Repr

/-- which version a reader asks for: `reader()`, `reader(id=k)`, or a lookup that finds nothing (an id or serial that no
retained version has; which ids are retained is the business of pruning, C11, so "not found" is a parameter) -/
inductive Pick
  | latest | byId (k : Nat) | missing
deriving DecidableEq, Repr

structure Cfg where
  role : Tid → Role
  /-- what the transaction body of thread `t` makes of the snapshot it was given -/
  body : Tid → Content → Content
  /-- `writer(replacement=True)`: the private version starts empty instead of as a copy of the zone -/
  repl : Tid → Bool := fun _ => false
  /-- the user-supplied pruning policy raises during the commit of thread `t` (an arbitrary callback: the model
  takes the outcome as a parameter, the theorems hold for every choice) -/
  pruneFails : Tid → Bool := fun _ => false
  /-- the arguments of `reader()` -/
  pick : Tid → Pick := fun _ => .latest

structure Local where
  pc : Pc := .idle
  /-- the local variable `event` of `writer()` -/
  ev : Option Ev := none
  /-- id of the private version (`_get_next_version_id`) -/
  vid : Nat := 0
  /-- the private copy of the zone (`WritableVersion.nodes`) -/
  snap : Content := []
  /-- the version a reader was given -/
  rver : Nat × Content := (0, [])
  /-- what the reader read -/
  seen : Content := []

structure State where
  lock : Option Tid := none
  writeTxn : Option Tid := none
  writeEvent : Option Ev := none
  waiters : List Ev := []
  evSet : List Ev := []
  nextEv : Nat := 0
  versions : List (Nat × Content) := [(1, [])]
  nodes : Content := []
  readers : List Tid := []
  -- ghost history (never read by `step` to decide anything)
  arrivals : List Tid := []     -- writers in the order of their first critical section in `writer()`
  admitted : List Tid := []     -- writers in the order of `self._write_txn = Transaction(..)`
  committed : List Tid := []    -- writers in the order of `self.nodes = version.nodes`
  ends : Nat := 0               -- number of `_end_write_unlocked` executed
  owner : Ev → Tid := fun _ => 0  -- which thread created an event
  loc : Tid → Local := fun _ => {}

def init : State := {}

def State.setLoc (s : State) (t : Tid) (l : Local) : State :=
  { s with loc := fun u => if u = t then l else s.loc u }

def State.lastVersion (s : State) : Nat × Content := s.versions.getLastD (0, [])

def State.lastId (s : State) : Nat := s.lastVersion.1

/-- One atomic step of thread `t`; `none` = blocked (lock held, event not set) or finished. -/
def step (c : Cfg) (s : State) (t : Tid) : Option State :=
  let l := s.loc t
  match l.pc with
  | .idle =>
    match c.role t with
    | .writer _ => some (s.setLoc t { l with pc := .wInit })
    | .reader => some (s.setLoc t { l with pc := .rdAcq })
  -- event = None
  | .wInit => some (s.setLoc t { l with pc := .wAcq, ev := none })
  -- with self._version_lock:
  | .wAcq =>
    if s.lock = none then
      some ({ s with lock := some t,
                     arrivals := if l.ev = none then s.arrivals ++ [t] else s.arrivals }.setLoc t { l with pc := .wTest })
    else none
  -- if self._write_txn is None and event == self._write_event:
  | .wTest =>
    if s.writeTxn = none ∧ l.ev = s.writeEvent then some (s.setLoc t { l with pc := .wMkTxn })
    else some (s.setLoc t { l with pc := .wNewEv })
  -- self._write_txn = Transaction(self, replacement, make_immutable=True)
  | .wMkTxn => some ({ s with writeTxn := some t, admitted := s.admitted ++ [t] }.setLoc t { l with pc := .wClrEv })
  -- self._write_event = None
  | .wClrEv => some ({ s with writeEvent := none }.setLoc t { l with pc := .wRelA })
  -- break  (leaves the `with`: release)
  | .wRelA => some ({ s with lock := none }.setLoc t { l with pc := .wSetupId })
  -- event = threading.Event()
  | .wNewEv =>
    some ({ s with nextEv := s.nextEv + 1,
                   owner := fun e => if e = s.nextEv then t else s.owner e }.setLoc t
            { l with pc := .wAppend, ev := some s.nextEv })
  -- self._write_waiters.append(event)
  | .wAppend =>
    match l.ev with
    | some e => some ({ s with waiters := s.waiters ++ [e] }.setLoc t { l with pc := .wRelB })
    | none => none
  -- end of the `with`: release
  | .wRelB => some ({ s with lock := none }.setLoc t { l with pc := .wWait })
  -- event.wait()   then `while True` again
  | .wWait =>
    match l.ev with
    | some e => if e ∈ s.evSet then some (s.setLoc t { l with pc := .wAcq }) else none
    | none => none
  -- self._write_txn._setup_version(): id = zone._get_next_version_id()
  | .wSetupId => some (s.setLoc t { l with pc := .wSetupCopy, vid := s.lastId + 1 })
  --                                  if not replacement: self.nodes.update(zone.nodes)
  | .wSetupCopy => some (s.setLoc t { l with pc := .wReturn, snap := if c.repl t then [] else s.nodes })
  -- return self._write_txn
  | .wReturn => some (s.setLoc t { l with pc := .wBody })
  -- the transaction body, on the private version
  | .wBody =>
    match c.role t with
    | .writer true => some (s.setLoc t { l with pc := .cAcq, snap := c.body t l.snap })
    | _ => some (s.setLoc t { l with pc := .rAcq, snap := c.body t l.snap })
  -- _commit_version: with self._version_lock:
  | .cAcq => if s.lock = none then some ({ s with lock := some t }.setLoc t { l with pc := .cAppend }) else none
  -- self._versions.append(version)
  | .cAppend => some ({ s with versions := s.versions ++ [(l.vid, l.snap)] }.setLoc t { l with pc := .cPrune })
  -- self._prune_versions_unlocked()
  | .cPrune =>
    if c.pruneFails t then some (s.setLoc t { l with pc := .cUndo }) else some (s.setLoc t { l with pc := .cNodes })
  -- except BaseException: self._versions.pop(); self._end_write_unlocked(txn); raise
  | .cUndo => some ({ s with versions := s.versions.dropLast }.setLoc t { l with pc := .eTxnNone })
  -- self.nodes = version.nodes
  | .cNodes => some ({ s with nodes := l.snap, committed := s.committed ++ [t] }.setLoc t { l with pc := .eTxnNone })
  -- _end_write: with self._version_lock:
  | .rAcq => if s.lock = none then some ({ s with lock := some t }.setLoc t { l with pc := .eTxnNone }) else none
  -- _end_write_unlocked: self._write_txn = None
  | .eTxnNone => some ({ s with writeTxn := none, ends := s.ends + 1 }.setLoc t { l with pc := .eTestW })
  -- _maybe_wakeup_one_waiter_unlocked: if len(self._write_waiters) > 0:
  | .eTestW =>
    if s.waiters ≠ [] then some (s.setLoc t { l with pc := .ePop }) else some (s.setLoc t { l with pc := .eRel })
  -- self._write_event = self._write_waiters.popleft()
  | .ePop =>
    match s.waiters with
    | e :: rest => some ({ s with writeEvent := some e, waiters := rest }.setLoc t { l with pc := .eSet })
    | [] => none
  -- self._write_event.set()
  | .eSet =>
    match s.writeEvent with
    | some e => some ({ s with evSet := e :: s.evSet }.setLoc t { l with pc := .eRel })
    | none => none
  -- end of the `with`: release
  | .eRel => some ({ s with lock := none }.setLoc t { l with pc := .done })
  -- reader(): with self._version_lock:
  | .rdAcq => if s.lock = none then some ({ s with lock := some t }.setLoc t { l with pc := .rdPick }) else none
  -- version = self._versions[-1]
  | .rdPick =>
    match c.pick t with
    | .latest => some (s.setLoc t { l with pc := .rdAdd, rver := s.lastVersion })
    | .byId k =>
      -- for v in reversed(self._versions): if v.id == id: ...   (ids are distinct)
      match s.versions.find? (fun v => v.1 == k) with
      | some v => some (s.setLoc t { l with pc := .rdAdd, rver := v })
      | none => some (s.setLoc t { l with pc := .rdFail })
    | .missing => some (s.setLoc t { l with pc := .rdFail })
  -- raise KeyError("version not found" / "serial not found"): the `with` releases the lock
  | .rdFail => some ({ s with lock := none }.setLoc t { l with pc := .done })
  -- self._readers.add(txn)
  | .rdAdd => some ({ s with readers := t :: s.readers }.setLoc t { l with pc := .rdRel })
  -- return txn (leaves the `with`: release)
  | .rdRel => some ({ s with lock := none }.setLoc t { l with pc := .rdRet })
  | .rdRet => some (s.setLoc t { l with pc := .rdBody })
  -- the read, on the reader's version
  | .rdBody => some (s.setLoc t { l with pc := .xAcq, seen := l.rver.2 })
  -- _end_read: with self._version_lock:
  | .xAcq => if s.lock = none then some ({ s with lock := some t }.setLoc t { l with pc := .xRemove }) else none
  -- self._readers.remove(txn)
  | .xRemove => some ({ s with readers := s.readers.erase t }.setLoc t { l with pc := .xPrune })
  -- self._prune_versions_unlocked()
  | .xPrune => some (s.setLoc t { l with pc := .xRel })
  | .xRel => some ({ s with lock := none }.setLoc t { l with pc := .done })
  | .done => none

/-- Reachability with `n` threads (ids `< n`), any thread choice at every step. -/
inductive Reach (c : Cfg) (n : Nat) : State → Prop
  | init : Reach c n init
  | step {s s' : State} (t : Tid) : Reach c n s → t < n → step c s t = some s' → Reach c n s'

/-- Run a schedule (list of thread ids); stops at the first disabled choice. -/
def run (c : Cfg) : State → List Tid → Option State
  | s, [] => some s
  | s, t :: ts => match step c s t with
    | some s' => run c s' ts
    | none => none

/-! ## Labels: what an observer of the implementation sees of a step (used by the trace validation only) -/

inductive Label
  | tau | acq | rel
  | new (e : Ev) | app (e : Ev) | wait (e : Ev) | set (e : Ev) | pop (e : Ev)
  | txnOpen | txnClose | wevClear | setup | ver | verDrop | nod | rdAdd | rdDel | ret | rret | seen
  | stuck
deriving DecidableEq, Repr

def label (_c : Cfg) (s : State) (t : Tid) : Label :=
  let l := s.loc t
  match l.pc with
  | .idle | .wInit | .wTest | .wSetupId | .wBody | .cPrune | .eTestW | .rdPick | .xPrune => .tau
  | .wAcq | .cAcq | .rAcq | .rdAcq | .xAcq => .acq
  | .wRelA | .wRelB | .eRel | .rdRel | .xRel | .rdFail => .rel
  | .wMkTxn => .txnOpen
  | .wClrEv => if s.writeEvent = none then .tau else .wevClear
  | .wNewEv => .new s.nextEv
  | .wAppend => match l.ev with | some e => .app e | none => .stuck
  | .wWait => match l.ev with | some e => .wait e | none => .stuck
  | .wSetupCopy => .setup   -- the `writable_version_factory` hook / the copy of the node map: observable, and outside the lock
  | .wReturn => .ret
  | .cAppend => .ver
  | .cUndo => .verDrop
  | .cNodes => .nod
  | .eTxnNone => .txnClose
  | .ePop => match s.waiters with | e :: _ => .pop e | [] => .stuck
  | .eSet => match s.writeEvent with | some e => .set e | none => .stuck
  | .rdAdd => .rdAdd
  | .rdRet => .rret
  | .rdBody => .seen
  | .xRemove => .rdDel
  | .done => .stuck

/-- run the silent steps of thread `t` (bounded) -/
def advance (c : Cfg) : Nat → State → Tid → State
  | 0, s, _ => s
  | fuel + 1, s, t =>
    if label c s t = .tau then
      match step c s t with
      | some s' => advance c fuel s' t
      | none => s
    else s

end Model.Writers

import Model.Resolver
/-!
Model of `Resolver.resolve_name` (`dns/resolver.py`; the asyncio twin in `dns/asyncresolver.py` has the same text
modulo `await`): a host-name lookup made of one or two `resolve` calls.  For `AF_UNSPEC` the AAAA and the A lookup share
one deadline: each gets `_compute_timeout(start, lifetime)` — what is left of the caller's lifetime since the call
began, capped by the per-query timeout — as its own lifetime, and the A lookup asks for the name the AAAA lookup
settled on.
-/
namespace Model.Resolver
open Model

def tyA : Nat := 1
def tyAAAA : Nat := 28

inductive Family where
  | unspec | inet | inet6
  deriving Repr, DecidableEq

structure NameReq where
  qname : Name
  family : Family
  tcp : Bool
  raiseOnNoAnswer : Bool
  search : Option Bool
  lifetime : Option Nat
  deriving Repr

inductive NameResult where
  | answers (v6 v4 : Option Answer)        -- the `HostAnswers` dict: entry for AAAA, entry for A
  | raised (r : Result)                    -- whatever a lookup (or the budget computation) raised
  deriving Repr, DecidableEq

/-- `_compute_timeout(start, lifetime)` read at `now`: `none` = `LifetimeTimeout` -/
def budget (lifetime timeout start now : Nat) : Option Nat :=
  if now - start ≥ lifetime then none else some (min (lifetime - (now - start)) timeout)

def subReq (rq : NameReq) (q : Name) (ty : Nat) (rona : Bool) (life : Option Nat) : Request :=
  { qname := q, rdtype := ty, rdclass := clsIN, tcp := rq.tcp, raiseOnNoAnswer := rona, search := rq.search,
    lifetime := life }

/-- `HostAnswers.make(v6, v4, add_empty)` followed by `if not answers: raise NoAnswer` -/
def hostAnswers (addEmpty : Bool) (v6 v4 : Answer) : NameResult :=
  let a6 := if addEmpty || v6.hasRRset then some v6 else none
  let a4 := if addEmpty || v4.hasRRset then some v4 else none
  if a6.isNone && a4.isNone then .raised .noAnswer else .answers a6 a4

structure Final where
  now : Nat
  cache : Cache
  script : List ScriptStep
  deriving Repr

def finalOf (st : St) : Final := { now := st.now, cache := st.cache, script := st.script }

def resolveName (cfg : Config) (bo : Backoff) (clip : Bool) (maxChain : Nat) (rq : NameReq) (now : Nat) (cache : Cache)
    (script : List ScriptStep) : List Event × NameResult × Final :=
  match rq.family with
  | .inet =>
    let r := resolve cfg bo clip maxChain (subReq rq rq.qname tyA rq.raiseOnNoAnswer rq.lifetime) now cache script
    (r.1, (match r.2.1 with | .answer a => .answers none (some a) | x => .raised x), finalOf r.2.2)
  | .inet6 =>
    let r := resolve cfg bo clip maxChain (subReq rq rq.qname tyAAAA rq.raiseOnNoAnswer rq.lifetime) now cache script
    (r.1, (match r.2.1 with | .answer a => .answers (some a) none | x => .raised x), finalOf r.2.2)
  | .unspec =>
    let life := rq.lifetime.getD cfg.lifetime
    match budget life cfg.timeout now now with
    | none => ([], .raised .lifetimeTimeout, { now := now, cache := cache, script := script })
    | some l1 =>
      let r1 := resolve cfg bo clip maxChain (subReq rq rq.qname tyAAAA false (some l1)) now cache script
      match r1.2.1 with
      | .answer v6 =>
        match budget life cfg.timeout now r1.2.2.now with
        | none => (r1.1, .raised .lifetimeTimeout, finalOf r1.2.2)
        | some l2 =>
          let r2 := resolve cfg bo clip maxChain (subReq rq v6.qname tyA false (some l2)) r1.2.2.now r1.2.2.cache
            r1.2.2.script
          (r1.1 ++ r2.1,
           (match r2.2.1 with
            | .answer v4 => hostAnswers (!rq.raiseOnNoAnswer) v6 v4
            | x => .raised x),
           finalOf r2.2.2)
      | x => (r1.1, .raised x, finalOf r1.2.2)

end Model.Resolver

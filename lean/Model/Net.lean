import Model.Bytes
import Generated.C18
/-!
Model of the exchange logic of `dns/query.py` (and, by tie only, `dns/asyncquery.py`):

* `dns.inet.inet_pton` for the two families (`dns.ipv4.inet_aton`, `dns.ipv6.inet_aton(…, ignore_scope=True)`),
  `dns.inet.is_multicast`, `_addresses_equal`, `_matches_destination`;
* `Message.is_response`;
* `dns.message.from_wire` *as seen by the exchange*: an abstract datagram (`Wire`) says what the parser
  finds (shorter than a header / header + partial message then an exception / a complete message with or
  without trailing octets) and `fromWire` applies `ignore_trailing` / `raise_on_truncation` as the code does;
* `_udp_recv`, `_udp_send`, `receive_udp`, `udp` over a script of datagrams and would-block events;
* `_wait_for` (deadline arithmetic over a virtual clock);
* `_net_read`, `_net_write`, `send_tcp`, `receive_tcp`, `tcp` over scripts of `recv` / `send` results.

Octets are `Nat`, text is a list of ASCII codes, times are `Nat` ticks of a virtual clock that only
advances while waiting.  Everything is structural recursion over the script.
-/
namespace Model.Net
open Model

/-! ## textual addresses -/

def isDigit (c : Nat) : Bool := decide (48 ≤ c ∧ c ≤ 57)

/-- Python `bytes.split(sep)` for a one-octet separator: always at least one part. -/
def splitAux (sep : Nat) : Bytes → Bytes → List Bytes
  | [], cur => [cur.reverse]
  | c :: rest, cur => if c = sep then cur.reverse :: splitAux sep rest [] else splitAux sep rest (c :: cur)

def split (sep : Nat) (b : Bytes) : List Bytes := splitAux sep b []

def digitsVal (b : Bytes) : Nat := b.foldl (fun a c => a * 10 + (c - 48)) 0

/-- `bytes.isdigit()`: non-empty and all ASCII digits -/
def allDigits (p : Bytes) : Bool := !p.isEmpty && p.all isDigit

/-- `dns.ipv4.inet_aton`: four dot-separated decimal parts, no leading zeros, each ≤ 255.  `none` = SyntaxError. -/
def ipv4Aton (t : Bytes) : Option Bytes :=
  let parts := split 46 t
  if parts.length ≠ 4 then none
  else if parts.any (fun p => !allDigits p || (decide (p.length > 1) && p.head? == some 48)) then none
  else
    let b := parts.map digitsVal
    if b.any (fun x => decide (x > 255)) then none else some b

def hexVal? (c : Nat) : Option Nat :=
  if 48 ≤ c ∧ c ≤ 57 then some (c - 48)
  else if 97 ≤ c ∧ c ≤ 102 then some (c - 87)
  else if 65 ≤ c ∧ c ≤ 70 then some (c - 55)
  else none

def hexChar (n : Nat) : Nat := if n < 10 then 48 + n else 87 + n

/-- `f"{b:02x}"` -/
def hex2 (b : Nat) : Bytes := [hexChar (b / 16 % 16), hexChar (b % 16)]

def endsWith (b suf : Bytes) : Bool := suf.isSuffixOf b
def startsWith (b pre : Bytes) : Bool := pre.isPrefixOf b

/-- index of the last occurrence of `c` -/
def lastIndexOf (c : Nat) (b : Bytes) : Option Nat :=
  let rec go : Bytes → Nat → Option Nat → Option Nat
    | [], _, acc => acc
    | x :: rest, i, acc => go rest (i + 1) (if x = c then some i else acc)
  go b 0 none

/-- does `s` match `\d+\.\d+\.\d+\.\d+` -/
def looksDotQuad (s : Bytes) : Bool :=
  let parts := split 46 s
  decide (parts.length = 4) && parts.all allDigits

/-- four-hex-digit chunk to two octets (`binascii.unhexlify` of one canonical chunk) -/
def unhex4 (c : Bytes) : Option Bytes :=
  match c.mapM hexVal? with
  | some [a, b, c, d] => some [16 * a + b, 16 * c + d]
  | _ => none

/-- the chunk loop of `dns.ipv6.inet_aton`: `l` is the number of chunks -/
def v6Chunks (l : Nat) : List Bytes → Bool → Option (List Bytes × Bool)
  | [], seen => some ([], seen)
  | c :: rest, seen =>
    if c.isEmpty then
      if seen then none
      else match v6Chunks l rest true with
        | some (r, s) => some (List.replicate (8 - l + 1) [48, 48, 48, 48] ++ r, s)
        | none => none
    else if c.length > 4 then none
    else match v6Chunks l rest seen with
      | some (r, s) => some ((List.replicate (4 - c.length) 48 ++ c) :: r, s)
      | none => none

/-- `dns.ipv6.inet_aton(text, ignore_scope=True)`.  `none` = SyntaxError. -/
def ipv6Aton (t : Bytes) : Option Bytes :=
  let parts := split 37 t
  if parts.length > 2 then none else
  let b := if parts.length = 2 then parts.headD [] else t
  if b.isEmpty then none
  else if endsWith b [58] && !endsWith b [58, 58] then none
  else if startsWith b [58] && !startsWith b [58, 58] then none
  else
    let b := if b = [58, 58] then [48, 58, 58] else b
    -- dot-quad ending: `(.*):(\d+\.\d+\.\d+\.\d+)\Z` — `.` does not match a newline, `\Z` is the very end of the text
    let b? : Option Bytes :=
      if b.contains 10 then some b
      else match lastIndexOf 58 b with
      | some i =>
        let suf := b.drop (i + 1)
        if looksDotQuad suf then
          match ipv4Aton suf with
          | some [b0, b1, b2, b3] => some (b.take i ++ [58] ++ hex2 b0 ++ hex2 b1 ++ [58] ++ hex2 b2 ++ hex2 b3)
          | _ => none
        else some b
      | none => some b
    match b? with
    | none => none
    | some b =>
      -- `::.*` at the start; else `.*::\Z` (no newline before the final `::`)
      let b := if startsWith b [58, 58] then b.drop 1
               else if endsWith b [58, 58] && !(b.dropLast.dropLast).contains 10 then b.dropLast
               else b
      let chunks := split 58 b
      let l := chunks.length
      if l > 8 then none
      else match v6Chunks l chunks false with
        | none => none
        | some (canon, seen) =>
          if l < 8 && !seen then none
          else match canon.mapM unhex4 with
            | some bs => some bs.flatten
            | none => none

inductive Err where
  | timeout | unexpectedSource | badResponse | truncated | formError | otherParse
  | valueError | notImplemented | eof | exhausted
  deriving DecidableEq, Repr

def Err.toString : Err → String
  | .timeout => "Timeout" | .unexpectedSource => "UnexpectedSource" | .badResponse => "BadResponse"
  | .truncated => "Truncated" | .formError => "FormError" | .otherParse => "OtherParse"
  | .valueError => "ValueError" | .notImplemented => "NotImplemented" | .eof => "EOF"
  | .exhausted => "Exhausted"

/-- outcome of `dns.inet.inet_pton` -/
inductive Pton where
  | ok (b : Bytes) | syntax | notImplemented
  deriving DecidableEq, Repr

def inetPton (af : Nat) (text : Bytes) : Pton :=
  if af = ConstsC18.afInet then (match ipv4Aton text with | some b => .ok b | none => .syntax)
  else if af = ConstsC18.afInet6 then (match ipv6Aton text with | some b => .ok b | none => .syntax)
  else .notImplemented

/-- a low-level address tuple: textual host, then port (and flowinfo, scope id for IPv6) -/
structure Addr where
  host : Bytes
  rest : List Nat
  deriving DecidableEq, Repr

/-- `_addresses_equal`: binary comparison of the hosts, then the rest of the tuples.
`SyntaxError` is caught (→ `False`); `NotImplementedError` of an unknown family is not. -/
def addressesEqual (af : Nat) (a1 a2 : Addr) : Except Err Bool :=
  match inetPton af a1.host with
  | .notImplemented => .error .notImplemented
  | .syntax => .ok false
  | .ok n1 =>
    match inetPton af a2.host with
    | .notImplemented => .error .notImplemented
    | .syntax => .ok false
    | .ok n2 => .ok (n1 == n2 && a1.rest == a2.rest)

/-- `dns.inet.is_multicast`: tries IPv4, then IPv6, whatever the family; `ValueError` if neither parses -/
def isMulticast (text : Bytes) : Except Err Bool :=
  match ipv4Aton text with
  | some b => .ok (decide (b.headD 0 ≥ ConstsC18.mcast4Lo) && decide (b.headD 0 ≤ ConstsC18.mcast4Hi))
  | none =>
    match ipv6Aton text with
    | some b => .ok (b.headD 0 == ConstsC18.mcast6)
    | none => .error .valueError

/-- `_matches_destination` (with Python's short-circuit `or` / `and`) -/
def matchesDestination (af : Nat) (src : Addr) (dest : Option Addr) (ignoreUnexpected : Bool) : Except Err Bool :=
  match dest with
  | none => .ok true
  | some d =>
    match addressesEqual af src d with
    | .error e => .error e
    | .ok true => .ok true
    | .ok false =>
      match isMulticast d.host with
      | .error e => .error e
      | .ok mc =>
        if mc && src.rest == d.rest then .ok true
        else if ignoreUnexpected then .ok false
        else .error .unexpectedSource

/-! ## messages, as far as `is_response` reads them -/

structure QEntry where
  name : List Bytes
  rdclass : Nat
  rdtype : Nat
  deriving DecidableEq, Repr

structure Msg where
  id : Nat
  flags : Nat
  ednsflags : Nat
  question : List QEntry
  deriving DecidableEq, Repr

def lowerOctet (c : Nat) : Nat := if 65 ≤ c ∧ c ≤ 90 then c + 32 else c

def lowerName (n : List Bytes) : List Bytes := n.map (·.map lowerOctet)

/-- RRset equality of two (empty) question RRsets: names equal up to ASCII case, same class and type -/
def QEntry.same (a b : QEntry) : Bool :=
  lowerName a.name == lowerName b.name && a.rdclass == b.rdclass && a.rdtype == b.rdtype

def qmem (n : QEntry) (l : List QEntry) : Bool := l.any (QEntry.same n)

def qr (flags : Nat) : Bool := flags &&& ConstsC18.QR != 0
def tc (flags : Nat) : Bool := flags &&& ConstsC18.TC != 0
def opcodeOf (flags : Nat) : Nat := (flags &&& ConstsC18.opcodeMask) >>> ConstsC18.opcodeShift
def rcodeOf (flags ednsflags : Nat) : Nat :=
  (flags &&& ConstsC18.rcodeMask) ||| ((ednsflags >>> ConstsC18.ednsRcodeShift) &&& ConstsC18.ednsRcodeMask)

def questionsMatch (a b : List QEntry) : Bool := a.all (qmem · b) && b.all (qmem · a)

/-- `Message.is_response` -/
def isResponse (self other : Msg) : Bool :=
  if !qr other.flags || self.id != other.id || opcodeOf self.flags != opcodeOf other.flags then false
  else if ConstsC18.rcodeNoQuestion.contains (rcodeOf other.flags other.ednsflags) && other.question.isEmpty then true
  else if opcodeOf self.flags == ConstsC18.opUpdate then true
  else questionsMatch self.question other.question

/-! ## what the parser makes of a datagram -/

/-- What the message reader finds *after* the question section (the reader of the resource records is
C03/C04's subject); the header and the question section are read by this model from the octets themselves. -/
structure Body where
  ednsflags : Nat
  /-- `none`: every section was parsed; `some fe`: a record after the question section raised, and `fe` says
      whether the exception is in the `FormError` family; `ednsflags` is then as found so far -/
  broken : Option Bool
  /-- octets remain after the last section -/
  trailing : Bool
  deriving DecidableEq, Repr

/-- A datagram / framed message: its octets, and what the reader finds after the header. -/
structure Wire where
  octets : Bytes
  body : Body
  deriving DecidableEq, Repr

/-- big-endian value of an octet string (`struct.unpack("!H", …)` on two octets) -/
def beVal (b : Bytes) : Nat := b.foldl (fun a x => a * 256 + x) 0

/-- `_WireReader.read`: `ShortHeader` below 12 octets, else `id` and `flags` are the first two big-endian
16-bit fields of the octets -/
def header (b : Bytes) : Option (Nat × Nat) :=
  if b.length < 12 then none else some (beVal (b.take 2), beVal ((b.drop 2).take 2))

/-- `dns.name.from_wire_parser` at offset `cur` of the message `w` (compression pointers must point strictly
backwards, `bp` = `biggest_pointer`): the labels, and the furthest offset read (where the parser continues).
`none` = `FormError` family (past the end, `BadPointer`, `BadLabelType`).  Recursion on explicit fuel. -/
def readName (w : Bytes) : Nat → Nat → Nat → Nat → List Bytes → Option (List Bytes × Nat)
  | 0, _, _, _, _ => none
  | fuel + 1, cur, bp, far, acc =>
    match w[cur]? with
    | none => none
    | some c =>
      if c = 0 then some (acc ++ [[]], max far (cur + 1))
      else if c < 64 then
        if cur + 1 + c > w.length then none
        else readName w fuel (cur + 1 + c) bp (max far (cur + 1 + c)) (acc ++ [(w.drop (cur + 1)).take c])
      else if c ≥ 192 then
        match w[cur + 1]? with
        | none => none
        | some d =>
          if (c % 64) * 256 + d ≥ bp then none
          else readName w fuel ((c % 64) * 256 + d) ((c % 64) * 256 + d) (max far (cur + 2)) acc
      else none

/-- `Parser.get_name()`: the name at `cur` and the offset after it; `Name(labels)` rejects more than 255 octets -/
def getName (w : Bytes) (cur : Nat) : Option (List Bytes × Nat) :=
  match readName w ((w.length + 1) * (w.length + 1)) cur cur cur [] with
  | none => none
  | some (labels, far) => if (labels.map (·.length + 1)).sum > 255 then none else some (labels, far)

/-- `_WireReader._get_question`: `n` entries from offset `off` on.  Returns the entries added to the question
section so far and, unless a read raised (`FormError` family), the offset after the section.  `update` = the
message is an UPDATE, whose zone section must be one SOA of a data class (`UpdateMessage._parse_rr_header`). -/
def readQuestions (update : Bool) (w : Bytes) : Nat → Nat → List QEntry → List QEntry × Option Nat
  | 0, off, acc => (acc, some off)
  | n + 1, off, acc =>
    match getName w off with
    | none => (acc, none)
    | some (name, p) =>
      if p + 4 > w.length then (acc, none)
      else
        let rdtype := beVal ((w.drop p).take 2)
        let rdclass := beVal ((w.drop (p + 2)).take 2)
        if update && (rdclass == 254 || rdclass == 255 || rdtype != 6 || !acc.isEmpty) then (acc, none)
        else readQuestions update w n (p + 4) (acc ++ [⟨name, rdclass, rdtype⟩])

/-- the question section of a datagram as the reader builds it: entries, and whether it was read to its end -/
def questionSection (b : Bytes) (flags : Nat) : List QEntry × Option Nat :=
  readQuestions (opcodeOf flags == ConstsC18.opUpdate) b (beVal ((b.drop 4).take 2)) 12 []

inductive PErr where
  | formError | other | truncated (m : Msg)
  deriving DecidableEq, Repr

/-- `dns.message.from_wire(wire, ignore_trailing=…, raise_on_truncation=…, continue_on_error=…)`.
With `continue_on_error` the reader swallows every exception raised after the header
and hands back the message as built so far. -/
def fromWire (w : Wire) (ignoreTrailing raiseOnTruncation : Bool) (contOnErr : Bool := false) : Except PErr Msg :=
  match header w.octets with
  | none => .error .formError
  | some (id, flags) =>
    let qs := questionSection w.octets flags
    -- a question section that cannot be read is a `FormError` before any later record (and any OPT) is seen
    let m : Msg := ⟨id, flags, if qs.2.isSome then w.body.ednsflags else 0, qs.1⟩
    match (if qs.2.isSome then w.body.broken else some true) with
    | some fe =>
      if contOnErr then (if tc flags && raiseOnTruncation then .error (.truncated m) else .ok m)
      else if fe then (if tc flags && raiseOnTruncation then .error (.truncated m) else .error .formError)
      else .error .other
    | none =>
      if w.body.trailing && !ignoreTrailing && !contOnErr then
        (if tc flags && raiseOnTruncation then .error (.truncated m) else .error .formError)
      else if tc flags && raiseOnTruncation then .error (.truncated m)
      else .ok m

/-! ## waiting -/

/-- `_wait_for` over the virtual clock: the awaited event needs `dt` ticks.
Raises `Timeout` if the deadline has passed, or passes before the event. -/
def waitFor (exp : Option Nat) (now dt : Nat) : Except Err Nat :=
  match exp with
  | none => .ok (now + dt)
  | some e => if e ≤ now then .error .timeout else if dt < e - now then .ok (now + dt) else .error .timeout

/-- what happens when the script has nothing more to offer: wait for ever, or until the deadline -/
def starved (exp : Option Nat) : Err := if exp.isSome then .timeout else .exhausted

/-- the clock when a wait gives up: the deadline (or now, if it had already passed) -/
def giveUpClock (exp : Option Nat) (now : Nat) : Nat :=
  match exp with
  | none => now
  | some e => if e ≤ now then now else e

/-! ## UDP -/

inductive UEv where
  | dgram (src : Addr) (w : Wire)
  | block (dt : Nat)
  deriving DecidableEq, Repr

structure UOpts where
  ignoreUnexpected : Bool
  oneRrPerRrset : Bool
  ignoreTrailing : Bool
  raiseOnTruncation : Bool
  ignoreErrors : Bool
  deriving DecidableEq, Repr

structure Fail where
  err : Err
  /-- number of datagrams taken from the socket when the exception was raised -/
  idx : Nat
  /-- the clock when it was raised -/
  now : Nat
  deriving DecidableEq, Repr

structure URet where
  /-- position (0-based, counting datagrams only) of the returned datagram in the script -/
  idx : Nat
  msg : Msg
  src : Addr
  recvTime : Nat
  deriving DecidableEq, Repr

/-- `ignore_errors and query is not None and not query.is_response(m)` -/
def rejects (ignoreErrors : Bool) (query : Option Msg) (m : Msg) : Bool :=
  ignoreErrors && (match query with | some q => !isResponse q m | none => false)

/-- what `receive_udp` does with one datagram it has just taken from the socket (shared by `dns.query` and
`dns.asyncquery`, whose loop bodies are the same text): pass over it, raise, or return it -/
inductive Verdict where
  | skip | raise (e : Err) | accept (m : Msg)
  deriving DecidableEq, Repr

def judge (coe : Bool) (af : Nat) (dest : Option Addr) (o : UOpts) (query : Option Msg) (src : Addr) (w : Wire) : Verdict :=
  match matchesDestination af src dest o.ignoreUnexpected with
  | .error e => .raise e
  | .ok false => .skip
  | .ok true =>
    match fromWire w o.ignoreTrailing o.raiseOnTruncation (coe && o.ignoreErrors) with
    | .error (.truncated pm) => if rejects o.ignoreErrors query pm then .skip else .raise .truncated
    | .error .formError => if o.ignoreErrors then .skip else .raise .formError
    | .error .other => if o.ignoreErrors then .skip else .raise .otherParse
    | .ok r => if rejects o.ignoreErrors query r then .skip else .accept r

/-- `dns.query.receive_udp` (with `_udp_recv` inlined): one script event per step.
`coe` = the parser is called with `continue_on_error=ignore_errors` (what `dns.asyncquery.receive_udp` did
before repair 3f2b73a); the code as it is now is `coe = false`. -/
def receiveUdp (coe : Bool) (af : Nat) (dest : Option Addr) (exp : Option Nat) (o : UOpts) (query : Option Msg) :
    List UEv → Nat → Nat → Except Fail URet
  | [], now, idx => .error ⟨starved exp, idx, giveUpClock exp now⟩
  | .block dt :: rest, now, idx =>
    match waitFor exp now dt with
    | .error e => .error ⟨e, idx, giveUpClock exp now⟩
    | .ok now' => receiveUdp coe af dest exp o query rest now' idx
  | .dgram src w :: rest, now, idx =>
    match judge coe af dest o query src w with
    | .raise e => .error ⟨e, idx + 1, now⟩
    | .skip => receiveUdp coe af dest exp o query rest now (idx + 1)
    | .accept r => .ok ⟨idx, r, src, now⟩

/-- `_udp_send`: `sendto` raises `BlockingIOError` once per entry of `blocks`, then succeeds -/
def udpSend (exp : Option Nat) : List Nat → Nat → Except (Err × Nat) Nat
  | [], now => .ok now
  | dt :: rest, now =>
    match waitFor exp now dt with
    | .error e => .error (e, giveUpClock exp now)
    | .ok now' => udpSend exp rest now'

/-- `_compute_times` -/
def expiration (timeout : Option Nat) (now : Nat) : Option Nat := timeout.map (now + ·)

/-- `dns.query.udp(q, where, timeout, …, sock=…)`; `af` is the socket's family, `dest` the destination tuple -/
def udp (coe : Bool) (q : Msg) (af : Nat) (dest : Addr) (timeout : Option Nat) (o : UOpts)
    (sendBlocks : List Nat) (script : List UEv) (now : Nat) : Except Fail URet :=
  let exp := expiration timeout now
  match udpSend exp sendBlocks now with
  | .error (e, t) => .error ⟨e, 0, t⟩
  | .ok now1 =>
    match receiveUdp coe af (some dest) exp o (some q) script now1 0 with
    | .error f => .error f
    | .ok r =>
      if !(o.ignoreErrors || isResponse q r.msg) then .error ⟨.badResponse, r.idx + 1, r.recvTime⟩
      else .ok r

/-! ## streams -/

inductive REv where
  | data (d : Bytes)
  | block (dt : Nat)
  | eof
  deriving DecidableEq, Repr

inductive SEv where
  | accept (k : Nat)
  | block (dt : Nat)
  deriving DecidableEq, Repr

/-- `_net_read(sock, count, expiration)`; `recv(count)` takes at most `count` octets of the chunk at the
head of the script and leaves the remainder of that chunk for the next `recv`.
Returns the octets read, the remaining script and the clock. -/
def netRead : List REv → Nat → Option Nat → Nat → Bytes → Except Err (Bytes × List REv × Nat)
  | evs, 0, _, now, acc => .ok (acc, evs, now)
  | [], _ + 1, exp, _, _ => .error (starved exp)
  | .eof :: _, _ + 1, _, _, _ => .error .eof
  | .block dt :: rest, c + 1, exp, now, acc =>
    match waitFor exp now dt with
    | .error e => .error e
    | .ok now' => netRead rest (c + 1) exp now' acc
  | .data d :: rest, c + 1, exp, now, acc =>
    if d.isEmpty then .error .eof
    else if d.length ≤ c + 1 then netRead rest (c + 1 - d.length) exp now (acc ++ d)
    else .ok (acc ++ d.take (c + 1), .data (d.drop (c + 1)) :: rest, now)

/-- `_net_write(sock, data, expiration)`; `send(rem)` accepts `min k |rem|` octets.
First component: the octets the socket has accepted so far (in every outcome). -/
def netWrite : List SEv → Bytes → Option Nat → Nat → Bytes → Bytes × Except Err (List SEv × Nat)
  | evs, [], _, now, sent => (sent, .ok (evs, now))
  | [], _ :: _, exp, _, sent => (sent, .error (starved exp))
  | .accept k :: rest, x :: xs, exp, now, sent =>
    netWrite rest ((x :: xs).drop k) exp now (sent ++ (x :: xs).take k)
  | .block dt :: rest, x :: xs, exp, now, sent =>
    match waitFor exp now dt with
    | .error e => (sent, .error e)
    | .ok now' => netWrite rest (x :: xs) exp now' sent

/-- `len(what).to_bytes(2, "big")` -/
def be16 (n : Nat) : Bytes := [n / 256 % 256, n % 256]

/-- `send_tcp(sock, wire, expiration)` for a `bytes` argument -/
def sendTcp (wire : Bytes) (sevs : List SEv) (exp : Option Nat) (now : Nat) : Bytes × Except Err (List SEv × Nat) :=
  netWrite sevs (be16 wire.length ++ wire) exp now []

/-- the framing half of `receive_tcp`: two octets of length, then that many octets -/
def receiveFrame (evs : List REv) (exp : Option Nat) (now : Nat) : Except Err (Bytes × List REv × Nat) :=
  match netRead evs ConstsC18.lenPrefix exp now [] with
  | .error e => .error e
  | .ok (ld, evs1, now1) => netRead evs1 (beVal ld) exp now1 []

structure TRet where
  msg : Msg
  frame : Bytes
  recvTime : Nat
  rest : List REv
  deriving DecidableEq, Repr

/-- the parsing half of `receive_tcp`: `from_wire(frame, ignore_trailing=…)` (no `raise_on_truncation`) -/
def parseFrame (body : Bytes → Body) (ignoreTrailing coe : Bool) (frame : Bytes) : Except Err Msg :=
  match fromWire ⟨frame, body frame⟩ ignoreTrailing false coe with
  | .error (.truncated _) => .error .truncated
  | .error .formError => .error .formError
  | .error .other => .error .otherParse
  | .ok m => .ok m

/-- `dns.query.receive_tcp`. -/
def receiveTcp (body : Bytes → Body) (ignoreTrailing : Bool) (evs : List REv) (exp : Option Nat) (now : Nat) :
    Except Err TRet :=
  match receiveFrame evs exp now with
  | .error e => .error e
  | .ok (frame, rest, now1) =>
    match parseFrame body ignoreTrailing false frame with
    | .error e => .error e
    | .ok m => .ok ⟨m, frame, now1, rest⟩

/-- `dns.query.tcp(q, where, timeout, …, sock=…)`; `qwire` is `q.to_wire()`.
First component: octets accepted by the socket. -/
def tcp (q : Msg) (qwire : Bytes) (timeout : Option Nat) (ignoreTrailing : Bool) (body : Bytes → Body)
    (sevs : List SEv) (revs : List REv) (now : Nat) : Bytes × Except Err TRet :=
  let exp := expiration timeout now
  match sendTcp qwire sevs exp now with
  | (sent, .error e) => (sent, .error e)
  | (sent, .ok (_, now1)) =>
    match receiveTcp body ignoreTrailing revs exp now1 with
    | .error e => (sent, .error e)
    | .ok r => if !isResponse q r.msg then (sent, .error .badResponse) else (sent, .ok r)

/-- all octets the peer ever puts on the stream, in order (ignoring would-block and EOF marks) -/
def stream : List REv → Bytes
  | [] => []
  | .data d :: rest => d ++ stream rest
  | .block _ :: rest => stream rest
  | .eof :: rest => stream rest

/-! ## `udp_with_fallback` -/

structure FRet where
  msg : Msg
  usedTcp : Bool
  /-- `response.time`: from the start of the exchange that produced it to its reception -/
  time : Nat
  deriving DecidableEq, Repr

/-- the result of the TCP leg as the result of `udp_with_fallback` (`used_tcp = True`) -/
def asFallback (t : Nat) : Bytes × Except Err TRet → Bytes × Except Err FRet
  | (sent, .ok r) => (sent, .ok ⟨r.msg, true, r.recvTime - t⟩)
  | (sent, .error e) => (sent, .error e)

/-- `dns.query.udp_with_fallback(q, where, timeout, …, udp_sock=…, tcp_sock=…)`: `udp()` with
`raise_on_truncation=True`; on `Truncated` (only), `tcp()` with the same query and a fresh deadline.
First component: the octets the TCP socket accepted. -/
def udpWithFallback (q : Msg) (qwire : Bytes) (af : Nat) (dest : Addr) (timeout : Option Nat) (o : UOpts)
    (sendBlocks : List Nat) (script : List UEv) (body : Bytes → Body) (sevs : List SEv) (revs : List REv) (now : Nat) :
    Bytes × Except Err FRet :=
  match udp false q af dest timeout { o with raiseOnTruncation := true } sendBlocks script now with
  | .ok r => ([], .ok ⟨r.msg, false, r.recvTime - now⟩)
  | .error ⟨.truncated, _, t⟩ =>
    asFallback t (tcp q qwire timeout o.ignoreTrailing body sevs revs t)
  | .error f => ([], .error f.err)

/-! ## `dns.asyncquery`: the same exchanges over a backend socket that does its own waiting

The backend calls take a *timeout* (`_timeout(expiration)` = time left, floored at 0), computed afresh before every
call; inside one call the backend spends that budget on however many would-block waits it meets. -/

/-- `_timeout(expiration)` -/
def timeoutOf (exp : Option Nat) (now : Nat) : Option Nat := exp.map (· - now)

/-- one would-block wait inside a backend call with `budget` left -/
def waitB (budget : Option Nat) (now dt : Nat) : Except Err (Option Nat × Nat) :=
  match budget with
  | none => .ok (none, now + dt)
  | some b => if b ≤ dt then .error .timeout else .ok (some (b - dt), now + dt)

def starvedB (budget : Option Nat) : Err := if budget.isSome then .timeout else .exhausted

/-- the clock when a backend call gives up: it has waited out its budget -/
def giveUpB (budget : Option Nat) (now : Nat) : Nat :=
  match budget with
  | some b => now + b
  | none => now

/-- `dns.asyncquery._read_exactly(sock, count, expiration)` with the backend's `recv(count, timeout)` inlined:
`budget` is what is left of the timeout of the `recv` call in progress; every new `recv` call gets
`_timeout(expiration)` afresh. -/
def readExactlyA (exp : Option Nat) : List REv → Nat → Option Nat → Nat → Bytes → Except Err (Bytes × List REv × Nat)
  | evs, 0, _, now, acc => .ok (acc, evs, now)
  | [], _ + 1, budget, _, _ => .error (starvedB budget)
  | .eof :: _, _ + 1, _, _, _ => .error .eof
  | .block dt :: rest, c + 1, budget, now, acc =>
    match waitB budget now dt with
    | .error e => .error e
    | .ok (b', now') => readExactlyA exp rest (c + 1) b' now' acc
  | .data d :: rest, c + 1, _, now, acc =>
    if d.isEmpty then .error .eof
    else if d.length ≤ c + 1 then readExactlyA exp rest (c + 1 - d.length) (timeoutOf exp now) now (acc ++ d)
    else .ok (acc ++ d.take (c + 1), .data (d.drop (c + 1)) :: rest, now)

def readExactly (evs : List REv) (count : Nat) (exp : Option Nat) (now : Nat) : Except Err (Bytes × List REv × Nat) :=
  readExactlyA exp evs count (timeoutOf exp now) now []

/-- framing half of `dns.asyncquery.receive_tcp` -/
def receiveFrameA (evs : List REv) (exp : Option Nat) (now : Nat) : Except Err (Bytes × List REv × Nat) :=
  match readExactly evs ConstsC18.lenPrefix exp now with
  | .error e => .error e
  | .ok (ld, evs1, now1) => readExactly evs1 (beVal ld) exp now1

/-- `dns.asyncquery.receive_tcp(…, ignore_trailing, ignore_errors)`: `continue_on_error=ignore_errors` -/
def receiveTcpA (body : Bytes → Body) (ignoreTrailing ignoreErrors : Bool) (evs : List REv) (exp : Option Nat) (now : Nat) :
    Except Err TRet :=
  match receiveFrameA evs exp now with
  | .error e => .error e
  | .ok (frame, rest, now1) =>
    match parseFrame body ignoreTrailing ignoreErrors frame with
    | .error e => .error e
    | .ok m => .ok ⟨m, frame, now1, rest⟩

/-- backend `sendall(data, timeout)` / `sendto(data, dest, timeout)`: waits (`blocks`) within the budget, then
everything is accepted at once (contract of the backend, not dnspython code) -/
def sendB : List Nat → Option Nat → Nat → Except (Err × Nat) Nat
  | [], _, now => .ok now
  | dt :: rest, budget, now =>
    match waitB budget now dt with
    | .error e => .error (e, giveUpB budget now)
    | .ok (b', now') => sendB rest b' now'

/-- `dns.asyncquery.send_tcp` -/
def sendTcpA (wire : Bytes) (blocks : List Nat) (exp : Option Nat) (now : Nat) : Bytes × Except Err Nat :=
  match sendB blocks (timeoutOf exp now) now with
  | .error (e, _) => ([], .error e)
  | .ok now1 => (be16 wire.length ++ wire, .ok now1)

/-- `dns.asyncquery.tcp(q, where, timeout, …, sock=…)` -/
def tcpA (q : Msg) (qwire : Bytes) (timeout : Option Nat) (ignoreTrailing : Bool) (body : Bytes → Body)
    (blocks : List Nat) (revs : List REv) (now : Nat) : Bytes × Except Err TRet :=
  let exp := expiration timeout now
  match sendTcpA qwire blocks exp now with
  | (sent, .error e) => (sent, .error e)
  | (sent, .ok now1) =>
    match receiveTcpA body ignoreTrailing false revs exp now1 with
    | .error e => (sent, .error e)
    | .ok r => if !isResponse q r.msg then (sent, .error .badResponse) else (sent, .ok r)

/-- `dns.asyncquery.receive_udp` with the backend's `recvfrom(size, timeout)` inlined (`budget` = what is left
of the timeout of the `recvfrom` call in progress). -/
def receiveUdpA (coe : Bool) (af : Nat) (dest : Option Addr) (exp : Option Nat) (o : UOpts) (query : Option Msg) :
    List UEv → Option Nat → Nat → Nat → Except Fail URet
  | [], budget, now, idx => .error ⟨starvedB budget, idx, giveUpB budget now⟩
  | .block dt :: rest, budget, now, idx =>
    match waitB budget now dt with
    | .error e => .error ⟨e, idx, giveUpB budget now⟩
    | .ok (b', now') => receiveUdpA coe af dest exp o query rest b' now' idx
  | .dgram src w :: rest, _, now, idx =>
    match judge coe af dest o query src w with
    | .raise e => .error ⟨e, idx + 1, now⟩
    | .skip => receiveUdpA coe af dest exp o query rest (timeoutOf exp now) now (idx + 1)
    | .accept r => .ok ⟨idx, r, src, now⟩

/-- `dns.asyncquery.udp(q, where, timeout, …, sock=…)` -/
def udpA (coe : Bool) (q : Msg) (af : Nat) (dest : Addr) (timeout : Option Nat) (o : UOpts)
    (sendBlocks : List Nat) (script : List UEv) (now : Nat) : Except Fail URet :=
  let exp := expiration timeout now
  match sendB sendBlocks (timeoutOf exp now) now with
  | .error (e, t) => .error ⟨e, 0, t⟩
  | .ok now1 =>
    match receiveUdpA coe af (some dest) exp o (some q) script (timeoutOf exp now1) now1 0 with
    | .error f => .error f
    | .ok r =>
      if !(o.ignoreErrors || isResponse q r.msg) then .error ⟨.badResponse, r.idx + 1, r.recvTime⟩
      else .ok r

/-- `dns.asyncquery.udp_with_fallback` -/
def udpWithFallbackA (q : Msg) (qwire : Bytes) (af : Nat) (dest : Addr) (timeout : Option Nat) (o : UOpts)
    (sendBlocks : List Nat) (script : List UEv) (body : Bytes → Body) (tcpBlocks : List Nat) (revs : List REv) (now : Nat) :
    Bytes × Except Err FRet :=
  match udpA false q af dest timeout { o with raiseOnTruncation := true } sendBlocks script now with
  | .ok r => ([], .ok ⟨r.msg, false, r.recvTime - now⟩)
  | .error ⟨.truncated, _, t⟩ =>
    asFallback t (tcpA q qwire timeout o.ignoreTrailing body tcpBlocks revs t)
  | .error f => ([], .error f.err)

end Model.Net

import Model.Parse
/-!
# Model of `dns.wirebase.Parser` (dns/wirebase.py) — the bounds discipline every wire parser is built on

State: `current`, `end`, `furthest` (the wire itself is a parameter).  Operations: `get_bytes`,
`get_counted_bytes`, `get_remaining`, `seek`, `get_name` (dns/wire.py, through `restore_furthest`), and the
two context managers `restrict_to` / `restore_furthest`, whose `finally` clauses run on exceptions too.
A caller that catches `FormError` and goes on (continue_on_error in dns/message.py) is `try_`.

Python facts modelled, not verified: slicing `wire[a:a+n]` with `a+n ≤ len(wire)` returns exactly those
octets; `int.from_bytes(b, "big")` is the radix-256 value; `assert size >= 0` raises AssertionError
(the checks run without `-O`); `contextlib.contextmanager` runs the generator's `finally` on exit by
exception.
-/
namespace Model.WP
open Model

inductive Outcome where
  | ok | formError | assertion
  deriving DecidableEq, Repr

structure P where
  cur : Nat
  endp : Nat
  fur : Nat
  deriving DecidableEq, Repr

/-- `Parser.remaining()`; negative when `current` has been moved past a restricted `end`. -/
def remaining (p : P) : Int := (p.endp : Int) - (p.cur : Int)

/-- what a call handed back to the caller -/
inductive Out where
  | bytes (off size : Nat)     -- `wire[off : off+size]`
  | name (n : Name)
  deriving DecidableEq, Repr

inductive Prim where
  | getBytes (n : Nat)
  | getCounted (lsz : Nat)
  | getRemaining
  | seek (w : Int)
  | seekFwd (d : Nat)          -- `seek(current + d)`, the only kind of seek the library does outside get_name
  | getName
  deriving DecidableEq, Repr

/-- `get_bytes(size)` -/
def getBytes (p : P) (n : Nat) : P × Outcome × List Out :=
  if (n : Int) > remaining p then (p, .formError, [])
  else ({ p with cur := p.cur + n, fur := max p.fur (p.cur + n) }, .ok, [.bytes p.cur n])

def step (w : Bytes) (p : P) : Prim → P × Outcome × List Out
  | .getBytes n => getBytes p n
  | .getCounted lsz =>
    match getBytes p lsz with
    | (p1, .ok, _) => getBytes p1 (be ((w.drop p.cur).take lsz))
    | r => r
  | .getRemaining =>
    if remaining p < 0 then (p, .assertion, []) else getBytes p (remaining p).toNat
  | .seek wh =>
    if wh < 0 ∨ wh > (p.endp : Int) then (p, .formError, []) else ({ p with cur := wh.toNat }, .ok, [])
  | .seekFwd d =>
    if p.cur + d > p.endp then (p, .formError, []) else ({ p with cur := p.cur + d }, .ok, [])
  | .getName =>
    match pGetName w p.endp p.cur p.fur with
    | .ok (n, f) => ({ p with cur := f, fur := f }, .ok, [.name n])
    | .error (_, f) => ({ p with cur := f, fur := f }, .formError, [])

/-- a parsing routine: straight-line calls, nested `with` blocks and `try … except FormError: pass` -/
inductive Prog where
  | done
  | prim (op : Prim) (k : Prog)
  | restrict (n : Nat) (body k : Prog)
  | restoreFurthest (body k : Prog)
  | try_ (body k : Prog)
  deriving Repr

structure Res where
  p : P
  o : Outcome
  outs : List Out
  deriving Repr

def exec (w : Bytes) : P → Prog → Res
  | p, .done => ⟨p, .ok, []⟩
  | p, .prim op k =>
    match step w p op with
    | (p', .ok, outs) =>
      let r := exec w p' k
      ⟨r.p, r.o, outs ++ r.outs⟩
    | (p', o, outs) => ⟨p', o, outs⟩
  | p, .restrict n body k =>
    if (n : Int) > remaining p then ⟨p, .formError, []⟩
    else
      let rb := exec w { p with endp := p.cur + n } body
      -- `finally: self.end = saved_end`
      let p1 : P := { rb.p with endp := p.endp }
      match rb.o with
      | .ok =>
        if rb.p.cur ≠ rb.p.endp then ⟨p1, .formError, rb.outs⟩
        else
          let r := exec w p1 k
          ⟨r.p, r.o, rb.outs ++ r.outs⟩
      | o => ⟨p1, o, rb.outs⟩
  | p, .restoreFurthest body k =>
    let rb := exec w p body
    -- `finally: self.current = self.furthest`
    let p1 : P := { rb.p with cur := rb.p.fur }
    match rb.o with
    | .ok =>
      let r := exec w p1 k
      ⟨r.p, r.o, rb.outs ++ r.outs⟩
    | o => ⟨p1, o, rb.outs⟩
  | p, .try_ body k =>
    let rb := exec w p body
    match rb.o with
    | .assertion => rb
    | _ =>
      let r := exec w rb.p k
      ⟨r.p, r.o, rb.outs ++ r.outs⟩

/-- `Parser(wire, current)`; the constructor seeks, so `current > len(wire)` raises FormError -/
def mk (w : Bytes) (current : Nat) : Option P :=
  if current > w.length then none else some ⟨current, w.length, current⟩

/-- the fragment of the API the library itself uses outside `get_name`: no raw `seek`, no
`restore_furthest` (both occur only inside `dns.name.from_wire_parser`, which is the `getName` primitive) -/
def Lib : Prog → Prop
  | .done => True
  | .prim (.seek _) _ => False
  | .prim _ k => Lib k
  | .restrict _ body k => Lib body ∧ Lib k
  | .restoreFurthest _ _ => False
  | .try_ body k => Lib body ∧ Lib k

end Model.WP

import Model.ZoneTxn
/-!
Copy-on-write made explicit (C10, "rolled back … leaves the zone exactly as it was"): `dns/zone.py`
`WritableVersion.__init__ / _maybe_cow_with_name / put_rdataset / delete_rdataset / delete_node` over a store of
*mutable node objects shared with the published zone*.

A node object is a cell of the store (its `rdatasets` list); a node map (`Zone.nodes`, `version.nodes`) maps owner keys
to object ids.  `WritableVersion.__init__` copies the *dict* (`self.nodes.update(zone.nodes)`), so the version starts
with the very same node objects as the zone.  `_maybe_cow_with_name` makes a private copy of a node the first time
the version touches its name (`name not in self.changed`); every later `Node.replace_rdataset / delete_rdataset`
mutates that object in place.  Keys are validated names (`validateName` is applied by the caller).
-/
namespace Model.ZT
open Model

/-- the object store: node objects by id; ids below `next` are allocated -/
structure Heap where
  cell : Nat → Node
  next : Nat

def Heap.set (h : Heap) (i : Nat) (nd : Node) : Heap := { h with cell := fun j => if j = i then nd else h.cell j }
/-- `node_factory()` followed by `new_node.rdatasets.extend(...)` -/
def Heap.alloc (h : Heap) (nd : Node) : Heap × Nat :=
  ({ cell := fun j => if j = h.next then nd else h.cell j, next := h.next + 1 }, h.next)

abbrev PMap := List (Name × Nat)

def pget : PMap → Name → Option Nat
  | [], _ => none
  | (k', i) :: rest, k => if k' = k then some i else pget rest k
def perase (m : PMap) (k : Name) : PMap := m.filter (fun e => decide (e.1 ≠ k))
def pset (m : PMap) (k : Name) (i : Nat) : PMap := (k, i) :: perase m k

structure CVer where
  heap : Heap
  zone : PMap            -- `Zone.nodes` : never written by the version
  nodes : PMap           -- `version.nodes`
  changed : List Name

/-- `WritableVersion(zone)` : the dict is copied, the node objects are shared -/
def cBegin (heap : Heap) (zone : PMap) : CVer := { heap := heap, zone := zone, nodes := zone, changed := [] }

/-- `_maybe_cow_with_name` : the id of the node object the version may now mutate -/
def cCow (v : CVer) (key : Name) : CVer × Nat :=
  match pget v.nodes key with
  | some i =>
    if key ∈ v.changed then (v, i)
    else ({ v with heap := (v.heap.alloc (v.heap.cell i)).1, nodes := pset v.nodes key v.heap.next,
                   changed := key :: v.changed }, v.heap.next)
  | none =>
    ({ v with heap := (v.heap.alloc []).1, nodes := pset v.nodes key v.heap.next, changed := key :: v.changed },
     v.heap.next)

/-- `put_rdataset` : `node.replace_rdataset(rdataset)` on the (possibly copied) object, in place -/
def cPut (v : CVer) (key : Name) (r : Rdataset) : CVer :=
  let (v1, i) := cCow v key
  { v1 with heap := v1.heap.set i ((v1.heap.cell i).replace r) }

/-- `delete_rdataset` -/
def cDelRds (cls : Nat) (v : CVer) (key : Name) (t c : Nat) : CVer :=
  let (v1, i) := cCow v key
  let nd := (v1.heap.cell i).delete cls t c
  let v2 := { v1 with heap := v1.heap.set i nd }
  if nd.length = 0 then { v2 with nodes := perase v2.nodes key } else v2

/-- `delete_node` -/
def cDelNode (v : CVer) (key : Name) : CVer :=
  if (pget v.nodes key).isSome then { v with nodes := perase v.nodes key, changed := key :: v.changed } else v

inductive COp where
  | put (key : Name) (r : Rdataset)
  | delRds (key : Name) (t c : Nat)
  | delNode (key : Name)

def cStep (cls : Nat) (v : CVer) : COp → CVer
  | .put k r => cPut v k r
  | .delRds k t c => cDelRds cls v k t c
  | .delNode k => cDelNode v k

/-- the same operation on a persistent node map (what `Model/ZoneTxn.lean` does after `validateName`) -/
def pStep (cls : Nat) (m : Nodes) : COp → Nodes
  | .put k r => nodesSet m k (((nodesGet m k).getD []).replace r)
  | .delRds k t c =>
    let nd := ((nodesGet m k).getD []).delete cls t c
    if nd.length = 0 then nodesErase (nodesSet m k nd) k else nodesSet m k nd
  | .delNode k => if (nodesGet m k).isSome then nodesErase m k else m

/-- what a reader of the published zone sees at `k` -/
def zview (v : CVer) (k : Name) : Option Node := (pget v.zone k).map v.heap.cell
/-- what the transaction sees at `k` -/
def vview (v : CVer) (k : Name) : Option Node := (pget v.nodes k).map v.heap.cell

end Model.ZT

import Model.RdataSchema
import Generated.C02
/-!
Constructor-side predicates and the object-level post/pre maps of the record types whose codec is not a plain
field sequence (C02): type bitmaps, DS/ZONEMD digest lengths, CAA tags, GPOS float strings, LOC, APL,
EDNS options inside OPT, SVCB/HTTPS parameters.
-/
namespace Model
open Schema

abbrev u8 : Schema := .uint 1
abbrev u16 : Schema := .uint 2
abbrev u32 : Schema := .uint 4
abbrev u48 : Schema := .uint 6
abbrev c8 : Schema := .counted 1
abbrev c16 : Schema := .counted 2
/-- a name relativized against the origin on decoding (`parser.get_name(origin)`) -/
abbrev nm : Schema := .name true
/-- `parser.get_name()` -/
abbrev nmAbs : Schema := .name false

/-- `_as_ttl` of an integer: `_as_int(value, 0, dns.ttl.MAX_TTL)` -/
def ttl32 : Schema := .check (fun v => decide (v.toNat ≤ Consts.maxTTL)) u32

/-! ## small predicates -/

def lookupNat (t : List (Nat × Nat)) (k : Nat) : Option Nat :=
  match t.find? (fun p => p.1 == k) with
  | some p => some p.2
  | none => none

/-- `bytes.isalnum()`: non-empty and every octet an ASCII letter or digit -/
def isAlnum (b : Bytes) : Bool :=
  !b.isEmpty && b.all fun c => (48 ≤ c && c ≤ 57) || (65 ≤ c && c ≤ 90) || (97 ≤ c && c ≤ 122)

def isDigits (b : Bytes) : Bool := !b.isEmpty && b.all fun c => 48 ≤ c && c ≤ 57

/-- `dns.rdtypes.util.Bitmap.__init__` on what `Bitmap.from_wire_parser` collected:
windows strictly increasing, 1..32 octets each -/
def windowsOkFrom : Nat → List Val → Bool
  | _, [] => true
  | lo, w :: ws =>
    decide (lo ≤ w.fst.toNat) && decide (1 ≤ w.snd.toBytes.length) &&
      decide (w.snd.toBytes.length ≤ ConstsC02.bitmapMaxLen) && windowsOkFrom (w.fst.toNat + 1) ws

def bitmap : Schema := .check (fun v => windowsOkFrom 0 v.toList) (.rep (.pair u8 c8))

/-- `DSBase.__init__`: digest length by digest type; type 0 reserved unless the table gives it a length -/
def dsOk (tbl : List (Nat × Nat)) (v : Val) : Bool :=
  let dt := v.snd.snd.fst.toNat
  let len := v.snd.snd.snd.toBytes.length
  match lookupNat tbl dt with
  | some l => decide (len = l)
  | none => decide (dt ≠ 0)

def dsSchema (tbl : List (Nat × Nat)) : Schema := .check (dsOk tbl) (seq [u16, u8, u8, .rest])

def zonemdOk (v : Val) : Bool :=
  let scheme := v.snd.fst.toNat
  let h := v.snd.snd.fst.toNat
  let len := v.snd.snd.snd.toBytes.length
  decide (scheme ≠ 0) && decide (h ≠ 0) &&
    match lookupNat ConstsC02.zonemdDigestLen h with
    | some l => decide (len = l)
    | none => true

/-! ## UTF-8 (Python's strict `bytes.decode("utf8")`, Unicode table 3-7) -/

def isCont (c : Nat) : Bool := 0x80 ≤ c && c ≤ 0xBF

def utf8Ok : Bytes → Bool
  | [] => true
  | a :: tl =>
    if a ≤ 0x7F then utf8Ok tl
    else if 0xC2 ≤ a && a ≤ 0xDF then
      match tl with
      | b :: r => isCont b && utf8Ok r
      | _ => false
    else if 0xE0 ≤ a && a ≤ 0xEF then
      match tl with
      | b :: c :: r =>
        (if a = 0xE0 then 0xA0 ≤ b && b ≤ 0xBF else if a = 0xED then 0x80 ≤ b && b ≤ 0x9F else isCont b)
          && isCont c && utf8Ok r
      | _ => false
    else if 0xF0 ≤ a && a ≤ 0xF4 then
      match tl with
      | b :: c :: d :: r =>
        (if a = 0xF0 then 0x90 ≤ b && b ≤ 0xBF else if a = 0xF4 then 0x80 ≤ b && b ≤ 0x8F else isCont b)
          && isCont c && isCont d && utf8Ok r
      | _ => false
    else false

/-! ## GPOS (`_validate_float_string`, `float()` range tests) -/

def decNat (b : Bytes) : Nat := b.foldl (fun acc c => acc * 10 + (c - 48)) 0

def splitDot (b : Bytes) : List Bytes := b.splitOn 46

/-- unsigned part after the optional sign: all digits, or `left.right` with at most one side empty -/
def floatBody (b : Bytes) : Option (Bytes × Bytes) :=
  if isDigits b then some (b, [])
  else
    match splitDot b with
    | [l, r] =>
      if l.isEmpty && r.isEmpty then none
      else if !l.isEmpty && !isDigits l then none
      else if !r.isEmpty && !isDigits r then none
      else some (l, r)
    | _ => none

def stripSign (b : Bytes) : Bytes :=
  match b with
  | 45 :: t => t
  | 43 :: t => t
  | _ => b

def floatStr (b : Bytes) : Option (Bytes × Bytes) :=
  if b.isEmpty then none else floatBody (stripSign b)

/-- `abs(float(s)) <= bound` for a decimal string `l.r`, where `bound` is a double with an even mantissa whose
half-ulp is `2^-k`: correctly rounded conversion maps exactly the reals `≤ bound + 2^-k` to values `≤ bound`. -/
def floatAbsLe (l r : Bytes) (bound k : Nat) : Bool :=
  let f := r.length
  decide ((decNat l * 10 ^ f + decNat r) * 2 ^ k ≤ (bound * 2 ^ k + 1) * 10 ^ f)

def gposOk (v : Val) : Bool :=
  match floatStr v.fst.toBytes, floatStr v.snd.fst.toBytes, floatStr v.snd.snd.toBytes with
  | some (la, lb), some (oa, ob), some _ => floatAbsLe la lb 90 47 && floatAbsLe oa ob 180 46
  | _, _, _ => false

/-! ## LOC -/

def locSizeOk (b : Nat) : Bool := decide (b % 16 ≤ 9) && decide (b / 16 ≤ 9)

def locRawOk (v : Val) : Bool :=
  let ver := v.fst.toNat
  let size := v.snd.fst.toNat
  let hp := v.snd.snd.fst.toNat
  let vp := v.snd.snd.snd.fst.toNat
  let lat := v.snd.snd.snd.snd.fst.toNat
  let lon := v.snd.snd.snd.snd.snd.fst.toNat
  decide (ver = 0) && decide (ConstsC02.locMinLat ≤ lat) && decide (lat ≤ ConstsC02.locMaxLat) &&
    decide (ConstsC02.locMinLon ≤ lon) && decide (lon ≤ ConstsC02.locMaxLon) &&
    locSizeOk size && locSizeOk hp && locSizeOk vp

def locSchema : Schema := .check locRawOk (seq [u8, u8, u8, u8, u32, u32, u32])

def locDecodeSize (b : Nat) : Nat := (b / 16) * 10 ^ (b % 16)

/-- `(degrees, minutes, seconds, milliseconds, sign)` with sign 1 = N/E (also for 0), 0 = S/W -/
def locCoord (w : Nat) : Val :=
  let pos := decide (w ≥ 2147483648)
  let mag := if pos then w - 2147483648 else 2147483648 - w
  seqV [.nat (mag / 3600000), .nat (mag % 3600000 / 60000), .nat (mag % 60000 / 1000), .nat (mag % 1000),
        .nat (if pos then 1 else 0)]
where seqV : List Val → Val
  | [] => .unit
  | [x] => x
  | x :: more => .pair x (seqV more)

def seqV := @locCoord.seqV

/-- object level: `(size, hprec, vprec, latitude, longitude, altitude + 10000000)`; sizes in centimetres -/
def locPost (v : Val) : Option Val :=
  let size := v.snd.fst.toNat
  let hp := v.snd.snd.fst.toNat
  let vp := v.snd.snd.snd.fst.toNat
  let lat := v.snd.snd.snd.snd.fst.toNat
  let lon := v.snd.snd.snd.snd.snd.fst.toNat
  let alt := v.snd.snd.snd.snd.snd.snd
  some (seqV [.nat (locDecodeSize size), .nat (locDecodeSize hp), .nat (locDecodeSize vp), locCoord lat, locCoord lon, alt])

/-- `_exponent_of` / `_encode_size` (for `0 ≤ what < 10^10`) -/
def locExponent (what : Nat) : Nat :=
  if what = 0 then 0
  else ((List.range 11).find? (fun i => decide (what < 10 ^ i))).getD 0 - 1

def locEncodeSize (what : Nat) : Nat :=
  let e := locExponent what % 16
  (what / 10 ^ e % 16) * 16 + e

def locCoordWire (c : Val) : Nat :=
  let d := c.fst.toNat
  let m := c.snd.fst.toNat
  let s := c.snd.snd.fst.toNat
  let ms := c.snd.snd.snd.fst.toNat
  let pos := c.snd.snd.snd.snd.toNat
  let mag := d * 3600000 + m * 60000 + s * 1000 + ms
  if pos = 1 then 2147483648 + mag else 2147483648 - mag

def locPre (v : Val) : Val :=
  seqV [.nat 0, .nat (locEncodeSize v.fst.toNat), .nat (locEncodeSize v.snd.fst.toNat),
        .nat (locEncodeSize v.snd.snd.fst.toNat), .nat (locCoordWire v.snd.snd.snd.fst),
        .nat (locCoordWire v.snd.snd.snd.snd.fst), v.snd.snd.snd.snd.snd]

/-- what the LOC constructor checks of a coordinate tuple (`_check_coordinate_list`, since `99177f3` including
"no minutes/seconds/milliseconds at the maximal degrees") -/
def locCoordCtorOk (c : Val) (maxDeg : Nat) : Bool :=
  decide (c.fst.toNat ≤ maxDeg) && decide (c.snd.fst.toNat ≤ 59) && decide (c.snd.snd.fst.toNat ≤ 59) &&
    decide (c.snd.snd.snd.fst.toNat ≤ 999) && decide (c.snd.snd.snd.snd.toNat ≤ 1) &&
    (decide (c.fst.toNat ≠ maxDeg) ||
      (decide (c.snd.fst.toNat = 0) && decide (c.snd.snd.fst.toNat = 0) && decide (c.snd.snd.snd.fst.toNat = 0)))

/-! ## APL -/

def padTo (n : Nat) (b : Bytes) : Bytes := b ++ List.replicate (n - b.length) 0

/-- `APLItem.to_wire`: the address without its trailing zero octets -/
def stripTrailingZeros : Bytes → Bytes
  | [] => []
  | x :: xs =>
    match stripTrailingZeros xs with
    | [] => if x = 0 then [] else [x]
    | y :: ys => x :: y :: ys

def aplItemSchema : Schema :=
  .bind (seq [u16, u8, u8]) (fun h => h.snd.snd.toNat % 128) 128 (fun i => .fixed i)

/-- raw item `((family, prefix, nlen), afdpart)` → object `(family, prefix, negation, address)` as `APLItem.__init__`
stores it (addresses of family 1/2 padded to 4/16 octets; other families keep the octets, at most 63 of them
because the constructor bounds the *hex text* by 127). -/
def aplItemPost (it : Val) : Option Val :=
  let fam := it.fst.fst.toNat
  let prefixLen := it.fst.snd.fst.toNat
  let nl := it.fst.snd.snd.toNat
  let afd := it.snd.toBytes
  let neg := nl / 128
  if fam = 1 then
    if afd.length ≤ 4 ∧ prefixLen ≤ 32 then some (seqV [.nat fam, .nat prefixLen, .nat neg, .bytes (padTo 4 afd)]) else none
  else if fam = 2 then
    if afd.length ≤ 16 ∧ prefixLen ≤ 128 then some (seqV [.nat fam, .nat prefixLen, .nat neg, .bytes (padTo 16 afd)]) else none
  else
    if afd.length * 2 ≤ 127 then some (seqV [.nat fam, .nat prefixLen, .nat neg, .bytes afd]) else none

def aplItemPre (it : Val) : Val :=
  let afd := stripTrailingZeros it.snd.snd.snd.toBytes
  .pair (seqV [it.fst, it.snd.fst, .nat (afd.length + 128 * it.snd.snd.fst.toNat)]) (.bytes afd)

def mapOpt (f : Val → Option Val) : List Val → Option (List Val)
  | [] => some []
  | x :: xs =>
    match f x, mapOpt f xs with
    | some y, some ys => some (y :: ys)
    | _, _ => none

def aplPost (v : Val) : Option Val := (mapOpt aplItemPost v.toList).map .list
def aplPre (v : Val) : Val := .list (v.toList.map aplItemPre)

/-! ## EDNS options (inside OPT) -/

def ecsOk (v : Val) : Bool :=
  let fam := v.fst.fst.toNat
  let src := v.fst.snd.fst.toNat
  let scope := v.fst.snd.snd.toNat
  if fam = 1 then decide (src ≤ 32) && decide (scope ≤ 32)
  else if fam = 2 then decide (src ≤ 128) && decide (scope ≤ 128)
  else false

def ecsSchema : Schema :=
  .check ecsOk (.bind (seq [u16, u8, u8]) (fun h => h.snd.fst.toNat) 256 (fun i => .fixed ((i + 7) / 8)))

def cookieOk (v : Val) : Bool :=
  let l := v.toBytes.length
  decide (l = 0) || (decide (8 ≤ l) && decide (l ≤ 32))

def optSel (h : Val) : Nat :=
  let t := h.toNat
  if t = 8 then 0 else if t = 15 then 1 else if t = 3 then 2 else if t = 10 then 3 else if t = 18 then 4
  else if t = 22 ∨ t = 23 ∨ t = 24 ∨ t = 25 then 5 else 6

def optBody : Nat → Schema
  | 0 => ecsSchema
  | 1 => .pair u16 (.check (fun v => utf8Ok v.toBytes) .rest)
  | 2 => .rest
  | 3 => .pair (.fixed 8) (.check cookieOk .rest)
  | 4 => nmAbs
  | 5 => .check (fun v => utf8Ok v.toBytes) .rest
  | _ => .rest

def optSchema : Schema := .rep (.bind u16 optSel 7 (fun i => .sub 2 (optBody i)))

/-- `ECSOption.__init__`: bits beyond the source prefix length are cleared in the last octet -/
def ecsMask (src : Nat) (b : Bytes) : Bytes :=
  if src % 8 = 0 then b
  else
    match b.reverse with
    | [] => []
    | last :: restRev => (restRev.reverse) ++ [last / 2 ^ (8 - src % 8) * 2 ^ (8 - src % 8)]

/-- `EDEOption.from_wire_parser` as shipped before the repair `9fad6cc`: *one* trailing NUL was dropped
(kept as the variant `optShipped` for the recorded counter-example) -/
def stripNul (b : Bytes) : Bytes :=
  match b.reverse with
  | 0 :: restRev => restRev.reverse
  | _ => b

/-- `EDEOption.from_wire_parser`: "text MAY be null-terminated" — every trailing NUL is dropped
(`text.rstrip(b"\x00")`), so a decoded text never ends in NUL -/
def stripNulAll (b : Bytes) : Bytes := stripTrailingZeros b

/-- `shipped = false`: the code of the working tree; `true`: the variant before the repair -/
def optItemPostWith (shipped : Bool) (it : Val) : Val :=
  let t := it.fst.toNat
  if t = 8 then .pair it.fst (.pair it.snd.fst (.bytes (ecsMask it.snd.fst.snd.fst.toNat it.snd.snd.toBytes)))
  else if t = 15 then
    .pair it.fst (.pair it.snd.fst (.bytes ((if shipped then stripNul else stripNulAll) it.snd.snd.toBytes)))
  else it

def optItemPost (it : Val) : Val := optItemPostWith false it

def optPost (v : Val) : Option Val := some (.list (v.toList.map optItemPost))

def optPostShipped (v : Val) : Option Val := some (.list (v.toList.map (optItemPostWith true)))

/-! ## SVCB / HTTPS parameters -/

def strictlyIncFrom : Nat → List Val → Bool
  | _, [] => true
  | lo, k :: ks => decide (lo ≤ k.toNat) && strictlyIncFrom (k.toNat + 1) ks

/-- `MandatoryParam`: ascending on the wire, then sorted / no duplicate / key 0 not listed in the constructor -/
def mandatoryOk (v : Val) : Bool := strictlyIncFrom 1 v.toList

def nonEmptyBytes (v : Val) : Bool := !v.toBytes.isEmpty

def svcbSel (h : Val) : Nat :=
  let k := h.toNat
  if k = 0 then 0 else if k = 1 ∨ k = 10 then 1 else if k = 2 ∨ k = 8 then 2 else if k = 3 then 3
  else if k = 4 then 4 else if k = 5 then 5 else if k = 6 then 6 else 7

def svcbBody : Nat → Schema
  | 0 => .check mandatoryOk (.rep u16)
  | 1 => .rep (.check nonEmptyBytes c8)
  | 2 => .unit
  | 3 => u16
  | 4 => .rep (.fixed 4)
  | 5 => .rest
  | 6 => .rep (.fixed 16)
  | _ => .rest

def svcbSchema : Schema :=
  seq [u16, nm, .rep (.bind u16 svcbSel 8 (fun i => .sub 2 (svcbBody i)))]

def nonDecFrom : Nat → List Val → Bool
  | _, [] => true
  | lo, p :: ps => decide (lo ≤ p.fst.toNat) && nonDecFrom p.fst.toNat ps

/-- `params[pkey] = value` for ascending keys: a repeated key keeps the last value -/
def dedupLast : List Val → List Val
  | [] => []
  | [p] => [p]
  | p :: q :: ps => if p.fst.toNat = q.fst.toNat then dedupLast (q :: ps) else p :: dedupLast (q :: ps)

def hasKey (ps : List Val) (k : Nat) : Bool := ps.any fun p => p.fst.toNat == k

/-- `SVCBBase.__init__`: every key listed as mandatory is present; no-default-alpn (2) needs alpn (1) -/
def svcbParamsOk (ps : List Val) : Bool :=
  (match ps.find? (fun p => p.fst.toNat == 0) with
    | some p => p.snd.toList.all fun k => hasKey ps k.toNat
    | none => true) && !(hasKey ps 2 && !hasKey ps 1)

/-- the parameter dictionary built by `SVCBBase.from_wire_parser` from the parameters as they came:
AliasMode (priority 0) has none, keys must not descend, a repeated key keeps the last value -/
def svcbPostCore (prio : Nat) (raw : List Val) : Option (List Val) :=
  if prio = 0 ∧ !raw.isEmpty then none
  else if !nonDecFrom 0 raw then none
  else if svcbParamsOk (dedupLast raw) then some (dedupLast raw) else none

def svcbPost (v : Val) : Option Val :=
  (svcbPostCore v.fst.toNat v.snd.snd.toList).map fun ps => .pair v.fst (.pair v.snd.fst (.list ps))

end Model

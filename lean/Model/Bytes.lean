/-! Basic byte utilities shared by all models.  Import-free. -/
namespace Model

abbrev Octet := Nat          -- invariant where it matters: < 256 (stated as hypotheses)
abbrev Bytes := List Nat

def hexDigit (n : Nat) : Char :=
  if n < 10 then Char.ofNat (48 + n) else Char.ofNat (87 + n)

def toHex (b : Bytes) : String :=
  String.ofList (b.flatMap fun x => [hexDigit (x / 16 % 16), hexDigit (x % 16)])

def hexVal (c : Char) : Option Nat :=
  let n := c.toNat
  if 48 ≤ n ∧ n ≤ 57 then some (n - 48)
  else if 97 ≤ n ∧ n ≤ 102 then some (n - 87)
  else if 65 ≤ n ∧ n ≤ 70 then some (n - 55)
  else none

def ofHexChars : List Char → Option Bytes
  | [] => some []
  | [_] => none
  | a :: b :: rest =>
    match hexVal a, hexVal b, ofHexChars rest with
    | some x, some y, some r => some ((16 * x + y) :: r)
    | _, _, _ => none

/-- "-" denotes the empty byte string on the wire protocol. -/
def ofHex (s : String) : Option Bytes :=
  if s = "-" then some [] else ofHexChars s.toList

def toHexP (b : Bytes) : String := if b.isEmpty then "-" else toHex b

end Model

import Driver.Util
import Model.Parse
/-! driver ops of C04 (prefix `c04.`) -/
namespace Driver
open Model

def showReadResult : ReadResult → String
  | .unsupported => "unsupported"
  | .exc e => "exc " ++ e
  | .message counts errs =>
    "msg counts=" ++ ",".intercalate (counts.map toString) ++ " errs=" ++
      (if errs.isEmpty then "-" else ";".intercalate (errs.map fun (e, o) => e ++ "@" ++ toString o))

def handleC04 : List String → Option String
  | ["c04.ttl", t] => do
    let t ← ofHex t
    some (match ttlFromText t with
      | .ok v => "ok " ++ toString v
      | .error e => "err " ++ e)
  | ["c04.read", w, c, it, qo] => do
    let w ← ofHex w
    let c ← parseBool c; let it ← parseBool it; let qo ← parseBool qo
    some (showReadResult (readMsg w { cont := c, ignoreTrailing := it, questionOnly := qo }))
  | _ => none

end Driver

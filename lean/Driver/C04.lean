import Driver.Util
import Model.Parse
import Model.WireParser
/-! driver ops of C04 (prefix `c04.`) -/
namespace Driver
open Model

def showReadResult : ReadResult → String
  | .unsupported => "unsupported"
  | .exc e => "exc " ++ e
  | .message counts errs =>
    "msg counts=" ++ ",".intercalate (counts.map toString) ++ " errs=" ++
      (if errs.isEmpty then "-" else ";".intercalate (errs.map fun (e, o) => e ++ "@" ++ toString o))

/-- program syntax (prefix, space separated): `gb n`, `gc lsz`, `gr`, `sk w`, `sf d`, `gn`,
`rs n ( body )`, `rf ( body )`, `tr ( body )`; a block ends at `)` or at the end of the line -/
partial def parseProg : List String → Option (WP.Prog × List String)
  | [] => some (.done, [])
  | ")" :: rest => some (.done, ")" :: rest)
  | "gb" :: n :: rest => do let n ← n.toNat?; let (k, r) ← parseProg rest; some (.prim (.getBytes n) k, r)
  | "gc" :: n :: rest => do let n ← n.toNat?; let (k, r) ← parseProg rest; some (.prim (.getCounted n) k, r)
  | "gr" :: rest => do let (k, r) ← parseProg rest; some (.prim .getRemaining k, r)
  | "sk" :: n :: rest => do let n ← n.toInt?; let (k, r) ← parseProg rest; some (.prim (.seek n) k, r)
  | "sf" :: n :: rest => do let n ← n.toNat?; let (k, r) ← parseProg rest; some (.prim (.seekFwd n) k, r)
  | "gn" :: rest => do let (k, r) ← parseProg rest; some (.prim .getName k, r)
  | "rs" :: n :: "(" :: rest => do
    let n ← n.toNat?
    let (b, r) ← parseProg rest
    match r with
    | ")" :: r' => do let (k, r'') ← parseProg r'; some (.restrict n b k, r'')
    | _ => none
  | "rf" :: "(" :: rest => do
    let (b, r) ← parseProg rest
    match r with
    | ")" :: r' => do let (k, r'') ← parseProg r'; some (.restoreFurthest b k, r'')
    | _ => none
  | "tr" :: "(" :: rest => do
    let (b, r) ← parseProg rest
    match r with
    | ")" :: r' => do let (k, r'') ← parseProg r'; some (.try_ b k, r'')
    | _ => none
  | _ => none

def showOut (w : Bytes) : WP.Out → String
  | .bytes a n => "b" ++ toHexP ((w.drop a).take n)
  | .name n => "n" ++ showName n

def showOutcome : WP.Outcome → String
  | .ok => "ok" | .formError => "FormError" | .assertion => "AssertionError"

def parseKind : String → Option (Option ExcKind)
  | "none" => some none | "F" => some (some .form) | "S" => some (some .syntax) | "O" => some (some .other) | _ => none

def showKind : Option ExcKind → String
  | none => "none" | some .form => "F" | some .syntax => "S" | some .other => "O"

def handleC04 : List String → Option String
  | ["c04.wrap", f, r] => do
    let f ← (if f = "F" then some Family.form else if f = "S" then some Family.syntax else none)
    let r ← parseKind r
    some (showKind (wrapExit f r))
  | "c04.parser" :: w :: cur :: prog => do
    let w ← ofHex w
    let cur ← cur.toNat?
    let (pr, rest) ← parseProg prog
    if !rest.isEmpty then none
    else some (match WP.mk w cur with
      | none => "ctor FormError"
      | some p =>
        let r := WP.exec w p pr
        showOutcome r.o ++ " cur=" ++ toString r.p.cur ++ " end=" ++ toString r.p.endp ++ " fur=" ++ toString r.p.fur
          ++ " outs=" ++ ";".intercalate (r.outs.map (showOut w)))
  | ["c04.ttl", t] => do
    let t ← ofHex t
    some (match ttlFromText t with
      | .ok v => "ok " ++ toString v
      | .error e => "err " ++ e)
  | ["c04.read", w, c, it, qo] => do
    let w ← ofHex w
    let c ← parseBool c; let it ← parseBool it; let qo ← parseBool qo
    some (showReadResult (readMsg w { cont := c, ignoreTrailing := it, questionOnly := qo }))
  | _ => none

end Driver

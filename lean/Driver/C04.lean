import Driver.Util
/-! driver ops of C04 (prefix `c04.`); filled in by the C04 work -/
namespace Driver
open Model

def handleC04 : List String → Option String
  | _ => none

end Driver

import Driver.Util
/-! driver ops of C05 (prefix `c05.`); filled in by the C05 work -/
namespace Driver
open Model

def handleC05 : List String → Option String
  | _ => none

end Driver

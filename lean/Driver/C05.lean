import Driver.Util
import Model.RdataText
/-! driver ops of C05 (prefix `c05.`): text is a comma-separated list of decimal code points (`-` = empty) -/
namespace Driver
open Model

def parseCps (s : String) : Option (List Nat) :=
  if s = "-" then some [] else (splitOnChar s ',').mapM String.toNat?

def showCps (t : List Nat) : String :=
  if t.isEmpty then "-" else ",".intercalate (t.map toString)

def okCps : Option (List Nat) → String
  | some t => "ok " ++ showCps t
  | none => "err"

def okHex : Option Bytes → String
  | some b => "ok " ++ toHexP b
  | none => "err"

def showTok (t : Tok) : String :=
  (match t.kind with | .ident => "i:" | .quoted => "q:") ++ showCps t.val

def showFV : FV → String
  | .n v => "u" ++ toString v
  | .nm n => "n" ++ showName n
  | .b b => "b" ++ toHexP b
  | .bl l => "l" ++ ";".intercalate (l.map toHexP)
  | .wl l => "w" ++ ";".intercalate (l.map fun p => toString p.1 ++ ":" ++ toHexP p.2)
  | .nl l => "m" ++ ";".intercalate (l.map showName)
  | .apl items => "a" ++ ";".intercalate (items.map fun it =>
      toString it.1 ++ ":" ++ (if it.2.1 then "1" else "0") ++ ":" ++ toHexP it.2.2.1 ++ ":" ++ toString it.2.2.2)
  | .wks addr proto bm => "k" ++ toHexP addr ++ ":" ++ toString proto ++ ":" ++ toHexP bm
  | .gw kind addr nm key => "g" ++ toString kind ++ "|" ++ showCps addr ++ "|" ++ showName nm ++ "|" ++ toHexP key

def parseFV (s : String) : Option FV :=
  match s.toList with
  | 'u' :: r => (String.ofList r).toNat?.map .n
  | 'n' :: r => (parseName (String.ofList r)).map .nm
  | 'b' :: r => (ofHex (String.ofList r)).map .b
  | 'l' :: r =>
    if r.isEmpty then some (.bl []) else ((splitOnChar (String.ofList r) ';').mapM ofHex).map .bl
  | 'a' :: r =>
    if r.isEmpty then some (.apl [])
    else ((splitOnChar (String.ofList r) ';').mapM fun item =>
      match splitOnChar item ':' with
      | [f, n, a, p] => do
        let f ← f.toNat?; let n ← parseBool n; let a ← ofHex a; let p ← p.toNat?
        some (f, n, a, p)
      | _ => none).map .apl
  | 'k' :: r =>
    match splitOnChar (String.ofList r) ':' with
    | [a, p, bm] => do
      let a ← ofHex a; let p ← p.toNat?; let bm ← ofHex bm
      some (.wks a p bm)
    | _ => none
  | 'g' :: r =>
    match splitOnChar (String.ofList r) '|' with
    | [k, a, n, key] => do
      let k ← k.toNat?; let a ← parseCps a; let n ← parseName n; let key ← ofHex key
      some (.gw k a n key)
    | _ => none
  | 'm' :: r =>
    if r.isEmpty then some (.nl []) else ((splitOnChar (String.ofList r) ';').mapM parseName).map .nl
  | 'w' :: r =>
    if r.isEmpty then some (.wl [])
    else ((splitOnChar (String.ofList r) ';').mapM fun item =>
      match splitOnChar item ':' with
      | [a, b] => do let w ← a.toNat?; let bm ← ofHex b; some (w, bm)
      | _ => none).map .wl
  | _ => none

def kv (key : String) (s : String) : Option String :=
  if s.startsWith (key ++ "=") then some ((s.drop (key.length + 1)).toString) else none

def parseStyle (o r hc hs bc bs u : String) : Option Style := do
  let o ← kv "o" o >>= parseOptName
  let r ← kv "r" r >>= parseBool
  let hc ← kv "hc" hc >>= String.toNat?
  let hs ← kv "hs" hs >>= parseCps
  let bc ← kv "bc" bc >>= String.toNat?
  let bs ← kv "bs" bs >>= parseCps
  let u ← kv "u" u >>= parseBool
  some { origin := o, relativize := r, hexChunk := hc, hexSep := hs, b64Chunk := bc, b64Sep := bs, txtUtf8 := u }

def splitDump (ts : List String) : Option (List FV × Option FV) :=
  match ts.span (· ≠ "/") with
  | (fs, ["/", "-"]) => (fs.mapM parseFV).map fun v => (v, none)
  | (fs, ["/", t]) => do
    let v ← fs.mapM parseFV
    let t ← parseFV t
    some (v, some t)
  | _ => none

def showDump (vals : List FV) (tail : Option FV) : String :=
  " ".intercalate (vals.map showFV ++ ["/", match tail with | some t => showFV t | none => "-"])

def handleC05 : List String → Option String
  | ["c05.ip4.ntoa", a] => do let a ← ofHex a; some (okCps (ip4Ntoa a))
  | ["c05.ip4.aton", t] => do let t ← parseCps t; some (okHex (ip4Aton t))
  | ["c05.ip6.ntoa", a] => do let a ← ofHex a; some (okCps (ip6Ntoa a))
  | ["c05.ip6.aton", t] => do let t ← parseCps t; some (okHex (ip6Aton t))
  | ["c05.esc", b] => do let b ← ofHex b; some ("ok " ++ showCps (escapifyR b))
  | ["c05.escu", t] => do let t ← parseCps t; some ("ok " ++ showCps (escapifyUWith ConstsC05.unicodeEscaped t))
  | ["c05.utf8dec", b] => do let b ← ofHex b; some (okCps (utf8Decode b))
  | ["c05.txtelem", b] => do
    let b ← ofHex b
    some ("ok " ++ showCps (txtElement true ConstsC05.unicodeEscaped Consts.rdataEscaped b))
  | ["c05.unesc", t] => do let t ← parseCps t; some (okCps (unescapeCP t))
  | ["c05.unescb", t] => do let t ← parseCps t; some (okHex (unescapeBytes t))
  | ["c05.lex", t] => do
    let t ← parseCps t
    some (match lexLine t with
      | some toks => "ok" ++ String.join (toks.map fun k => " " ++ showTok k)
      | none => "err")
  | ["c05.int", base, t] => do
    let base ← base.toNat?
    let t ← parseCps t
    some (match pyInt base t with
      | some (neg, n) => "ok " ++ (if neg ∧ n ≠ 0 then "-" else "") ++ toString n
      | none => "err")
  | ["c05.ttl", t] => do
    let t ← parseCps t
    some (match ttlFromText t with | some n => s!"ok {n}" | none => "err")
  | ["c05.wb", d, chunk, sep] => do
    let d ← parseCps d; let chunk ← chunk.toNat?; let sep ← parseCps sep
    some ("ok " ++ showCps (wordbreak d chunk sep))
  | ["c05.b64enc", b] => do let b ← ofHex b; some ("ok " ++ showCps (b64Encode b))
  | ["c05.b64dec", t] => do let t ← parseCps t; some (okHex (b64Decode t))
  | ["c05.hexdec", t] => do let t ← parseCps t; some (okHex (unhexlify t))
  | ["c05.generic.print", d, hc, hs] => do
    let d ← ofHex d; let hc ← hc.toNat?; let hs ← parseCps hs
    some ("ok " ++ showCps (printGeneric { hexChunk := hc, hexSep := hs } d))
  | "c05.print" :: tn :: o :: r :: hc :: hs :: bc :: bs :: u :: dump => do
    let st ← parseStyle o r hc hs bc bs u
    let sch ← schemaOf tn
    let (vals, tail) ← splitDump dump
    some (okCps (printRec sch st vals tail))
  | ["c05.parse", tn, o, r, rt, text] => do
    let o ← kv "o" o >>= parseOptName
    let r ← kv "r" r >>= parseBool
    let rt ← kv "rt" rt >>= parseOptName
    let text ← parseCps text
    let tn : Option String := if tn = "-" then none else some tn
    some (match fromTextRdata tn { origin := o, relativize := r, relTo := rt } text with
      | some (.known vals tail) => "ok k " ++ showDump vals tail
      | some (.generic d) => "ok g " ++ toHexP d
      | none => "err")
  | "c05.wire.enc" :: tn :: o :: dump => do
    let o ← kv "o" o >>= parseOptName
    let sch ← schemaOf tn
    let (vals, tail) ← splitDump dump
    some (okHex (encRec tn sch o vals tail))
  | ["c05.wire.dec", tn, o, w] => do
    let o ← kv "o" o >>= parseOptName
    let w ← ofHex w
    let sch ← schemaOf tn
    some (match decRec tn sch w o with
      | some (vals, tail) => "ok " ++ showDump vals tail
      | none => "err")
  | _ => none

end Driver

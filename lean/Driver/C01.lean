import Driver.Util
/-! driver ops of C01 (prefix `c01.`) -/
namespace Driver
open Model

def handleC01 : List String → Option String
  | _ => none

end Driver

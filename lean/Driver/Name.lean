import Driver.Util
namespace Driver
open Model

def renderScript (pad : Nat) (names : List Name) : String :=
  let rec go (out : Bytes) (t : CTable) (offs : List Nat) : List Name → Bytes × CTable × List Nat
    | [] => (out, t, offs)
    | n :: rest =>
      match toWireC out t n none with
      | .ok (o, t') => go o t' (offs ++ [out.length]) rest
      | .error _ => go out t offs rest
  let (out, t, offs) := go (List.replicate pad 0) [] [] names
  let decs := offs.map fun o => match fromWire out o with
    | .ok (n, k) => showName n ++ "/" ++ toString k
    | .error e => "err:" ++ e.toString
  "ok " ++ toHexP (out.drop pad) ++ " tbl=" ++ ";".intercalate (t.map fun p => showName p.1 ++ "@" ++ toString p.2)
    ++ " dec=" ++ ";".intercalate decs

def handleName : List String → Option String
  | ["n.totext", a] => do
    let n ← parseName a
    some ("ok " ++ toHexP (toText n))
  | ["n.fromtext", t, o] => do
    let t ← ofHex t
    let o ← parseOptName o
    some (exceptName (fromText t o))
  | ["n.validate", a] => do
    let n ← parseName a
    some (exceptName (validate n))
  | ["n.towire", a] => do
    let n ← parseName a
    some ("ok " ++ toHexP (toWire n))
  | ["n.towireo", a, o, c] => do
    let n ← parseName a
    let o ← parseOptName o
    let c ← parseBool c
    some (match toWireO n o c with
      | .ok b => "ok " ++ toHexP b
      | .error e => "err " ++ e.toString)
  | ["n.fromwire", w, cur] => do
    let w ← ofHex w
    let cur ← cur.toNat?
    some (match fromWire w cur with
      | .ok (n, k) => "ok " ++ showName n ++ " " ++ toString k
      | .error e => "err " ++ e.toString)
  | "n.towirec" :: pad :: names => do
    let pad ← pad.toNat?
    let ns ← names.mapM parseName
    some (renderScript pad ns)
  | ["n.towiref", pad, prev, a, o, c, cmp] => do
    let pad ← pad.toNat?
    let prev ← parseOptName prev
    let n ← parseName a
    let o ← parseOptName o
    let c ← parseBool c
    let cmp ← parseBool cmp
    let out0 := List.replicate pad 0
    let (out1, t1) := match prev, cmp with
      | some p, true => toWireCLoop out0 [] p
      | _, _ => (out0, [])
    some (match toWireF out1 (if cmp then some t1 else none) n o c with
      | .ok (b, t) =>
        "ok " ++ toHexP (b.drop pad) ++ " tbl=" ++ ";".intercalate ((t.getD []).map fun p => showName (lowerName p.1) ++ "@" ++ toString p.2)
      | .error e => "err " ++ e.toString)
  | ["n.styled", a, om, o, rel] => do
    let n ← parseName a
    let omitDot ← parseBool om
    let o ← parseOptName o
    let rel ← parseBool rel
    some (match toStyledText n omitDot o rel with
      | .ok t => "ok " ++ toHexP t
      | .error e => "err " ++ e.toString)
  | ["n.concat", a, b] => do
    let a ← parseName a; let b ← parseName b
    some (exceptName (concatenate a b))
  | ["n.relativize", a, b] => do
    let a ← parseName a; let b ← parseName b
    some (exceptName (relativize a b))
  | ["n.derelativize", a, b] => do
    let a ← parseName a; let b ← parseName b
    some (exceptName (derelativize a b))
  | ["n.parent", a] => do
    let a ← parseName a
    some (exceptName (parent a))
  | ["n.split", a, d] => do
    let a ← parseName a; let d ← d.toNat?
    some (match split a d with
      | .ok (x, y) => "ok " ++ showName x ++ " " ++ showName y
      | .error e => "err " ++ e.toString)
  | ["n.succ", a, o, p] => do
    let a ← parseName a; let o ← parseName o; let p ← parseBool p
    some (exceptName (successor a o p))
  | ["n.pred", a, o, p] => do
    let a ← parseName a; let o ← parseName o; let p ← parseBool p
    some (exceptName (predecessor a o p))
  | ["n.cmp", a, b] => do
    let a ← parseName a; let b ← parseName b
    let (r, o, k) := fullcompare a b
    some s!"ok {r} {signOf o} {k} sub={isSubdomain a b} sup={isSuperdomain a b}"
  | ["n.hash", a] => do
    let a ← parseName a
    some s!"ok {nameHash a}"
  | _ => none

end Driver

import Driver.Util
import Model.ZoneTxn
/-! driver ops of C10 (prefix `c10.`): a whole transaction history on one line, its observable trace on one line.

```
c10.run  <origin> <rel> <rdclass> <d09> <d10> <gn> <ro> <exit:c|x> <zone> <ops>   -- the model of the code
c10.spec <origin> <rel> <rdclass> <d09> <d10> <gn> <ro> <exit:c|x> <zone> <ops>   -- the reference model (flat map)
c10.serial <old> <value> <relative>                                          -- newSerial
c10.scmp <a> <b>                                                             -- Serial lt/gt
zone := "-" | node (";" node)*        node := name "=" [rds ("&" rds)*]
rds  := cls "/" type "/" covers "/" ttl "/" ("_" | val ("." val)*)
ops  := "-" | op (";" op)*
op   := ("add"|"rep"|"del"|"dex") ":" veto ":" [arg ("+" arg)*]
      | "us:" veto ":" int ":" rel ":" name | "get:" name ":" t ":" c | "ex:" name | "gn:" name | "ch" | "dump" | "commit" | "rollback"
arg  := "n" name | "s" name "~" rds | "d" rds | "r" cls "/" type "/" covers "/" val | "i" nat | "x"
```
Output: one result per op (`ok`, `ok:<value>`, `err:<family>`), then `|`, then the published zone after leaving the
`with` block, canonically sorted.
-/
namespace Driver
open Model Model.ZT

def sortStrings (xs : List String) : List String := (xs.toArray.qsort (fun a b => a < b)).toList
def sortNats (xs : List Nat) : List Nat := (xs.toArray.qsort (fun a b => a < b)).toList

def parseRdata (cls t c : Nat) (s : String) : Option Rdata := do
  let v ← s.toNat?
  some { rdclass := cls, rdtype := t, covers := c, val := v }

def parseRds (s : String) : Option Rdataset :=
  match s.splitOn "/" with
  | [cls, t, c, ttl, items] => do
    let cls ← cls.toNat?; let t ← t.toNat?; let c ← c.toNat?; let ttl ← ttl.toNat?
    let its ← if items = "_" then some [] else (items.splitOn ".").mapM (parseRdata cls t c)
    some { rdclass := cls, rdtype := t, covers := c, ttl := ttl, items := its }
  | _ => none

def parseNode (s : String) : Option (Name × Node) :=
  match s.splitOn "=" with
  | [n, rs] => do
    let n ← parseName n
    let rs ← if rs = "" then some [] else (rs.splitOn "&").mapM parseRds
    some (n, rs)
  | _ => none

def parseZone (s : String) : Option Nodes :=
  if s = "-" then some [] else (s.splitOn ";").mapM parseNode

def parseArg (s : String) : Option Arg :=
  if s = "x" then some .other
  else
    let body := (s.drop 1).toString
    match s.front with
    | 'n' => (parseName body).map .name
    | 's' =>
      match body.splitOn "~" with
      | [n, r] => do
        let n ← parseName n
        let r ← parseRds r
        some (.rrset n r)
      | _ => none
    | 'd' => (parseRds body).map .rds
    | 'r' =>
      match body.splitOn "/" with
      | [cls, t, c, v] => do
        let cls ← cls.toNat?; let t ← t.toNat?; let c ← c.toNat?; let v ← v.toNat?
        some (.rdata { rdclass := cls, rdtype := t, covers := c, val := v })
      | _ => none
    | 'i' => body.toNat?.map .int
    | _ => none

def parseArgs (s : String) : Option (List Arg) :=
  if s = "" then some [] else (s.splitOn "+").mapM parseArg

def parseOp (s : String) : Option Op :=
  match s.splitOn ":" with
  | ["add", v, a] => do some (.add (← parseArgs a) (← parseBool v))
  | ["rep", v, a] => do some (.replace (← parseArgs a) (← parseBool v))
  | ["del", v, a] => do some (.delete (← parseArgs a) (← parseBool v))
  | ["dex", v, a] => do some (.deleteExact (← parseArgs a) (← parseBool v))
  | ["us", v, value, rel, n] => do some (.updateSerial (← value.toInt?) (← parseBool rel) (← parseName n) (← parseBool v))
  | ["get", n, t, c] => do some (.get (← parseName n) (← t.toNat?) (← c.toNat?))
  | ["ex", n] => do some (.nameExists (← parseName n))
  | ["gn", n] => do some (.getNode (← parseName n))
  | ["ch"] => some .changed
  | ["dump"] => some .dump
  | ["commit"] => some .commit
  | ["rollback"] => some .rollback
  | ["cfail"] => some .commitRaise
  | _ => none

def parseOps (s : String) : Option (List Op) :=
  if s = "-" then some [] else (s.splitOn ";").mapM parseOp

def showVals (items : List Rdata) : String :=
  if items.isEmpty then "_" else ".".intercalate ((sortNats (items.map (·.val))).map toString)

def showRds (r : Rdataset) : String :=
  s!"{r.rdclass}/{r.rdtype}/{r.covers}/{r.ttl}/{showVals r.items}"

def showNode (e : Name × Node) : String :=
  showName (lowerName e.1) ++ "=" ++ "&".intercalate (sortStrings (e.2.map showRds))

def showZone (v : Nodes) : String :=
  if v.isEmpty then "-" else ";".intercalate (sortStrings (v.map showNode))

/-- the flat map grouped by owner, in the same canonical form -/
def showSZone (z : SZone) : String :=
  let names := (z.map (·.1.1)).eraseDups
  showZone (names.map fun n => (n, (z.filter (fun e => e.1.1 == n)).map (·.2)))


def showRes (r : Res) : String :=
  match r with
  | .error e => "err:" ++ e.toString
  | .ok .unit => "ok"
  | .ok (.rds none) => "ok:none"
  | .ok (.rds (some r)) => "ok:" ++ showRds r
  | .ok (.bool b) => if b then "ok:1" else "ok:0"
  | .ok (.flag b) => if b then "ok:f1" else "ok:f0"
  | .ok (.nodes v) => "ok:[" ++ showZone v ++ "]"
  | .ok (.szone z) => "ok:[" ++ showSZone z ++ "]"
  | .ok (.node _ none) => "ok:nonode"
  | .ok (.node _ (some nd)) => "ok:node[" ++ "&".intercalate (sortStrings (nd.map showRds)) ++ "]"
  | .ok (.snode _ none) => "ok:nonode"
  | .ok (.snode _ (some zs)) => "ok:node[" ++ "&".intercalate (sortStrings (zs.map fun e => showRds e.2)) ++ "]"

def lowerKeys (v : Nodes) : Nodes := v.map fun e => (lowerName e.1, e.2)

def handleC10 : List String → Option String
  | ["c10.run", o, rel, cls, d09, d10, gn, ro, ex, zone, ops] => do
    let cfg : Cfg := { origin := ← parseName o, relativize := ← parseBool rel, rdclass := ← cls.toNat?,
                       d09 := ← parseBool d09, d10 := ← parseBool d10, gn := ← parseBool gn }
    let mode ← ro.toNat?     -- 0 writer, 1 reader, 2 writer(replacement=True)
    let exc ← if ex = "c" then some false else if ex = "x" then some true else none
    let z := lowerKeys (← parseZone zone)
    let ops ← parseOps ops
    let s0 := if mode = 1 then beginRead z else if mode = 2 then beginReplace z else beginWrite z
    let (s1, rs) := run cfg s0 ops
    let s2 := exitTxn s1 exc
    some (" ".intercalate (rs.map showRes) ++ " | " ++ showZone s2.zone)
  | ["c10.spec", o, rel, cls, _d09, _d10, _gn, ro, ex, zone, ops] => do
    let cfg : Cfg := { origin := ← parseName o, relativize := ← parseBool rel, rdclass := ← cls.toNat?,
                       d09 := false, d10 := false }
    let mode ← ro.toNat?
    let exc ← if ex = "c" then some false else if ex = "x" then some true else none
    let z := flatten (lowerKeys (← parseZone zone))
    let ops ← parseOps ops
    let t0 := if mode = 1 then sBeginRead z else if mode = 2 then sBeginReplace z else sBeginWrite z
    let (t1, rs) := sRun cfg t0 (ops.map toSOp)
    let t2 := sExit t1 exc
    some (" ".intercalate (rs.map showRes) ++ " | " ++ showSZone t2.zone)
  | ["c10.serial", old, value, rel] => do
    let old ← old.toNat?; let value ← value.toInt?; let rel ← parseBool rel
    some (match newSerial old value rel with
      | .ok v => s!"ok:{v}"
      | .error e => "err:" ++ e.toString)
  | ["c10.scmp", a, b] => do
    let a ← a.toInt?; let b ← b.toInt?
    let a := Serial.make a; let b := Serial.make b
    some s!"ok:{a}:{b}:lt={Serial.lt a b}:gt={Serial.gt a b}:le={Serial.le a b}:ge={Serial.ge a b}"
  | ["c10.vname", o, rel, n] => do
    let cfg : Cfg := { origin := ← parseName o, relativize := ← parseBool rel, rdclass := 1, d09 := false, d10 := false }
    some (match validateName cfg (← parseName n) with
      | .ok k => "ok:" ++ showName k
      | .error e => "err:" ++ e.toString)
  | _ => none

end Driver

import Driver.Util
/-! driver ops of C10 (prefix `c10.`); filled in by the C10 work -/
namespace Driver
open Model

def handleC10 : List String → Option String
  | _ => none

end Driver

import Driver.Loop
import Driver.Name
import Driver.C14
/-! native driver of C14: its own ops plus the shared name ops (`n.*`) -/
def main : IO Unit := Driver.runMain [Driver.handleC14, Driver.handleName]

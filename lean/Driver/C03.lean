import Driver.Util
/-! driver ops of C03 (prefix `c03.`); filled in by the C03 work -/
namespace Driver
open Model

def handleC03 : List String → Option String
  | _ => none

end Driver

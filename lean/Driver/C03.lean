import Driver.Util
import Model.Render
import Model.Message
/-! driver ops of C03 (prefix `c03.`): message rendering, parsing, header-field codecs.
Message syntax (space separated tokens, see `harness/props/C03.py`):
  `H:<id>:<flags>:<origin|none>:<requestPayload>:<pad>`
  `O:<ttl>:<payload>:<opts>`           opts = `_` | `otype.hex;otype.hex…`
  `T:<name>:<alg>:<time>:<fudge>:<mac>:<origid>:<error>:<other>`
  `S<sec>:<name>:<class>:<type>:<covers>:<deleting|->:<ttl>:<rdatas>`   rdatas = `_` | rd;rd…
  rd = `o.<hex>` | `n.<name>` | `m.<pref>.<name>` | `s.<mname>.<rname>.<serial>.<refresh>.<retry>.<expire>.<minimum>` -/
namespace Driver
open Model

def parseRD (s : String) : Option RData :=
  match s.splitOn "." with
  | ["o", h] => (ofHex h).map .raw
  | ["n", n] => (parseName n).map .name1
  | ["m", p, n] => do some (.mx (← p.toNat?) (← parseName n))
  | ["s", m, r, a, b, c, d, e] => do
    some (.soa (← parseName m) (← parseName r) (← a.toNat?) (← b.toNat?) (← c.toNat?) (← d.toNat?) (← e.toNat?))
  | _ => none

def showRD : RData → String
  | .raw b => "o." ++ toHexP b
  | .name1 n => "n." ++ showName n
  | .mx p n => s!"m.{p}.{showName n}"
  | .soa m r a b c d e => s!"s.{showName m}.{showName r}.{a}.{b}.{c}.{d}.{e}"

def parseRDs (s : String) : Option (List RData) :=
  if s = "_" then some [] else (s.splitOn ";").mapM parseRD

def showRDs (l : List RData) : String :=
  if l.isEmpty then "_" else ";".intercalate (l.map showRD)

def parseOpts (s : String) : Option (List (Nat × Bytes)) :=
  if s = "_" then some [] else (s.splitOn ";").mapM fun x =>
    match x.splitOn "." with
    | [t, h] => do some (← t.toNat?, ← ofHex h)
    | _ => none

def showOpts (l : List (Nat × Bytes)) : String :=
  if l.isEmpty then "_" else ";".intercalate (l.map fun p => s!"{p.1}.{toHexP p.2}")

def showRRset (sec : Nat) (r : RRset) : String :=
  let del := match r.deleting with | some d => toString d | none => "-"
  s!"S{sec}:{showName r.name}:{r.rdclass}:{r.rdtype}:{r.covers}:{del}:{r.ttl}:{showRDs r.rdatas}"

def showOpt (o : EOpt) : String := s!"O:{o.ttl}:{o.payload}:{showOpts o.options}"

def showTsig (t : Tsig) : String :=
  s!"T:{showName t.name}:{showName t.alg}:{t.time}:{t.fudge}:{toHexP t.mac}:{t.origId}:{t.error}:{toHexP t.other}"

def showMessage (m : Message) : String :=
  let org := match m.origin with | some o => showName o | none => "none"
  let parts := [s!"H:{m.id}:{m.flags}:{org}:{m.requestPayload}:{m.pad}"]
    ++ (match m.opt with | some o => [showOpt o] | none => [])
    ++ (match m.tsig with | some t => [showTsig t] | none => [])
    ++ m.q.map (showRRset 0) ++ m.an.map (showRRset 1) ++ m.au.map (showRRset 2) ++ m.ad.map (showRRset 3)
  " ".intercalate parts

def parseToken (m : Message) (tok : String) : Option Message :=
  match tok.splitOn ":" with
  | ["H", id, flags, org, rp, pad] => do
    some { m with id := ← id.toNat?, flags := ← flags.toNat?, origin := ← parseOptName org,
                  requestPayload := ← rp.toNat?, pad := ← pad.toNat? }
  | ["O", ttl, payload, opts] => do
    some { m with opt := some { ttl := ← ttl.toNat?, payload := ← payload.toNat?, options := ← parseOpts opts } }
  | ["T", name, alg, time, fudge, mac, oid, err, other] => do
    some { m with tsig := some { name := ← parseName name, alg := ← parseName alg, time := ← time.toNat?,
                                 fudge := ← fudge.toNat?, mac := ← ofHex mac, origId := ← oid.toNat?,
                                 error := ← err.toNat?, other := ← ofHex other } }
  | [s, name, cls, typ, cov, del, ttl, rds] => do
    let del ← if del = "-" then some none else del.toNat?.map some
    let r : RRset := { name := ← parseName name, rdclass := ← cls.toNat?, rdtype := ← typ.toNat?,
                       covers := ← cov.toNat?, deleting := del, ttl := ← ttl.toNat?, rdatas := ← parseRDs rds }
    if s = "S0" then some { m with q := m.q ++ [r] }
    else if s = "S1" then some { m with an := m.an ++ [r] }
    else if s = "S2" then some { m with au := m.au ++ [r] }
    else if s = "S3" then some { m with ad := m.ad ++ [r] }
    else none
  | _ => none

def parseMsgTokens (toks : List String) : Option Message :=
  toks.foldlM parseToken { id := 0, flags := 0 }

def showRender (r : Except RErr Bytes) : String :=
  match r with
  | .ok b => "ok " ++ toHexP b
  | .error e => "err " ++ e.toString

/-- direct `Renderer` use: every add in order, continuing after `TooBig` exactly like a caller that catches it -/
def stepsGo (s : RState) : List Item → List String → RState × List String
  | [], acc => (s, acc)
  | it :: rest, acc =>
    match s.addItem it with
    | .ok s' => stepsGo s' rest (acc ++ [s!"ok:{s'.out.length}:{s'.tbl.length}"])
    | .tooBig s' => stepsGo s' rest (acc ++ [s!"big:{s'.out.length}:{s'.tbl.length}"])
    | .err e =>
      -- `_set_section` runs before the item is written: the section marker moves even when the add then fails
      ((match s.setSection it.sec with | .ok s1 => s1 | .error _ => s), acc ++ ["err:" ++ e.toString])

def handleC03 : List String → Option String
  | "c03.steps" :: ms :: edns :: rest => do
    let m ← parseMsgTokens rest
    let ms ← ms.toNat?
    let (s, tr) := stepsGo (RState.init m.id m.flags ms m.origin) m.items []
    -- `add_edns(version, ednsflags, payload, options)`: the O: token carries the caller's raw ednsflags
    let (s, tr) := match m.opt, edns.toNat? with
      | some o, some v =>
        (match s.addEdns v o.ttl o.payload o.options with
          | .ok s' => (s', tr ++ [s!"opt:ok:{s'.out.length}"])
          | .tooBig s' => (s', tr ++ [s!"opt:big:{s'.out.length}"])
          | .err e => (s, tr ++ ["opt:err:" ++ e.toString]))
      | _, _ => (s, tr)
    let s := s.writeHeader
    some ("ok " ++ " ".intercalate tr ++ s!" out={toHexP s.out} tbl="
      ++ ";".intercalate (s.tbl.map fun p => showName p.1 ++ "@" ++ toString p.2))
  | "c03.render" :: ms :: pt :: rest => do
    let m ← parseMsgTokens rest
    some (showRender (m.toWire (← ms.toNat?) (← parseBool pt)))
  | ["c03.parse", w, org, orr, it, key] => do
    let w ← ofHex w
    let cfg : PCfg := { origin := ← parseOptName org, oneRRPerRRset := ← parseBool orr,
                        ignoreTrailing := ← parseBool it, hasKey := ← parseBool key }
    some (match parseMessage cfg w with
      | .ok m => "ok " ++ showMessage m
      | .error e => "err " ++ e.toString)
  | "c03.counts" :: rest => do
    let m ← parseMsgTokens rest
    let (a, b, c, d) := m.sectionCounts
    some s!"ok {a} {b} {c} {d}"
  | ["c03.rcode.from", f, e] => do some s!"ok {rcodeFromFlags (← f.toNat?) (← e.toNat?)}"
  | ["c03.rcode.to", v] => do
    some (match rcodeToFlags (← v.toNat?) with
      | some (a, b) => s!"ok {a} {b}"
      | none => "err ValueError")
  | ["c03.opcode.from", f] => do some s!"ok {opcodeFromFlags (← f.toNat?)}"
  | ["c03.opcode.to", v] => do some s!"ok {opcodeToFlags (← v.toNat?)}"
  | ["c03.setrcode", f, e, v] => do
    some (match setRcode (← f.toNat?) (← e.toNat?) (← v.toNat?) with
      | some (a, b) => s!"ok {a} {b}"
      | none => "err ValueError")
  | ["c03.hdr", f, e] => do
    let m : Message := { id := 0, flags := ← f.toNat?, opt := some { ttl := ← e.toNat?, payload := 0, options := [] } }
    some s!"ok rcode={m.rcode} opcode={m.opcode} edns={m.edns.getD 0} update={isUpdate m.flags}"
  | _ => none

end Driver

import Driver.Util
/-! driver ops of C09 (prefix `c09.`); filled in by the C09 work -/
namespace Driver
open Model

def handleC09 : List String → Option String
  | _ => none

end Driver

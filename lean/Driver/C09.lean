import Driver.Util
import Model.Tokenizer
import Model.ZoneFile
/-! driver ops of C09 (prefix `c09.`): tokenizer scripts, TTL / range / int parsing, zone reading and writing.
Text travels as hex of code points < 256 (`-` = empty). -/
namespace Driver
open Model

def showOptText : Option (List Nat) → String
  | some c => toHexP c
  | none => "~"

def showToken (t : Token) : String :=
  s!"T{t.ttype.code}:{toHexP t.value}:{if t.hasEscape then 1 else 0}:{showOptText t.comment}"

def parseFlags (f : String) : Option (Bool × Bool) :=
  match f.toList with
  | [a, b] => do
    let a ← parseBool (String.singleton a)
    let b ← parseBool (String.singleton b)
    some (a, b)
  | _ => none

/-- run a script of tokenizer operations; stops at the first error -/
partial def tokScript (s : TState) (last : Option Token) (ops : List String) (out : List String) : List String :=
  match ops with
  | [] => out
  | op :: rest =>
    if op = "u" then
      match last with
      | none => out ++ ["noop"]
      | some t =>
        match s.unget t with
        | .ok s' => tokScript s' last rest (out ++ ["U"])
        | .error e => out ++ ["E" ++ e.toString]
    else if op.startsWith "g" then
      match parseFlags (op.drop 1).toString with
      | none => out ++ ["bad"]
      | some (wl, wc) =>
        match s.get wl wc with
        | .ok (t, s') => tokScript s' (some t) rest (out ++ [showToken t])
        | .error e => out ++ ["E" ++ e.toString]
    else if op.startsWith "a" then
      match parseFlags (op.drop 1).toString with
      | none => out ++ ["bad"]
      | some (wl, wc) =>
        let rec loop (fuel : Nat) (s : TState) (last : Option Token) (out : List String) :
            TState × Option Token × List String × Bool :=
          match fuel with
          | 0 => (s, last, out, true)
          | fuel + 1 =>
            match s.get wl wc with
            | .ok (t, s') =>
              if t.ttype = .eof then (s', some t, out ++ [showToken t], true)
              else loop fuel s' (some t) (out ++ [showToken t])
            | .error e => (s, last, out ++ ["E" ++ e.toString], false)
        let (s', last', out', ok) := loop (s.input.length + 3) s last out
        if ok then tokScript s' last' rest out' else out'
    else if op = "ws" then
      let r := skipWs (decide (s.multiline > 0)) s.input
      tokScript { s with input := r.2 } last rest (out ++ [s!"W{r.1}"])
    else out ++ ["bad"]

def showTokE (r : Except TokErr (List Nat)) : String :=
  match r with
  | .ok v => "ok " ++ toHexP v
  | .error e => "err " ++ e.toString

def showRd : Rdata → String
  | .a b => "a" ++ toHexP b
  | .name1 n => "n" ++ showName n
  | .mx p n => s!"m{p}_{showName n}"
  | .txt ss => "t" ++ "_".intercalate (ss.map toHexP)
  | .soa m r a b c d e => s!"s{showName m}_{showName r}_{a}_{b}_{c}_{d}_{e}"
  | .generic d => "g" ++ toHexP d

def showRR (rr : RR) : String := showRd rr.rd ++ "#" ++ showOptText rr.comment

def showRdataset (r : Rdataset) : String :=
  s!"{r.rdtype}.{r.ttl}." ++ "&".intercalate (r.rrs.map showRR)

def showNode (p : Name × Node) : String :=
  showName p.1 ++ "=" ++ "+".intercalate (p.2.map showRdataset)

def showZone (z : ZoneMap) : String :=
  if z.isEmpty then "empty" else "/".intercalate (z.map showNode)

def parseOptText (s : String) : Option (Option (List Nat)) :=
  if s = "~" then some none else (ofHex s).map some

def parseRd (s : String) : Option Rdata :=
  match s.toList with
  | [] => none
  | k :: rest =>
    let body := String.ofList rest
    let parts := splitOnChar body '_'
    if k = 'a' then (ofHex body).map .a
    else if k = 'n' then (parseName body).map .name1
    else if k = 'm' then
      match parts with
      | [p, n] => do
        let p ← p.toNat?
        let n ← parseName n
        some (.mx p n)
      | _ => none
    else if k = 't' then (parts.mapM ofHex).map .txt
    else if k = 's' then
      match parts with
      | [m, r, a, b, c, d, e] => do
        let m ← parseName m; let r ← parseName r
        let a ← a.toNat?; let b ← b.toNat?; let c ← c.toNat?; let d ← d.toNat?; let e ← e.toNat?
        some (.soa m r a b c d e)
      | _ => none
    else if k = 'g' then (ofHex body).map .generic
    else none

def parseRR (s : String) : Option RR :=
  match splitOnChar s '#' with
  | [rd, c] => do
    let rd ← parseRd rd
    let c ← parseOptText c
    some ⟨rd, c⟩
  | _ => none

def parseRdataset (s : String) : Option Rdataset :=
  match splitOnChar s '.' with
  | [ty, ttl, rrs] => do
    let ty ← ty.toNat?
    let ttl ← ttl.toNat?
    let rrs ← if rrs = "" then some [] else (splitOnChar rrs '&').mapM parseRR
    some ⟨ty, ttl, rrs⟩
  | _ => none

def parseNode (s : String) : Option (Name × Node) :=
  match splitOnChar s '=' with
  | [n, rds] => do
    let n ← parseName n
    let rds ← if rds = "" then some [] else (splitOnChar rds '+').mapM parseRdataset
    some (n, rds)
  | _ => none

def parseZone (s : String) : Option ZoneMap :=
  if s = "empty" then some [] else (splitOnChar s '/').mapM parseNode

def parseIntS (s : String) : Option Int :=
  if s.startsWith "-" then (s.drop 1).toString.toNat?.map (fun n => - (n : Int)) else s.toNat?.map (fun n => (n : Int))

def parseOptNat (s : String) : Option (Option Nat) :=
  if s = "none" then some none else s.toNat?.map some

/-- style tokens `key=value`; unknown keys are an error -/
def parseStyle (toks : List String) : Option Style :=
  toks.foldlM (init := ({} : Style)) fun st tok =>
    match splitOnChar tok '=' with
    | [k, v] =>
      if k = "sorted" then (parseBool v).map fun b => { st with sorted := b }
      else if k = "wo" then (parseBool v).map fun b => { st with wantOrigin := b }
      else if k = "dttl" then (parseOptNat v).map fun b => { st with defaultTTL := b }
      else if k = "dedup" then (parseBool v).map fun b => { st with dedup := b }
      else if k = "fnd" then (parseBool v).map fun b => { st with firstNameIsDuplicate := b }
      else if k = "nj" then (parseIntS v).map fun b => { st with nameJust := b }
      else if k = "tj" then (parseIntS v).map fun b => { st with ttlJust := b }
      else if k = "cj" then (parseIntS v).map fun b => { st with classJust := b }
      else if k = "yj" then (parseIntS v).map fun b => { st with typeJust := b }
      else if k = "gen" then (parseBool v).map fun b => { st with wantGeneric := b }
      else if k = "com" then (parseBool v).map fun b => { st with wantComments := b }
      else if k = "oc" then (parseBool v).map fun b => { st with omitClass := b }
      else if k = "ot" then (parseBool v).map fun b => { st with omitTTL := b }
      else if k = "so" then (parseOptName v).map fun b => { st with origin := b }
      else if k = "sr" then (parseBool v).map fun b => { st with relativize := b }
      else if k = "hc" then v.toNat?.map fun b => { st with hexChunk := b }
      else if k = "hs" then (ofHex v).map fun b => { st with hexSep := b }
      else if k = "wfix" then v.toNat?.map fun b => { st with genFix := b }
      else none
    | _ => none

def showReadResult (r : RM (ZoneMap × Option Name)) : String :=
  match r with
  | .ok (z, o) => s!"ok origin={match o with | some n => showName n | none => "none"} {showZone z}"
  | .error e => "err " ++ e.toString

def handleC09 : List String → Option String
  | "c09.tok" :: text :: ops => do
    let t ← ofHex text
    some (" ".intercalate (tokScript (TState.init t) none ops []))
  | ["c09.unesc", text] => do
    let t ← ofHex text
    match (TState.init t).get with
    | .error e => some ("err " ++ e.toString)
    | .ok (tk, _) =>
      some (showTokE (tk.unescape.map (·.value)) ++ " | " ++ showTokE (tk.unescapeToBytes.map (·.value)))
  | ["c09.ttl", text] => do
    let t ← ofHex text
    some (match ttlFromText t with
      | .ok v => s!"ok {v}"
      | .error e => "err " ++ e.toString)
  | ["c09.grange", text] => do
    let t ← ofHex text
    some (match grangeFromText t with
      | .ok (a, b, c) => s!"ok {a} {b} {c}"
      | .error e => "err " ++ e.toString)
  | ["c09.int", text] => do
    let t ← ofHex text
    some (match pyInt t with
      | some v => s!"ok {v}"
      | none => "err ValueError")
  | ["c09.classify", ty, covers] => do
    let ty ← ty.toNat?
    let covers ← covers.toNat?
    some (match classifyTC ty covers with
      | .cname => "CNAME" | .neutral => "NEUTRAL" | .regular => "REGULAR")
  | ["c09.modify", text] => do
    let t ← ofHex text
    some (match parseModify t with
      | some m => s!"ok {toHexP m.mod} {m.sign} {m.offset} {m.width} {m.base}"
      | none => "err SyntaxError")
  | ["c09.read", origin, rel, chk, gfix, text] => do
    let o ← parseOptName origin
    let rel ← parseBool rel
    let chk ← parseBool chk
    let gfix ← parseBool gfix
    let t ← ofHex text
    some (showReadResult (zoneFromText t o rel chk gfix))
  | "c09.readinc" :: origin :: rel :: chk :: gfix :: allow :: text :: files => do
    -- files: name₁ content₁ name₂ content₂ … (hex; names as written after `$INCLUDE`)
    let o ← parseOptName origin
    let rel ← parseBool rel
    let chk ← parseBool chk
    let gfix ← parseBool gfix
    let allow ← parseBool allow
    let t ← ofHex text
    let rec pairs : List String → Option (List (List Nat × List Nat))
      | [] => some []
      | [_] => none
      | a :: b :: rest => do
        let a ← ofHex a
        let b ← ofHex b
        let r ← pairs rest
        some ((a, b) :: r)
    let fs ← pairs files
    some (showReadResult (zoneFromText t o rel chk gfix fs allow))
  | "c09.write" :: origin :: zrel :: zone :: style => do
    let o ← parseOptName origin
    let zrel ← parseBool zrel
    let z ← parseZone zone
    let st ← parseStyle style
    some (match zoneToText st o z zrel with
      | .ok t => "ok " ++ toHexP t
      | .error e => "err " ++ e.toString)
  | _ => none

end Driver

import Driver.Loop
import Driver.Name
import Driver.C02
/-! native driver of C02: its own ops plus the shared name ops (`n.*`) -/
def main : IO Unit := Driver.runMain [Driver.handleC02, Driver.handleName]

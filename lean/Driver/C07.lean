import Driver.Util
/-! driver ops of C07 (prefix `c07.`); filled in by the C07 work -/
namespace Driver
open Model

def handleC07 : List String → Option String
  | _ => none

end Driver

import Driver.Util
import Model.SetAlg
import Model.Rdataset
import Generated.Consts
/-! driver ops of C07 (prefix `c07.`): whole operation histories over four registers on one line,
the observable trace (status of every operation and the register it wrote) on one line. -/
namespace Driver
open Model

def showNats (xs : List Nat) : String :=
  if xs.isEmpty then "-" else ",".intercalate (xs.map toString)

def parseReg (s : String) : Option Nat := do
  let n ← s.toNat?
  if n < 4 then some n else none

def parseOptNat (s : String) : Option (Option Nat) :=
  if s = "-" then some none else s.toNat?.map some

def showBool (b : Bool) : String := if b then "true" else "false"

/-! ## `c07.set`: dns.set.Set over small integers -/

abbrev SRegs := List (List Nat)

def sGet (rs : SRegs) (i : Nat) : List Nat := rs.getD i []

partial def runSet (rs : SRegs) (out : List String) : List String → Option (List String)
  | [] => some out.reverse
  | "new" :: r :: n :: rest => do
    let r ← parseReg r; let n ← n.toNat?
    let xs ← (rest.take n).mapM String.toNat?
    if (rest.take n).length ≠ n then none
    let v := SetAlg.ofList xs
    runSet (rs.set r v) (("ok:" ++ showNats v) :: out) (rest.drop n)
  | "upd" :: r :: n :: rest => do
    let r ← parseReg r; let n ← n.toNat?
    let xs ← (rest.take n).mapM String.toNat?
    if (rest.take n).length ≠ n then none
    let v := SetAlg.update (sGet rs r) xs
    runSet (rs.set r v) (("ok:" ++ showNats v) :: out) (rest.drop n)
  | "add" :: r :: x :: rest => do
    let r ← parseReg r; let x ← x.toNat?
    let v := SetAlg.add (sGet rs r) x
    runSet (rs.set r v) (("ok:" ++ showNats v) :: out) rest
  | "rm" :: r :: x :: rest => do
    let r ← parseReg r; let x ← x.toNat?
    match SetAlg.remove (sGet rs r) x with
    | some v => runSet (rs.set r v) (("ok:" ++ showNats v) :: out) rest
    | none => runSet rs (("err ValueError:" ++ showNats (sGet rs r)) :: out) rest
  | "disc" :: r :: x :: rest => do
    let r ← parseReg r; let x ← x.toNat?
    let v := SetAlg.discard (sGet rs r) x
    runSet (rs.set r v) (("ok:" ++ showNats v) :: out) rest
  | "pop" :: r :: rest => do
    let r ← parseReg r
    match SetAlg.pop (sGet rs r) with
    | some (x, v) => runSet (rs.set r v) (("ok " ++ toString x ++ ":" ++ showNats v) :: out) rest
    | none => runSet rs (("err KeyError:" ++ showNats (sGet rs r)) :: out) rest
  | "clear" :: r :: rest => do
    let r ← parseReg r
    runSet (rs.set r []) ("ok:-" :: out) rest
  | "cp" :: c :: a :: rest => do
    let c ← parseReg c; let a ← parseReg a
    let v := SetAlg.clone (sGet rs a)
    runSet (rs.set c v) (("ok:" ++ showNats v) :: out) rest
  | "get" :: r :: i :: rest => do
    let r ← parseReg r; let i ← i.toNat?
    match SetAlg.getItem (sGet rs r) i with
    | some x => runSet rs (("ok " ++ toString x) :: out) rest
    | none => runSet rs ("err StopIteration" :: out) rest
  | "del" :: r :: i :: rest => do
    let r ← parseReg r; let i ← i.toNat?
    match SetAlg.delItem (sGet rs r) i with
    | some v => runSet (rs.set r v) (("ok:" ++ showNats v) :: out) rest
    | none => runSet rs (("err StopIteration:" ++ showNats (sGet rs r)) :: out) rest
  | "gets" :: r :: a :: b :: st :: rest => do
    let r ← parseReg r; let a ← a.toNat?; let b ← parseOptNat b; let st ← st.toNat?
    if st = 0 then none
    runSet rs (("ok " ++ showNats (SetAlg.getSlice (sGet rs r) a b st)) :: out) rest
  | "dels" :: r :: a :: b :: st :: rest => do
    let r ← parseReg r; let a ← a.toNat?; let b ← parseOptNat b; let st ← st.toNat?
    if st = 0 then none
    let v := SetAlg.delSlice (sGet rs r) a b st
    runSet (rs.set r v) (("ok:" ++ showNats v) :: out) rest
  | op :: a :: b :: rest => do
    let a ← parseReg a; let b ← parseReg b
    let A := sGet rs a; let B := sGet rs b
    let inplace (v : List Nat) := runSet (rs.set a v) (("ok:" ++ showNats v) :: out) rest
    let pred (v : Bool) := runSet rs (showBool v :: out) rest
    match op with
    | "uu" => inplace (if a = b then SetAlg.unionUpdateSelf A else SetAlg.unionUpdate A B)
    | "iu" => inplace (if a = b then SetAlg.interUpdateSelf A else SetAlg.interUpdate A B)
    | "du" => inplace (if a = b then SetAlg.diffUpdateSelf A else SetAlg.diffUpdate A B)
    | "sdu" => inplace (if a = b then SetAlg.symDiffUpdateSelf A else SetAlg.symDiffUpdate A B)
    | "sub" => pred (SetAlg.isSubset A B)
    | "sup" => pred (SetAlg.isSuperset A B)
    | "dj" => pred (SetAlg.isDisjoint A B)
    | "eq" => pred (SetAlg.setEq A B)
    | _ =>
      -- copying forms: `op c a b` (here a = destination register, b = first operand)
      match rest with
      | c2 :: rest' => do
        let c2 ← parseReg c2
        let X := sGet rs b; let Y := sGet rs c2
        let fin (v : List Nat) := runSet (rs.set a v) (("ok:" ++ showNats v) :: out) rest'
        match op with
        | "un" => fin (SetAlg.union X Y)
        | "in" => fin (SetAlg.inter X Y)
        | "df" => fin (SetAlg.diff X Y)
        | "sd" => fin (SetAlg.symDiff X Y)
        | _ => none
      | [] => none
  | _ => none

/-! ## `c07.rds`: dns.rdataset.Rdataset / ImmutableRdataset over abstract records -/

def parseRd (s : String) : Option Rd :=
  match splitOnChar s ':' with
  | [c, t, r, d] => do
    let c ← c.toNat?; let t ← t.toNat?; let r ← parseBool r; let d ← ofHex d
    some { cls := c, typ := t, rel := r, dig := d }
  | _ => none

def showRd (r : Rd) : String :=
  s!"{r.cls}:{r.typ}:{if r.rel then "1" else "0"}:{toHexP r.dig}"

def showRds (p : Rds × Bool) : String :=
  let s := p.1
  s!"{s.cls}/{s.typ}/{s.covers}/{s.ttl}/{if p.2 then "I" else "M"}/" ++
    (if s.items.isEmpty then "-" else ";".intercalate (s.items.map showRd))

abbrev RRegs := List (Rds × Bool)

def rGet (rs : RRegs) (i : Nat) : Rds × Bool := rs.getD i (rdsNew 1 1 0 0, false)

def showRes (r : RdsR) (imm : Bool) : String :=
  (match r.2 with | none => "ok" | some e => "err " ++ e.toString) ++ ":" ++ showRds (r.1, imm)

/-- one in-place operation on register `r` through `Model.regApply` -/
def showReg (p : Reg × Option RdsErr) : String := showRes (p.1.s, p.2) p.1.imm

partial def runRds (rs : RRegs) (out : List String) : List String → Option (List String)
  | [] => some out.reverse
  | "new" :: r :: c :: t :: cv :: ttl :: rest => do
    let r ← parseReg r; let c ← c.toNat?; let t ← t.toNat?; let cv ← cv.toNat?; let ttl ← ttl.toNat?
    let v := (rdsNew c t cv ttl, false)
    runRds (rs.set r v) (("ok:" ++ showRds v) :: out) rest
  | "add" :: r :: rd :: ttl :: rest => do
    let r ← parseReg r; let rd ← parseRd rd; let ttl ← parseOptNat ttl
    unary rs out rest r (.add rd ttl)
  | "ttl" :: r :: t :: rest => do
    let r ← parseReg r; let t ← t.toNat?
    unary rs out rest r (.updateTtl t)
  | "rm" :: r :: rd :: rest => do
    let r ← parseReg r; let rd ← parseRd rd
    unary rs out rest r (.remove rd)
  | "disc" :: r :: rd :: rest => do
    let r ← parseReg r; let rd ← parseRd rd
    unary rs out rest r (.discard rd)
  | "pop" :: r :: rest => do
    let r ← parseReg r
    let (s, imm) := rGet rs r
    -- `pop` also reports the popped record
    match imm, SetAlg.pop s.items with
    | false, some (x, _) =>
      let res := regApply Consts.singletons ⟨s, imm⟩ .pop s false
      runRds (rs.set r (res.1.s, res.1.imm)) (("ok " ++ showRd x ++ ":" ++ showRds (res.1.s, res.1.imm)) :: out) rest
    | _, _ => unary rs out rest r .pop
  | "clear" :: r :: rest => do
    let r ← parseReg r
    unary rs out rest r .clear
  | "del" :: r :: i :: rest => do
    let r ← parseReg r; let i ← i.toNat?
    unary rs out rest r (.delItem i)
  | "dels" :: r :: a :: b :: st :: rest => do
    let r ← parseReg r; let a ← a.toNat?; let b ← parseOptNat b; let st ← st.toNat?
    if st = 0 then none
    unary rs out rest r (.delSlice a b st)
  | "cp" :: c :: a :: rest => do
    let c ← parseReg c; let a ← parseReg a
    let v := rGet rs a
    runRds (rs.set c v) (("ok:" ++ showRds v) :: out) rest
  | "imm" :: c :: a :: rest => do
    let c ← parseReg c; let a ← parseReg a
    let f := regFreeze ⟨(rGet rs a).1, (rGet rs a).2⟩
    runRds (rs.set c (f.s, f.imm)) (("ok:" ++ showRds (f.s, f.imm)) :: out) rest
  | "match" :: r :: c :: t :: cv :: rest => do
    let r ← parseReg r; let c ← c.toNat?; let t ← t.toNat?; let cv ← cv.toNat?
    runRds rs (showBool (rdsMatch (rGet rs r).1 c t cv) :: out) rest
  | op :: a :: b :: rest => do
    let a ← parseReg a; let b ← parseReg b
    let (A, immA) := rGet rs a; let (B, _) := rGet rs b
    let alias := a == b
    let inplace (o : InPlace) :=
      let res := regApply Consts.singletons ⟨A, immA⟩ o B alias
      runRds (rs.set a (res.1.s, res.1.imm)) (showReg res :: out) rest
    let pred (v : Bool) := runRds rs (showBool v :: out) rest
    match op with
    | "uu" => inplace .unionUpdate
    | "iu" => inplace .interUpdate
    | "upd" => inplace .update
    | "du" => inplace .diffUpdate
    | "duo" => inplace .isub
    | "sdu" => inplace .symDiffUpdate
    | "sub" => pred (SetAlg.isSubset A.items B.items)
    | "sup" => pred (SetAlg.isSuperset A.items B.items)
    | "dj" => pred (SetAlg.isDisjoint A.items B.items)
    | "eq" => pred (rdsEq A B)
    | _ =>
      match rest with
      | c2 :: rest' => do
        let c2 ← parseReg c2
        let (X, immX) := rGet rs b; let (Y, _) := rGet rs c2
        let kind ← (match op with | "un" => some 0 | "in" => some 1 | "df" => some 2 | "sd" => some 3 | _ => none)
        let res := regFun Consts.singletons ⟨X, immX⟩ kind Y
        -- a raising copy leaves the destination register untouched
        match res.2 with
        | none => runRds (rs.set a (res.1.s, res.1.imm)) (showReg res :: out) rest'
        | some e => runRds rs (("err " ++ e.toString) :: out) rest'
      | [] => none
  | _ => none
where
  unary (rs : RRegs) (out : List String) (rest : List String) (r : Nat) (o : InPlace) : Option (List String) :=
    let (s, imm) := rGet rs r
    let res := regApply Consts.singletons ⟨s, imm⟩ o s false
    runRds (rs.set r (res.1.s, res.1.imm)) (showReg res :: out) rest

def rdCmpLine (a b : Rd) : String :=
  -- the rich comparisons return NotImplemented (TypeError) across classes or types: `_cmp` is never reached
  let c := if a.cls = b.cls ∧ a.typ = b.typ then signOf (rdCmp a b) else "na"
  s!"eq={showBool (rdEq a b)} cmp={c}"

def handleC07 : List String → Option String
  | "c07.set" :: script => do
    let tr ← runSet [[], [], [], []] [] script
    some ("|".intercalate tr)
  | "c07.rds" :: script => do
    let e := (rdsNew 1 1 0 0, false)
    let tr ← runRds [e, e, e, e] [] script
    some ("|".intercalate tr)
  | ["c07.rd", a, b] => do
    let a ← parseRd a; let b ← parseRd b
    some (rdCmpLine a b)
  | _ => none

end Driver

import Driver.Loop
import Driver.Name
import Driver.C11
/-! native driver of C11: its own ops plus the shared name ops (`n.*`) -/
def main : IO Unit := Driver.runMain [Driver.handleC11, Driver.handleName]

import Driver.Loop
import Driver.Name
import Driver.C20
/-! native driver of C20: its own ops plus the shared name ops (`n.*`) -/
def main : IO Unit := Driver.runMain [Driver.handleC20, Driver.handleName]

import Driver.Util
import Model.Cache
/-! driver ops of C17 (prefix `c17.`)

`c17.lru <max_size> <t0> op…`   → `ok tok…`  one token per op: `out|ring|max|H/M`
`c17.cache <interval> <t0> op…`                → `ok tok…`  one token per op: `out|data(sorted)|next_cleaning|H/M`

ops: `g<k>` get, `p<k>:<v>:<exp>` put, `f<k>` flush(key), `F` flush(), `s<int>` set_max_size, `a<dt>` clock += dt,
`h` hits(), `m` misses(), `k<k>` get_hits_for_key, `r` reset_statistics, `S` get_statistics_snapshot.
-/
namespace Driver
open Model.Cache

def parseOp17 (s : String) : Option Op :=
  match s.toList with
  | [] => none
  | c :: rest =>
    let a := String.ofList rest
    match c with
    | 'g' => a.toNat?.map Op.get
    | 'f' => a.toNat?.map Op.flush
    | 'F' => if rest.isEmpty then some Op.flushAll else none
    | 's' => a.toInt?.map Op.setMax
    | 'a' => a.toNat?.map Op.adv
    | 'h' => if rest.isEmpty then some Op.hits else none
    | 'm' => if rest.isEmpty then some Op.misses else none
    | 'k' => a.toNat?.map Op.hitsFor
    | 'r' => if rest.isEmpty then some Op.reset else none
    | 'S' => if rest.isEmpty then some Op.snapshot else none
    | 'p' =>
      match a.splitOn ":" with
      | [k, v, e] => do
        let k ← k.toNat?
        let v ← v.toNat?
        let e ← e.toNat?
        some (Op.put k { val := v, exp := e })
      | _ => none
    | _ => none

def showOut17 : Out → String
  | .none => "N"
  | .val v => "V" ++ toString v
  | .num n => "#" ++ toString n
  | .unit => "U"
  | .stats h m => "T" ++ toString h ++ "/" ++ toString m

def joinOrDash (xs : List String) : String := if xs.isEmpty then "-" else ",".intercalate xs

def showRing (r : List Node) : String :=
  joinOrDash (r.map fun n => s!"{n.key}:{n.ans.val}:{n.ans.exp}:{n.hits}")

def insertByKey (p : Key × Ans) : List (Key × Ans) → List (Key × Ans)
  | [] => [p]
  | q :: rest => if p.1 ≤ q.1 then p :: q :: rest else q :: insertByKey p rest

def showData (d : List (Key × Ans)) : String :=
  joinOrDash ((d.foldr insertByKey []).map fun p => s!"{p.1}:{p.2.val}:{p.2.exp}")

/-- an op token may end in `!`: the state after it is not printed (concurrent histories: an operation
that ran without the lock has no consistent state of its own to show) -/
def parseOp17q (s : String) : Option (Op × Bool) :=
  match s.toList.reverse with
  | '!' :: r => (parseOp17 (String.ofList r.reverse)).map (·, true)
  | _ => (parseOp17 s).map (·, false)

def traceL : LState → List (Op × Bool) → List String
  | _, [] => []
  | s, (op, q) :: rest =>
    let r := stepL s op
    (if q then s!"{showOut17 r.2}|?"
     else s!"{showOut17 r.2}|{showRing r.1.ring}|{r.1.maxSize}|{r.1.hits}/{r.1.misses}") :: traceL r.1 rest

def traceC : CState → List (Op × Bool) → List String
  | _, [] => []
  | s, (op, q) :: rest =>
    let r := stepC s op
    (if q then s!"{showOut17 r.2}|?"
     else s!"{showOut17 r.2}|{showData r.1.data}|{r.1.nextCleaning}|{r.1.hits}/{r.1.misses}") :: traceC r.1 rest

def handleC17 : List String → Option String
  | "c17.lru" :: mx :: t0 :: ops => do
    let mx ← mx.toInt?
    let t0 ← t0.toNat?
    let ops ← ops.mapM parseOp17q
    some (" ".intercalate ("ok" :: traceL (initL mx t0) ops))
  | "c17.cache" :: interval :: t0 :: ops => do
    let iv ← interval.toNat?
    let t0 ← t0.toNat?
    let ops ← ops.mapM parseOp17q
    some (" ".intercalate ("ok" :: traceC (initC iv t0) ops))
  | _ => none

end Driver

import Driver.Util
/-! driver ops of C17 (prefix `c17.`); filled in by the C17 work -/
namespace Driver
open Model

def handleC17 : List String → Option String
  | _ => none

end Driver

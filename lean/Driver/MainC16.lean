import Driver.Loop
import Driver.Name
import Driver.C16
/-! native driver of C16: its own ops plus the shared name ops (`n.*`) -/
def main : IO Unit := Driver.runMain [Driver.handleC16, Driver.handleName]

import Driver.Loop
import Driver.Name
import Driver.C18
/-! native driver of C18: its own ops plus the shared name ops (`n.*`) -/
def main : IO Unit := Driver.runMain [Driver.handleC18, Driver.handleName]

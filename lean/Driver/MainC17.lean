import Driver.Loop
import Driver.Name
import Driver.C17
/-! native driver of C17: its own ops plus the shared name ops (`n.*`) -/
def main : IO Unit := Driver.runMain [Driver.handleC17, Driver.handleName]

import Driver.Util
/-! driver ops of C13 (prefix `c13.`); filled in by the C13 work -/
namespace Driver
open Model

def handleC13 : List String → Option String
  | _ => none

end Driver

import Model.Bytes
import Model.Xfr
/-! driver ops of C13 (prefix `c13.`).

`c13.run fix=<0|1> tr=<0|1> P=<0|1|2> E=<eof|quiet|exc> o=<name|none> t=<rdtype> s=<serial|none> u=<0|1> N=<name;name;…> Z=<rr;rr;…|-> M=<msg>|<msg>|…`
  name  = comma separated hex labels (`-` = empty label), `@` = the empty name; lower-cased on input
  rr    = `<owner index into N>:<rdtype>:<ttl>:<serial>.<body>`
  rrset = `<owner index>:<rdtype>:<ttl>:<serial>.<body>,<serial>.<body>,…`
  msg   = `<rcode>/<question: - or idx:type>/<rrset;rrset;… or ->`
answers `T=<per message state or !>|… R=<ok|err:Class> Z=<= or sorted rr list or ->`.
-/
namespace Driver
open Model Model.Xfr

namespace C13

def splitC (s : String) (c : Char) : List String := s.splitOn (String.singleton c)

def lowerOctet (c : Nat) : Nat := if 65 ≤ c ∧ c ≤ 90 then c + 32 else c

def parseName (s : String) : Option Xfr.Name :=
  if s = "@" then some []
  else ((splitC s ',').mapM ofHex).map fun n => n.map (·.map lowerOctet)

def parseOptNat (s : String) : Option (Option Nat) :=
  if s = "none" then some none else s.toNat?.map some

def parseRdata (s : String) : Option Rdata :=
  match splitC s '.' with
  | [a, b] => do some ⟨← a.toNat?, ← b.toNat?⟩
  | _ => none

def nameAt (names : List Xfr.Name) (i : Nat) : Option Xfr.Name := names[i]?

def parseRRset (names : List Xfr.Name) (s : String) : Option RRset :=
  match splitC s ':' with
  | [i, t, ttl, ds] => do
    let o ← nameAt names (← i.toNat?)
    let t ← t.toNat?
    let ttl ← ttl.toNat?
    let ds ← if ds = "" then some [] else (splitC ds ',').mapM parseRdata
    some ⟨o, t, ttl, ds⟩
  | _ => none

def parseRR (names : List Xfr.Name) (s : String) : Option RR :=
  match splitC s ':' with
  | [i, t, ttl, d] => do
    let o ← nameAt names (← i.toNat?)
    some ⟨o, ← t.toNat?, ← parseRdata d, ← ttl.toNat?⟩
  | _ => none

def parseList {α} (f : String → Option α) (s : String) (sep : Char) : Option (List α) :=
  if s = "-" then some [] else (splitC s sep).mapM f

def parseMsg (names : List Xfr.Name) (s : String) : Option Msg :=
  match splitC s '/' with
  | [rc, q, an] => do
    let rc ← rc.toNat?
    let q ← if q = "-" then some [] else
      match splitC q ':' with
      | [i, t] => do some [(← nameAt names (← i.toNat?), ← t.toNat?)]
      | _ => none
    let an ← parseList (parseRRset names) an ';'
    some ⟨rc, q, an⟩
  | _ => none

def stripKey (key : String) (tok : String) : Option String :=
  if tok.startsWith (key ++ "=") then some (tok.drop (key.length + 1)).toString else none

/-- canonical record key: (owner index, rdtype, serial, body) -/
def recKey (names : List Xfr.Name) (r : RR) : List Nat :=
  [(names.findIdx? (· == r.owner)).getD 9999, r.rdtype, r.ttl, r.rdata.serial, r.rdata.body]

def lexLt : List Nat → List Nat → Bool
  | [], [] => false
  | [], _ => true
  | _, [] => false
  | a :: as, b :: bs => if a < b then true else if b < a then false else lexLt as bs

def insertSorted (k : List Nat) : List (List Nat) → List (List Nat)
  | [] => [k]
  | x :: xs => if k == x then x :: xs else if lexLt k x then k :: x :: xs else x :: insertSorted k xs

def canonZone (names : List Xfr.Name) (z : Zone) : List (List Nat) :=
  z.foldl (fun acc r => insertSorted (recKey names r) acc) []

def showKey : List Nat → String
  | [i, t, ttl, s, b] => s!"{i}:{t}:{ttl}:{s}.{b}"
  | _ => "?"

def showZone (ks : List (List Nat)) : String :=
  if ks.isEmpty then "-" else ";".intercalate (ks.map showKey)

def b01 (b : Bool) : String := if b then "1" else "0"

def showState (s : Inbound) : String :=
  let ser := match s.serial with | some n => toString n | none => "none"
  s!"{b01 s.done}{b01 s.incremental}{b01 s.expectingSOA}{b01 s.deleteMode}:{ser}:{b01 s.txn.isSome}"

/-- the same loop as `runLoop`, recording the state after every `process_message` -/
def traceLoop (fix : Bool) (s : Inbound) (all : Bool := false) : List Msg → List String → List String
  | [], acc => acc
  | m :: ms, acc =>
    match procMessage fix s m with
    | .error _ => acc ++ ["!"]
    | .ok s' => if s'.done && !all then acc ++ [showState s'] else traceLoop fix s' all ms (acc ++ [showState s'])

def runOp (toks : List String) : Option String :=
  match toks with
  | [fx, tr, pm, en, o, t, s, u, ns, z, ms] => do
    let fx ← stripKey "fix" fx
    let en ← stripKey "E" en
    let tr ← stripKey "tr" tr
    let pm ← stripKey "P" pm
    let o ← stripKey "o" o
    let t ← (← stripKey "t" t).toNat?
    let s ← parseOptNat (← stripKey "s" s)
    let u ← stripKey "u" u
    let names ← parseList parseName (← stripKey "N" ns) ';'
    let z ← parseList (parseRR names) (← stripKey "Z" z) ';'
    let msgs0 ← parseList (parseMsg names) (← stripKey "M" ms) '|'
    -- P=0: answers are given as the rrsets handed to process_message; P=1/2: as wire-order records, read
    -- with one_rr_per_rrset = false / true
    let msgs := if pm = "0" then msgs0
      else msgs0.map fun m => { m with answer := parseAnswer (pm = "2") (recsOfAll m.answer) }
    let origin ← if o = "none" then some none else (parseName o).map some
    let fix := fx = "1"
    let cfg : Config := ⟨origin, t, s, u = "1"⟩
    -- E=eof: the stream ends with an exception (dns.query._inbound_xfr); E=quiet / E=exc: Inbound is driven
    -- directly and the caller leaves the with-block normally / by an exception of its own
    let dr := if en = "all" then driveAll fix cfg z msgs else drive fix cfg z msgs (en = "exc")
    let out : Outcome := if en = "eof" then run fix cfg z msgs else ⟨dr.err, dr.zone⟩
    let tr := if tr = "1" then (match Inbound.init origin z t s (u = "1") with
      | .error _ => []
      | .ok s0 => traceLoop fix s0 (en = "all") msgs []) else []
    let z0c := canonZone names z
    let z1c := canonZone names out.zone
    let zs := if z0c == z1c then "=" else showZone z1c
    let r := match out.err with
      | none => if en = "eof" then "ok" else s!"left:{b01 dr.done}"
      | some e => "err:" ++ e.toString
    some s!"T={"|".intercalate tr} R={r} Z={zs}"
  | _ => none

end C13

def handleC13 : List String → Option String
  | "c13.run" :: rest => C13.runOp rest
  | ["c13.mkq", o, ns, z, s] => do
    let o ← C13.stripKey "o" o
    let names ← C13.parseList C13.parseName (← C13.stripKey "N" ns) ';'
    let z ← C13.parseList (C13.parseRR names) (← C13.stripKey "Z" z) ';'
    let s ← C13.stripKey "s" s
    let origin ← if o = "none" then some none else (C13.parseName o).map some
    -- `s=bad`: a serial that is not an int (str, float)
    let ser : SerialArg ← if s = "none" then some .absent else if s = "bad" then some .notInt else s.toInt?.map .int
    some (match makeQueryOf origin z ser with
      | .ok (t, sv) => s!"ok {t} {match sv with | some n => toString n | none => "none"}"
      | .error e => "err:" ++ e.toString)
  | ["c13.glue", o, q, mode, ns, z, us, ts] => do
    let o ← C13.stripKey "o" o
    let q ← C13.stripKey "q" q
    let mode ← C13.stripKey "mode" mode
    let names ← C13.parseList C13.parseName (← C13.stripKey "N" ns) ';'
    let z ← C13.parseList (C13.parseRR names) (← C13.stripKey "Z" z) ';'
    let us ← C13.parseList (C13.parseMsg names) (← C13.stripKey "U" us) '|'
    let ts ← C13.parseList (C13.parseMsg names) (← C13.stripKey "T" ts) '|'
    let origin ← if o = "none" then some none else (C13.parseName o).map some
    let query : Option (Nat × Option Nat) ← if q = "none" then some none else
      match C13.splitC q ':' with
      | [qt, auth] => do some (some (← qt.toNat?, ← C13.parseOptNat auth))
      | _ => none
    let mode : UdpMode ← if mode = "0" then some .never else if mode = "1" then some .tryFirst
      else if mode = "2" then some .only else none
    -- the messages arrive as wire-order records; dns.query._inbound_xfr reads them with one_rr_per_rrset = is_ixfr
    let one := match queryOf origin z query with
      | .ok (t, _) => t == ixfrType
      | .error _ => false
    let rd := fun (ms : List Msg) => ms.map fun m => { m with answer := parseAnswer one (recsOfAll m.answer) }
    let out := inboundXfr true origin query mode z (rd us) (rd ts)
    let z0c := C13.canonZone names z
    let z1c := C13.canonZone names out.zone
    let zs := if z0c == z1c then "=" else C13.showZone z1c
    let r := match out.err with | none => "ok" | some e => "err:" ++ e.toString
    some s!"R={r} Z={zs}"
  | ["c13.parse", one, ns, rs] => do
    let one ← C13.stripKey "one" one
    let names ← C13.parseList C13.parseName (← C13.stripKey "N" ns) ';'
    let rs ← C13.parseList (C13.parseRR names) (← C13.stripKey "R" rs) ';'
    let out := parseAnswer (one = "1") rs
    let showRs := fun (x : RRset) =>
      s!"{(names.findIdx? (· == x.owner)).getD 9999}:{x.rdtype}:{x.ttl}:{",".intercalate (x.rdatas.map fun d => s!"{d.serial}.{d.body}")}"
    some (if out.isEmpty then "-" else ";".intercalate (out.map showRs))
  | ["c13.xs", "notquery", _] => some (match extractSerialOf false 0 none with
      | .ok _ => "ok"
      | .error e => "err:" ++ e.toString)
  | ["c13.xs", qt, auth] => do
    let qt ← qt.toNat?
    let auth ← C13.parseOptNat auth
    some (match extractSerial qt auth with
      | .ok v => s!"ok {match v with | some n => toString n | none => "none"}"
      | .error e => "err:" ++ e.toString)
  | ["c13.scmp", a, b] => do
    let a ← a.toNat?
    let b ← b.toNat?
    -- lt gt eq ne le ge
    let eq := serialEq a b
    some s!"{C13.b01 (serialLt a b)}{C13.b01 (serialGt a b)}{C13.b01 eq}{C13.b01 (!eq)}{C13.b01 (eq || serialLt a b)}{C13.b01 (eq || serialGt a b)}"
  | _ => none

end Driver

import Driver.Loop
import Driver.Name
import Driver.C15
/-! native driver of C15: its own ops plus the shared name ops (`n.*`) -/
def main : IO Unit := Driver.runMain [Driver.handleC15, Driver.handleName]

import Driver.Loop
import Driver.Name
import Driver.C08
/-! native driver of C08: its own ops plus the shared name ops (`n.*`) -/
def main : IO Unit := Driver.runMain [Driver.handleC08, Driver.handleName]

import Driver.Util
import Model.BTreeZone
/-! driver ops of C20 (prefix `c20.`).

`c20.hist <rel> <origin> <variant bits> <init> item…` runs a whole history on one line (`init` = 1 when a new
zone already holds an empty B-tree version, 0 when only a replacement writer can start).  Items:
`T<r><c>` begin a transaction (replacement, commit); `p:<name>:<ty>:<cov>` add, `r:…` replace;
`dn:<name>` delete name; `dr:<name>:<ty>:<cov>` delete rdataset; `dx:<name>:<ty>:<cov>:<hit>` delete rdata;
`Q:<name>` bounds query on the committed version.  `c20.spec` takes the same items and prints what the
specification says (commit snapshots and queries only).  Output: one token per op (`+`/`!K`/`!V` + snapshot of
the writable version), `C<snapshot>` / `E!V` at the end of each transaction, `B:…` per query.
-/
namespace Driver
open Model Model.BTZ

namespace C20

def parseVariant (s : String) : Option Variant :=
  match s.toList with
  | [a, b, c, d, e] =>
    let f := fun (ch : Char) => if ch = '1' then some true else if ch = '0' then some false else none
    do some ⟨← f a, ← f b, ← f c, ← f d, ← f e⟩
  | _ => none

inductive Item where
  | txn (r c : Bool)
  | op (o : Op)
  | query (n : Name)

def parseKey (ty cov : String) : Option RdKey := do some (← ty.toNat?, ← cov.toNat?)

def parseItem (s : String) : Option Item :=
  match s.splitOn ":" with
  | ["T11"] => some (.txn true true) | ["T10"] => some (.txn true false)
  | ["T01"] => some (.txn false true) | ["T00"] => some (.txn false false)
  | ["p", n, ty, cov] => do some (.op (.put (← parseName n) (← parseKey ty cov)))
  | ["r", n, ty, cov] => do some (.op (.put (← parseName n) (← parseKey ty cov)))
  | ["dn", n] => do some (.op (.delName (← parseName n)))
  | ["dr", n, ty, cov] => do some (.op (.delRds (← parseName n) (← parseKey ty cov)))
  | ["dx", n, ty, cov, h] => do some (.op (.delRdata (← parseName n) (← parseKey ty cov) (← parseBool h)))
  | ["Q", n] => do some (.query (← parseName n))
  | _ => none

def insertSorted (x : Nat × Nat) : List (Nat × Nat) → List (Nat × Nat)
  | [] => [x]
  | y :: r => if x.1 < y.1 || (x.1 == y.1 && x.2 ≤ y.2) then x :: y :: r else y :: insertSorted x r

def showRds (rds : List RdKey) : String :=
  "+".intercalate ((rds.foldr insertSorted []).map fun k => s!"{k.1}.{k.2}")

def showSnap (nodes : Nodes) (delegs : List Name) : String :=
  "{" ++ ";".intercalate (nodes.map fun e => s!"{showName e.1}={e.2.flags.toNat}={showRds e.2.rds}")
    ++ "|" ++ ";".intercalate (delegs.map showName) ++ "}"

def showErr : ZErr → String
  | .keyError => "!K" | .valueError => "!V" | .assertion => "!A"

def showBounds (b : Bounds) : String :=
  let r := match b.right with | some n => showName n | none => "none"
  s!"B:{showName b.left}/{r}/{showName b.closestEncloser}/{if b.isEqual then 1 else 0}/{if b.isDelegation then 1 else 0}"

structure St where
  z : ZState
  cur : Option (Option Ver × Bool)     -- open transaction: version (none = begin failed), commit flag
  out : List String

/-- the snapshot the *specification* assigns to this content -/
def specSnap (cfg : Cfg) (nodes : Nodes) : String :=
  showSnap (nodes.map fun e => (e.1, { e.2 with flags := flagsSpec cfg nodes e.1 })) (delegsSpec cfg nodes)

def closeTxn (spec : Bool) (cfg : Cfg) (s : St) : St :=
  match s.cur with
  | none => s
  | some (none, _) => { s with cur := none, out := "E!V" :: s.out }
  | some (some ver, c) =>
    let z' := endTxn s.z ver c
    let snap := match z' with
      | some (n, d) => "C" ++ (if spec then specSnap cfg n else showSnap n d)
      | none => "C-"
    { z := z', cur := none, out := snap :: s.out }

def stepItem (spec quiet : Bool) (v : Variant) (cfg : Cfg) (s : St) : Item → St
  | .txn r c =>
    let s := closeTxn spec cfg s
    match beginTxn s.z r with
    | .ok ver => { s with cur := some (some ver, c) }
    | .error _ => { s with cur := some (none, c) }
  | .op o =>
    match s.cur with
    | some (some ver, c) =>
      match applyOp v cfg ver o with
      | .ok ver' =>
        { s with cur := some (some ver', c),
                 out := if spec || quiet then s.out else ("+" ++ showSnap ver'.nodes ver'.delegs) :: s.out }
      | .error e =>
        { s with out := if spec || quiet then s.out else (showErr e ++ showSnap ver.nodes ver.delegs) :: s.out }
    | _ => { s with out := if spec || quiet then s.out else "-" :: s.out }
  | .query n =>
    let s := closeTxn spec cfg s
    match s.z with
    | none => { s with out := "B!N" :: s.out }
    | some (nodes, delegs) =>
      if spec then
        match vname cfg n with
        | .error e => { s with out := ("B" ++ showErr e) :: s.out }
        | .ok name =>
          match boundsSpec cfg nodes name with
          | some b => { s with out := showBounds b :: s.out }
          | none => { s with out := "B!A" :: s.out }
      else
        match bounds v cfg nodes delegs n with
        | .ok b => { s with out := showBounds b :: s.out }
        | .error e => { s with out := ("B" ++ showErr e) :: s.out }

/-! `c20.guard`: the decidable guards of the theorems of record (`Model.BTZ.opGuard`, `boundsGuard`) along a history -/

structure GSt where
  z : ZState
  cur : Option (Option Ver × Bool)
  ok : Bool                 -- guard of the history so far
  out : List String

def gClose (s : GSt) : GSt :=
  match s.cur with
  | none => s
  | some (none, _) => { s with cur := none, out := (if s.ok then "g1" else "g0") :: s.out }
  | some (some ver, c) =>
    { s with z := endTxn s.z ver c, cur := none, out := (if s.ok then "g1" else "g0") :: s.out }

def gStep (v : Variant) (cfg : Cfg) (s : GSt) : Item → GSt
  | .txn r c =>
    let s := gClose s
    match beginTxn s.z r with
    | .ok ver => { s with cur := some (some ver, c) }
    | .error _ => { s with cur := some (none, c) }
  | .op o =>
    match s.cur with
    | some (some ver, c) =>
      { s with cur := some (some (stepOp v cfg ver o), c), ok := s.ok && opGuard v cfg ver o }
    | _ => s
  | .query n =>
    let s := gClose s
    match s.z with
    | none => { s with out := "q1" :: s.out }
    | some (nodes, delegs) =>
      let qg := match vname cfg n with
        | .ok name => boundsGuard v cfg nodes delegs name
        | .error _ => true
      { s with out := (if s.ok && qg then "q1" else "q0") :: s.out }

def runGuard (v : Variant) (cfg : Cfg) (z0 : ZState) (items : List Item) : String :=
  let s := gClose (items.foldl (gStep v cfg) { z := z0, cur := none, ok := true, out := [] })
  " ".intercalate ("ok" :: s.out.reverse)

def runLine (spec quiet : Bool) (v : Variant) (cfg : Cfg) (z0 : ZState) (items : List Item) : String :=
  let s := closeTxn spec cfg (items.foldl (stepItem spec quiet v cfg) { z := z0, cur := none, out := [] })
  " ".intercalate ("ok" :: s.out.reverse)

end C20

def handleC20 : List String → Option String
  | "c20.hist" :: rel :: origin :: vb :: init :: items => do
    let rel ← parseBool rel
    let origin ← parseName origin
    let v ← C20.parseVariant vb
    let init ← parseBool init
    let items ← items.mapM C20.parseItem
    some (C20.runLine false false v { origin := origin, relativize := rel } (initState init) items)
  | "c20.load" :: rel :: origin :: vb :: init :: items => do
    -- same history, observed only at commits and queries (what a zone loaded from text lets one see)
    let rel ← parseBool rel
    let origin ← parseName origin
    let v ← C20.parseVariant vb
    let init ← parseBool init
    let items ← items.mapM C20.parseItem
    some (C20.runLine false true v { origin := origin, relativize := rel } (initState init) items)
  | "c20.guard" :: rel :: origin :: vb :: init :: items => do
    -- the guards of `flags_eq_spec_partial` / `bounds_eq_spec_partial` along the history: `g1` after a
    -- transaction while every operation so far met its guard, `q1` for a query that also meets the query guard
    let rel ← parseBool rel
    let origin ← parseName origin
    let v ← C20.parseVariant vb
    let init ← parseBool init
    let items ← items.mapM C20.parseItem
    some (C20.runGuard v { origin := origin, relativize := rel } (initState init) items)
  | "c20.spec" :: rel :: origin :: init :: items => do
    -- what the *specification* (Model.BTZ.flagsSpec / delegsSpec / boundsSpec) says after each commit and for
    -- each query; compared with the harness' recompute-from-definition oracle
    let rel ← parseBool rel
    let origin ← parseName origin
    let init ← parseBool init
    let items ← items.mapM C20.parseItem
    some (C20.runLine true false intended { origin := origin, relativize := rel } (initState init) items)
  | _ => none

end Driver

import Driver.Util
/-! driver ops of C20 (prefix `c20.`); filled in by the C20 work -/
namespace Driver
open Model

def handleC20 : List String → Option String
  | _ => none

end Driver

import Driver.Util
import Model.Dnssec
import Generated.C15
/-! driver ops of C15 (prefix `c15.`).

Syntax of composite tokens (no spaces inside a token):
  field    `r<hex>` (opaque octets, `r-` empty) | `n<name>`          name as in `Driver.Util.parseName`
  rdata    fields joined by `/`; `_` = no field
  windows  `w:hex;w:hex`
  node     `name|t1,t2,…`                     (sign zone)
  zmnode   `name|rds|rds…`, rds = `type:covers:class:ttl:rdata~rdata…`   (zonemd)
-/
namespace Driver
open Model Model.Dnssec

def parseField (s : String) : Option Field :=
  match s.toList with
  | 'r' :: rest => (ofHex (String.ofList rest)).map Field.raw
  | 'n' :: rest => (parseName (String.ofList rest)).map Field.name
  | _ => none

def parseRdata (s : String) : Option Rdata :=
  if s = "_" then some [] else (splitOnChar s '/').mapM parseField

def showDErr {α} (f : α → String) : Except DErr α → String
  | .ok a => "ok " ++ f a
  | .error e => "err " ++ e.toString

def parseNatList (s : String) : Option (List Nat) :=
  if s = "-" then some [] else (splitOnChar s ',').mapM String.toNat?

def showWindows (ws : List (Nat × Bytes)) : String :=
  if ws.isEmpty then "-" else ";".intercalate (ws.map fun w => toString w.1 ++ ":" ++ toHexP w.2)

def parseZNode (s : String) : Option ZNode :=
  match splitOnChar s '|' with
  | [n, ts] => do
    let n ← parseName n
    let ts ← parseNatList ts
    some { name := n, types := ts }
  | _ => none

def parseRds (s : String) : Option ZRdataset :=
  match splitOnChar s ':' with
  | [ty, cov, cls, ttl, rds] => do
    let ty ← ty.toNat?; let cov ← cov.toNat?; let cls ← cls.toNat?; let ttl ← ttl.toNat?
    let rds ← (splitOnChar rds '~').mapM parseRdata
    some { rdtype := ty, covers := cov, rdclass := cls, ttl := ttl, rdatas := rds }
  | _ => none

def parseZMNode (s : String) : Option ZMNode :=
  match splitOnChar s '|' with
  | n :: rest => do
    let n ← parseName n
    let rs ← rest.mapM parseRds
    some { name := n, rdatasets := rs }
  | _ => none

def showEvt : Evt → String
  | .sign n ty => "S:" ++ showName n ++ ":" ++ toString ty
  | .nsec o n ws => "N:" ++ showName o ++ ":" ++ showName n ++ ":" ++ showWindows ws

def nsecConsts : NsecConsts :=
  { tNS := ConstsC15.typeNS, tDS := ConstsC15.typeDS, tRRSIG := ConstsC15.typeRRSIG, tNSEC := ConstsC15.typeNSEC }

/-- a toy hash the harness substitutes for SHA-1 in `dns.dnssec` during the NSEC3 correspondence
(the model takes the hash as a parameter; any computable function shared by both sides will do) -/
def toyHash (n : Nat) (data : Bytes) : Bytes :=
  let s := data.foldl (fun s b => (s * 31 + b + 1) % 4294967296) (19088743 + n)
  let rec go (k : Nat) (s : Nat) (acc : Bytes) : Bytes :=
    match k with
    | 0 => acc
    | k + 1 =>
      let s' := (s * 1103515245 + 12345) % 2147483648
      go k s' (acc ++ [s' / 65536 % 256])
  go n s []

def parseTextArg (s : String) : Option (List Nat) := ofHex s

/-- `n:<name>` | `t:<hex of ASCII text>` -/
def parseDomainArg (s : String) : Option DomainArg :=
  match s.toList with
  | 'n' :: ':' :: rest => (parseName (String.ofList rest)).map DomainArg.name
  | 't' :: ':' :: rest => (ofHex (String.ofList rest)).map DomainArg.text
  | _ => none

/-- `none` | `b:<hex>` | `t:<hex of ASCII text>` -/
def parseSaltArg (s : String) : Option SaltArg :=
  if s = "none" then some .none else
  match s.toList with
  | 'b' :: ':' :: rest => (ofHex (String.ofList rest)).map SaltArg.bytes
  | 't' :: ':' :: rest => (ofHex (String.ofList rest)).map SaltArg.text
  | _ => none

/-- `i:<n>` | `t:<hex of ASCII text>` -/
def parseAlgArg (s : String) : Option AlgArg :=
  match s.toList with
  | 'i' :: ':' :: rest => (String.ofList rest).toNat?.map AlgArg.num
  | 't' :: ':' :: rest => (ofHex (String.ofList rest)).map AlgArg.text
  | _ => none

def handleC15 : List String → Option String
  | ["c15.digest", cls, ty, origin, rd, canon] => do
    let cls ← cls.toNat?; let ty ← ty.toNat?
    let origin ← parseOptName origin
    let rd ← parseRdata rd
    let canon ← parseBool canon
    some (showDErr toHexP (if canon then toDigestable ConstsC15.canonTable cls ty rd origin else toWirePlain rd origin))
  | ["c15.namedigest", n, origin] => do
    let n ← parseName n
    let origin ← parseOptName origin
    some (showDErr toHexP (nameDigestable n origin))
  | ["c15.keyid", w] => do
    let w ← ofHex w
    some s!"ok {keyId ConstsC15.algRSAMD5 w}"
  | "c15.rrsigdata" :: tc :: alg :: labels :: ottl :: exp :: inc :: tag :: signer :: origin :: rrname :: rdtype :: rdclass :: rds => do
    let tc ← tc.toNat?; let alg ← alg.toNat?; let labels ← labels.toNat?; let ottl ← ottl.toNat?
    let exp ← exp.toNat?; let inc ← inc.toNat?; let tag ← tag.toNat?
    let signer ← parseName signer
    let origin ← parseOptName origin
    let rrname ← parseName rrname
    let rdtype ← rdtype.toNat?; let rdclass ← rdclass.toNat?
    let rds ← rds.mapM parseRdata
    let sig : RRSig := { typeCovered := tc, algorithm := alg, labels := labels, originalTtl := ottl,
                         expiration := exp, inception := inc, keyTag := tag, signer := signer }
    some (showDErr toHexP (rrsigData ConstsC15.canonTable sig origin rrname rdtype rdclass rds))
  | ["c15.ds", name, key, dt, deny] => do
    let name ← parseName name
    let key ← ofHex key
    let dt ← dt.toNat?
    let deny ← parseNatList deny
    some (showDErr (fun (p : Bytes × Bytes) => toHexP p.1 ++ " " ++ toHexP p.2)
      (makeDsParts ConstsC15.algRSAMD5 deny name key dt))
  | ["c15.nsec3", name, salt, iters, alg] => do
    let name ← parseName name
    let salt ← ofHex salt
    let iters ← iters.toNat?
    let alg ← alg.toNat?
    some (showDErr (fun cs => String.ofList (cs.map Char.ofNat)) (nsec3Hash (toyHash 20) name salt iters alg))
  | ["c15.nsec3args", domain, salt, iters, alg] => do
    let domain ← parseDomainArg domain
    let salt ← parseSaltArg salt
    let iters ← iters.toNat?
    let alg ← parseAlgArg alg
    some (showDErr (fun cs => String.ofList (cs.map Char.ofNat)) (nsec3HashArgs (toyHash 20) domain salt iters alg))
  | ["c15.nsec3owner", domain, salt, iters, alg, zone] => do
    let domain ← parseDomainArg domain
    let salt ← parseSaltArg salt
    let iters ← iters.toNat?
    let alg ← parseAlgArg alg
    let zone ← parseName zone
    some (showDErr showName (nsec3Owner (toyHash 20) domain salt iters alg zone))
  | ["c15.bitmap", ts] => do
    let ts ← parseNatList ts
    let ws := fromRdtypes ts
    some ("ok " ++ showWindows ws ++ " " ++ toHexP (bitmapWire ws))
  | "c15.signzone" :: origin :: signer :: nodes => do
    let origin ← parseName origin
    let signer ← parseBool signer
    let nodes ← nodes.mapM parseZNode
    let evts := signZoneNsec nsecConsts origin nodes signer
    some ("ok " ++ (if evts.isEmpty then "-" else " ".intercalate (evts.map showEvt)))
  | "c15.chainspec" :: origin :: nodes => do
    let origin ← parseName origin
    let nodes ← nodes.mapM parseZNode
    let L := insSort (fun a b => nameLe a.name b.name) nodes
    let (a, b, c, d) := chainHyps L
    let sec := secure nsecConsts origin L
    some (s!"ok {a} {b} {c} {d} " ++ (if sec.isEmpty then "-" else ";".intercalate (sec.map fun z => showName z.name)))
  | ["c15.nsecrdata", next, origin, ts] => do
    let next ← parseName next
    let origin ← parseOptName origin
    let ts ← parseNatList ts
    some (showDErr toHexP (nsecRdata next origin (fromRdtypes ts)))
  | "c15.zonemd" :: origin :: rel :: alg :: scheme :: nodes => do
    let origin ← parseName origin
    let rel ← parseBool rel
    let alg ← alg.toNat?; let scheme ← scheme.toNat?
    let nodes ← nodes.mapM parseZMNode
    some (showDErr toHexP (zonemdCompute ConstsC15.zonemdHashes ConstsC15.typeZONEMD ConstsC15.canonTable origin rel alg scheme nodes))
  | _ => none

end Driver

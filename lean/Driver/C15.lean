import Driver.Util
/-! driver ops of C15 (prefix `c15.`); filled in by the C15 work -/
namespace Driver
open Model

def handleC15 : List String → Option String
  | _ => none

end Driver

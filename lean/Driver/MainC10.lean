import Driver.Loop
import Driver.Name
import Driver.C10
/-! native driver of C10: its own ops plus the shared name ops (`n.*`) -/
def main : IO Unit := Driver.runMain [Driver.handleC10, Driver.handleName]

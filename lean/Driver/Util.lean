import Model.Bytes
import Model.Name
/-! Parsing/printing glue of the line protocol (trusted, tested by the correspondence check itself). -/
namespace Driver
open Model

def splitOnChar (s : String) (c : Char) : List String := s.splitOn (String.singleton c)

/-- name syntax: `@` = empty name; otherwise comma-separated hex labels, `-` = empty label -/
def parseName (s : String) : Option Name :=
  if s = "@" then some [] else (splitOnChar s ',').mapM ofHex

def showName (n : Name) : String :=
  if n.isEmpty then "@" else ",".intercalate (n.map toHexP)

def parseOptName (s : String) : Option (Option Name) :=
  if s = "none" then some none else (parseName s).map some

def parseBool (s : String) : Option Bool :=
  if s = "1" then some true else if s = "0" then some false else none

def showInt (i : Int) : String := toString i

def signOf (i : Int) : String := if i < 0 then "-1" else if i > 0 then "1" else "0"

def exceptName (r : Except NameErr Name) : String :=
  match r with
  | .ok n => "ok " ++ showName n
  | .error e => "err " ++ e.toString

end Driver

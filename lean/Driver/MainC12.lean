import Driver.Loop
import Driver.Name
import Driver.C12
/-! native driver of C12: its own ops plus the shared name ops (`n.*`) -/
def main : IO Unit := Driver.runMain [Driver.handleC12, Driver.handleName]

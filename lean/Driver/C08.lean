import Driver.C03
/-! driver ops of C08 (prefix `c08.`): size-limit sweeps, pad sweeps, step-by-step renderer traces.
Falls through to the `c03.` ops (same message syntax). -/
namespace Driver
open Model

/-- zlib's adler32 -/
def adler32 (b : Bytes) : Nat :=
  let r := b.foldl (fun (p : Nat × Nat) x => let a := (p.1 + x) % 65521; (a, (p.2 + a) % 65521)) (1, 0)
  r.2 * 65536 + r.1

def outcome (r : Except RErr Bytes) : String :=
  match r with
  | .ok b => s!"{b.length}.{adler32 b}"
  | .error e => "E" ++ e.toString

/-- run-length encode the outcomes over consecutive keys: `lo-hi=outcome` -/
def rle : List (Nat × String) → List String
  | [] => []
  | (k, v) :: rest =>
    let rec go (lo hi : Nat) (v : String) : List (Nat × String) → List String
      | [] => [s!"{lo}-{hi}={v}"]
      | (k', v') :: rest' => if v' = v then go lo k' v rest' else s!"{lo}-{hi}={v}" :: go k' k' v' rest'
    go k k v rest

def handleC08 : List String → Option String
  | "c08.sweep" :: lo :: hi :: pt :: rest => do
    let m ← parseMsgTokens rest
    let lo ← lo.toNat?
    let hi ← hi.toNat?
    let pt ← parseBool pt
    let rs := (List.range (hi + 1 - lo)).map fun i => (lo + i, outcome (m.toWire (lo + i) pt))
    some ("ok " ++ " ".intercalate (rle rs))
  | "c08.pads" :: ms :: pt :: pads :: rest => do
    let m ← parseMsgTokens rest
    let ms ← ms.toNat?
    let pt ← parseBool pt
    let pads ← (pads.splitOn ",").mapM String.toNat?
    let rs := pads.map fun p => s!"{p}={outcome ({ m with pad := p }.toWire ms pt)}"
    some ("ok " ++ " ".intercalate rs)
  | "c08.limits" :: pt :: lims :: rest => do
    let m ← parseMsgTokens rest
    let pt ← parseBool pt
    let lims ← (lims.splitOn ",").mapM String.toNat?
    let rs := lims.map fun l => s!"{l}={outcome (m.toWire l pt)}"
    some ("ok " ++ " ".intercalate rs)
  | "c08.robj" :: ms :: res :: pad :: osz :: tsz :: hm :: xf :: rest => do
    -- the Renderer object route: [reserve] add_question/add_rrset… [release_reserved] add_opt(pad, opt_size, tsig_size)
    -- write_header add_tsig/add_multi_tsig [write_header]
    let m ← parseMsgTokens rest
    let ms ← ms.toNat?
    let res ← res.toNat?
    let pad ← pad.toNat?
    let osz ← osz.toNat?
    let tsz ← tsz.toNat?
    let hm ← hm.toNat?
    let xf ← xf.toNat?
    let s0 := RState.init m.id m.flags ms m.origin
    -- xf bit 1: a reserve() that cannot succeed comes first (the caller catches ValueError and carries on)
    let (s0, tr0) : RState × List String :=
      if xf % 2 = 1 then
        (match s0.reserve (ms + 1 + osz) with
          | .ok s => (s, ["res:ok"])
          | .error e => (s0, ["res:err:" ++ e.toString]))
      else (s0, [])
    let s1 : Except RErr RState :=
      if res = 1 then (match s0.reserve osz with | .ok s => s.reserve tsz | .error e => .error e) else .ok s0
    match s1 with
    | .error e => some ("err " ++ e.toString)
    | .ok s =>
      let (s, tr) := stepsGo s m.items tr0
      -- xf bit 4: an add that goes back to an earlier section (FormError, nothing changes)
      let (s, tr) : RState × List String :=
        if xf / 4 % 2 = 1 ∧ s.sec > 1 then
          (match m.an.head? with
            | none => (s, tr)
            | some r =>
              match s.addRRset 1 r with
              | .ok s' => (s', tr ++ [s!"ooo:ok:{s'.out.length}"])
              | .tooBig s' => (s', tr ++ [s!"ooo:big:{s'.out.length}"])
              | .err e => (s, tr ++ ["ooo:err:" ++ e.toString]))
        else (s, tr)
      let s := if res = 1 then s.releaseReserved else s
      -- xf bit 2: release_reserved() a second time
      let s := if xf / 2 % 2 = 1 then s.releaseReserved else s
      let (s, tr) := match m.opt with
        | none => (s, tr)
        | some o =>
          match s.addOpt o pad osz tsz with
          | .ok s' => (s', tr ++ [s!"opt:ok:{s'.out.length}"])
          | .tooBig s' => (s', tr ++ [s!"opt:big:{s'.out.length}"])
          | .err e => (s, tr ++ ["opt:err:" ++ e.toString])
      let s := if hm != 1 then s.writeHeader else s
      let (s, tr) := match m.tsig with
        | none => (s, tr)
        | some t =>
          match s.writeTsig t with
          | .ok s' => (s', tr ++ [s!"tsig:ok:{s'.out.length}"])
          | .tooBig s' => (s', tr ++ [s!"tsig:big:{s'.out.length}"])
          | .err e => (s, tr ++ ["tsig:err:" ++ e.toString])
      let s := if hm != 0 then s.writeHeader else s
      some ("ok " ++ " ".intercalate tr ++ s!" out={toHexP s.out} tbl="
        ++ ";".intercalate (s.tbl.map fun p => showName p.1 ++ "@" ++ toString p.2))
  | "c08.steps" :: ms :: res :: rest => do
    let m ← parseMsgTokens rest
    let ms ← ms.toNat?
    let res ← res.toNat?
    match (RState.init m.id m.flags ms m.origin).reserve res with
    | .error e => some ("err " ++ e.toString)
    | .ok s =>
      let (s, tr) := stepsGo s m.items []
      let s := s.releaseReserved.writeHeader
      some ("ok " ++ " ".intercalate tr ++ s!" out={toHexP s.out} max={s.maxSize} tbl="
        ++ ";".intercalate (s.tbl.map fun p => showName p.1 ++ "@" ++ toString p.2))
  | toks => handleC03 toks

end Driver

import Driver.Util
/-! driver ops of C08 (prefix `c08.`); filled in by the C08 work -/
namespace Driver
open Model

def handleC08 : List String → Option String
  | _ => none

end Driver

import Driver.Loop
import Driver.Name
import Driver.C13
/-! native driver of C13: its own ops plus the shared name ops (`n.*`) -/
def main : IO Unit := Driver.runMain [Driver.handleC13, Driver.handleName]

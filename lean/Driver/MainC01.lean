import Driver.Loop
import Driver.Name
import Driver.C01
/-! native driver of C01: its own ops plus the shared name ops (`n.*`) -/
def main : IO Unit := Driver.runMain [Driver.handleC01, Driver.handleName]

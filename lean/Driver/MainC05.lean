import Driver.Loop
import Driver.Name
import Driver.C05
/-! native driver of C05: its own ops plus the shared name ops (`n.*`) -/
def main : IO Unit := Driver.runMain [Driver.handleC05, Driver.handleName]

import Driver.Loop
import Driver.Name
import Driver.C19
/-! native driver of C19: its own ops plus the shared name ops (`n.*`) -/
def main : IO Unit := Driver.runMain [Driver.handleC19, Driver.handleName]

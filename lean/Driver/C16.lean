import Driver.Util
import Model.Resolver
import Model.ResolverCode
import Model.ResolverName
import Proofs.ResolverSpec
/-!
driver ops of C16 (prefix `c16.`)

```
c16.qnames  <search names|_> <domain|none> <ndots|none> <usd 0/1> <qname> <search none/0/1>
c16.chain   <resp> <qname> <class> <type>
c16.run     <shipped|clipped> cfg:<servers>:<search>:<domain>:<ndots>:<usd>:<timeout>:<lifetime>:<rsf>:<cache>
            req:<qname>:<type>:<class>:<tcp>:<rona>:<search>:<lifetime>:<gap>  …   (one per resolution)
            x:<kind>:<dur> | r:<dur>:<rcode>:<qr>:<qcount>:<answer>:<authority>  …   (the script, shared)
```
servers `id.alwaysMax/…`; name lists joined by `/`; `_` = empty list; RRset `owner+class+type+ttl+target`;
SOA `owner+class+ttl+minimum`.
-/
namespace Driver
open Model Model.Resolver

def splitList (s : String) (sep : Char) : List String :=
  if s = "_" then [] else splitOnChar s sep

def parseOptNat (s : String) : Option (Option Nat) :=
  if s = "none" then some none else s.toNat?.map some

def parseOptBool (s : String) : Option (Option Bool) :=
  if s = "none" then some none else (parseBool s).map some

def parseNames (s : String) : Option (List Name) := (splitList s '/').mapM parseName

def parseServer (s : String) : Option Server :=
  match splitOnChar s '.' with
  | [i, a] => do
    let i ← i.toNat?
    let a ← parseBool a
    some { id := i, alwaysMax := a }
  | _ => none

def parseRR (s : String) : Option RRset :=
  match splitOnChar s '+' with
  | [o, c, t, ttl, tg] => do
    let o ← parseName o
    let c ← c.toNat?
    let t ← t.toNat?
    let ttl ← ttl.toNat?
    let tg ← parseName tg
    some { owner := o, rdclass := c, rdtype := t, ttl := ttl, target := tg }
  | _ => none

def parseSoa (s : String) : Option Soa :=
  match splitOnChar s '+' with
  | [o, c, ttl, m] => do
    let o ← parseName o
    let c ← c.toNat?
    let ttl ← ttl.toNat?
    let m ← m.toNat?
    some { owner := o, rdclass := c, ttl := ttl, minimum := m }
  | _ => none

def parseResp (rcode qr qcount ans auth : String) : Option Resp := do
  let rcode ← rcode.toNat?
  let qr ← parseBool qr
  let qcount ← qcount.toNat?
  let ans ← (splitList ans '/').mapM parseRR
  let auth ← (splitList auth '/').mapM parseSoa
  some { rcode := rcode, qr := qr, qcount := qcount, answer := ans, authority := auth }

def parseExKind : String → Option ExKind
  | "form" => some .formError | "eof" => some .eof | "os" => some .os | "notimpl" => some .notImpl
  | "trunc" => some .truncated | "timeout" => some .timeout | "other" => some .other
  | _ => none

def showExKind : ExKind → String
  | .formError => "form" | .eof => "eof" | .os => "os" | .notImpl => "notimpl"
  | .truncated => "trunc" | .timeout => "timeout" | .other => "other"

def parseStep (s : String) : Option ScriptStep :=
  match splitOnChar s ':' with
  | ["x", k, d] => do
    let k ← parseExKind k
    let d ← d.toNat?
    some { out := .exc k, dur := d }
  | ["r", d, rcode, qr, qcount, ans, auth] => do
    let d ← d.toNat?
    let r ← parseResp rcode qr qcount ans auth
    some { out := .resp r, dur := d }
  | _ => none

def parseCfg (s : String) : Option Config :=
  match splitOnChar s ':' with
  | ["cfg", servers, search, domain, ndots, usd, timeout, lifetime, rsf, cache] => do
    let servers ← (splitList servers '/').mapM parseServer
    let search ← parseNames search
    let domain ← parseOptName domain
    let ndots ← parseOptNat ndots
    let usd ← parseBool usd
    let timeout ← timeout.toNat?
    let lifetime ← lifetime.toNat?
    let rsf ← parseBool rsf
    let cache ← parseBool cache
    some { servers := servers, search := search, domain := domain, ndots := ndots, useSearchByDefault := usd,
           timeout := timeout, lifetime := lifetime, retryServfail := rsf, cacheOn := cache }
  | _ => none

def parseReq (s : String) : Option (Request × Nat) :=
  match splitOnChar s ':' with
  | ["req", q, ty, cls, tcp, rona, search, life, gap] => do
    let q ← parseName q
    let ty ← ty.toNat?
    let cls ← cls.toNat?
    let tcp ← parseBool tcp
    let rona ← parseBool rona
    let search ← parseOptBool search
    let life ← parseOptNat life
    let gap ← gap.toNat?
    some ({ qname := q, rdtype := ty, rdclass := cls, tcp := tcp, raiseOnNoAnswer := rona, search := search,
            lifetime := life }, gap)
  | _ => none

def b01 (b : Bool) : String := if b then "1" else "0"

def showOutcome : Outcome → String
  | .exc k => showExKind k
  | .resp r => "rc" ++ toString r.rcode

def showEvent : Event → String
  | .candidate _ => ""
  | .sleep ms => "s" ++ toString ms
  | .query q ns tcp t out =>
    "q:" ++ showName q ++ ":" ++ toString ns.id ++ ":" ++ b01 tcp ++ ":" ++ toString t ++ ":" ++ showOutcome out

def showNames (ns : List Name) : String :=
  if ns.isEmpty then "_" else "/".intercalate (ns.map showName)

def showAnswer (a : Answer) : String :=
  "ans:" ++ showName a.qname ++ ":" ++ toString a.rdtype ++ ":" ++ toString a.rdclass ++ ":" ++ showName a.canonical
    ++ ":" ++ b01 a.hasRRset ++ ":" ++ toString a.minTtl ++ ":" ++ toString a.expiration ++ ":"
    ++ (match a.server with | some s => toString s | none => "none")

def showResult : Result → String
  | .answer a => showAnswer a
  | .nxdomain qs rs => "NXDOMAIN:" ++ showNames qs ++ ":" ++ showNames rs
  | .noAnswer => "NoAnswer"
  | .yxdomain => "YXDOMAIN"
  | .noNameservers => "NoNameservers"
  | .lifetimeTimeout => "LifetimeTimeout"
  | .nameError e => "NameError:" ++ e.toString
  | .noMetaqueries => "NoMetaqueries"
  | .outOfFuel => "OutOfFuel"

def strLe (a b : String) : Bool := !(b < a)

/-- live entries at `now`, printed `name/type/class/expiration/hasRRset/rcode`, sorted -/
def showCache (c : Cache) (now : Nat) : String :=
  let live := c.filter fun e => now < e.2.expiration
  let strs := live.map fun e =>
    showName e.1.1 ++ "/" ++ toString e.1.2.1 ++ "/" ++ toString e.1.2.2 ++ "/" ++ toString e.2.expiration ++ "/"
      ++ b01 e.2.hasRRset ++ "/" ++ toString e.2.rcode
  if strs.isEmpty then "_" else ";".intercalate (strs.mergeSort strLe)

def runHistory (cfg : Config) (clip : Bool) : List (Request × Nat) → Nat → Cache → List ScriptStep → List String → List String
  | [], _, _, _, acc => acc.reverse
  | (req, gap) :: rest, now, cache, script, acc =>
    let start := now + gap
    let (evs, r, st) := resolve cfg codeBackoff clip ConstsC16.maxChain req start cache script
    let sp := spec cfg codeBackoff clip ConstsC16.maxChain req start cache script
    -- the independent specification is run next to the model; any difference is made visible to the differ
    let agree := showResult sp.1 == showResult r && sp.2.now == st.now && sp.2.script == st.script
      && showCache sp.2.cache sp.2.now == showCache st.cache st.now
    let line := " ".intercalate ((evs.map showEvent).filter (· ≠ "")) ++ " => " ++ showResult r ++ " end=" ++ toString st.now
      ++ " cache=" ++ showCache st.cache st.now ++ (if agree then "" else " SPEC-DIFFERS:" ++ showResult sp.1)
    runHistory cfg clip rest st.now st.cache st.script (line :: acc)

def showChain (r : Except ChainErr ChainResult) : String :=
  match r with
  | .error .notQueryResponse => "err NotQueryResponse"
  | .error .formError => "err FormError"
  | .error .chainTooLong => "err ChainTooLong"
  | .error .answerForNXDOMAIN => "err AnswerForNXDOMAIN"
  | .ok c => "ok " ++ showName c.canonical ++ " " ++ b01 c.answer.isSome ++ " " ++ toString c.minTtl ++ " "
      ++ showNames (c.cnames.map (·.owner))

def handleC16 : List String → Option String
  | ["c16.qnames", search, domain, ndots, usd, q, s] => do
    let search ← parseNames search
    let domain ← parseOptName domain
    let ndots ← parseOptNat ndots
    let usd ← parseBool usd
    let q ← parseName q
    let s ← parseOptBool s
    let cfg : Config := { servers := [], search := search, domain := domain, ndots := ndots,
                          useSearchByDefault := usd, timeout := 0, lifetime := 0, retryServfail := false,
                          cacheOn := false }
    some (match getQnamesToTry cfg q s with
      | .ok l => "ok " ++ showNames l
      | .error e => "err " ++ e.toString)
  | ["c16.chain", resp, q, cls, ty] => do
    let r ← match splitOnChar resp ':' with
      | [rcode, qr, qcount, ans, auth] => parseResp rcode qr qcount ans auth
      | _ => none
    let q ← parseName q
    let cls ← cls.toNat?
    let ty ← ty.toNat?
    some (showChain (resolveChaining ConstsC16.maxChain r q cls ty))
  | ["c16.timeout", life, timeout, start, now] => do
    let life ← life.toNat?
    let timeout ← timeout.toNat?
    let start ← start.toInt?
    let now ← now.toInt?
    some (match computeTimeoutZ life timeout start now with
      | some t => "ok " ++ toString t
      | none => "LifetimeTimeout")
  | "c16.rname" :: variant :: cfg :: nreq :: rest => do
    let clip ← (if variant = "shipped" then some false else if variant = "clipped" then some true else none)
    let cfg ← parseCfg cfg
    let script ← rest.mapM parseStep
    let (rq, gap) ← match splitOnChar nreq ':' with
      | ["nreq", q, fam, tcp, rona, search, life, gap] => do
        let q ← parseName q
        let fam ← (if fam = "unspec" then some Family.unspec else if fam = "inet" then some Family.inet
                   else if fam = "inet6" then some Family.inet6 else none)
        let tcp ← parseBool tcp
        let rona ← parseBool rona
        let search ← parseOptBool search
        let life ← parseOptNat life
        let gap ← gap.toNat?
        some (({ qname := q, family := fam, tcp := tcp, raiseOnNoAnswer := rona, search := search, lifetime := life } :
                NameReq), gap)
      | _ => none
    let (evs, r, fin) := resolveName cfg codeBackoff clip ConstsC16.maxChain rq gap [] script
    let showOpt := fun (a : Option Answer) => match a with | some a => showAnswer a | none => "-"
    let rs := match r with
      | .answers a6 a4 => "host:" ++ showOpt a6 ++ "|" ++ showOpt a4
      | .raised x => showResult x
    some (" ".intercalate ((evs.map showEvent).filter (· ≠ "")) ++ " => " ++ rs ++ " end=" ++ toString fin.now
      ++ " cache=" ++ showCache fin.cache fin.now)
  | "c16.run" :: variant :: cfg :: rest => do
    let clip ← (if variant = "shipped" then some false else if variant = "clipped" then some true else none)
    let cfg ← parseCfg cfg
    let reqs ← (rest.filter (·.startsWith "req:")).mapM parseReq
    let script ← (rest.filter (fun s => !(s.startsWith "req:"))).mapM parseStep
    some (" || ".intercalate (runHistory cfg clip reqs 0 [] script []))
  | _ => none

end Driver

import Driver.Util
/-! driver ops of C16 (prefix `c16.`); filled in by the C16 work -/
namespace Driver
open Model

def handleC16 : List String → Option String
  | _ => none

end Driver

import Driver.Util
import Model.NameDict
/-! driver ops of C06 (prefix `c06.`): `choose_relativity`, and whole `NameDict` histories on one line -/
namespace Driver
open Model

def showMatch : Option (Name × Nat) → String
  | some (k, v) => s!"ok {showName k}={v}"
  | none => "err KeyError"

partial def runNd (d : NDict) (out : List String) : List String → Option (List String)
  | [] => some out.reverse
  | "set" :: k :: v :: rest => do
    let k ← parseName k; let v ← v.toNat?
    runNd (ndSet d k v) (s!"ok {(ndSet d k v).store.length}" :: out) rest
  | "del" :: k :: rest => do
    let k ← parseName k
    match ndDel d k with
    | some d' => runNd d' (s!"ok {d'.store.length}" :: out) rest
    | none => runNd d ("err KeyError" :: out) rest
  | "has" :: k :: rest => do
    let k ← parseName k
    runNd d ((if ndHas d.store k then "true" else "false") :: out) rest
  | "item" :: k :: rest => do
    let k ← parseName k
    runNd d ((match ndFind d.store k with | some v => s!"ok {v}" | none => "err KeyError") :: out) rest
  | "get" :: k :: rest => do
    let k ← parseName k
    runNd d (showMatch (ndDeepest d k) :: out) rest
  | "keys" :: rest =>
    runNd d (("ok " ++ (if d.store.isEmpty then "-" else ";".intercalate (d.store.map fun p => showName p.1 ++ "=" ++ toString p.2))) :: out) rest
  | _ => none

def handleC06 : List String → Option String
  | ["c06.choose", a, o, rel] => do
    let a ← parseName a; let o ← parseOptName o; let rel ← parseBool rel
    some (exceptName (chooseRelativity06 a o rel))
  | "c06.nd" :: script => do
    let tr ← runNd NDict.empty [] script
    some ("|".intercalate tr)
  | _ => none

end Driver

import Driver.Util
/-! driver ops of C06 (prefix `c06.`) -/
namespace Driver
open Model

def handleC06 : List String → Option String
  | _ => none

end Driver

import Driver.Util
/-! driver ops of C18 (prefix `c18.`); filled in by the C18 work -/
namespace Driver
open Model

def handleC18 : List String → Option String
  | _ => none

end Driver

import Driver.Util
import Model.Net
/-! driver ops of C18 (prefix `c18.`): one scripted exchange per line, whole observable outcome on one line -/
namespace Driver
open Model Model.Net

namespace N18

def stripPrefix (c : Char) (s : String) : Option String :=
  match s.toList with
  | x :: rest => if x = c then some (String.ofList rest) else none
  | [] => none

def parseAddr (s : String) : Option Addr :=
  match s.splitOn "/" with
  | h :: rest => do
    let host ← ofHex h
    let r ← rest.mapM (·.toNat?)
    some ⟨host, r⟩
  | [] => none

def parseOptAddr (s : String) : Option (Option Addr) :=
  if s = "none" then some none else (parseAddr s).map some

def showAddr (a : Addr) : String := "/".intercalate (toHexP a.host :: a.rest.map toString)

def parseOptNat (s : String) : Option (Option Nat) :=
  if s = "none" then some none else s.toNat?.map some

def parseQEntry (s : String) : Option QEntry :=
  match s.splitOn "/" with
  | [n, c, t] => do
    let n ← parseName n
    let c ← c.toNat?
    let t ← t.toNat?
    some ⟨n, c, t⟩
  | _ => none

def parseMsg (s : String) : Option Msg :=
  match s.splitOn "." with
  | [i, f, e, q] => do
    let i ← i.toNat?
    let f ← f.toNat?
    let e ← e.toNat?
    let q ← if q = "-" then some [] else (q.splitOn ";").mapM parseQEntry
    some ⟨i, f, e, q⟩
  | _ => none

def parseOptMsg (s : String) : Option (Option Msg) :=
  if s = "none" then some none else (parseMsg s).map some

def parseQs (q : String) : Option (List QEntry) :=
  if q = "-" then some [] else (q.splitOn ";").mapM parseQEntry

/-- body (what follows the question section): `<edns>~<n|0|1>~<0|1>` -/
def parseBodyToks : List String → Option Body
  | [e, b, t] => do
    let e ← e.toNat?
    let b ← if b = "n" then some none else (parseBool b).map some
    let t ← parseBool t
    some ⟨e, b, t⟩
  | _ => none

/-- datagram: `<hex octets>~<body>` -/
def parseWire (s : String) : Option Wire :=
  match s.splitOn "~" with
  | h :: rest => do
    let h ← ofHex h
    let b ← parseBodyToks rest
    some ⟨h, b⟩
  | [] => none

def parseUEv (s : String) : Option UEv :=
  match s.splitOn "=" with
  | ["D", a, w] => do
    let a ← parseAddr a
    let w ← parseWire w
    some (.dgram a w)
  | [t] => do
    let d ← stripPrefix 'W' t
    let d ← d.toNat?
    some (.block d)
  | _ => none

def parseOpts (s : String) : Option UOpts :=
  match s.toList.mapM (fun c => if c = '1' then some true else if c = '0' then some false else none) with
  | some [a, b, c, d, e] => some ⟨a, b, c, d, e⟩
  | _ => none

def parseREv (s : String) : Option REv :=
  if s = "E" then some .eof
  else match stripPrefix 'D' s with
    | some h => (ofHex h).map .data
    | none => match stripPrefix 'W' s with
      | some d => d.toNat?.map .block
      | none => none

def parseSEv (s : String) : Option SEv :=
  match stripPrefix 'A' s with
  | some k => k.toNat?.map .accept
  | none => match stripPrefix 'W' s with
    | some d => d.toNat?.map .block
    | none => none

def parseBlocks (s : String) : Option (List Nat) :=
  if s = "-" then some [] else (s.splitOn ",").mapM (·.toNat?)

/-- `P<hex>=<body>` -/
def parsePEntry (s : String) : Option (Bytes × Body) :=
  match stripPrefix 'P' s with
  | some r =>
    match r.splitOn "=" with
    | [h, w] => do
      let h ← ofHex h
      let b ← parseBodyToks (w.splitOn "~")
      some (h, b)
    | _ => none
  | none => none

def lookupBody (tbl : List (Bytes × Body)) (frame : Bytes) : Body :=
  match tbl.find? (fun p => p.1 == frame) with
  | some p => p.2
  | none => ⟨0, none, false⟩

def known (tbl : List (Bytes × Body)) (frame : Bytes) : Bool :=
  frame.length < 12 || tbl.any (fun p => p.1 == frame)

def showTcp (frame? : Option Bytes) (r : Bytes × Except Err TRet) : String :=
  match frame? with
  | some frame => s!"sent={toHexP r.1} noparse {toHexP frame}"
  | none =>
    match r.2 with
    | .ok t => s!"sent={toHexP r.1} ok id={t.msg.id} flags={t.msg.flags} frame={toHexP t.frame} t={t.recvTime}"
    | .error e => s!"sent={toHexP r.1} err {e.toString}"

def showRecvTcp (r : Except Err TRet) : String :=
  match r with
  | .ok r => s!"ok id={r.msg.id} flags={r.msg.flags} frame={toHexP r.frame} rest={toHexP (stream r.rest)} t={r.recvTime}"
  | .error e => "err " ++ e.toString

def showF (r : Bytes × Except Err FRet) : String :=
  match r.2 with
  | .ok f => s!"sent={toHexP r.1} ok tcp={if f.usedTcp then 1 else 0} id={f.msg.id} flags={f.msg.flags} t={f.time}"
  | .error e => s!"sent={toHexP r.1} err {e.toString}"

def unknownFrame (tbl : List (Bytes × Body)) (r : Except Err (Bytes × List REv × Nat)) : Option Bytes :=
  match r with
  | .ok (frame, _, _) => if known tbl frame then none else some frame
  | .error _ => none

def showExceptB (r : Except Err Bool) : String :=
  match r with
  | .ok b => "ok " ++ (if b then "1" else "0")
  | .error e => "err " ++ e.toString

def showURet (r : Except Fail URet) : String :=
  match r with
  | .ok r => s!"ok idx={r.idx} id={r.msg.id} flags={r.msg.flags} src={showAddr r.src} t={r.recvTime}"
  | .error f => s!"err {f.err.toString} idx={f.idx}"

def streamRest (evs : List REv) : String := toHexP (stream evs)

/-- split a token list at the first "/" token -/
def splitSlash : List String → List String × List String
  | [] => ([], [])
  | t :: rest => if t = "/" then ([], rest) else let (a, b) := splitSlash rest; (t :: a, b)

end N18
open N18

def handleMore : List String → Option String
  | op :: coe :: q :: af :: dest :: timeout :: opts :: blocks :: now :: evs =>
    if op = "c18.udp" || op = "c18.audp" then do
      let coe ← parseBool coe
      let q ← parseMsg q
      let af ← af.toNat?
      let dest ← parseAddr dest
      let timeout ← parseOptNat timeout
      let o ← parseOpts opts
      let blocks ← parseBlocks blocks
      let now ← now.toNat?
      let evs ← evs.mapM parseUEv
      some (showURet (if op = "c18.udp" then udp coe q af dest timeout o blocks evs now
                      else udpA coe q af dest timeout o blocks evs now))
    else if op = "c18.fallback" || op = "c18.afallback" then do
      -- c18.fallback q qwire af dest timeout opts ublocks now  ptbl / uevs / sevs|tcpblocks / revs
      let qwire ← ofHex q
      let q ← parseMsg coe
      let af ← af.toNat?
      let dest ← parseAddr dest
      let timeout ← parseOptNat timeout
      let o ← parseOpts opts
      let ublocks ← parseBlocks blocks
      let now ← now.toNat?
      let (ptoks, r1) := splitSlash evs
      let (utoks, r2) := splitSlash r1
      let (stoks, rtoks) := splitSlash r2
      let tbl ← ptoks.mapM parsePEntry
      let uevs ← utoks.mapM parseUEv
      let revs ← rtoks.mapM parseREv
      if op = "c18.fallback" then do
        let sevs ← stoks.mapM parseSEv
        some (showF (udpWithFallback q qwire af dest timeout o ublocks uevs (lookupBody tbl) sevs revs now))
      else do
        let tb ← stoks.mapM (·.toNat?)
        some (showF (udpWithFallbackA q qwire af dest timeout o ublocks uevs (lookupBody tbl) tb revs now))
    else none
  | _ => none

def handleStream : List String → Option String
  | "c18.netread" :: count :: timeout :: now :: evs => do
    let count ← count.toNat?
    let timeout ← parseOptNat timeout
    let now ← now.toNat?
    let evs ← evs.mapM parseREv
    some (match netRead evs count (expiration timeout now) now [] with
      | .ok (b, rest, t) => s!"ok {toHexP b} rest={streamRest rest} t={t}"
      | .error e => "err " ++ e.toString)
  | "c18.areadexactly" :: count :: timeout :: now :: evs => do
    let count ← count.toNat?
    let timeout ← parseOptNat timeout
    let now ← now.toNat?
    let evs ← evs.mapM parseREv
    some (match readExactly evs count (expiration timeout now) now with
      | .ok (b, rest, t) => s!"ok {toHexP b} rest={streamRest rest} t={t}"
      | .error e => "err " ++ e.toString)
  | "c18.netwrite" :: data :: timeout :: now :: sevs => do
    let data ← ofHex data
    let timeout ← parseOptNat timeout
    let now ← now.toNat?
    let sevs ← sevs.mapM parseSEv
    some (match netWrite sevs data (expiration timeout now) now [] with
      | (sent, .ok (_, t)) => s!"sent={toHexP sent} ok t={t}"
      | (sent, .error e) => s!"sent={toHexP sent} err {e.toString}")
  | "c18.sendtcp" :: data :: timeout :: now :: sevs => do
    let data ← ofHex data
    let timeout ← parseOptNat timeout
    let now ← now.toNat?
    let sevs ← sevs.mapM parseSEv
    some (match sendTcp data sevs (expiration timeout now) now with
      | (sent, .ok (_, t)) => s!"sent={toHexP sent} ok t={t}"
      | (sent, .error e) => s!"sent={toHexP sent} err {e.toString}")
  | "c18.asendtcp" :: data :: timeout :: now :: blocks => do
    let data ← ofHex data
    let timeout ← parseOptNat timeout
    let now ← now.toNat?
    let blocks ← blocks.mapM (·.toNat?)
    some (match sendTcpA data blocks (expiration timeout now) now with
      | (sent, .ok t) => s!"sent={toHexP sent} ok t={t}"
      | (sent, .error e) => s!"sent={toHexP sent} err {e.toString}")
  | "c18.recvtcp" :: timeout :: now :: it :: toks => do
    let timeout ← parseOptNat timeout
    let now ← now.toNat?
    let it ← parseBool it
    let (ptoks, etoks) := splitSlash toks
    let tbl ← ptoks.mapM parsePEntry
    let evs ← etoks.mapM parseREv
    let exp := expiration timeout now
    some (match unknownFrame tbl (receiveFrame evs exp now) with
      | some frame => "noparse " ++ toHexP frame
      | none => showRecvTcp (receiveTcp (lookupBody tbl) it evs exp now))
  | "c18.arecvtcp" :: timeout :: now :: it :: ie :: toks => do
    let timeout ← parseOptNat timeout
    let now ← now.toNat?
    let it ← parseBool it
    let ie ← parseBool ie
    let (ptoks, etoks) := splitSlash toks
    let tbl ← ptoks.mapM parsePEntry
    let evs ← etoks.mapM parseREv
    let exp := expiration timeout now
    some (match unknownFrame tbl (receiveFrameA evs exp now) with
      | some frame => "noparse " ++ toHexP frame
      | none => showRecvTcp (receiveTcpA (lookupBody tbl) it ie evs exp now))
  | "c18.tcp" :: q :: qwire :: timeout :: it :: now :: toks => do
    let q ← parseMsg q
    let qwire ← ofHex qwire
    let timeout ← parseOptNat timeout
    let it ← parseBool it
    let now ← now.toNat?
    let (ptoks, toks2) := splitSlash toks
    let (stoks, rtoks) := splitSlash toks2
    let tbl ← ptoks.mapM parsePEntry
    let sevs ← stoks.mapM parseSEv
    let revs ← rtoks.mapM parseREv
    let exp := expiration timeout now
    let unknown : Option Bytes :=
      match sendTcp qwire sevs exp now with
      | (_, .ok (_, now1)) => unknownFrame tbl (receiveFrame revs exp now1)
      | _ => none
    some (showTcp unknown (tcp q qwire timeout it (lookupBody tbl) sevs revs now))
  | "c18.atcp" :: q :: qwire :: timeout :: it :: now :: toks => do
    let q ← parseMsg q
    let qwire ← ofHex qwire
    let timeout ← parseOptNat timeout
    let it ← parseBool it
    let now ← now.toNat?
    let (ptoks, toks2) := splitSlash toks
    let (stoks, rtoks) := splitSlash toks2
    let tbl ← ptoks.mapM parsePEntry
    let blocks ← stoks.mapM (·.toNat?)
    let revs ← rtoks.mapM parseREv
    let exp := expiration timeout now
    let unknown : Option Bytes :=
      match sendTcpA qwire blocks exp now with
      | (_, .ok now1) => unknownFrame tbl (receiveFrameA revs exp now1)
      | _ => none
    some (showTcp unknown (tcpA q qwire timeout it (lookupBody tbl) blocks revs now))
  | _ => none

def handleDgram : List String → Option String
  | ["c18.pton", af, h] => do
    let af ← af.toNat?
    let h ← ofHex h
    some (match inetPton af h with
      | .ok b => "ok " ++ toHexP b
      | .syntax => "err Syntax"
      | .notImplemented => "err NotImplemented")
  | ["c18.addreq", af, a, b] => do
    let af ← af.toNat?
    let a ← parseAddr a
    let b ← parseAddr b
    some (showExceptB (addressesEqual af a b))
  | ["c18.mcast", h] => do
    let h ← ofHex h
    some (showExceptB (isMulticast h))
  | ["c18.match", af, src, dest, iu] => do
    let af ← af.toNat?
    let src ← parseAddr src
    let dest ← parseOptAddr dest
    let iu ← parseBool iu
    some (showExceptB (matchesDestination af src dest iu))
  | ["c18.isresp", q, r] => do
    let q ← parseMsg q
    let r ← parseMsg r
    some ("ok " ++ (if isResponse q r then "1" else "0"))
  | ["c18.fromwire", w, it, rt, coe] => do
    let w ← parseWire w
    let it ← parseBool it
    let rt ← parseBool rt
    let coe ← parseBool coe
    some (match fromWire w it rt coe with
      | .ok m => s!"ok id={m.id} flags={m.flags} nq={m.question.length}"
      | .error .formError => "err FormError"
      | .error .other => "err OtherParse"
      | .error (.truncated m) => s!"err Truncated id={m.id} flags={m.flags} nq={m.question.length}")
  | op :: coe :: af :: dest :: timeout :: opts :: query :: now :: evs =>
    if op = "c18.recvudp" || op = "c18.arecvudp" then do
      let coe ← parseBool coe
      let af ← af.toNat?
      let dest ← parseOptAddr dest
      let timeout ← parseOptNat timeout
      let o ← parseOpts opts
      let query ← parseOptMsg query
      let now ← now.toNat?
      let evs ← evs.mapM parseUEv
      let exp := expiration timeout now
      some (showURet (if op = "c18.recvudp" then receiveUdp coe af dest exp o query evs now 0
                      else receiveUdpA coe af dest exp o query evs (timeoutOf exp now) now 0))
    else handleMore (op :: coe :: af :: dest :: timeout :: opts :: query :: now :: evs)
  | toks => handleMore toks

def handleC18 : List String → Option String := fun t =>
  match handleDgram t with
  | some r => some r
  | none => handleStream t

end Driver

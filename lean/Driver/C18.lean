import Driver.Util
import Model.Net
/-! driver ops of C18 (prefix `c18.`): one scripted exchange per line, whole observable outcome on one line -/
namespace Driver
open Model Model.Net

namespace N18

def stripPrefix (c : Char) (s : String) : Option String :=
  match s.toList with
  | x :: rest => if x = c then some (String.ofList rest) else none
  | [] => none

def parseAddr (s : String) : Option Addr :=
  match s.splitOn "/" with
  | h :: rest => do
    let host ← ofHex h
    let r ← rest.mapM (·.toNat?)
    some ⟨host, r⟩
  | [] => none

def parseOptAddr (s : String) : Option (Option Addr) :=
  if s = "none" then some none else (parseAddr s).map some

def showAddr (a : Addr) : String := "/".intercalate (toHexP a.host :: a.rest.map toString)

def parseOptNat (s : String) : Option (Option Nat) :=
  if s = "none" then some none else s.toNat?.map some

def parseQEntry (s : String) : Option QEntry :=
  match s.splitOn "/" with
  | [n, c, t] => do
    let n ← parseName n
    let c ← c.toNat?
    let t ← t.toNat?
    some ⟨n, c, t⟩
  | _ => none

def parseMsg (s : String) : Option Msg :=
  match s.splitOn "." with
  | [i, f, e, q] => do
    let i ← i.toNat?
    let f ← f.toNat?
    let e ← e.toNat?
    let q ← if q = "-" then some [] else (q.splitOn ";").mapM parseQEntry
    some ⟨i, f, e, q⟩
  | _ => none

def parseOptMsg (s : String) : Option (Option Msg) :=
  if s = "none" then some none else (parseMsg s).map some

def parseWire (s : String) : Option Wire :=
  match s.splitOn "~" with
  | ["S"] => some .short
  | ["B", m, fe] => do
    let m ← parseMsg m
    let fe ← parseBool fe
    some (.broken m fe)
  | ["F", m, tr] => do
    let m ← parseMsg m
    let tr ← parseBool tr
    some (.full m tr)
  | _ => none

def parseUEv (s : String) : Option UEv :=
  match s.splitOn "=" with
  | ["D", a, w] => do
    let a ← parseAddr a
    let w ← parseWire w
    some (.dgram a w)
  | [t] => do
    let d ← stripPrefix 'W' t
    let d ← d.toNat?
    some (.block d)
  | _ => none

def parseOpts (s : String) : Option UOpts :=
  match s.toList.mapM (fun c => if c = '1' then some true else if c = '0' then some false else none) with
  | some [a, b, c, d, e] => some ⟨a, b, c, d, e⟩
  | _ => none

def parseREv (s : String) : Option REv :=
  if s = "E" then some .eof
  else match stripPrefix 'D' s with
    | some h => (ofHex h).map .data
    | none => match stripPrefix 'W' s with
      | some d => d.toNat?.map .block
      | none => none

def parseSEv (s : String) : Option SEv :=
  match stripPrefix 'A' s with
  | some k => k.toNat?.map .accept
  | none => match stripPrefix 'W' s with
    | some d => d.toNat?.map .block
    | none => none

def parseBlocks (s : String) : Option (List Nat) :=
  if s = "-" then some [] else (s.splitOn ",").mapM (·.toNat?)

/-- `P<hex>=<wire>` -/
def parsePEntry (s : String) : Option (Bytes × Wire) :=
  match stripPrefix 'P' s with
  | some r =>
    match r.splitOn "=" with
    | [h, w] => do
      let h ← ofHex h
      let w ← parseWire w
      some (h, w)
    | _ => none
  | none => none

def lookupParse (tbl : List (Bytes × Wire)) (frame : Bytes) : Wire :=
  match tbl.find? (fun p => p.1 == frame) with
  | some p => p.2
  | none => .short

def showExceptB (r : Except Err Bool) : String :=
  match r with
  | .ok b => "ok " ++ (if b then "1" else "0")
  | .error e => "err " ++ e.toString

def showURet (r : Except Fail URet) : String :=
  match r with
  | .ok r => s!"ok idx={r.idx} id={r.msg.id} flags={r.msg.flags} src={showAddr r.src} t={r.recvTime}"
  | .error f => s!"err {f.err.toString} idx={f.idx}"

def streamRest (evs : List REv) : String := toHexP (stream evs)

/-- split a token list at the first "/" token -/
def splitSlash : List String → List String × List String
  | [] => ([], [])
  | t :: rest => if t = "/" then ([], rest) else let (a, b) := splitSlash rest; (t :: a, b)

end N18
open N18

def handleC18 : List String → Option String
  | ["c18.pton", af, h] => do
    let af ← af.toNat?
    let h ← ofHex h
    some (match inetPton af h with
      | .ok b => "ok " ++ toHexP b
      | .syntax => "err Syntax"
      | .notImplemented => "err NotImplemented")
  | ["c18.addreq", af, a, b] => do
    let af ← af.toNat?
    let a ← parseAddr a
    let b ← parseAddr b
    some (showExceptB (addressesEqual af a b))
  | ["c18.mcast", h] => do
    let h ← ofHex h
    some (showExceptB (isMulticast h))
  | ["c18.match", af, src, dest, iu] => do
    let af ← af.toNat?
    let src ← parseAddr src
    let dest ← parseOptAddr dest
    let iu ← parseBool iu
    some (showExceptB (matchesDestination af src dest iu))
  | ["c18.isresp", q, r] => do
    let q ← parseMsg q
    let r ← parseMsg r
    some ("ok " ++ (if isResponse q r then "1" else "0"))
  | ["c18.fromwire", w, it, rt, coe] => do
    let w ← parseWire w
    let it ← parseBool it
    let rt ← parseBool rt
    let coe ← parseBool coe
    some (match fromWire w it rt coe with
      | .ok m => s!"ok id={m.id} flags={m.flags} nq={m.question.length}"
      | .error .formError => "err FormError"
      | .error .other => "err OtherParse"
      | .error (.truncated m) => s!"err Truncated id={m.id} flags={m.flags} nq={m.question.length}")
  | "c18.recvudp" :: coe :: af :: dest :: timeout :: opts :: query :: now :: evs => do
    let coe ← parseBool coe
    let af ← af.toNat?
    let dest ← parseOptAddr dest
    let timeout ← parseOptNat timeout
    let o ← parseOpts opts
    let query ← parseOptMsg query
    let now ← now.toNat?
    let evs ← evs.mapM parseUEv
    some (showURet (receiveUdp coe af dest (expiration timeout now) o query evs now 0))
  | "c18.udp" :: coe :: q :: af :: dest :: timeout :: opts :: blocks :: now :: evs => do
    let coe ← parseBool coe
    let q ← parseMsg q
    let af ← af.toNat?
    let dest ← parseAddr dest
    let timeout ← parseOptNat timeout
    let o ← parseOpts opts
    let blocks ← parseBlocks blocks
    let now ← now.toNat?
    let evs ← evs.mapM parseUEv
    some (showURet (udp coe q af dest timeout o blocks evs now))
  | "c18.netread" :: count :: timeout :: now :: evs => do
    let count ← count.toNat?
    let timeout ← parseOptNat timeout
    let now ← now.toNat?
    let evs ← evs.mapM parseREv
    some (match netRead evs count (expiration timeout now) now [] with
      | .ok (b, rest, t) => s!"ok {toHexP b} rest={streamRest rest} t={t}"
      | .error e => "err " ++ e.toString)
  | "c18.netwrite" :: data :: timeout :: now :: sevs => do
    let data ← ofHex data
    let timeout ← parseOptNat timeout
    let now ← now.toNat?
    let sevs ← sevs.mapM parseSEv
    some (match netWrite sevs data (expiration timeout now) now [] with
      | (sent, .ok (_, t)) => s!"sent={toHexP sent} ok t={t}"
      | (sent, .error e) => s!"sent={toHexP sent} err {e.toString}")
  | "c18.sendtcp" :: data :: timeout :: now :: sevs => do
    let data ← ofHex data
    let timeout ← parseOptNat timeout
    let now ← now.toNat?
    let sevs ← sevs.mapM parseSEv
    some (match sendTcp data sevs (expiration timeout now) now with
      | (sent, .ok (_, t)) => s!"sent={toHexP sent} ok t={t}"
      | (sent, .error e) => s!"sent={toHexP sent} err {e.toString}")
  | "c18.recvtcp" :: timeout :: now :: it :: coe :: toks => do
    let timeout ← parseOptNat timeout
    let now ← now.toNat?
    let it ← parseBool it
    let coe ← parseBool coe
    let (ptoks, etoks) := splitSlash toks
    let tbl ← ptoks.mapM parsePEntry
    let evs ← etoks.mapM parseREv
    let exp := expiration timeout now
    some (match receiveFrame evs exp now with
      | .error e => "err " ++ e.toString
      | .ok (frame, _, _) =>
        if frame.length ≥ 12 && !(tbl.any (fun p => p.1 == frame)) then "noparse " ++ toHexP frame
        else match receiveTcp (lookupParse tbl) it coe evs exp now with
          | .ok r => s!"ok id={r.msg.id} flags={r.msg.flags} frame={toHexP r.frame} rest={streamRest r.rest} t={r.recvTime}"
          | .error e => "err " ++ e.toString)
  | "c18.tcp" :: q :: qwire :: timeout :: it :: now :: toks => do
    let q ← parseMsg q
    let qwire ← ofHex qwire
    let timeout ← parseOptNat timeout
    let it ← parseBool it
    let now ← now.toNat?
    let (ptoks, toks2) := splitSlash toks
    let (stoks, rtoks) := splitSlash toks2
    let tbl ← ptoks.mapM parsePEntry
    let sevs ← stoks.mapM parseSEv
    let revs ← rtoks.mapM parseREv
    let exp := expiration timeout now
    let unknown : Option Bytes :=
      match sendTcp qwire sevs exp now with
      | (_, .ok (_, now1)) =>
        (match receiveFrame revs exp now1 with
         | .ok (frame, _, _) => if frame.length ≥ 12 && !(tbl.any (fun p => p.1 == frame)) then some frame else none
         | .error _ => none)
      | _ => none
    some (match tcp q qwire timeout it (lookupParse tbl) sevs revs now with
      | (sent, r) =>
        match unknown with
        | some frame => s!"sent={toHexP sent} noparse {toHexP frame}"
        | none =>
          match r with
          | .ok r => s!"sent={toHexP sent} ok id={r.msg.id} flags={r.msg.flags} frame={toHexP r.frame} t={r.recvTime}"
          | .error e => s!"sent={toHexP sent} err {e.toString}")
  | _ => none

end Driver

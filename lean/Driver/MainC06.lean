import Driver.Loop
import Driver.Name
import Driver.C06
/-! native driver of C06: its own ops plus the shared name ops (`n.*`) -/
def main : IO Unit := Driver.runMain [Driver.handleC06, Driver.handleName]

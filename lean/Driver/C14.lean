import Driver.Util
/-! driver ops of C14 (prefix `c14.`); filled in by the C14 work -/
namespace Driver
open Model

def handleC14 : List String → Option String
  | _ => none

end Driver

import Driver.Util
import Model.Tsig
/-! driver ops of C14 (prefix `c14.`).

encodings: name = `parseName`; key = `name/secret/alg`; rdata = `alg/time/fudge/mac/origid/error/other`;
ctx = `none` | `hash/size/secret/data`; keyring = `absent` | `novalidate` | `key:<key>` |
`dict:<name>=s:<secret>;<name>=k:<key>;…` | `call:<name>=k:<key>;…`; HMAC graph = `h=-` | `h=<hash>:<key>:<data>:<digest>;…`
(the values of the external HMAC at the points the implementation evaluated it). -/
namespace Driver
open Model Model.Tsig

def c14Key (s : String) : Option Key :=
  match splitOnChar s '/' with
  | [n, sec, a] => do
    let n ← parseName n; let sec ← ofHex sec; let a ← parseName a
    some { name := n, secret := sec, algorithm := a }
  | _ => none

def c14Rdata (s : String) : Option Rdata :=
  match splitOnChar s '/' with
  | [a, t, f, m, o, e, ot] => do
    let a ← parseName a; let t ← t.toNat?; let f ← f.toNat?; let m ← ofHex m
    let o ← o.toNat?; let e ← e.toNat?; let ot ← ofHex ot
    some { algorithm := a, timeSigned := t, fudge := f, mac := m, originalId := o, error := e, other := ot }
  | _ => none

def c14ShowRdata (r : Rdata) : String :=
  s!"{showName r.algorithm}/{r.timeSigned}/{r.fudge}/{toHexP r.mac}/{r.originalId}/{r.error}/{toHexP r.other}"

def c14Ctx (s : String) : Option (Option Ctx) :=
  if s = "none" then some none else
  match splitOnChar s '/' with
  | [h, sz, sec, d] => do
    let h ← h.toNat?; let sz ← sz.toNat?; let sec ← ofHex sec; let d ← ofHex d
    some (some { secret := sec, hash := h, size := sz, data := d })
  | _ => none

def c14ShowCtx : Option Ctx → String
  | none => "none"
  | some c => s!"{c.hash}/{c.size}/{toHexP c.secret}/{toHexP c.data}"

def c14KeyVal (s : String) : Option (Name × KeyVal) :=
  match splitOnChar s '=' with
  | [n, v] => do
    let n ← parseName n
    if v.startsWith "s:" then do
      let sec ← ofHex (v.drop 2).toString
      some (n, .secret sec)
    else if v.startsWith "k:" then do
      let k ← c14Key (v.drop 2).toString
      some (n, .key k)
    else none
  | _ => none

def c14Keyring (s : String) : Option Keyring :=
  if s = "absent" then some .absent
  else if s = "novalidate" then some .noValidate
  else if s.startsWith "key:" then (c14Key (s.drop 4).toString).map .key
  else if s.startsWith "dict:" then
    let body := (s.drop 5).toString
    if body = "" then some (.dict []) else ((splitOnChar body ';').mapM c14KeyVal).map .dict
  else if s.startsWith "call:" then
    -- a callable given by its finite graph `name=k:<key>;…` (anything else ↦ None); lookup by Name equality
    let body := (s.drop 5).toString
    let rows := if body = "" then some [] else (splitOnChar body ';').mapM c14KeyVal
    rows.map fun es => .callable fun n =>
      match es.find? (fun e => nameEq e.1 n) with
      | some (_, .key k) => some k
      | _ => none
  else none

/-- the external HMAC as the finite graph supplied on the line (empty digest where it was never evaluated) -/
def c14H (s : String) : Option Hmac :=
  if !s.startsWith "h=" then none else
  let body := (s.drop 2).toString
  if body = "-" then some (fun _ _ _ => []) else do
    let rows ← (splitOnChar body ';').mapM fun r =>
      match splitOnChar r ':' with
      | [h, k, d, o] => do
        let h ← h.toNat?; let k ← ofHex k; let d ← ofHex d; let o ← ofHex o
        some (h, k, d, o)
      | _ => none
    some fun h k d =>
      match rows.find? (fun r => r.1 == h && r.2.1 == k && r.2.2.1 == d) with
      | some r => r.2.2.2
      | none => []

def c14Err (e : Err) : String := "err " ++ e.toString

def c14ShowRead (r : ReadOk) : String :=
  match r.tsig with
  | none => s!"ok signed=0 owner=none rd=none in=none ctx={c14ShowCtx r.ctx}"
  | some f =>
    let inp := match f.checked with
      | none => "none"
      | some (c, _) => toHexP c.data
    s!"ok signed=1 owner={showName f.owner} rd={c14ShowRdata f.rd} in={inp} ctx={c14ShowCtx r.ctx}"

def c14Flips (tbl : List AlgEntry) (strict : Bool) (w : Bytes) (kr : Keyring) (now : Nat) (rm : Bytes)
    (ctx : Option Ctx) (multi : Bool) : String :=
  match readV (fun _ _ => true) tbl strict w kr now rm ctx multi with
  | .ok { tsig := some { checked := some orig, .. }, .. } =>
    let n := w.length * 8
    "ok " ++ String.ofList ((List.range n).map fun i =>
      -- only "accepted as validated" is compared: whether an altered message that is not accepted is rejected
      -- or returned as an *unsigned* message depends on decoding the other records (skeleton reader)
      if flipVerdict tbl strict kr now rm ctx multi orig (flipBit w i) == 'A' then 'A' else 'r')
  | .ok _ => "err genuine-message-not-checked"
  | .error e => c14Err e

def handleC14 : List String → Option String
  | ["c14.mac", key, data, h] => do
    let key ← c14Key key; let data ← ofHex data; let H ← c14H h
    some (match getContext algTable key with
      | .error e => c14Err e
      | .ok c => "ok " ++ toHexP ((c.update data).sign H))
  | ["c14.digest", wire, key, rd, time, rm, ctx, multi] => do
    let wire ← ofHex wire; let key ← c14Key key; let rd ← c14Rdata rd
    let time ← (if time = "none" then some none else time.toNat?.map some)
    let rm ← ofHex rm; let ctx ← c14Ctx ctx; let multi ← parseBool multi
    some (match digest algTable wire key rd time rm ctx multi with
      | .error e => c14Err e
      | .ok c => "ok " ++ c14ShowCtx (some c))
  | ["c14.sign", wire, key, rd, time, rm, ctx, multi, h] => do
    let wire ← ofHex wire; let key ← c14Key key; let rd ← c14Rdata rd; let time ← time.toNat?
    let rm ← ofHex rm; let ctx ← c14Ctx ctx; let multi ← parseBool multi; let H ← c14H h
    some (match sign H algTable wire key rd time rm ctx multi with
      | .error e => c14Err e
      | .ok (rd', c') => s!"ok {c14ShowRdata rd'} {c14ShowCtx c'}")
  | ["c14.validate", wire, key, owner, rd, now, rm, ts, ctx, multi, h] => do
    let wire ← ofHex wire; let key ← c14Key key; let owner ← parseName owner; let rd ← c14Rdata rd
    let now ← now.toNat?; let rm ← ofHex rm; let ts ← ts.toNat?; let ctx ← c14Ctx ctx
    let multi ← parseBool multi; let H ← c14H h
    some (match validateV (verifyWith H) algTable wire key owner rd now rm ts ctx multi with
      | .error e => c14Err e
      | .ok (c, c') => s!"ok {c14ShowCtx c'} in={toHexP c.data}")
  | ["c14.rdenc", rd] => do
    let rd ← c14Rdata rd
    some ("ok " ++ toHexP (rdataWire rd))
  | ["c14.rddec", w, start, endp] => do
    let w ← ofHex w; let start ← start.toNat?; let endp ← endp.toNat?
    some (match rdataParse w start endp with
      | .error e => c14Err e
      | .ok rd => "ok " ++ c14ShowRdata rd)
  | ["c14.signmsg", body, owner, key, rd, now, rm, ctx, multi, h] => do
    let body ← ofHex body; let owner ← ofHex owner; let key ← c14Key key; let rd ← c14Rdata rd
    let now ← now.toNat?; let rm ← ofHex rm; let ctx ← c14Ctx ctx; let multi ← parseBool multi; let H ← c14H h
    some (match signMessage H algTable body owner key rd now rm ctx multi with
      | .error e => c14Err e
      | .ok (w, _, c') => s!"ok {toHexP w} {c14ShowCtx c'}")
  | ["c14.read", wire, kr, now, rm, ctx, multi, strict, h] => do
    let wire ← ofHex wire; let kr ← c14Keyring kr; let now ← now.toNat?; let rm ← ofHex rm
    let ctx ← c14Ctx ctx; let multi ← parseBool multi; let strict ← parseBool strict; let H ← c14H h
    some (match read H algTable strict wire kr now rm ctx multi with
      | .error e => c14Err e
      | .ok r => c14ShowRead r)
  | ["c14.readi", it, wire, kr, now, rm, ctx, multi, strict, h] => do
    let it ← parseBool it; let wire ← ofHex wire; let kr ← c14Keyring kr; let now ← now.toNat?; let rm ← ofHex rm
    let ctx ← c14Ctx ctx; let multi ← parseBool multi; let strict ← parseBool strict; let H ← c14H h
    some (match readI it H algTable strict wire kr now rm ctx multi with
      | .error e => c14Err e
      | .ok r => c14ShowRead r)
  | ["c14.usetsig", kr, keyname, alg] => do
    let kr ← c14Keyring kr; let keyname ← parseOptName keyname; let alg ← parseName alg
    some (match useTsig kr keyname alg with
      | some (k, owner) => s!"ok {showName k.name}/{toHexP k.secret}/{showName k.algorithm} {showName owner}"
      | none => "err")
  | ["c14.flips", wire, kr, now, rm, ctx, multi, strict] => do
    let wire ← ofHex wire; let kr ← c14Keyring kr; let now ← now.toNat?; let rm ← ofHex rm
    let ctx ← c14Ctx ctx; let multi ← parseBool multi; let strict ← parseBool strict
    some (c14Flips algTable strict wire kr now rm ctx multi)
  | _ => none

end Driver

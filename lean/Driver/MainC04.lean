import Driver.Loop
import Driver.Name
import Driver.C04
/-! native driver of C04: its own ops plus the shared name ops (`n.*`) -/
def main : IO Unit := Driver.runMain [Driver.handleC04, Driver.handleName]

import Driver.Util
import Model.Writers
/-!
driver ops of C12 (prefix `c12.`)

`c12.run <roles> [@<schedule, ignored>] <rec> <rec> …`
* roles: comma separated, thread id = position: `wca` writer, body appends its id, commits; `wcr` writer, body resets the
  content to `[id]`, commits; `wra` writer, appends, rolls back; `wcn` writer, changes nothing, "commits" (the code takes
  the rollback path); `rd` reader.  `wwa` = `wca` through `with txn:`; `wxa` = `wra` through an exception in the `with` body;
  `wda` = `wca` followed by refused second ends; `rdw` = `rd` through `with`; `wcR` / `wrR` = `writer(replacement=True)`,
  appends its id to the empty version, commits / rolls back.  A trailing `!` on a committing role = the pruning
  policy raised during its commit (`ver-` record: the appended version is withdrawn).
* rec: `<tid>:<label>`: one record per *visible* step of the implementation, in execution order
  (`acq rel new.E app.E wait.E set.E pop.E txn+ txn- wev- setup ver ver- nod rd+ rd- ret rret seen`), plus `<tid>:blk`
  (the thread is blocked in `acquire`/`wait`) and `0:fin`.
  The silent steps of a thread (`tau`) are run right before its next visible one.
* output: the abstract shared state after every record, or `!<index>:<reason>` at the first record that is not an
  enabled model step with that label.
-/
namespace Driver
open Model Model.Writers

abbrev WLabel := Model.Writers.Label

def showList (xs : List Nat) : String := if xs.isEmpty then "-" else ".".intercalate (xs.map toString)
def showOpt (x : Option Nat) : String := match x with | some v => toString v | none => "-"

def insSorted (x : Nat) : List Nat → List Nat
  | [] => [x]
  | y :: ys => if x < y then x :: y :: ys else if x = y then y :: ys else y :: insSorted x ys
def sortU (xs : List Nat) : List Nat := xs.foldl (fun acc x => insSorted x acc) []

def showState (s : State) : String :=
  "L" ++ showOpt s.lock ++ "T" ++ showOpt s.writeTxn ++ "E" ++ showOpt s.writeEvent ++ "W" ++ showList s.waiters
    ++ "S" ++ showList (sortU s.evSet) ++ "V" ++ toString s.lastId ++ ":" ++ showList s.lastVersion.2
    ++ "N" ++ showList s.nodes ++ "R" ++ showList (sortU s.readers)

def parseRole0 (s : String) : Option (Role × Nat) :=
  if s = "wca" ∨ s = "wwa" ∨ s = "wda" then some (.writer true, 0) else if s = "wcr" then some (.writer true, 1)
  else if s = "wxa" then some (.writer false, 0) else if s = "rdw" ∨ s = "rdd" then some (.reader, 2)
  else if s = "wra" then some (.writer false, 0) else if s = "wcn" then some (.writer false, 2)
  else if s = "wcR" then some (.writer true, 3) else if s = "wrR" then some (.writer false, 3)
  else if s = "rd" then some (.reader, 2) else none

/-- a trailing `!` = the pruning policy raised during this writer's commit (code + 10) -/
def parseRole (s : String) : Option (Role × Nat) :=
  -- `rdi<k>` = reader(id=k) that found the version; `rdx` = reader(id=..)/reader(serial=..) that raised KeyError
  if s = "rdx" then some (.reader, 99)
  else if s.startsWith "rdi" then ((s.drop 3).toString.toNat?).map fun k => (.reader, 100 + k)
  else if s.endsWith "!" then (parseRole0 ((s.dropEnd 1).toString)).map fun (r, k) => (r, k + 10) else parseRole0 s

def mkCfg (rs : List (Role × Nat)) : Cfg :=
  { role := fun t => ((rs[t]?).map (·.1)).getD .reader
    body := fun t c => match (rs[t]?).map (·.2 % 10) with
      | some 0 => c ++ [t]
      | some 1 => [t]
      | some 3 => c ++ [t]
      | _ => c
    repl := fun t => (rs[t]?).map (·.2 % 10) == some 3
    pruneFails := fun t => ((rs[t]?).map (fun r => decide (r.2 ≥ 10))).getD false
    pick := fun t => match (rs[t]?).map (·.2) with
      | some k => if k = 99 then .missing else if k ≥ 100 then .byId (k - 100) else .latest
      | none => .latest }

def parseLabel (s : String) : Option WLabel :=
  match splitOnChar s '.' with
  | ["acq"] => some .acq | ["rel"] => some .rel
  | ["txn+"] => some .txnOpen | ["txn-"] => some .txnClose | ["wev-"] => some .wevClear | ["setup"] => some .setup
  | ["ver"] => some .ver | ["ver-"] => some .verDrop | ["nod"] => some .nod | ["rd+"] => some .rdAdd | ["rd-"] => some .rdDel
  | ["ret"] => some .ret | ["rret"] => some .rret | ["seen"] => some .seen
  | ["new", e] => e.toNat?.map Writers.Label.new | ["app", e] => e.toNat?.map Writers.Label.app | ["wait", e] => e.toNat?.map Writers.Label.wait
  | ["set", e] => e.toNat?.map Writers.Label.set | ["pop", e] => e.toNat?.map Writers.Label.pop
  | _ => none

def showLabel : WLabel → String
  | .tau => "tau" | .acq => "acq" | .rel => "rel" | .new e => s!"new.{e}" | .app e => s!"app.{e}"
  | .wait e => s!"wait.{e}" | .set e => s!"set.{e}" | .pop e => s!"pop.{e}" | .txnOpen => "txn+"
  | .txnClose => "txn-" | .wevClear => "wev-" | .setup => "setup" | .ver => "ver" | .verDrop => "ver-" | .nod => "nod" | .rdAdd => "rd+" | .rdDel => "rd-"
  | .ret => "ret" | .rret => "rret" | .seen => "seen" | .stuck => "stuck"

def localSuffix (s : State) (t : Tid) : WLabel → String
  | .ret => "/" ++ toString (s.loc t).vid ++ ":" ++ showList (s.loc t).snap
  | .rret => "/" ++ toString (s.loc t).rver.1 ++ ":" ++ showList (s.loc t).rver.2
  | .seen => "/" ++ showList (s.loc t).seen
  | _ => ""

def allDone (c : Cfg) (s : State) (n : Nat) : Bool :=
  (List.range n).all fun t => decide (((advance c 8 s t).loc t).pc = Pc.done)

def runRecords (c : Cfg) (n : Nat) : Nat → State → List String → List String → List String
  | _, _, [], acc => acc.reverse
  | i, s, r :: rest, acc =>
    let bad (why : String) := (s!"!{i}:{why}" :: acc).reverse
    match splitOnChar r ':' with
    | [ts, ls] =>
      match ts.toNat? with
      | none => bad "syntax"
      | some t =>
        if ls = "fin" then
          let out := "A" ++ showList s.admitted ++ "C" ++ showList s.committed ++ "D" ++ (if allDone c s n then "1" else "0")
          runRecords c n (i + 1) s rest (out :: acc)
        else if t ≥ n then bad "tid"
        else
          let s1 := advance c 8 s t
          if ls = "blk" then
            match step c s1 t with
            | none =>
              if (match label c s1 t with | .acq => true | .wait _ => true | _ => false) then
                runRecords c n (i + 1) s1 rest (showState s1 :: acc)
              else bad s!"blocked-but-model-at-{showLabel (label c s1 t)}"
            | some _ => bad s!"blocked-but-model-enabled-{showLabel (label c s1 t)}"
          else
            match parseLabel ls with
            | none => bad s!"unknown-label-{ls}"
            | some lab =>
              if label c s1 t ≠ lab then bad s!"model-expects-{showLabel (label c s1 t)}"
              else match step c s1 t with
                | none => bad s!"model-disabled-{showLabel lab}"
                | some s2 => runRecords c n (i + 1) s2 rest ((showState s2 ++ localSuffix s2 t lab) :: acc)
    | _ => bad "syntax"

def handleC12 : List String → Option String
  | "c12.run" :: roles :: recs => do
    -- a token `@…` carries the schedule for replays and is not part of the trace
    let recs := recs.filter (fun r => ¬ r.startsWith "@")
    let rs ← (splitOnChar roles ',').mapM parseRole
    let c := mkCfg rs
    some (" ".intercalate (runRecords c rs.length 0 init recs []))
  | _ => none

end Driver

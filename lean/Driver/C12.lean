import Driver.Util
/-! driver ops of C12 (prefix `c12.`); filled in by the C12 work -/
namespace Driver
open Model

def handleC12 : List String → Option String
  | _ => none

end Driver

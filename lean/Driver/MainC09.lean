import Driver.Loop
import Driver.Name
import Driver.C09
/-! native driver of C09: its own ops plus the shared name ops (`n.*`) -/
def main : IO Unit := Driver.runMain [Driver.handleC09, Driver.handleName]

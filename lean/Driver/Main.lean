import Driver.Name
import Driver.C02
import Driver.C03
import Driver.C04
import Driver.C05
import Driver.C07
import Driver.C08
import Driver.C09
import Driver.C10
import Driver.C11
import Driver.C12
import Driver.C13
import Driver.C14
import Driver.C15
import Driver.C16
import Driver.C17
import Driver.C18
import Driver.C19
import Driver.C20
/-! Line protocol driver: one operation per input line, one canonical output line. -/
open Driver

def handlers : List (List String → Option String) := [handleName, handleC02, handleC03, handleC04, handleC05, handleC07, handleC08, handleC09, handleC10, handleC11, handleC12, handleC13, handleC14, handleC15, handleC16, handleC17, handleC18, handleC19, handleC20]

def step (line : String) : String :=
  let toks := (line.trimAscii.toString.splitOn " ").filter (· ≠ "")
  match handlers.findSome? (fun h => h toks) with
  | some r => r
  | none => "bad-op"

partial def loop (h : IO.FS.Stream) (out : IO.FS.Stream) : IO Unit := do
  let line ← h.getLine
  if line.isEmpty then return ()
  out.putStrLn (step line)
  loop h out

def main : IO Unit := do
  let out ← IO.getStdout
  loop (← IO.getStdin) out
  out.flush

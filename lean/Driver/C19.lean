import Driver.Util
import Model.BTree
import Model.BTreeCow
/-!
driver ops of C19 (prefix `c19.`).

`c19.hist <t> <in_order> <collapse_always> op op …` (collapse_always: which `_delete` variant the code
implements, see `Model.BTree.deleteRoot`; probed by the harness on every run) runs a whole history on the model and prints one result token per op.
Handles: tree 0 is created by the header; `C,h,io` appends a clone; `c,h` appends a cursor.

ops (comma separated fields):
  `I,h,k,v` insert_element   `D,h,k` delete_key   `X,h,k,v` delete_exact      → `res|len|shape|digests`
  `G,h,k` get_element  `L,h` len  `T,h` in-order items  `M,h` minimum/maximum  `S,h` shape
  `C,h,io` clone  `F,h` make_immutable
  `c,h` new (registered) cursor  `s,c,k,b` seek  `n,c` next  `p,c` prev  `f,c` seek_first  `l,c` seek_last
  `P,c` park  `x,c` deregister and drop
A token that does not parse or names a missing handle yields `!`.
-/
namespace Driver
open Model Model.BTree

namespace C19

def showElt (e : Elt) : String := toString e.1 ++ ":" ++ toString e.2
def showOpt : Option Elt → String
  | some e => showElt e
  | none => "-"
def showElts (es : List Elt) : String := ",".intercalate (es.map showElt)

def showNode : Node → String
  | .leaf es => "L:" ++ showElts es
  | .node es cs => "N" ++ toString cs.length ++ ":" ++ showElts es

/-- full shape: every node in preorder with all its elements -/
def showShape (n : Node) : String := ";".intercalate ((preorder n).map showNode)

def polyHash (s : String) : Nat := s.foldl (fun h c => (h * 256 + c.toNat) % 2147483647) 7

def treeLine (tr : Tree) : String :=
  showShape tr.root ++ "#" ++ toString tr.size ++ "#" ++ (if tr.immutable then "F" else "M")

def digest (tr : Tree) : Nat := polyHash (treeLine tr)

structure St where
  trees : Array Tree
  digs : Array Nat                 -- digest per tree (trees are values: recomputed only for the mutated one)
  curs : Array (Nat × Cursor × Bool)  -- (tree, cursor, open)

def St.digests (s : St) : String := ",".intercalate (s.digs.toList.map toString)

def St.setTree (s : St) (h : Nat) (tr : Tree) : St :=
  { s with trees := s.trees.setIfInBounds h tr, digs := s.digs.setIfInBounds h (digest tr) }

/-- `_check_mutable_and_park`: park every registered cursor of tree `h` -/
def St.parkAll (s : St) (h : Nat) : St :=
  { s with curs := s.curs.map fun (th, c, o) => if th = h ∧ o then (th, c.park, o) else (th, c, o) }

def mutLine (s : St) (h : Nat) (res : String) : String :=
  match s.trees[h]? with
  | some tr => res ++ "|" ++ toString tr.size ++ "|" ++ showShape tr.root ++ "|" ++ s.digests
  | none => "!"

def outcomeStr : Outcome (Option Elt) → String
  | .ok o => showOpt o
  | .immutableErr => "IMM"
  | .valueError => "VE"
  | .indexError => "EXC:IndexError"

def nats (fs : List String) : Option (List Nat) := fs.mapM String.toNat?

def step (s : St) (tok : String) : St × String :=
  match tok.splitOn "," with
  | op :: fs =>
    match nats fs with
    | none => (s, "!")
    | some args =>
      match op, args with
      | "I", [h, k, v] =>
        match s.trees[h]? with
        | none => (s, "!")
        | some tr =>
          let (tr', r) := tr.insert (k, v)
          let s := (match r with | .immutableErr => s | _ => s.parkAll h).setTree h tr'
          (s, mutLine s h (outcomeStr r))
      | "D", [h, k] =>
        match s.trees[h]? with
        | none => (s, "!")
        | some tr =>
          let (tr', r) := tr.delete k none
          let s := (match r with | .immutableErr => s | _ => s.parkAll h).setTree h tr'
          (s, mutLine s h (outcomeStr r))
      | "X", [h, k, v] =>
        match s.trees[h]? with
        | none => (s, "!")
        | some tr =>
          let (tr', r) := tr.delete k (some (k, v))
          let s := (match r with | .immutableErr => s | _ => s.parkAll h).setTree h tr'
          (s, mutLine s h (outcomeStr r))
      | "G", [h, k] =>
        match s.trees[h]? with
        | none => (s, "!")
        | some tr => (s, showOpt (tr.get k))
      | "L", [h] =>
        match s.trees[h]? with
        | none => (s, "!")
        | some tr => (s, toString tr.size)
      | "T", [h] =>
        match s.trees[h]? with
        | none => (s, "!")
        | some tr => (s, "[" ++ showElts tr.items ++ "]")
      | "S", [h] =>
        match s.trees[h]? with
        | none => (s, "!")
        | some tr => (s, showShape tr.root)
      | "M", [h] =>
        match s.trees[h]? with
        | none => (s, "!")
        | some tr =>
          if tr.size = 0 then (s, "-")
          else (s, showElt (minimum (height tr.root) tr.root) ++ "/" ++ showElt (maximum (height tr.root) tr.root))
      | "C", [h, io] =>
        match s.trees[h]? with
        | none => (s, "!")
        | some tr =>
          match tr.clone (io != 0) with
          | none => (s, "VE")
          | some c => ({ s with trees := s.trees.push c, digs := s.digs.push (digest c) }, toString s.trees.size)
      | "F", [h] =>
        match s.trees[h]? with
        | none => (s, "!")
        | some tr => (s.setTree h tr.makeImmutable, "ok")
      | "c", [h] =>
        match s.trees[h]? with
        | none => (s, "!")
        | some _ => ({ s with curs := s.curs.push (h, {}, true) }, toString s.curs.size)
      | "s", [c, k, b] =>
        match s.curs[c]? with
        | some (h, _, true) =>
          match s.trees[h]? with
          | some tr => ({ s with curs := s.curs.setIfInBounds c (h, Cursor.seek tr.root k (b != 0), true) }, "ok")
          | none => (s, "!")
        | _ => (s, "!")
      | "n", [c] =>
        match s.curs[c]? with
        | some (h, cu, true) =>
          match s.trees[h]? with
          | some tr =>
            let (cu', r) := cu.next tr.root
            ({ s with curs := s.curs.setIfInBounds c (h, cu', true) }, showOpt r)
          | none => (s, "!")
        | _ => (s, "!")
      | "p", [c] =>
        match s.curs[c]? with
        | some (h, cu, true) =>
          match s.trees[h]? with
          | some tr =>
            let (cu', r) := cu.prev tr.root
            ({ s with curs := s.curs.setIfInBounds c (h, cu', true) }, showOpt r)
          | none => (s, "!")
        | _ => (s, "!")
      | "f", [c] =>
        match s.curs[c]? with
        | some (h, cu, true) => ({ s with curs := s.curs.setIfInBounds c (h, cu.seekFirst, true) }, "ok")
        | _ => (s, "!")
      | "l", [c] =>
        match s.curs[c]? with
        | some (h, cu, true) => ({ s with curs := s.curs.setIfInBounds c (h, cu.seekLast, true) }, "ok")
        | _ => (s, "!")
      | "P", [c] =>
        match s.curs[c]? with
        | some (h, cu, true) => ({ s with curs := s.curs.setIfInBounds c (h, cu.park, true) }, "ok")
        | _ => (s, "!")
      | "x", [c] =>
        match s.curs[c]? with
        | some (h, cu, true) => ({ s with curs := s.curs.setIfInBounds c (h, cu, false) }, "ok")
        | _ => (s, "!")
      | _, _ => (s, "!")
  | [] => (s, "!")

def runHist (t : Nat) (io : Bool) (ca : Bool) (ops : List String) : String :=
  let tr := Tree.empty t io ca
  let s0 : St := { trees := #[tr], digs := #[digest tr], curs := #[] }
  let (_, out) := ops.foldl (fun (acc : St × Array String) tok =>
    let (s', r) := step acc.1 tok
    (s', acc.2.push r)) (s0, #[])
  " ".intercalate ("ok" :: out.toList)

/-! ## mechanism-level model (`c19.cow`): heap of nodes with creator tokens

Node identities are compared through serial numbers given in order of first appearance in the dumps (all trees in
handle order, preorder, after every `I`/`D`/`X` op); a creator token is the index of the tree handle it belongs to. -/
open Model.BTreeCow in
def dumpN (H : Heap) : Nat → Nat → (Array Nat × Nat × Array String) → (Array Nat × Nat × Array String)
  | fuel, a, (ser, nxt, out) =>
    let c := rd H a
    let (ser, nxt, sn) :=
      match ser[a]? with
      | some (n + 1) => (ser, nxt, n)
      | _ => (ser.setIfInBounds a (nxt + 1), nxt + 1, nxt)
    let head := (if c.leaf then "L" else "N") ++ toString sn ++ "@" ++ toString c.creator ++
      (if c.leaf then "" else "/" ++ toString c.kids.length) ++ ":" ++ showElts c.elts
    let st := (ser, nxt, out.push head)
    if c.leaf then st
    else match fuel with
      | 0 => st
      | f + 1 => c.kids.foldl (fun st k => dumpN H f k st) st

open Model.BTreeCow in
structure CowSt where
  w : World
  hs : Array Handle
  ser : Array Nat
  nxt : Nat

open Model.BTreeCow in
/-- dump every tree; returns the new serial state, the line of tree `h`, and the digests of all trees -/
def CowSt.dumpAll (s : CowSt) (h : Nat) : CowSt × String × String :=
  let H := s.w.heap
  let ser0 := s.ser ++ Array.replicate (H.size - s.ser.size) 0
  let (ser, nxt, mine, digs) := s.hs.foldl (fun (acc : Array Nat × Nat × String × Array Nat × Nat) hd =>
      let (ser, nxt, mine, digs, idx) := acc
      let (ser, nxt, out) := dumpN H (heightOf H hd.root + 1) hd.root (ser, nxt, #[])
      let line := ";".intercalate out.toList
      let full := line ++ "#" ++ toString hd.size ++ "#" ++ (if hd.immutable then "F" else "M")
      (ser, nxt, if idx = h then line else mine, digs.push (polyHash full), idx + 1))
    (ser0, s.nxt, "", #[], 0) |> fun (a, b, c, d, _) => (a, b, c, d)
  ({ s with ser := ser, nxt := nxt }, mine, ",".intercalate (digs.toList.map toString))

open Model.BTreeCow in
def cowMut (s : CowSt) (h : Nat) (res : World × Handle × Outcome (Option Elt)) : CowSt × String :=
  let (w, hd, r) := res
  let s := { s with w := w, hs := s.hs.setIfInBounds h hd }
  let (s, mine, digs) := s.dumpAll h
  (s, outcomeStr r ++ "|" ++ toString hd.size ++ "|" ++ mine ++ "|" ++ digs)

open Model.BTreeCow in
def cowStep (s : CowSt) (tok : String) : CowSt × String :=
  match tok.splitOn "," with
  | op :: fs =>
    match nats fs with
    | none => (s, "!")
    | some args =>
      match op, args with
      | "I", [h, k, v] =>
        match s.hs[h]? with
        | none => (s, "!")
        | some hd => cowMut s h (hd.insert s.w (k, v))
      | "D", [h, k] =>
        match s.hs[h]? with
        | none => (s, "!")
        | some hd => cowMut s h (hd.delete s.w k none)
      | "X", [h, k, v] =>
        match s.hs[h]? with
        | none => (s, "!")
        | some hd => cowMut s h (hd.delete s.w k (some (k, v)))
      | "G", [h, k] =>
        match s.hs[h]? with
        | none => (s, "!")
        | some hd => (s, showOpt (hd.get s.w k))
      | "C", [h, io] =>
        match s.hs[h]? with
        | none => (s, "!")
        | some hd =>
          match cloneTree s.w hd (io != 0) with
          | none => (s, "VE")
          | some (w, c) => ({ s with w := w, hs := s.hs.push c }, toString s.hs.size)
      | "F", [h] =>
        match s.hs[h]? with
        | none => (s, "!")
        | some hd => ({ s with hs := s.hs.setIfInBounds h { hd with immutable := true } }, "ok")
      | _, _ => (s, "!")
  | [] => (s, "!")

open Model.BTreeCow in
def runCow (t : Nat) (io ca : Bool) (ops : List String) : String :=
  let (w, hd) := newTree { heap := #[], nextCreator := 0 } t io ca
  let s0 : CowSt := { w := w, hs := #[hd], ser := #[], nxt := 0 }
  let (_, out) := ops.foldl (fun (acc : CowSt × Array String) tok =>
    let (s', r) := cowStep acc.1 tok
    (s', acc.2.push r)) (s0, #[])
  " ".intercalate ("ok" :: out.toList)

end C19

def handleC19 : List String → Option String
  | "c19.hist" :: t :: io :: ca :: ops => do
    let t ← t.toNat?
    let io ← parseBool io
    let ca ← parseBool ca
    if t < 3 then some "err ValueError" else
    some (C19.runHist t io ca ops)
  | "c19.cow" :: t :: io :: ca :: ops => do
    let t ← t.toNat?
    let io ← parseBool io
    let ca ← parseBool ca
    if t < 3 then some "err ValueError" else
    some (C19.runCow t io ca ops)
  | ["c19.search", key, ks] => do
    -- search_in_node on a node whose element keys are `ks` (comma separated, `-` = empty)
    let key ← key.toNat?
    let ks ← if ks = "-" then some [] else (ks.splitOn ",").mapM String.toNat?
    let (i, eq) := searchInNode (ks.map fun k => (k, 0)) key
    some ("ok " ++ toString i ++ " " ++ (if eq then "1" else "0"))
  | _ => none

end Driver

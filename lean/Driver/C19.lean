import Driver.Util
/-! driver ops of C19 (prefix `c19.`); filled in by the C19 work -/
namespace Driver
open Model

def handleC19 : List String → Option String
  | _ => none

end Driver

import Driver.Util
import Model.BTree
import Model.BTreeCow
/-!
driver ops of C19 (prefix `c19.`).

`c19.hist <t> <in_order> <collapse_always> <collapse_on_error> <is_set> op op …` (collapse_always: which `_delete` variant the code
implements, see `Model.BTree.deleteRoot`; probed by the harness on every run) runs a whole history on the model and prints one result token per op.
Handles: tree 0 is created by the header; `C,h,io` appends a clone; `c,h` appends a cursor.

ops (comma separated fields):
  `I,h,k,v` insert_element   `D,h,k` delete_key   `X,h,k,v` delete_exact      → `res|len|shape|digests`
  `G,h,k` get_element  `L,h` len  `T,h` in-order items  `M,h` minimum/maximum  `S,h` shape
  `C,h,io` clone  `F,h` make_immutable
  `O,h,k` d.pop(k)  `R,h,k` del d[k] / s.remove(k)  `g,h,k` k in d  `K,h` list(d)  `V,h` d.values()
  `c,h` new (registered) cursor  `s,c,k,b` seek  `n,c` next  `p,c` prev  `f,c` seek_first  `l,c` seek_last
  `P,c` park  `x,c` deregister and drop
A token that does not parse or names a missing handle yields `!`.
-/
namespace Driver
open Model Model.BTree

namespace C19

def showElt (e : Elt) : String := toString e.1 ++ ":" ++ toString e.2
def showOpt : Option Elt → String
  | some e => showElt e
  | none => "-"
def showElts (es : List Elt) : String := ",".intercalate (es.map showElt)

def showNode : Node → String
  | .leaf es => "L:" ++ showElts es
  | .node es cs => "N" ++ toString cs.length ++ ":" ++ showElts es

/-- full shape: every node in preorder with all its elements -/
def showShape (n : Node) : String := ";".intercalate ((preorder n).map showNode)

def polyHash (s : String) : Nat := s.foldl (fun h c => (h * 256 + c.toNat) % 2147483647) 7

def treeLine (tr : Tree) : String :=
  showShape tr.root ++ "#" ++ toString tr.size ++ "#" ++ (if tr.immutable then "F" else "M")

def digest (tr : Tree) : Nat := polyHash (treeLine tr)

structure St where
  trees : Array TreeC              -- each tree with its own cursors (`Model.BTree.TreeC`: mutations park them)
  digs : Array Nat                 -- digest per tree (trees are values: recomputed only for the mutated one)
  curs : Array (Nat × Nat × Bool)  -- global cursor id -> (tree, index among the tree's cursors, open)
  isSet : Bool                     -- `BTreeSet` (`remove` checks membership first) or `BTreeDict`
  dead : List Nat := []            -- handles dropped by `Z,h` (the program forgot the tree; values are unaffected)

def St.digests (s : St) : String := ",".intercalate (s.digs.toList.map toString)

def St.setTC (s : St) (h : Nat) (tc : TreeC) : St :=
  { s with trees := s.trees.setIfInBounds h tc, digs := s.digs.setIfInBounds h (digest tc.tree) }

def mutLine (s : St) (h : Nat) (res : String) : String :=
  match s.trees[h]? with
  | some tc => res ++ "|" ++ toString tc.tree.size ++ "|" ++ showShape tc.tree.root ++ "|" ++ s.digests
  | none => "!"

def outcomeStr : Outcome (Option Elt) → String
  | .ok o => showOpt o
  | .immutableErr => "IMM"
  | .valueError => "VE"
  | .indexError => "EXC:IndexError"

def apiStr {α} (f : α → String) : Except ApiErr α → String
  | .ok a => f a
  | .error .keyError => "KE"
  | .error .immutable => "IMM"
  | .error .valueError => "VE"
  | .error .indexError => "EXC:IndexError"

def nats (fs : List String) : Option (List Nat) := fs.mapM String.toNat?

/-- run `f` on the tree and local index of global cursor `c` (if it is open) -/
def withCur (s : St) (c : Nat) (f : TreeC → Nat → TreeC × String) : St × String :=
  match s.curs[c]? with
  | some (h, i, true) =>
    match s.trees[h]? with
    | some tc => let (tc', r) := f tc i; ({ s with trees := s.trees.setIfInBounds h tc' }, r)
    | none => (s, "!")
  | _ => (s, "!")

def stepLive (s : St) (tok : String) : St × String :=
  match tok.splitOn "," with
  | op :: fs =>
    match nats fs with
    | none => (s, "!")
    | some args =>
      match op, args with
      | "I", [h, k, v] =>
        match s.trees[h]? with
        | none => (s, "!")
        | some tc => let (tc', r) := tc.insert (k, v); let s := s.setTC h tc'; (s, mutLine s h (outcomeStr r))
      | "D", [h, k] =>
        match s.trees[h]? with
        | none => (s, "!")
        | some tc => let (tc', r) := tc.delete k none; let s := s.setTC h tc'; (s, mutLine s h (outcomeStr r))
      | "X", [h, k, v] =>
        match s.trees[h]? with
        | none => (s, "!")
        | some tc => let (tc', r) := tc.delete k (some (k, v)); let s := s.setTC h tc'; (s, mutLine s h (outcomeStr r))
      | "O", [h, k] =>   -- d.pop(k)
        match s.trees[h]? with
        | none => (s, "!")
        | some tc => let (tc', r) := Dict.pop tc k; let s := s.setTC h tc'; (s, mutLine s h (apiStr toString r))
      | "R", [h, k] =>   -- del d[k] / s.remove(k)
        match s.trees[h]? with
        | none => (s, "!")
        | some tc =>
          let (tc', r) := if s.isSet then SetApi.remove tc k else Dict.delitem tc k
          let s := s.setTC h tc'
          (s, mutLine s h (apiStr (fun _ => "ok") r))
      | "G", [h, k] =>
        match s.trees[h]? with
        | none => (s, "!")
        | some tc => (s, showOpt (tc.tree.get k))
      | "g", [h, k] =>   -- k in d / k in s
        match s.trees[h]? with
        | none => (s, "!")
        | some tc => (s, if Dict.contains tc.tree k then "1" else "0")
      | "L", [h] =>
        match s.trees[h]? with
        | none => (s, "!")
        | some tc => (s, toString (Dict.len tc.tree))
      | "T", [h] =>
        match s.trees[h]? with
        | none => (s, "!")
        | some tc => (s, "[" ++ showElts tc.tree.items ++ "]")
      | "K", [h] =>   -- list(d) / d.keys(): iteration with a registered cursor
        match s.trees[h]? with
        | none => (s, "!")
        | some tc => (s, "[" ++ ",".intercalate ((Dict.keys tc.tree).map toString) ++ "]")
      | "V", [h] =>   -- d.values()
        match s.trees[h]? with
        | none => (s, "!")
        | some tc => (s, "[" ++ ",".intercalate ((Dict.values tc.tree).map toString) ++ "]")
      | "S", [h] =>
        match s.trees[h]? with
        | none => (s, "!")
        | some tc => (s, showShape tc.tree.root)
      | "M", [h] =>
        match s.trees[h]? with
        | none => (s, "!")
        | some tc =>
          let tr := tc.tree
          if tr.size = 0 then (s, "-")
          else (s, showElt (minimum (height tr.root) tr.root) ++ "/" ++ showElt (maximum (height tr.root) tr.root))
      | "C", [h, io] =>
        match s.trees[h]? with
        | none => (s, "!")
        | some tc =>
          match tc.tree.clone (io != 0) with
          | none => (s, "VE")
          | some c => ({ s with trees := s.trees.push ⟨c, []⟩, digs := s.digs.push (digest c) }, toString s.trees.size)
      | "F", [h] =>
        match s.trees[h]? with
        | none => (s, "!")
        | some tc => (s.setTC h { tc with tree := tc.tree.makeImmutable }, "ok")
      | "c", [h] =>
        match s.trees[h]? with
        | none => (s, "!")
        | some tc =>
          let (tc', i) := tc.register
          ({ s with trees := s.trees.setIfInBounds h tc', curs := s.curs.push (h, i, true) }, toString s.curs.size)
      | "s", [c, k, b] => withCur s c fun tc i => (tc.setCursor i (fun _ => Cursor.seek tc.tree.root k (b != 0)), "ok")
      | "n", [c] => withCur s c fun tc i => let (tc', r) := tc.next i; (tc', showOpt r)
      | "p", [c] => withCur s c fun tc i => let (tc', r) := tc.prev i; (tc', showOpt r)
      | "f", [c] => withCur s c fun tc i => (tc.setCursor i Cursor.seekFirst, "ok")
      | "l", [c] => withCur s c fun tc i => (tc.setCursor i Cursor.seekLast, "ok")
      | "P", [c] => withCur s c fun tc i => (tc.setCursor i Cursor.park, "ok")
      | "x", [c] =>
        match s.curs[c]? with
        | some (h, i, true) =>
          match s.trees[h]? with
          | some tc =>
            ({ s with trees := s.trees.setIfInBounds h (tc.deregister i), curs := s.curs.setIfInBounds c (h, i, false) }, "ok")
          | none => (s, "!")
        | _ => (s, "!")
      | _, _ => (s, "!")
  | [] => (s, "!")

/-- the ops whose first argument is a tree handle -/
def treeOps : List String := ["I", "D", "X", "O", "R", "G", "g", "L", "T", "K", "V", "S", "M", "C", "F", "c"]

/-- `Z,h`: the program drops its reference to tree `h` (`del` + `gc.collect()` in the implementation).  Trees are
values here, so nothing changes except that the handle and its cursors can no longer be used; every digest of the
dropped tree stays as it was. -/
def step (s : St) (tok : String) : St × String :=
  match tok.splitOn "," with
  | [op, hs] =>
    match hs.toNat? with
    | some h =>
      if op == "Z" then
        if h < s.trees.size && !s.dead.contains h then
          ({ s with dead := h :: s.dead, curs := s.curs.map fun (t, i, o) => (t, i, o && t != h) }, "ok")
        else (s, "!")
      else if treeOps.contains op && s.dead.contains h then (s, "!")
      else stepLive s tok
    | none => stepLive s tok
  | op :: hs :: _ =>
    match hs.toNat? with
    | some h => if treeOps.contains op && s.dead.contains h then (s, "!") else stepLive s tok
    | none => stepLive s tok
  | _ => stepLive s tok

def runHist (t : Nat) (io : Bool) (ca ce : Bool) (isSet : Bool) (ops : List String) : String :=
  let tr := Tree.empty t io ca ce
  let s0 : St := { trees := #[⟨tr, []⟩], digs := #[digest tr], curs := #[], isSet := isSet }
  let (_, out) := ops.foldl (fun (acc : St × Array String) tok =>
    let (s', r) := step acc.1 tok
    (s', acc.2.push r)) (s0, #[])
  " ".intercalate ("ok" :: out.toList)

/-! ## mechanism-level model (`c19.cow`): heap of nodes with creator tokens

Node identities are compared through serial numbers given in order of first appearance in the dumps (all trees in
handle order, preorder, after every `I`/`D`/`X` op); a creator token is the index of the tree handle it belongs to. -/
open Model.BTreeCow in
def dumpN (H : Heap) : Nat → Nat → (Array Nat × Nat × Array String) → (Array Nat × Nat × Array String)
  | fuel, a, (ser, nxt, out) =>
    let c := rd H a
    let (ser, nxt, sn) :=
      match ser[a]? with
      | some (n + 1) => (ser, nxt, n)
      | _ => (ser.setIfInBounds a (nxt + 1), nxt + 1, nxt)
    let head := (if c.leaf then "L" else "N") ++ toString sn ++ "@" ++ toString c.creator ++
      (if c.leaf then "" else "/" ++ toString c.kids.length) ++ ":" ++ showElts c.elts
    let st := (ser, nxt, out.push head)
    if c.leaf then st
    else match fuel with
      | 0 => st
      | f + 1 => c.kids.foldl (fun st k => dumpN H f k st) st

open Model.BTreeCow in
structure CowSt where
  w : World
  hs : Array Handle
  ser : Array Nat
  nxt : Nat
  isSet : Bool
  dead : List Nat := []

open Model.BTreeCow in
/-- dump every tree; returns the new serial state, the line of tree `h`, and the digests of all trees -/
def CowSt.dumpAll (s : CowSt) (h : Nat) : CowSt × String × String :=
  let H := s.w.heap
  let ser0 := s.ser ++ Array.replicate (H.size - s.ser.size) 0
  let (ser, nxt, mine, digs) := s.hs.foldl (fun (acc : Array Nat × Nat × String × Array Nat × Nat) hd =>
      let (ser, nxt, mine, digs, idx) := acc
      let (ser, nxt, out) := dumpN H (heightOf H hd.root + 1) hd.root (ser, nxt, #[])
      let line := ";".intercalate out.toList
      let full := line ++ "#" ++ toString hd.size ++ "#" ++ (if hd.immutable then "F" else "M")
      (ser, nxt, if idx = h then line else mine, digs.push (polyHash full), idx + 1))
    (ser0, s.nxt, "", #[], 0) |> fun (a, b, c, d, _) => (a, b, c, d)
  ({ s with ser := ser, nxt := nxt }, mine, ",".intercalate (digs.toList.map toString))

open Model.BTreeCow in
def cowMutS (s : CowSt) (h : Nat) (w : World) (hd : Handle) (res : String) : CowSt × String :=
  let s := { s with w := w, hs := s.hs.setIfInBounds h hd }
  let (s, mine, digs) := s.dumpAll h
  (s, res ++ "|" ++ toString hd.size ++ "|" ++ mine ++ "|" ++ digs)

open Model.BTreeCow in
def cowMut (s : CowSt) (h : Nat) (res : World × Handle × Outcome (Option Elt)) : CowSt × String :=
  cowMutS s h res.1 res.2.1 (outcomeStr res.2.2)

open Model.BTreeCow in
def cowStepLive (s : CowSt) (tok : String) : CowSt × String :=
  match tok.splitOn "," with
  | op :: fs =>
    match nats fs with
    | none => (s, "!")
    | some args =>
      match op, args with
      | "I", [h, k, v] =>
        match s.hs[h]? with
        | none => (s, "!")
        | some hd => cowMut s h (hd.insert s.w (k, v))
      | "D", [h, k] =>
        match s.hs[h]? with
        | none => (s, "!")
        | some hd => cowMut s h (hd.delete s.w k none)
      | "X", [h, k, v] =>
        match s.hs[h]? with
        | none => (s, "!")
        | some hd => cowMut s h (hd.delete s.w k (some (k, v)))
      | "O", [h, k] =>   -- d.pop(k): value = d[k] (KeyError), then del d[k]
        match s.hs[h]? with
        | none => (s, "!")
        | some hd =>
          match hd.get s.w k with
          | none => cowMutS s h s.w hd "KE"
          | some e =>
            let (w, hd', r) := hd.delete s.w k none
            cowMutS s h w hd' (match r with | .ok _ => toString e.2 | r => outcomeStr r)
      | "R", [h, k] =>   -- del d[k] / s.remove(k)
        match s.hs[h]? with
        | none => (s, "!")
        | some hd =>
          if s.isSet && (hd.get s.w k).isNone then cowMutS s h s.w hd "KE"
          else
            let (w, hd', r) := hd.delete s.w k none
            cowMutS s h w hd' (match r with
              | .ok (some _) => "ok"
              | .ok none => if s.isSet then "ok" else "KE"
              | r => outcomeStr r)
      | "G", [h, k] =>
        match s.hs[h]? with
        | none => (s, "!")
        | some hd => (s, showOpt (hd.get s.w k))
      | "C", [h, io] =>
        match s.hs[h]? with
        | none => (s, "!")
        | some hd =>
          match cloneTree s.w hd (io != 0) with
          | none => (s, "VE")
          | some (w, c) => ({ s with w := w, hs := s.hs.push c }, toString s.hs.size)
      | "F", [h] =>
        match s.hs[h]? with
        | none => (s, "!")
        | some hd => ({ s with hs := s.hs.setIfInBounds h { hd with immutable := true } }, "ok")
      | _, _ => (s, "!")
  | [] => (s, "!")

/-- `Z,h` at mechanism level: the handle is forgotten, its cells stay in the heap (they may be shared) -/
def cowStep (s : CowSt) (tok : String) : CowSt × String :=
  match tok.splitOn "," with
  | op :: hs :: rest =>
    match hs.toNat? with
    | some h =>
      if op == "Z" && rest.isEmpty then
        if h < s.hs.size && !s.dead.contains h then ({ s with dead := h :: s.dead }, "ok") else (s, "!")
      else if s.dead.contains h then (s, "!")
      else cowStepLive s tok
    | none => cowStepLive s tok
  | _ => cowStepLive s tok

open Model.BTreeCow in
def runCow (t : Nat) (io ca ce isSet : Bool) (ops : List String) : String :=
  let (w, hd) := newTree { heap := #[], nextCreator := 0 } t io ca ce
  let s0 : CowSt := { w := w, hs := #[hd], ser := #[], nxt := 0, isSet := isSet }
  let (_, out) := ops.foldl (fun (acc : CowSt × Array String) tok =>
    let (s', r) := cowStep acc.1 tok
    (s', acc.2.push r)) (s0, #[])
  " ".intercalate ("ok" :: out.toList)

end C19

def handleC19 : List String → Option String
  | "c19.hist" :: t :: io :: ca :: ce :: kind :: ops => do
    let t ← t.toNat?
    let io ← parseBool io
    let ca ← parseBool ca
    let ce ← parseBool ce
    let isSet ← parseBool kind
    if t < 3 then some "err ValueError" else
    some (C19.runHist t io ca ce isSet ops)
  | "c19.cow" :: t :: io :: ca :: ce :: kind :: ops => do
    let t ← t.toNat?
    let io ← parseBool io
    let ca ← parseBool ca
    let ce ← parseBool ce
    let isSet ← parseBool kind
    if t < 3 then some "err ValueError" else
    some (C19.runCow t io ca ce isSet ops)
  | ["c19.search", key, ks] => do
    -- search_in_node on a node whose element keys are `ks` (comma separated, `-` = empty)
    let key ← key.toNat?
    let ks ← if ks = "-" then some [] else (ks.splitOn ",").mapM String.toNat?
    let (i, eq) := searchInNode (ks.map fun k => (k, 0)) key
    some ("ok " ++ toString i ++ " " ++ (if eq then "1" else "0"))
  | _ => none

end Driver

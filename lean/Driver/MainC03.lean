import Driver.Loop
import Driver.Name
import Driver.C03
/-! native driver of C03: its own ops plus the shared name ops (`n.*`) -/
def main : IO Unit := Driver.runMain [Driver.handleC03, Driver.handleName]

import Driver.Util
import Model.RdataSchema
import Model.RdataIrregular
import Model.RdataTable
import Model.RdataDispatch
/-!
driver ops of C02 (prefix `c02.`)

value trees on the line protocol, space separated tokens:
  `u` unit · `n<decimal>` · `b<hex>` (`b-` empty) · `N<name>` (syntax of `parseName`) ·
  `( x1 … xk )` = right-nested pairs · `[ x1 … xk ]` = list

  c02.dec <variant> <class> <type> <origin|none> <pfx-hex> <rdata-hex>   →  ok <tree> | err
  c02.enc <variant> <class> <type> <origin|none> <tree>                   →  ok <hex> | invalid | needabs

  <variant>: 1 = every trailing NUL of an EDE text is dropped on decoding (the working tree since the repair of
  `C02/fixpoint/EDE-text-ends-with-NUL`; this is the table's OPT entry); 0 = the code as shipped before (one NUL).
  The harness learns which one the working tree implements by replaying the witness.
  c02.dispatch <class> <type>                                             →  <directory class> <mnemonic>  (`dns.rdata.get_rdata_class`)
  c02.dispatchseq <op>…   with <op> = g:<class>:<type>:<use_generic 0|1> | L:<disable 0|1>
                          →  per `g` op: <dir>/<type> | g (GenericRdata) | - (None), after running the history on
                             the model of `_rdata_classes` / `_dynamic_load_allowed` (`Model.RdataDispatch`)
  c02.wf                                                        →  per-type static status (for the evidence)
-/
namespace Driver
open Model

partial def showVal : Val → String
  | .unit => "u"
  | .nat n => "n" ++ toString n
  | .bytes b => "b" ++ toHexP b
  | .name n => "N" ++ showName n
  | .list vs => if vs.isEmpty then "[ ]" else "[ " ++ " ".intercalate (vs.map showVal) ++ " ]"
  | .pair a b => "( " ++ " ".intercalate (spine (.pair a b)) ++ " )"
where spine : Val → List String
  | .pair a b => showVal a :: spine b
  | v => [showVal v]

mutual
partial def parseVal : List String → Option (Val × List String)
  | [] => none
  | "u" :: ts => some (.unit, ts)
  | "(" :: ts => do
    let (items, ts') ← parseItems ")" ts
    if items.isEmpty then none else some (seqV items, ts')
  | "[" :: ts => do
    let (items, ts') ← parseItems "]" ts
    some (.list items, ts')
  | t :: ts =>
    match t.toList with
    | 'n' :: ds => (String.ofList ds).toNat?.map fun n => (.nat n, ts)
    | 'b' :: hs => (ofHex (String.ofList hs)).map fun b => (.bytes b, ts)
    | 'N' :: ns => (parseName (String.ofList ns)).map fun n => (.name n, ts)
    | _ => none
partial def parseItems (close : String) : List String → Option (List Val × List String)
  | [] => none
  | t :: ts =>
    if t = close then some ([], ts)
    else do
      let (v, ts') ← parseVal (t :: ts)
      let (vs, ts'') ← parseItems close ts'
      some (v :: vs, ts'')
end

def statusLine (e : Entry) : String :=
  s!"{e.cls}/{e.typ}/{e.mnemonic}:custom={e.isCustom}"

def lookupV (variant c t : Nat) : Entry :=
  let e := lookup c t
  if variant = 0 ∧ e.typ = 41 ∧ e.isCustom then { e with kind := .optShipped } else e

def showImpl : Option Impl → String
  | none => "-"
  | some .generic => "g"
  | some (.module d t) => s!"{d}/{t}"

def runHistory : DState → List String → Option (List String)
  | _, [] => some []
  | s, op :: ops =>
    match op.splitOn ":" with
    | ["g", c, t, ug] => do
      let c ← c.toNat?; let t ← t.toNat?
      let r := getClass ConstsC02.moduleFiles s c t (ug == "1")
      let tl ← runHistory r.2 ops
      some (showImpl r.1 :: tl)
    | ["L", d] => runHistory (loadAll ConstsC02.moduleFiles ConstsC02.enumTypes s (d == "1")) ops
    | _ => none

def handleC02 : List String → Option String
  | ["c02.dec", vr, c, t, o, p, r] => do
    let vr ← vr.toNat?
    let c ← c.toNat?; let t ← t.toNat?
    let o ← parseOptName o
    let p ← ofHex p; let r ← ofHex r
    some (match (lookupV vr c t).decode o p r with
      | .ok v => "ok " ++ showVal v
      | .error _ => "err")
  | "c02.enc" :: vr :: c :: t :: o :: toks => do
    let vr ← vr.toNat?
    let c ← c.toNat?; let t ← t.toNat?
    let o ← parseOptName o
    let (v, left) ← parseVal toks
    if !left.isEmpty then none
    else
      let e := lookupV vr c t
      let raw := e.pre v
      let okCtor := if e.isCustom then true else validCtor e.schema o raw
      if !okCtor then some "invalid"
      else if hasRelName raw && !(match o with | some org => isAbs org | none => false) then some "needabs"
      else some ("ok " ++ toHexP (e.encode o v))
  | ["c02.dispatch", c, t] => do
    let c ← c.toNat?; let t ← t.toNat?
    let e := lookup c t
    some (if e.mnemonic = "GENERIC" then "g GENERIC" else s!"{e.cls} {e.mnemonic}")
  | "c02.dispatchseq" :: ops => do
    let r ← runHistory DState.init ops
    some (" ".intercalate r)
  | ["c02.wf"] => some (" ".intercalate (table.map statusLine))
  | ["c02.types"] => some (" ".intercalate (modelledTypes.map fun p => s!"{p.1}/{p.2}"))
  | _ => none

end Driver

import Driver.Util
/-! driver ops of C02 (prefix `c02.`); filled in by the C02 work -/
namespace Driver
open Model

def handleC02 : List String → Option String
  | _ => none

end Driver

import Driver.Loop
import Driver.Name
import Driver.C07
/-! native driver of C07: its own ops plus the shared name ops (`n.*`) -/
def main : IO Unit := Driver.runMain [Driver.handleC07, Driver.handleName]

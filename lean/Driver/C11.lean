import Driver.Util
/-! driver ops of C11 (prefix `c11.`); filled in by the C11 work -/
namespace Driver
open Model

def handleC11 : List String → Option String
  | _ => none

end Driver

import Driver.Util
import Model.Versioned
/-! driver ops of C11 (prefix `c11.`)

`c11.run op…` → `ok tok…`, one token per op: `out|versions|pins|writer`
ops: `oL<h>` reader(), `oI<h>:<id>` reader(id=), `oS<h>:<serial>` reader(serial=), `oB<h>:<id>:<serial>` reader(id=, serial=), `c<h>` end of read txn `h`,
`w` writer(), `C<content>:<serial|->:<0|1>` commit (last field: did the txn change anything), `R` rollback,
`M<int>` / `Mnone` set_max_versions, `Pnone` / `P.` / `P<id,id,…>` set_pruning_policy (ids on which the predicate is true),
`Q<a>:<b>` set_pruning_policy(lambda zone, v: (a*len(zone._versions)+v.id) % (b+2) != 0),
`O<h>` observe through read txn `h`.

`c11.sections <op>` → `ok 1`: number of lock-protected sections the model gives the operation (it is one atomic step).
-/
namespace Driver
open Model.Versioned

def parseNatList (s : String) : Option (List Nat) :=
  if s = "." then some [] else (s.splitOn ",").mapM String.toNat?

def parseOp11 (s : String) : Option Op :=
  match s.toList with
  | 'o' :: 'L' :: r => (String.ofList r).toNat?.map Op.openLatest
  | 'o' :: 'I' :: r =>
    match (String.ofList r).splitOn ":" with
    | [h, i] => do some (Op.openId (← h.toNat?) (← i.toNat?))
    | _ => none
  | 'o' :: 'S' :: r =>
    match (String.ofList r).splitOn ":" with
    | [h, i] => do some (Op.openSerial (← h.toNat?) (← i.toNat?))
    | _ => none
  | 'o' :: 'B' :: r =>
    match (String.ofList r).splitOn ":" with
    | [h, i, sn] => do some (Op.openBoth (← h.toNat?) (← i.toNat?) (← sn.toNat?))
    | _ => none
  | 'c' :: r => (String.ofList r).toNat?.map Op.close
  | ['w'] => some Op.wopen
  | ['R'] => some Op.rollback
  | 'C' :: r =>
    match (String.ofList r).splitOn ":" with
    | [c, sn, ch] => do
      let c ← c.toNat?
      let sn ← if sn = "-" then some none else sn.toNat?.map some
      let ch ← parseBool ch
      some (Op.commit c sn ch)
    | _ => none
  | 'M' :: r =>
    let a := String.ofList r
    if a = "none" then some (Op.setMax none) else a.toInt?.map (fun n => Op.setMax (some n))
  | 'P' :: r =>
    let a := String.ofList r
    if a = "none" then some (Op.setPolicy none) else (parseNatList a).map (fun l => Op.setPolicy (some l))
  | 'Q' :: r =>
    match (String.ofList r).splitOn ":" with
    | [a, b] => do some (Op.setModp (← a.toNat?) (← b.toNat?))
    | _ => none
  | 'O' :: r => (String.ofList r).toNat?.map Op.observe
  | _ => none

def showErr11 : Err → String
  | .keyError => "KeyError" | .valueError => "ValueError" | .alreadyEnded => "AlreadyEnded" | .noWriter => "NoWriter"

def showOut11 : Out → String
  | .ok => "ok"
  | .pinned i c => s!"P{i}:{c}"
  | .err e => "E" ++ showErr11 e
  | .blocked => "B"

def insertNat (x : Nat) : List Nat → List Nat
  | [] => [x]
  | y :: r => if x ≤ y then x :: y :: r else y :: insertNat x r

def dashJoin (xs : List String) : String := if xs.isEmpty then "-" else ",".intercalate xs

def showState11 (s : State) : String :=
  let vs := dashJoin (s.versions.map fun v => s!"{v.id}:{v.content}:" ++ (match v.serial with | some n => toString n | none => "-"))
  let pins := dashJoin (((s.readers.map (·.2.id)).foldr insertNat []).map toString)
  let w := match s.writer with | some i => s!"w{i}" | none => "-"
  s!"{vs}|{pins}|{w}"

def trace11 : State → List Op → List String
  | _, [] => []
  | s, op :: rest =>
    let r := step s op
    s!"{showOut11 r.2}|{showState11 r.1}" :: trace11 r.1 rest

/-! `c11.cow op…` → `ok tok…`: the copy-on-write bookkeeping after every operation of a write transaction:
`c<changed names>|f<names whose node was created in this transaction>|v<number of committed versions>`.
ops: `b0`/`b1` writer() / writer(replacement=True), `p<name>:<c>` put, `d<name>` delete_node, `f<c>:<name,…>` glue
re-flagging of these names, `K` commit, `R` rollback. -/
def parseCow (s : String) : Option CowOp :=
  match s.toList with
  | ['b', '0'] => some (.begin false)
  | ['b', '1'] => some (.begin true)
  | ['K'] => some .commit
  | ['R'] => some .rollback
  | 'p' :: r =>
    match (String.ofList r).splitOn ":" with
    | [n, c] => do some (.put (← n.toNat?) (← c.toNat?))
    | _ => none
  | 'd' :: r => (String.ofList r).toNat?.map CowOp.del
  | 'f' :: r =>
    match (String.ofList r).splitOn ":" with
    | [c, ns] => do some (.flip (← parseNatList ns) (← c.toNat?))
    | _ => none
  | _ => none

def showCow (s : CowState) : String :=
  let sorted (l : List Nat) := dashJoin ((l.foldr insertNat []).map toString)
  match s.w with
  | none => s!"c-|f-|v{s.versions.length}"
  | some x =>
    let fresh := (x.nodes.filter (fun p => decide (x.base ≤ p.2))).map (·.1)
    s!"c{sorted x.changed.eraseDups}|f{sorted fresh}|v{s.versions.length}"

def traceCow : CowState → List CowOp → List String
  | _, [] => []
  | s, op :: rest => let s' := cowStep s op; showCow s' :: traceCow s' rest

def handleC11 : List String → Option String
  | "c11.run" :: ops => do
    let ops ← ops.mapM parseOp11
    some (" ".intercalate ("ok" :: trace11 init ops))
  | "c11.last" :: ops => do
    -- long histories: only the result and state of the last operation
    let ops ← ops.mapM parseOp11
    some ("ok " ++ ((trace11 init ops).getLast?.getD "-"))
  | "c11.cow" :: ops => do
    -- a trailing `#i,j,…` selects the positions to print (states inside one implementation call are not observable)
    let (ops, sel) := match ops.getLast? with
      | some t => if t.startsWith "#" then (ops.dropLast, some (String.ofList (t.toList.drop 1))) else (ops, none)
      | none => (ops, none)
    let ops ← ops.mapM parseCow
    let tr := traceCow cowInit ops
    match sel with
    | none => some (" ".intercalate ("ok" :: tr))
    | some t => do
      let ks ← parseNatList t
      some (" ".intercalate ("ok" :: ks.filterMap (fun k => tr[k]?)))
  | ["c11.sections", op] => do
    -- every operation of the model is ONE step of `Model.Versioned.step`, i.e. one critical section under
    -- `_version_lock`: choosing the version and registering the reader, removing a reader and pruning, appending a
    -- version and pruning, installing a policy and pruning.  The harness reports how many times the implementation
    -- acquires the lock during the same call.
    let _ ← parseOp11 op
    some "ok 1"
  | _ => none

end Driver

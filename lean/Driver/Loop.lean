/-! Line protocol loop shared by the per-property drivers: one operation per input line, one canonical output line. -/
namespace Driver

def stepWith (handlers : List (List String → Option String)) (line : String) : String :=
  let toks := (line.trimAscii.toString.splitOn " ").filter (· ≠ "")
  match handlers.findSome? (fun h => h toks) with
  | some r => r
  | none => "bad-op"

partial def loop (handlers : List (List String → Option String)) (h : IO.FS.Stream) (out : IO.FS.Stream) : IO Unit := do
  let line ← h.getLine
  if line.isEmpty then return ()
  out.putStrLn (stepWith handlers line)
  loop handlers h out

def runMain (handlers : List (List String → Option String)) : IO Unit := do
  let out ← IO.getStdout
  loop handlers (← IO.getStdin) out
  out.flush

end Driver

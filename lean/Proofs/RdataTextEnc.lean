import Proofs.RdataTextBitmap
/-! "A record accepted from text can always be encoded to wire": every value the model's `from_text` returns is within
the ranges its `to_wire` can pack (C05). -/
namespace Model
open Dnssec

/-! ### ranges guaranteed by the field parsers -/

theorem asUint_le (base max : Nat) (t : Tok) (n : Nat) (h : asUint base max t = some n) : n ≤ max := by
  unfold asUint at h
  split at h
  · cases h
  · split at h
    · cases h
    · split at h
      · split at h
        · cases h
        · split at h
          · cases h
          · injection h with h; omega
      · cases h

theorem capped_le (M : Nat) (o : Option Nat) (n : Nat)
    (h : (match o with | some t => if t > M then none else some t | none => none) = some n) : n ≤ M := by
  cases o with
  | none => cases h
  | some t =>
    simp only at h
    split at h
    · cases h
    · injection h with h; omega

theorem ttlFromText_le (s : List Nat) (n : Nat) (h : ttlFromText s = some n) : n ≤ Consts.maxTTL := by
  unfold ttlFromText at h
  exact capped_le _ _ _ h

theorem asTtl_le (t : Tok) (n : Nat) (h : asTtl t = some n) : n ≤ Consts.maxTTL := by
  unfold asTtl at h
  split at h
  · cases h
  · split at h
    · cases h
    · exact ttlFromText_le _ _ h

theorem lookupAssoc_mem (k : List Nat) (l : List (List Nat × Nat)) (w : Nat) (h : lookupAssoc k l = some w) : (k, w) ∈ l := by
  induction l with
  | nil => simp [lookupAssoc] at h
  | cons p ps ih =>
    obtain ⟨a, v⟩ := p
    unfold lookupAssoc at h
    by_cases ha : a = k
    · simp [ha] at h; subst h; subst ha; simp
    · simp [ha] at h; exact List.mem_cons_of_mem _ (ih h)

/-- obligations on the generated tables: every mnemonic value fits its wire field -/
def TablesFit : Prop :=
  (∀ p ∈ ConstsC05.algMnemonics, p.2 ≤ 255) ∧ (∀ p ∈ ConstsC05.typeNames, p.2 ≤ 65535) ∧
  (∀ p ∈ ConstsC05.schemeNames, p.2 ≤ 255) ∧ (∀ p ∈ ConstsC05.ctypeByName, p.2 ≤ 65535) ∧
  (∀ p ∈ ConstsC05.keyFlagNames, p.2 < 65536) ∧ (∀ p ∈ ConstsC05.keyProtoNames, p.2 ≤ 255) ∧
  Consts.maxTTL < 4294967296

instance : Decidable TablesFit := by unfold TablesFit; exact inferInstance
theorem tablesFit : TablesFit := by decide +kernel

theorem algoFromText_le (s : List Nat) (n : Nat) (h : algoFromText s = some n) : n ≤ 255 := by
  unfold algoFromText at h
  simp only at h
  split at h
  · rename_i v hv
    injection h with h; subst h
    exact tablesFit.1 _ (lookupAssoc_mem _ _ _ hv)
  · split at h
    · split at h
      · injection h with h; omega
      · cases h
    · cases h

theorem enumFromText_le (names : List (List Nat × Nat)) (pfx : List Nat) (max : Nat) (hn : ∀ p ∈ names, p.2 ≤ max)
    (s : List Nat) (n : Nat) (h : enumFromText names pfx max s = some n) : n ≤ max := by
  unfold enumFromText at h
  simp only at h
  split at h
  · rename_i v hv
    injection h with h; subst h
    exact hn _ (lookupName_mem _ _ _ hv)
  · split at h
    · split at h
      · injection h with h; omega
      · cases h
    · cases h

theorem rdtypeFromText_le (s : List Nat) (n : Nat) (h : rdtypeFromText s = some n) : n ≤ 65535 := by
  have ht := tablesFit.2.1
  unfold rdtypeFromText at h
  simp only at h
  split at h
  · rename_i v hv
    injection h with h; subst h
    exact ht _ (lookupName_mem _ _ _ hv)
  · split at h
    · rename_i v hv
      split at h
      · injection h with h; subst h
        split at hv
        · exact ht _ (lookupName_mem _ _ _ hv)
        · cases hv
      · exact enumFromText_le [] _ 65535 (by intro p hp; simp at hp) _ _ h
    · exact enumFromText_le [] _ 65535 (by intro p hp; simp at hp) _ _ h

theorem ip4Aton_length (t : List Nat) (a : Bytes) (h : ip4Aton t = some a) : a.length = 4 := by
  unfold ip4Aton at h
  simp only at h
  split at h
  · cases h
  · split at h
    · cases h
    · split at h
      · injection h with h; subst h
        rename_i h4 _ _
        simp only [ne_eq, Decidable.not_not] at h4
        simp [h4]
      · cases h

/-- the canonicalisation loop yields four hex digits per chunk, and one chunk per input chunk except that the (single)
empty chunk is expanded to `8 - l + 1` chunks -/
theorem ip6Canon_spec (l : Nat) (cs : List (List Nat)) (b : Bool) (r : List (List Nat)) (h : ip6Canon l cs b = some r) :
    (∀ c ∈ r, c.length = 4) ∧
    r.length = (cs.filter (· ≠ [])).length + (if cs.contains [] then 8 - l + 1 else 0) := by
  induction cs generalizing b r with
  | nil => simp [ip6Canon] at h; subst h; simp
  | cons c rest ih =>
    unfold ip6Canon at h
    by_cases hc : c = []
    · subst hc
      simp only [if_true] at h
      cases b with
      | true => simp at h
      | false =>
        simp only [Bool.false_eq_true, if_false] at h
        cases hr : ip6Canon l rest true with
        | none => simp [hr] at h
        | some r' =>
          simp [hr] at h; subst h
          obtain ⟨i1, i2⟩ := ih true r' hr
          -- after the first empty chunk no further empty chunk is accepted
          have hno : rest.contains [] = false := by
            apply Classical.byContradiction
            intro hcon
            simp only [Bool.not_eq_false] at hcon
            clear i1 i2 ih
            induction rest generalizing r' with
            | nil => simp at hcon
            | cons d ds ihd =>
              unfold ip6Canon at hr
              by_cases hd : d = []
              · subst hd; simp at hr
              · simp only [hd, if_false] at hr
                split at hr
                · cases hr
                · cases hr2 : ip6Canon l ds true with
                  | none => simp [hr2] at hr
                  | some r2 =>
                    have : ds.contains [] = true := by
                      simp only [List.contains_cons] at hcon
                      have hne : ([] == d) = false := by
                        cases d with
                        | nil => exact absurd rfl hd
                        | cons _ _ => rfl
                      simpa [hne] using hcon
                    exact ihd r2 hr2 this
          refine ⟨?_, ?_⟩
          · intro x hx
            simp only [List.mem_append, List.mem_replicate] at hx
            rcases hx with ⟨_, rfl⟩ | hx
            · rfl
            · exact i1 x hx
          · simp only [List.length_append, List.length_replicate, i2, hno]
            simp
            omega
    · simp only [hc, if_false] at h
      split at h
      · cases h
      · rename_i hl
        cases hr : ip6Canon l rest b with
        | none => simp [hr] at h
        | some r' =>
          simp [hr] at h; subst h
          obtain ⟨i1, i2⟩ := ih b r' hr
          have hne : ([] == c) = false := by
            cases c with
            | nil => exact absurd rfl hc
            | cons _ _ => rfl
          refine ⟨?_, ?_⟩
          · intro x hx
            simp only [List.mem_cons] at hx
            rcases hx with rfl | hx
            · simp [pad4]; omega
            · exact i1 x hx
          · simp only [List.length_cons, i2, List.contains_cons, hne, Bool.false_or]
            simp [hc]; omega

theorem unhexlify_length (s : List Nat) : ∀ b, unhexlify s = some b → 2 * b.length = s.length := by
  induction s using unhexlify.induct with
  | case1 => intro b h; simp [unhexlify] at h; subst h; rfl
  | case2 x => intro b h; simp [unhexlify] at h
  | case3 a b' rest x y r hr hy hx ih =>
    intro b h
    simp [unhexlify, hx, hy, hr] at h
    subst h
    have := ih r hr
    simp; omega
  | case4 a b' rest hno ih =>
    intro b h
    exfalso
    simp only [unhexlify] at h
    cases h1 : hexDigitVal a <;> cases h2 : hexDigitVal b' <;> cases h3 : unhexlify rest <;> simp [h1, h2, h3] at h
    all_goals exact hno _ _ _ h1 h2 h3

theorem flatten_length4 (r : List (List Nat)) (h : ∀ c ∈ r, c.length = 4) : r.flatten.length = 4 * r.length := by
  induction r with
  | nil => rfl
  | cons c cs ih =>
    simp only [List.flatten_cons, List.length_append, List.length_cons]
    rw [h c (by simp), ih (fun x hx => h x (by simp [hx]))]
    omega

theorem ip6Canon_true_noempty (l : Nat) (cs : List (List Nat)) (r : List (List Nat)) (h : ip6Canon l cs true = some r) :
    cs.contains [] = false := by
  induction cs generalizing r with
  | nil => rfl
  | cons d ds ih =>
    unfold ip6Canon at h
    by_cases hd : d = []
    · subst hd; simp at h
    · simp only [hd, if_false] at h
      split at h
      · cases h
      · cases hr2 : ip6Canon l ds true with
        | none => simp [hr2] at h
        | some r2 =>
          have hne : ([] == d) = false := by
            cases d with
            | nil => exact absurd rfl hd
            | cons _ _ => rfl
          simp only [List.contains_cons, hne, Bool.false_or]
          exact ih r2 hr2

theorem ip6Canon_empties (l : Nat) (cs : List (List Nat)) (r : List (List Nat)) (h : ip6Canon l cs false = some r) :
    (cs.filter (fun x => decide (x ≠ []))).length + (if cs.contains [] then 1 else 0) = cs.length := by
  induction cs generalizing r with
  | nil => rfl
  | cons c rest ih =>
    unfold ip6Canon at h
    by_cases hc : c = []
    · subst hc
      simp only [if_true, Bool.false_eq_true, if_false] at h
      cases hr : ip6Canon l rest true with
      | none => simp [hr] at h
      | some r' =>
        have hno := ip6Canon_true_noempty l rest r' hr
        have hmem : ∀ x, x ∈ rest → x ≠ [] := by
          intro x hx e; subst e
          simp only [List.contains_eq_mem, decide_eq_false_iff_not] at hno
          exact hno hx
        have hflt : rest.filter (fun x => decide (x ≠ [])) = rest := by
          rw [List.filter_eq_self]
          intro x hx
          exact decide_eq_true (hmem x hx)
        have h1 : (([] : List Nat) :: rest).contains [] = true := by simp
        have h2 : (([] : List Nat) :: rest).filter (fun x => decide (x ≠ [])) = rest := by
          rw [List.filter_cons]; simp only [ne_eq, not_true_eq_false, decide_false]
          exact hflt
        rw [h1, h2]; simp
    · simp only [hc, if_false] at h
      split at h
      · cases h
      · cases hr : ip6Canon l rest false with
        | none => simp [hr] at h
        | some r' =>
          have ih' := ih r' hr
          have hne : ([] == c) = false := by
            cases c with
            | nil => exact absurd rfl hc
            | cons _ _ => rfl
          have h2 : (c :: rest).filter (fun x => decide (x ≠ [])) = c :: rest.filter (fun x => decide (x ≠ [])) := by
            rw [List.filter_cons]; simp [hc]
          rw [h2]
          simp only [List.contains_cons, hne, Bool.false_or, List.length_cons]
          omega

theorem ip6Core_length (tt : List Nat) (a : Bytes)
    (h : (if (splitOn 58 tt).length > 8 then none
          else match ip6Canon (splitOn 58 tt).length (splitOn 58 tt) false with
            | none => none
            | some canonical =>
              if (splitOn 58 tt).length < 8 ∧ !(splitOn 58 tt).contains [] then none
              else unhexlify canonical.flatten) = some a) : a.length = 16 := by
  split at h
  · cases h
  · rename_i hl
    cases hcn : ip6Canon (splitOn 58 tt).length (splitOn 58 tt) false with
    | none => simp [hcn] at h
    | some canonical =>
      simp only [hcn] at h
      split at h
      · cases h
      · rename_i hcond
        obtain ⟨c1, c2⟩ := ip6Canon_spec _ _ _ _ hcn
        have c3 := ip6Canon_empties _ _ _ hcn
        have hu := unhexlify_length _ _ h
        rw [flatten_length4 _ c1] at hu
        by_cases hcont : (splitOn 58 tt).contains [] = true
        · simp only [hcont, if_true] at c2 c3
          omega
        · simp only [hcont, Bool.false_eq_true, if_false] at c2 c3
          have hcont' : (splitOn 58 tt).contains [] = false := by simpa using hcont
          simp only [hcont', Bool.not_false, and_true, Nat.not_lt] at hcond
          omega

theorem ip6Aton_length (t : List Nat) (a : Bytes) (h : ip6Aton t = some a) : a.length = 16 := by
  unfold ip6Aton at h
  split at h
  · cases h
  · split at h
    · cases h
    · split at h
      · cases h
      · cases hv : v4Ending (if t = [58, 58] then [48, 58, 58] else t) with
        | error e => simp [hv] at h
        | ok m =>
          simp only [hv] at h
          exact ip6Core_length _ _ h

/-! ### one field -/

/-- field kinds whose wire form the model has, with a maximum the wire field can hold -/
def WireKind (tn : String) (i : Nat) : FK → Bool
  | .uint max => decide (max < 256 ^ widthOf max)
  | .cstr _ mb _ => isRestField tn i || (match mb with | some m => decide (m ≤ 255) | none => false)
  | .hexOne => false
  | .b64One | .nameRaw => tn == "TSIG" || tn == "TKEY"   -- in schema order there (HIP: `encHip`)
  | .rcode => tn == "TSIG"
  | _ => true

/-- the encoding of the field at index `i` (as in `encFields`) -/
def encOne (tn : String) (origin : Option Name) (i : Nat) (k : FK) (v : FV) : Option Bytes :=
  match k, v with
  | .cstr _ _ _, .b s => if isRestField tn i then some s else encField origin k v
  | .b64One, .b s => if tn == "TKEY" then packGuard (decide (s.length < 65536)) (beBytes 2 s.length ++ s) else encField origin k v
  | _, _ => encField origin k v

theorem encFields_cons (tn : String) (o : Option Name) (i : Nat) (k : FK) (ks : List FK) (v : FV) (vs : List FV) :
    encFields tn o i (k :: ks) (v :: vs) =
      match encOne tn o i k v, encFields tn o (i + 1) ks vs with
      | some a, some r => some (a ++ r)
      | _, _ => none := by
  rw [encFields.eq_def]; rfl

theorem packGuard_isSome (c : Bool) (b : Bytes) (h : c = true) : (packGuard c b).isSome = true := by
  subst h; rfl

theorem sigtimeFromText_lt (w : List Nat) (n : Nat) (h : sigtimeFromText w = some n) : n < 4294967296 := by
  unfold sigtimeFromText at h
  simp only at h
  split at h
  · split at h
    · injection h with h; omega
    · cases h
  · cases h

theorem or_lt_65536 (a b : Nat) (ha : a < 65536) (hb : b < 65536) : a ||| b < 65536 :=
  Nat.or_lt_two_pow (n := 16) ha hb

theorem keyFlags_fold_lt (ps : List (List Nat)) (acc : Option Nat) (n : Nat)
    (hacc : ∀ a, acc = some a → a < 65536)
    (h : ps.foldl (fun acc p => match acc, lookupName p ConstsC05.keyFlagNames with
        | some a, some v => some (a ||| v)
        | _, _ => none) acc = some n) : n < 65536 := by
  induction ps generalizing acc with
  | nil => exact hacc n h
  | cons p ps ih =>
    simp only [List.foldl_cons] at h
    refine ih _ ?_ h
    intro a ha
    split at ha
    · rename_i a0 v0 _ hv
      injection ha with ha; subst ha
      exact or_lt_65536 _ _ (hacc _ rfl) (tablesFit.2.2.2.2.1 _ (lookupName_mem _ _ _ hv))
    · cases ha

theorem map_n_some {o : Option Nat} {v : FV} (h : o.map FV.n = some v) : ∃ n, o = some n ∧ v = .n n := by
  cases o with
  | none => cases h
  | some n => injection h with h; exact ⟨n, rfl, h.symm⟩

theorem map_b_some {o : Option Bytes} {v : FV} (h : o.map FV.b = some v) : ∃ n, o = some n ∧ v = .b n := by
  cases o with
  | none => cases h
  | some n => injection h with h; exact ⟨n, rfl, h.symm⟩

theorem bytesMax_le (m : Nat) (v b : Bytes) (h : bytesMax (some m) v = some b) : b.length ≤ m := by
  unfold bytesMax at h
  simp only at h
  split at h
  · cases h
  · injection h with h; subst h; omega

theorem b64One_len (t : Tok) (v : FV) (h : parseFieldExtra .b64One t = some v) : ∃ b, v = .b b ∧ b.length ≤ 65535 := by
  simp only [parseFieldExtra] at h
  split at h
  · split at h
    · split at h
      · cases h
      · injection h with h; exact ⟨_, h.symm, by omega⟩
    · cases h
  · cases h

theorem rcodeFit : ∀ p ∈ ConstsC05.rcodeNames, p.2 ≤ 4095 := by decide +kernel

theorem field_encodable_extra (tn : String) (O : Name) (i : Nat) (k : FK) (t : Tok) (v : FV)
    (h : parseFieldExtra k t = some v) (hk : WireKind tn i k = true) :
    (encField (some O) k v).isSome = true := by
  cases k with
  | eui n =>
    simp only [parseFieldExtra] at h
    split at h
    · split at h
      · cases h
      · split at h
        · cases h
        · split at h
          · split at h
            · injection h with h; subst h; rfl
            · cases h
          · cases h
    · cases h
  | hex16x4 =>
    simp only [parseFieldExtra] at h
    split at h
    · cases h
    · split at h
      · obtain ⟨b, _, rfl⟩ := map_b_some h; rfl
      · cases h
  | nsap =>
    simp only [parseFieldExtra] at h
    split at h
    · split at h
      · cases h
      · split at h
        · cases h
        · obtain ⟨b, _, rfl⟩ := map_b_some h; rfl
    · cases h
  | rdtype =>
    simp only [parseFieldExtra] at h
    split at h
    · obtain ⟨n, hn, rfl⟩ := map_n_some h
      have := rdtypeFromText_le _ _ hn
      exact packGuard_isSome _ _ (by simp; omega)
    · cases h
  | algoName =>
    simp only [parseFieldExtra] at h
    split at h
    · obtain ⟨n, hn, rfl⟩ := map_n_some h
      have := enumFromText_le _ _ 255 tablesFit.1 _ _ hn
      exact packGuard_isSome _ _ (by simp; omega)
    · cases h
  | scheme =>
    simp only [parseFieldExtra] at h
    split at h
    · obtain ⟨n, hn, rfl⟩ := map_n_some h
      have := enumFromText_le _ _ 255 tablesFit.2.2.1 _ _ hn
      exact packGuard_isSome _ _ (by simp; omega)
    · cases h
  | ctype =>
    simp only [parseFieldExtra] at h
    split at h
    · split at h
      · rename_i x hx
        injection h with h; subst h
        have := tablesFit.2.2.2.1 _ (lookupName_mem _ _ _ hx)
        exact packGuard_isSome _ _ (by simp; omega)
      · split at h
        · split at h
          · cases h
          · injection h with h; subst h
            exact packGuard_isSome _ _ (by simp; omega)
        · cases h
    · cases h
  | keyFlags =>
    simp only [parseFieldExtra] at h
    split at h
    · rename_i n hd
      injection h with h; subst h
      have : n < 65536 := by
        split at hd
        · cases hd
        · split at hd
          · split at hd
            · cases hd
            · injection hd with hd; omega
          · cases hd
      exact packGuard_isSome _ _ (by simp; omega)
    · obtain ⟨n, hn, rfl⟩ := map_n_some h
      have := keyFlags_fold_lt _ _ _ (by intro a ha; injection ha with ha; omega) hn
      exact packGuard_isSome _ _ (by simp; omega)
  | keyProto =>
    simp only [parseFieldExtra] at h
    split at h
    · rename_i n hd
      injection h with h; subst h
      have : n < 256 := by
        split at hd
        · cases hd
        · split at hd
          · split at hd
            · cases hd
            · injection hd with hd; omega
          · cases hd
      exact packGuard_isSome _ _ (by simp; omega)
    · obtain ⟨n, hn, rfl⟩ := map_n_some h
      have := tablesFit.2.2.2.2.2.1 _ (lookupName_mem _ _ _ hn)
      exact packGuard_isSome _ _ (by simp; omega)
  | sigtime =>
    simp only [parseFieldExtra] at h
    split at h
    · obtain ⟨n, hn, rfl⟩ := map_n_some h
      have := sigtimeFromText_lt _ _ hn
      exact packGuard_isSome _ _ (by simp; omega)
    · cases h
  | b32hex =>
    simp only [parseFieldExtra] at h
    split at h
    · split at h
      · cases h
      · split at h
        · split at h
          · cases h
          · injection h with h; subst h
            exact packGuard_isSome _ _ (by simp; omega)
        · cases h
    · cases h
  | gpos lim =>
    simp only [parseFieldExtra] at h
    split at h
    · split at h
      · cases h
      · split at h
        · injection h with h; subst h
          exact packGuard_isSome _ _ (by simp; omega)
        · cases h
    · cases h
  | hexOne => cases hk
  | b64One =>
    obtain ⟨b, rfl, _⟩ := b64One_len t v h
    rfl
  | rcode =>
    simp only [parseFieldExtra] at h
    split at h
    · obtain ⟨n, hn, rfl⟩ := map_n_some h
      have := enumFromText_le _ _ 4095 rcodeFit _ _ hn
      exact packGuard_isSome _ _ (by simp; omega)
    · cases h
  | _ => simp [parseFieldExtra] at h

theorem encOne_noncstr (tn : String) (o : Option Name) (i : Nat) (k : FK) (v : FV)
    (hk : ∀ a b c, k ≠ .cstr a b c) (hb : k ≠ .b64One) : encOne tn o i k v = encField o k v := by
  unfold encOne
  split
  · rename_i a b c s
    exact absurd rfl (hk a b c)
  · exact absurd rfl hb
  · rfl

/-- the names inside a field value -/
def namesOfFV : FV → List Name
  | .nm n => [n]
  | .nl ns => ns
  | .gw _ _ nm _ => [nm]
  | _ => []

/-- `n` can be written against the origin `O`: it is absolute, or `n ++ O` is at most 255 octets on the wire
(`Name.to_wire` raises `NameTooLong` otherwise, as it raises `NeedAbsoluteNameOrOrigin` without an origin) -/
def NameFits (O : Name) (n : Name) : Prop := isAbs n = true ∨ (toWire (n ++ O)).length ≤ 255

def NamesFit (O : Name) (vals : List FV) (tail : Option FV) : Prop :=
  (∀ v ∈ vals, ∀ n ∈ namesOfFV v, NameFits O n) ∧ (∀ t, tail = some t → ∀ n ∈ namesOfFV t, NameFits O n)

theorem encName_isSome (O : Name) (hO : isAbs O = true) (n : Name) (hf : NameFits O n) : (encName (some O) n).isSome = true := by
  unfold encName
  by_cases ha : isAbs n = true
  · simp [ha]
  · rcases hf with hf | hf
    · exact absurd hf ha
    · have : ¬ (toWire (n ++ O)).length > 255 := by omega
      simp [ha, hO, this]

theorem field_encodable (tn : String) (env : PEnv) (O : Name) (hO : isAbs O = true) (i : Nat) (k : FK) (t : Tok) (v : FV)
    (h : parseField env k t = some v) (hk : WireKind tn i k = true) (hfit : ∀ n ∈ namesOfFV v, NameFits O n) :
    (encOne tn (some O) i k v).isSome = true := by
  cases k with
  | uint max =>
    rw [encOne_noncstr _ _ _ _ _ (by intro a b c e; cases e) (by intro e; cases e)]
    simp only [parseField] at h
    obtain ⟨n, hn, rfl⟩ := map_n_some h
    have := asUint_le _ _ _ _ hn
    simp only [WireKind, decide_eq_true_eq] at hk
    exact packGuard_isSome _ _ (by simp; omega)
  | oct16 =>
    rw [encOne_noncstr _ _ _ _ _ (by intro a b c e; cases e) (by intro e; cases e)]
    simp only [parseField] at h
    obtain ⟨n, hn, rfl⟩ := map_n_some h
    have := asUint_le _ _ _ _ hn
    exact packGuard_isSome _ _ (by simp; omega)
  | ttl =>
    rw [encOne_noncstr _ _ _ _ _ (by intro a b c e; cases e) (by intro e; cases e)]
    simp only [parseField] at h
    obtain ⟨n, hn, rfl⟩ := map_n_some h
    have := asTtl_le _ _ hn
    have := tablesFit.2.2.2.2.2.2
    exact packGuard_isSome _ _ (by simp; omega)
  | name =>
    rw [encOne_noncstr _ _ _ _ _ (by intro a b c e; cases e) (by intro e; cases e)]
    simp only [parseField] at h
    cases hn : asName t env.origin env.relativize env.relTo with
    | none => simp [hn] at h
    | some n =>
      simp only [hn, Option.map_some, Option.some.injEq] at h
      subst h
      exact encName_isSome O hO n (hfit n (by simp [namesOfFV]))
  | nameRaw =>
    rw [encOne_noncstr _ _ _ _ _ (by intro a b c e; cases e) (by intro e; cases e)]
    simp only [parseField] at h
    cases hn : asName t none false none with
    | none => simp [hn] at h
    | some n =>
      simp only [hn, Option.map_some, Option.some.injEq] at h
      subst h
      exact encName_isSome O hO n (hfit n (by simp [namesOfFV]))
  | cstr mt mb q =>
    simp only [parseField] at h
    split at h
    · rename_i b0 _
      obtain ⟨b, hb, rfl⟩ := map_b_some h
      unfold encOne
      simp only
      by_cases hr : isRestField tn i = true
      · simp [hr]
      · simp only [hr, Bool.false_eq_true, if_false]
        simp only [WireKind, hr, Bool.false_or] at hk
        cases mb with
        | none => cases hk
        | some m =>
          simp only [decide_eq_true_eq] at hk
          have := bytesMax_le _ _ _ hb
          exact packGuard_isSome _ _ (by simp; omega)
    · cases h
  | ip4 =>
    rw [encOne_noncstr _ _ _ _ _ (by intro a b c e; cases e) (by intro e; cases e)]
    simp only [parseField] at h
    split at h
    · cases h
    · split at h
      · obtain ⟨b, hb, rfl⟩ := map_b_some h
        have := ip4Aton_length _ _ hb
        exact packGuard_isSome _ _ (by simp [this])
      · cases h
  | ip6 =>
    rw [encOne_noncstr _ _ _ _ _ (by intro a b c e; cases e) (by intro e; cases e)]
    simp only [parseField] at h
    split at h
    · cases h
    · split at h
      · obtain ⟨b, hb, rfl⟩ := map_b_some h
        have := ip6Aton_length _ _ hb
        exact packGuard_isSome _ _ (by simp [this])
      · cases h
  | algo =>
    rw [encOne_noncstr _ _ _ _ _ (by intro a b c e; cases e) (by intro e; cases e)]
    simp only [parseField] at h
    split at h
    · obtain ⟨n, hn, rfl⟩ := map_n_some h
      have := algoFromText_le _ _ hn
      exact packGuard_isSome _ _ (by simp; omega)
    · cases h
  | salt =>
    rw [encOne_noncstr _ _ _ _ _ (by intro a b c e; cases e) (by intro e; cases e)]
    simp only [parseField] at h
    split at h
    · split at h
      · injection h with h; subst h; rfl
      · split at h
        · split at h
          · cases h
          · injection h with h; subst h
            exact packGuard_isSome _ _ (by simp; omega)
        · cases h
    · cases h
  | eui n =>
    rw [encOne_noncstr _ _ _ _ _ (by intro a b c e; cases e) (by intro e; cases e)]
    exact field_encodable_extra tn O i _ t v (by simpa [parseField] using h) hk
  | hex16x4 =>
    rw [encOne_noncstr _ _ _ _ _ (by intro a b c e; cases e) (by intro e; cases e)]
    exact field_encodable_extra tn O i _ t v (by simpa [parseField] using h) hk
  | nsap =>
    rw [encOne_noncstr _ _ _ _ _ (by intro a b c e; cases e) (by intro e; cases e)]
    exact field_encodable_extra tn O i _ t v (by simpa [parseField] using h) hk
  | rdtype =>
    rw [encOne_noncstr _ _ _ _ _ (by intro a b c e; cases e) (by intro e; cases e)]
    exact field_encodable_extra tn O i _ t v (by simpa [parseField] using h) hk
  | algoName =>
    rw [encOne_noncstr _ _ _ _ _ (by intro a b c e; cases e) (by intro e; cases e)]
    exact field_encodable_extra tn O i _ t v (by simpa [parseField] using h) hk
  | scheme =>
    rw [encOne_noncstr _ _ _ _ _ (by intro a b c e; cases e) (by intro e; cases e)]
    exact field_encodable_extra tn O i _ t v (by simpa [parseField] using h) hk
  | ctype =>
    rw [encOne_noncstr _ _ _ _ _ (by intro a b c e; cases e) (by intro e; cases e)]
    exact field_encodable_extra tn O i _ t v (by simpa [parseField] using h) hk
  | keyFlags =>
    rw [encOne_noncstr _ _ _ _ _ (by intro a b c e; cases e) (by intro e; cases e)]
    exact field_encodable_extra tn O i _ t v (by simpa [parseField] using h) hk
  | keyProto =>
    rw [encOne_noncstr _ _ _ _ _ (by intro a b c e; cases e) (by intro e; cases e)]
    exact field_encodable_extra tn O i _ t v (by simpa [parseField] using h) hk
  | sigtime =>
    rw [encOne_noncstr _ _ _ _ _ (by intro a b c e; cases e) (by intro e; cases e)]
    exact field_encodable_extra tn O i _ t v (by simpa [parseField] using h) hk
  | b32hex =>
    rw [encOne_noncstr _ _ _ _ _ (by intro a b c e; cases e) (by intro e; cases e)]
    exact field_encodable_extra tn O i _ t v (by simpa [parseField] using h) hk
  | gpos lim =>
    rw [encOne_noncstr _ _ _ _ _ (by intro a b c e; cases e) (by intro e; cases e)]
    exact field_encodable_extra tn O i _ t v (by simpa [parseField] using h) hk
  | hexOne => cases hk
  | b64One =>
    have h' : parseFieldExtra .b64One t = some v := by simpa [parseField] using h
    obtain ⟨b, rfl, hl⟩ := b64One_len t v h'
    unfold encOne
    simp only
    split
    · exact packGuard_isSome _ _ (by simp; omega)
    · rfl
  | rcode =>
    rw [encOne_noncstr _ _ _ _ _ (by intro a b c e; cases e) (by intro e; cases e)]
    exact field_encodable_extra tn O i _ t v (by simpa [parseField] using h) hk

/-! ### all prefix fields, the tail, the record -/

def wireKinds (tn : String) : Nat → List FK → Bool
  | _, [] => true
  | i, k :: ks => WireKind tn i k && wireKinds tn (i + 1) ks

theorem fields_encodable (tn : String) (env : PEnv) (O : Name) (hO : isAbs O = true) (ks : List FK) :
    ∀ (i : Nat) (toks : List Tok) (vals : List FV) (rest : List Tok),
      parseFields env ks toks = some (vals, rest) → wireKinds tn i ks = true →
      (∀ v ∈ vals, ∀ n ∈ namesOfFV v, NameFits O n) →
      (encFields tn (some O) i ks vals).isSome = true := by
  induction ks with
  | nil =>
    intro i toks vals rest h _ _
    simp only [parseFields] at h
    injection h with h; injection h with h1 h2; subst h1
    rfl
  | cons k ks ih =>
    intro i toks vals rest h hk hfit
    cases toks with
    | nil => simp [parseFields] at h
    | cons t ts =>
      simp only [parseFields] at h
      simp only [wireKinds, Bool.and_eq_true] at hk
      cases hv : parseField env k t with
      | none => simp [hv] at h
      | some v =>
        cases hr : parseFields env ks ts with
        | none => simp [hv, hr] at h
        | some pr =>
          obtain ⟨vs, rest'⟩ := pr
          simp only [hv, hr, Option.some.injEq, Prod.mk.injEq] at h
          obtain ⟨h1, _⟩ := h
          subst h1
          rw [encFields_cons]
          have e1 := field_encodable tn env O hO i k t v hv hk.1 (hfit v (by simp))
          have e2 := ih (i + 1) ts vs rest' hr hk.2 (fun w hw => hfit w (by simp [hw]))
          cases ha : encOne tn (some O) i k v with
          | none => simp [ha] at e1
          | some a =>
            cases hb : encFields tn (some O) (i + 1) ks vs with
            | none => simp [hb] at e2
            | some b => rfl

theorem parseTxt_le (toks : List Tok) (ss : List Bytes) (h : parseTxt toks = some ss) : ∀ s ∈ ss, s.length ≤ 255 := by
  induction toks generalizing ss with
  | nil => simp [parseTxt] at h; subst h; simp
  | cons t ts ih =>
    simp only [parseTxt] at h
    split at h
    · rename_i b r _ hr
      split at h
      · cases h
      · injection h with h; subst h
        intro s hs
        rcases List.mem_cons.mp hs with rfl | hs
        · omega
        · exact ih r hr s hs
    · cases h

theorem bitmap_types_range (toks : List Tok) (tys : List Nat) (h : parseTail.types toks = some tys) :
    ∀ t ∈ tys, 0 < t ∧ t < 65536 := by
  induction toks generalizing tys with
  | nil => simp [parseTail.types] at h; subst h; simp
  | cons t ts ih =>
    simp only [parseTail.types] at h
    split at h
    · split at h
      · rename_i ty r hty hr
        split at h
        · cases h
        · injection h with h; subst h
          intro x hx
          rcases List.mem_cons.mp hx with rfl | hx
          · have := rdtypeFromText_le _ _ hty
            omega
          · exact ih r hr x hx
      · cases h
    · cases h

theorem map_sb_some {o : Option Bytes} {tail : Option FV} (h : o.map (fun b => some (FV.b b)) = some tail) :
    ∃ b, tail = some (.b b) := by
  cases o with
  | none => cases h
  | some b => injection h with h; exact ⟨b, h.symm⟩

def WireTail : TK → Bool
  | .names => false      -- HIP: `encHip`
  | _ => true

theorem trimZeros_length_le (a : Bytes) : (trimZeros a).length ≤ a.length := by
  unfold trimZeros
  rw [List.length_reverse]
  have := (List.dropWhile_sublist (fun x => x == 0) (l := a.reverse)).length_le
  simpa using this

theorem aplBody_encodable (neg : Bool) (item : List Nat) (it : Nat × Bool × Bytes × Nat)
    (h : parseAplBody neg item = some it) : (encAplItem it).isSome = true := by
  unfold parseAplBody at h
  split at h
  · cases h
  · split at h
    · cases h
    · split at h
      · cases h
      · rename_i hf65
        split at h
        · cases h
        · split at h
          · cases h
          · split at h
            · cases h
            · split at h
              · split at h
                · rename_i a ha
                  split at h
                  · injection h with h; subst h
                    have hl := ip4Aton_length _ _ ha
                    have := trimZeros_length_le a
                    apply packGuard_isSome
                    simp only [Bool.and_eq_true, decide_eq_true_eq]
                    omega
                  · cases h
                · cases h
              · split at h
                · split at h
                  · rename_i a ha
                    split at h
                    · injection h with h; subst h
                      have hl := ip6Aton_length _ _ ha
                      have := trimZeros_length_le a
                      apply packGuard_isSome
                      simp only [Bool.and_eq_true, decide_eq_true_eq]
                      omega
                    · cases h
                  · cases h
                · split at h
                  · cases h
                  · rename_i hlen
                    split at h
                    · rename_i a ha
                      split at h
                      · injection h with h; subst h
                        have hl := unhexlify_length _ _ ha
                        have := trimZeros_length_le a
                        apply packGuard_isSome
                        simp only [Bool.and_eq_true, decide_eq_true_eq]
                        omega
                      · cases h
                    · cases h

theorem aplItem_encodable (t : Tok) (it : Nat × Bool × Bytes × Nat) (h : parseAplItem t = some it) :
    (encAplItem it).isSome = true := by
  unfold parseAplItem at h
  split at h
  · cases h
  · cases h
  · split at h
    · exact aplBody_encodable _ _ _ h
    · exact aplBody_encodable _ _ _ h

theorem apl_encodable (toks : List Tok) (items : List (Nat × Bool × Bytes × Nat)) (h : parseApl toks = some items) :
    (encAplItems items).isSome = true := by
  induction toks generalizing items with
  | nil => simp [parseApl] at h; subst h; rfl
  | cons t ts ih =>
    simp only [parseApl] at h
    split at h
    · rename_i it r hit hr
      injection h with h; subst h
      have e1 := aplItem_encodable t it hit
      have e2 := ih r hr
      simp only [encAplItems]
      cases ha : encAplItem it with
      | none => simp [ha] at e1
      | some a =>
        cases hb : encAplItems r with
        | none => simp [hb] at e2
        | some b => rfl
    · cases h

theorem gatewayTok_encodable (env : PEnv) (O : Name) (hO : isAbs O = true) (ty : Nat) (t : Tok) (addr : List Nat) (nm : Name)
    (h : parseGatewayTok env ty t = some (addr, nm)) (hf : NameFits O nm) : (encGateway (some O) ty addr nm).isSome = true := by
  unfold parseGatewayTok at h
  unfold encGateway
  split at h
  · split at h
    · split at h
      · rename_i h0
        split at h
        · injection h with h; injection h with h1 h2; subst h1; subst h2; simp [h0]
        · cases h
      · rename_i h0
        split at h
        · rename_i h1
          split at h
          · rename_i hv
            injection h with h; injection h with e1 e2; subst e1; subst e2
            simp [h1, hv]
          · cases h
        · rename_i h1
          have h2 : ty = 2 := by omega
          split at h
          · rename_i hv
            injection h with h; injection h with e1 e2; subst e1; subst e2
            simp [h2, hv]
          · cases h
    · cases h
  · split at h
    · rename_i h3
      cases hn : asName t env.origin env.relativize env.relTo with
      | none => simp [hn] at h
      | some n =>
        simp only [hn, Option.map_some, Option.some.injEq, Prod.mk.injEq] at h
        obtain ⟨_, rfl⟩ := h
        simp only [h3]
        simpa using encName_isSome O hO n hf
    · cases h

theorem tail_encodable (env : PEnv) (O : Name) (hO : isAbs O = true) (vals : List FV) (tk : TK) (toks : List Tok) (tail : Option FV)
    (h : parseTailE env vals tk toks = some tail) (hk : WireTail tk = true)
    (hfit : ∀ t, tail = some t → ∀ n ∈ namesOfFV t, NameFits O n) : (encTail (some O) tk tail).isSome = true := by
  unfold parseTailE at h
  cases tk with
  | names => cases hk
  | b64Opt =>
    simp only [parseTail] at h
    split at h
    · split at h
      · split at h
        · cases h
        · injection h with h; subst h
          exact packGuard_isSome _ _ (by simp; omega)
      · cases h
    · cases h
  | tsigOther =>
    simp only [parseTail] at h
    split at h
    · split at h
      · injection h with h; subst h; rfl
      · cases h
    · split at h
      · cases h
      · split at h
        · split at h
          · split at h
            · injection h with h; subst h; rfl
            · cases h
          · cases h
        · cases h
    · cases h
  | gateway ti ai =>
    simp only [parseGateway] at h
    split at h
    · rename_i ty t rest _
      split at h
      · cases h
      · rename_i addr nm hg
        have htl : ∃ key, tail = some (.gw ty addr nm key) := by
          split at h
          · split at h
            · injection h with h; exact ⟨[], h.symm⟩
            · cases h
          · split at h
            · split at h
              · rename_i s _
                cases hd : b64Decode s with
                | none => simp [hd] at h
                | some k => simp [hd] at h; exact ⟨k, h.symm⟩
              · cases h
            · cases h
        obtain ⟨key, rfl⟩ := htl
        have hf := hfit _ rfl nm (by simp [namesOfFV])
        obtain ⟨g, hge⟩ := Option.isSome_iff_exists.mp (gatewayTok_encodable env O hO ty t addr nm hg hf)
        simp [encTail, hge]
    · cases h
  | apl =>
    simp only [parseTail] at h
    cases hp : parseApl toks with
    | none => simp [hp] at h
    | some items =>
      simp only [hp, Option.map_some, Option.some.injEq] at h
      subst h
      exact apl_encodable toks items hp
  | wks =>
    simp only [parseTail, parseWks] at h
    split at h
    · split at h
      · split at h
        · cases h
        · rename_i addr ha
          split at h
          · split at h
            · cases h
            · split at h
              · injection h with h; subst h
                have := ip4Aton_length _ _ ha
                apply packGuard_isSome
                simp only [Bool.and_eq_true, decide_eq_true_eq]
                omega
              · cases h
          · cases h
      · cases h
    · cases h
  | none =>
    simp only [reduceCtorEq, if_false, parseTail] at h
    split at h
    · injection h with h; subst h; rfl
    · cases h
  | hex =>
    simp only [reduceCtorEq, if_false, parseTail] at h
    split at h
    · obtain ⟨b, rfl⟩ := map_sb_some h; rfl
    · cases h
  | b64 f =>
    simp only [reduceCtorEq, if_false, parseTail] at h
    split at h
    · obtain ⟨b, rfl⟩ := map_sb_some h; rfl
    · cases h
  | keyB64 =>
    simp only [reduceCtorEq, if_false, parseTail] at h
    split at h
    · split at h
      · injection h with h; subst h; rfl
      · cases h
    · split at h
      · obtain ⟨b, rfl⟩ := map_sb_some h; rfl
      · cases h
  | bitmap =>
    simp only [reduceCtorEq, if_false, parseTail] at h
    cases ht : parseTail.types toks with
    | none => simp [ht] at h
    | some tys =>
      simp only [ht, Option.map_some, Option.some.injEq] at h
      subst h
      have hr := bitmap_types_range _ _ ht
      obtain ⟨_, _, hw⟩ := fromRdtypes_exact tys hr
      apply packGuard_isSome
      rw [List.all_eq_true]
      intro w hwm
      obtain ⟨a, _, c, _⟩ := hw w hwm
      simp only [Bool.and_eq_true, decide_eq_true_eq]
      omega
  | txt =>
    simp only [reduceCtorEq, if_false, parseTail] at h
    split at h
    · rename_i ss hss
      split at h
      · cases h
      · injection h with h; subst h
        apply packGuard_isSome
        rw [List.all_eq_true]
        intro s hs
        have := parseTxt_le _ _ hss s hs
        simp only [decide_eq_true_eq]; omega
    · cases h
  | optCstr =>
    simp only [reduceCtorEq, if_false, parseTail] at h
    split at h
    · injection h with h; subst h; rfl
    · split at h
      · rename_i v _
        cases hb : bytesMax (some 255) v with
        | none => simp [hb] at h
        | some b =>
          simp only [hb, Option.map_some, Option.some.injEq] at h
          subst h
          have := bytesMax_le _ _ _ hb
          exact packGuard_isSome _ _ (by simp; omega)
      · cases h
    · cases h

/-- schemas all of whose parts have a wire form in the model with checked ranges -/
def schemaEncodable (tn : String) (sch : Schema) : Bool :=
  wireKinds tn 0 sch.fields && WireTail sch.tail

theorem record_encodable (tn : String) (sch : Schema) (env : PEnv) (O : Name) (hO : isAbs O = true)
    (hs : schemaEncodable tn sch = true) (toks : List Tok) (vals : List FV) (tail : Option FV)
    (h : parseRec sch env toks = some (vals, tail)) (hfit : NamesFit O vals tail) :
    (encRecG tn sch (some O) vals tail).isSome = true := by
  unfold parseRec at h
  simp only [schemaEncodable, Bool.and_eq_true] at hs
  obtain ⟨hf, ht⟩ := hs
  split at h
  · cases h
  · rename_i vals' rest hpf
    split at h
    · cases h
    · rename_i tail' hpt
      split at h
      · injection h with h; injection h with h1 h2; subst h1; subst h2
        have e1 := fields_encodable tn env O hO sch.fields 0 toks vals' rest hpf hf hfit.1
        have e2 := tail_encodable env O hO vals' sch.tail rest tail' hpt ht hfit.2
        unfold encRecG
        cases ha : encFields tn (some O) 0 sch.fields vals' with
        | none => simp [ha] at e1
        | some a =>
          cases hb : encTail (some O) sch.tail tail' with
          | none => simp [hb] at e2
          | some b => rfl
      · cases h

/-! ### HIP (header not in schema order) -/

theorem parseFields_cons_inv (env : PEnv) (k : FK) (ks : List FK) (toks : List Tok) (vals : List FV) (rest : List Tok)
    (h : parseFields env (k :: ks) toks = some (vals, rest)) :
    ∃ t ts v vs, toks = t :: ts ∧ parseField env k t = some v ∧ parseFields env ks ts = some (vs, rest) ∧ vals = v :: vs := by
  cases toks with
  | nil => simp [parseFields] at h
  | cons t ts =>
    simp only [parseFields] at h
    cases hv : parseField env k t with
    | none => simp [hv] at h
    | some v =>
      cases hr : parseFields env ks ts with
      | none => simp [hv, hr] at h
      | some pr =>
        obtain ⟨vs, rest'⟩ := pr
        simp only [hv, hr, Option.some.injEq, Prod.mk.injEq] at h
        obtain ⟨h1, h2⟩ := h
        subst h1; subst h2
        exact ⟨t, ts, v, vs, rfl, hv, hr, rfl⟩

theorem encNames_isSome (O : Name) (hO : isAbs O = true) (ns : List Name) (hf : ∀ n ∈ ns, NameFits O n) :
    (encNames (some O) ns).isSome = true := by
  induction ns with
  | nil => rfl
  | cons n r ih =>
    obtain ⟨a, ha⟩ := Option.isSome_iff_exists.mp (encName_isSome O hO n (hf n (by simp)))
    obtain ⟨b, hb⟩ := Option.isSome_iff_exists.mp (ih (fun m hm => hf m (by simp [hm])))
    simp only [encNames, ha, hb]
    rfl

theorem hexOne_len (t : Tok) (v : FV) (h : parseFieldExtra .hexOne t = some v) : ∃ b, v = .b b ∧ b.length ≤ 255 := by
  simp only [parseFieldExtra] at h
  split at h
  · split at h
    · split at h
      · cases h
      · injection h with h; exact ⟨_, h.symm, by omega⟩
    · cases h
  · cases h

theorem hip_encodable (sch : Schema) (hs : schemaOf "HIP" = some sch) (env : PEnv) (O : Name) (hO : isAbs O = true)
    (toks : List Tok) (vals : List FV) (tail : Option FV) (h : parseRec sch env toks = some (vals, tail))
    (hfit : NamesFit O vals tail) : (encHip (some O) vals tail).isSome = true := by
  simp only [schemaOf, Option.some.injEq] at hs
  subst hs
  unfold parseRec at h
  simp only at h
  split at h
  · cases h
  · rename_i vals' rest hpf
    split at h
    · cases h
    · rename_i tail' hpt
      split at h
      · injection h with h; injection h with h1 h2; subst h1; subst h2
        obtain ⟨t1, ts1, v1, vs1, rfl, p1, q1, rfl⟩ := parseFields_cons_inv _ _ _ _ _ _ hpf
        obtain ⟨t2, ts2, v2, vs2, rfl, p2, q2, rfl⟩ := parseFields_cons_inv _ _ _ _ _ _ q1
        obtain ⟨t3, ts3, v3, vs3, rfl, p3, q3, rfl⟩ := parseFields_cons_inv _ _ _ _ _ _ q2
        simp only [parseFields, Option.some.injEq, Prod.mk.injEq] at q3
        obtain ⟨rfl, rfl⟩ := q3
        simp only [u8, parseField] at p1
        obtain ⟨alg, ha, rfl⟩ := map_n_some p1
        have hal := asUint_le _ _ _ _ ha
        obtain ⟨hit, rfl, hhl⟩ := hexOne_len t2 v2 (by simpa [parseField] using p2)
        obtain ⟨key, rfl, hkl⟩ := b64One_len t3 v3 (by simpa [parseField] using p3)
        simp only [parseTailE] at hpt
        cases hn : parseNames env ts3 with
        | none => simp [hn] at hpt
        | some ns =>
          simp only [hn, Option.map_some, Option.some.injEq] at hpt
          subst hpt
          have e2 := encNames_isSome O hO ns (fun n hn' => hfit.2 _ rfl n (by simpa [namesOfFV] using hn'))
          have e1 : (packGuard (decide (hit.length < 256) && decide (alg < 256) && decide (key.length < 65536))
              ([hit.length, alg] ++ beBytes 2 key.length ++ hit ++ key)).isSome = true :=
            packGuard_isSome _ _ (by simp; omega)
          obtain ⟨a, hpa⟩ := Option.isSome_iff_exists.mp e1
          obtain ⟨b, hpb⟩ := Option.isSome_iff_exists.mp e2
          simp only [encHip, hpa, hpb]
          rfl
      · cases h

end Model

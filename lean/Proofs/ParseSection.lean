import Proofs.ParseMerge
/-! Parsing back a whole section: every record set of a well-formed section is rebuilt, in order. -/
namespace Model

variable {Rs : RelSpec}

/-- what the library's own constructors guarantee of a record set in an answer/authority/additional section of a
non-update message, plus the field ranges `struct.pack` accepts -/
structure RRsetOk (Rs : RelSpec) (r : RRset) : Prop where
  name : NameOk Rs none r.name
  rdtype : r.rdtype < 65536
  rdclass : r.rdclass < 65536
  ttl : r.ttl ≤ ConstsC03.ttlClampAbove
  notSpecial : r.rdtype ≠ ConstsC03.typeOPT ∧ r.rdtype ≠ ConstsC03.typeTSIG
  deleting : r.deleting = none
  nonempty : r.rdatas ≠ []
  rds : ∀ rd ∈ r.rdatas, rd.valid Rs ∧ shapeOf r.rdtype = rd.shape ∧ rdCovers r.rdtype rd = r.covers
  distinct : r.rdatas.Pairwise (fun a b => a.eqv b = false)
  single : r.rdtype ∈ ConstsC03.singletons → r.rdatas.length ≤ 1

theorem keyMatch_name_congr (a b : Name) (h : lowerName a = lowerName b) (rdclass rdtype covers : Nat)
    (d : Option Nat) (x : RRset) : keyMatch a rdclass rdtype covers d x = keyMatch b rdclass rdtype covers d x := by
  simp [keyMatch, h]

theorem keyMatch_sim (n : Name) (rdclass rdtype covers : Nat) (d : Option Nat) (x x' : RRset) (h : x'.sim Rs x) :
    keyMatch n rdclass rdtype covers d x' = keyMatch n rdclass rdtype covers d x := by
  obtain ⟨h1, h2, h3, h4, h5, _, _⟩ := h
  simp only [keyMatch]
  rw [show lowerName x'.name = lowerName x.name from Rs.toEqv h1, h2, h3, h4, h5]

/-- all records of one record set -/
theorem parseSection_rrset (cfg : PCfg) (horg : cfg.origin = none) (hnorr : cfg.oneRRPerRRset = false)
    (r : RRset) (hr : RRsetOk Rs r) (A post : Bytes) (t : CTable) (q : Bytes × CTable × Nat) (sec count i : Nat)
    (st : PState) (L : List RRset) (hcur : st.cur = A.length) (hs : TableSound Rs.R A t)
    (hsec : st.section sec = L)
    (hnew : ∀ x ∈ L, keyMatch r.name r.rdclass r.rdtype r.covers none x = false)
    (h : rrsetExt A.length t none r = .ok q) :
    ∃ r', parseSection cfg false (A ++ q.1 ++ post) sec count q.2.2 i st =
        .ok (({ st with cur := A.length + q.1.length } : PState).setSection sec (L ++ [r']))
      ∧ r'.sim Rs r ∧ TableSound Rs.R (A ++ q.1) (t ++ q.2.1) ∧ q.2.2 = r.rdatas.length := by
  unfold rrsetExt at h
  have hlen : ¬ r.rdatas.length = 0 := fun h0 => hr.nonempty (List.length_eq_zero_iff.mp h0)
  have hwc : r.wireClass = r.rdclass := by simp [RRset.wireClass, hr.deleting]
  simp only [hlen, if_false, hwc] at h
  cases h1 : rdsExt r.name r.rdtype r.rdclass r.ttl none A.length t r.rdatas with
  | error e => rw [h1] at h; simp at h
  | ok q1 =>
    rw [h1] at h; simp only at h; cases h
    -- first record
    cases hrd : r.rdatas with
    | nil => exact absurd hrd hr.nonempty
    | cons rd rest =>
      rw [hrd] at h1
      unfold rdsExt at h1
      cases h2 : rrExt r.name r.rdtype r.rdclass r.ttl none A.length t rd with
      | error e => rw [h2] at h1; simp at h1
      | ok q2 =>
        rw [h2] at h1; simp only at h1
        cases h3 : rdsExt r.name r.rdtype r.rdclass r.ttl none (A.length + q2.1.length) (t ++ q2.2) rest with
        | error e => rw [h3] at h1; simp at h1
        | ok q3 =>
          rw [h3] at h1; simp only at h1; cases h1
          have hall := hr.rds
          rw [hrd] at hall
          obtain ⟨hv, hshape, hcov⟩ := hall rd (by simp)
          have hpw := hr.distinct
          rw [hrd] at hpw
          have hW : A ++ (q2.1 ++ q3.1) ++ post = A ++ q2.1 ++ (q3.1 ++ post) := by simp [List.append_assoc]
          obtain ⟨owner', rd', hown', hsim, hp⟩ := parseRR_of_rrExt cfg horg A (q3.1 ++ post) t r.name r.rdtype
            r.rdclass r.ttl rd q2 sec count i st hcur hs hr.name hv hshape hr.rdtype hr.rdclass hr.ttl hr.notSpecial h2
          have hadd : sectionAdd (st.section sec) owner' r.rdclass r.rdtype (rdCovers r.rdtype rd') none
              cfg.oneRRPerRRset (some (rd', r.ttl)) =
              L ++ [{ name := owner', rdclass := r.rdclass, rdtype := r.rdtype, covers := r.covers, deleting := none,
                      ttl := r.ttl, rdatas := [rd'] }] := by
            rw [hsec, hnorr, rdCovers_of_sim hsim, hcov]
            apply sectionAdd_first
            intro x hx
            rw [keyMatch_name_congr owner' r.name (Rs.toEqv hown')]
            exact hnew x hx
          rw [hadd] at hp
          have hs1 := rrExt_sound r.name r.rdtype r.rdclass r.ttl none A t rd q2 hr.name (RData.valid_namesOk hv) hs h2
          have hl : (A ++ q2.1).length = A.length + q2.1.length := by simp
          have hsing : rest ≠ [] → r.rdtype ∉ ConstsC03.singletons := by
            intro hne hmem
            have := hr.single hmem
            rw [hrd] at this
            cases rest with
            | nil => exact hne rfl
            | cons _ _ => simp at this
          obtain ⟨cur', hp2, hcok', hs2⟩ := parseSection_rds cfg horg hnorr r.name r.rdtype r.rdclass r.ttl r.covers
            hr.name hr.rdtype hr.rdclass hr.ttl hr.notSpecial rest (A ++ q2.1) post (t ++ q2.2) q3 sec count (i + 1)
            (({ st with cur := A.length + q2.1.length } : PState).setSection sec
              (L ++ [{ name := owner', rdclass := r.rdclass, rdtype := r.rdtype, covers := r.covers, deleting := none,
                       ttl := r.ttl, rdatas := [rd'] }]))
            L { name := owner', rdclass := r.rdclass, rdtype := r.rdtype, covers := r.covers, deleting := none,
                ttl := r.ttl, rdatas := [rd'] } [rd]
            (by rw [cur_setSection, hl]) hs1 (section_setSection _ _ _)
            ⟨hown', rfl, rfl, rfl, rfl, rfl, SimList.cons hsim SimList.nil⟩ (by simp)
            (fun x hx => hall x (by simp [hx]))
            (by
              intro x hx d hd
              simp at hd; subst hd
              exact (List.pairwise_cons.mp hpw).1 x hx)
            (List.pairwise_cons.mp hpw).2 hsing (by rw [hl]; exact h3)
          refine ⟨cur', ?_, ?_, by simpa [List.append_assoc] using hs2, by simp⟩
          · simp only [List.length_cons, parseSection]
            rw [hW, hp]
            simp only
            have hW2 : A ++ q2.1 ++ (q3.1 ++ post) = A ++ q2.1 ++ q3.1 ++ post := by simp [List.append_assoc]
            rw [hW2, hp2, setSection_setSection]
            simp [hl, List.length_append, Nat.add_assoc]
          · have hcr := hcok'.rdatas
            simp only [List.singleton_append] at hcr
            exact ⟨hcok'.name, hcok'.rdclass, hcok'.rdtype, hcok'.covers, by rw [hcok'.deleting, hr.deleting], hcok'.ttl,
              by rw [hrd]; exact hcr⟩

end Model

namespace Model

/-! ### a run of items relative to the offset -/

def itemsExt (origin : Option Name) : Nat → CTable → List Item → Except RErr (Bytes × CTable)
  | _, _, [] => .ok ([], [])
  | off, t, it :: rest =>
    match itemExt off t origin it with
    | .error e => .error e
    | .ok p =>
      match itemsExt origin (off + p.1.length) (t ++ p.2.1) rest with
      | .error e => .error e
      | .ok p' => .ok (p.1 ++ p'.1, p.2.1 ++ p'.2)

theorem itemsExt_append (origin : Option Name) (a b : List Item) : ∀ (off : Nat) (t : CTable),
    itemsExt origin off t (a ++ b) =
      match itemsExt origin off t a with
      | .error e => .error e
      | .ok p =>
        match itemsExt origin (off + p.1.length) (t ++ p.2) b with
        | .error e => .error e
        | .ok p' => .ok (p.1 ++ p'.1, p.2 ++ p'.2) := by
  induction a with
  | nil =>
    intro off t
    simp only [List.nil_append, itemsExt, List.length_nil, Nat.add_zero, List.append_nil]
    cases itemsExt origin off t b <;> simp
  | cons it rest ih =>
    intro off t
    simp only [List.cons_append, itemsExt]
    cases itemExt off t origin it with
    | error e => rfl
    | ok p =>
      simp only
      rw [ih]
      cases itemsExt origin (off + p.1.length) (t ++ p.2.1) rest with
      | error e => rfl
      | ok p1 =>
        simp only [List.length_append, List.append_assoc, Nat.add_assoc]
        cases itemsExt origin (off + (p.1.length + p1.1.length)) (t ++ (p.2.1 ++ p1.2)) b with
        | error e => rfl
        | ok p2 => simp [List.append_assoc]

theorem parseSection_add (cfg : PCfg) (upd : Bool) (w : Bytes) (sec count : Nat) (a b : Nat) : ∀ (i : Nat) (st : PState),
    parseSection cfg upd w sec count (a + b) i st =
      match parseSection cfg upd w sec count a i st with
      | .ok st1 => parseSection cfg upd w sec count b (i + a) st1
      | .error e => .error e := by
  induction a with
  | zero => intro i st; simp [parseSection]
  | succ n ih =>
    intro i st
    have : n + 1 + b = (n + b) + 1 := by omega
    rw [this]
    simp only [parseSection]
    cases parseRR cfg upd w sec count i st with
    | error e => rfl
    | ok st1 =>
      simp only
      rw [ih]
      have : i + 1 + n = i + (n + 1) := by omega
      rw [this]

/-- all record sets of a section -/
theorem parseSection_rrsets (cfg : PCfg) (horg : cfg.origin = none) (hnorr : cfg.oneRRPerRRset = false) (sec : Nat)
    (rs : List RRset) : ∀ (A post : Bytes) (t : CTable) (q : Bytes × CTable) (count i : Nat) (st : PState)
      (L : List RRset), st.cur = A.length → TableSound Rs.R A t → st.section sec = L →
      (∀ r ∈ rs, RRsetOk Rs r) →
      (∀ r ∈ rs, ∀ x ∈ L, keyMatch r.name r.rdclass r.rdtype r.covers none x = false) →
      rs.Pairwise (fun a b => keyMatch b.name b.rdclass b.rdtype b.covers none a = false) →
      itemsExt none A.length t (rs.map (Item.rr sec)) = .ok q →
      ∃ rs', parseSection cfg false (A ++ q.1 ++ post) sec count (rrCount rs) i st =
          .ok (({ st with cur := A.length + q.1.length } : PState).setSection sec (L ++ rs'))
        ∧ SimList (RRset.sim Rs) rs' rs ∧ TableSound Rs.R (A ++ q.1) (t ++ q.2) := by
  induction rs with
  | nil =>
    intro A post t q count i st L hcur hs hsec _ _ _ h
    simp [itemsExt] at h
    subst h
    refine ⟨[], ?_, SimList.nil, by simpa using hs⟩
    simp only [rrCount, List.map_nil, List.sum_nil, parseSection, List.length_nil, Nat.add_zero, List.append_nil]
    rw [← hcur, ← hsec, setSection_self]
  | cons r rest ih =>
    intro A post t q count i st L hcur hs hsec hok hnewL hpw h
    simp only [List.map_cons, itemsExt, itemExt] at h
    cases h1 : rrsetExt A.length t none r with
    | error e => rw [h1] at h; simp at h
    | ok q1 =>
      rw [h1] at h; simp only at h
      cases h2 : itemsExt none (A.length + q1.1.length) (t ++ q1.2.1) (rest.map (Item.rr sec)) with
      | error e => rw [h2] at h; simp at h
      | ok q2 =>
        rw [h2] at h; simp only at h; cases h
        have hW : A ++ (q1.1 ++ q2.1) ++ post = A ++ q1.1 ++ (q2.1 ++ post) := by simp [List.append_assoc]
        obtain ⟨r', hp1, hsim, hs1, hn1⟩ := parseSection_rrset cfg horg hnorr r (hok r (by simp)) A (q2.1 ++ post) t q1
          sec count i st L hcur hs hsec (hnewL r (by simp)) h1
        have hl : (A ++ q1.1).length = A.length + q1.1.length := by simp
        obtain ⟨rs', hp2, hsims, hs2⟩ := ih (A ++ q1.1) post (t ++ q1.2.1) q2 count (i + q1.2.2)
          (({ st with cur := A.length + q1.1.length } : PState).setSection sec (L ++ [r'])) (L ++ [r'])
          (by rw [cur_setSection, hl]) hs1 (section_setSection _ _ _)
          (fun x hx => hok x (by simp [hx]))
          (by
            intro x hx y hy
            rcases List.mem_append.mp hy with hy | hy
            · exact hnewL x (by simp [hx]) y hy
            · simp at hy; subst hy
              rw [keyMatch_sim _ _ _ _ _ r y hsim]
              exact (List.pairwise_cons.mp hpw).1 x hx)
          (List.pairwise_cons.mp hpw).2 (by rw [hl]; exact h2)
        refine ⟨r' :: rs', ?_, SimList.cons hsim hsims, by simpa [List.append_assoc] using hs2⟩
        have hcnt : rrCount (r :: rest) = q1.2.2 + rrCount rest := by
          have hne := (hok r (by simp)).nonempty
          have : 0 < r.rdatas.length := List.length_pos_iff.mpr hne
          simp only [rrCount, List.map_cons, List.sum_cons, hn1]
          omega
        rw [hcnt, parseSection_add, hW, hp1]
        simp only
        have hW2 : A ++ q1.1 ++ (q2.1 ++ post) = A ++ q1.1 ++ q2.1 ++ post := by simp [List.append_assoc]
        rw [hW2, hp2, setSection_setSection]
        simp [hl, List.length_append, Nat.add_assoc, List.append_assoc]

end Model

import Model.Tsig
import Proofs.TsigRfc
/-! The octets the model of `_digest` feeds to the MAC, compared with the RFC 8945 composition. -/
namespace Model.Tsig
open Model Rfc8945

theorem u16_eq_be (n : Nat) : u16 n = be 2 n := by
  simp [u16, be]

theorem u32_eq_be (n : Nat) : u32 n = be 4 n := by
  simp only [u32, be, List.nil_append, List.cons_append, List.cons.injEq, and_true]
  omega

theorem u16_length (n : Nat) : (u16 n).length = 2 := rfl
theorem u32_length (n : Nat) : (u32 n).length = 4 := rfl
theorem be_length (k n : Nat) : (be k n).length = k := by
  induction k generalizing n with
  | zero => rfl
  | succ k ih => simp [be, ih]

theorem timeEncoded_eq_be (t f : Nat) : timeEncoded t f = be 6 t ++ be 2 f := by
  have h1 : ConstsC14.timeUpperMask = 2 ^ 16 - 1 := by decide
  have h2 : ConstsC14.timeLowerMask = 2 ^ 32 - 1 := by decide
  have h3 : ConstsC14.timeUpperShift = 32 := by decide
  unfold timeEncoded
  rw [h1, h2, h3, Nat.and_two_pow_sub_one_eq_mod, Nat.and_two_pow_sub_one_eq_mod, Nat.shiftRight_eq_div_pow]
  simp only [u16, u32, be, List.nil_append, List.cons_append, List.cons.injEq, and_true]
  omega

theorem lowerOctet_eq_fold (c : Nat) : lowerOctet c = fold c := rfl

theorem digestable_eq_canon (n : Name) : digestable n = canon n := by
  unfold digestable canon toWire lowerName lowerLabel
  induction n with
  | nil => rfl
  | cons l rest ih =>
    simp only [List.map_cons, List.flatMap_cons, List.flatten_cons, List.length_map]
    rw [ih]
    rfl

theorem newWire_eq_stripTsig (w : Bytes) (s : Nat) : newWire w s = stripTsig w s := by
  unfold newWire stripTsig slice rd16
  simp [ConstsC14.arcountOff, ConstsC14.arcountEnd, u16_eq_be]

/-- the variables of §4.3.3 as the model of `_digest` sees them -/
def varsOf (key : Key) (rd : Rdata) (time : Option Nat) : Vars :=
  { name := key.name, alg := key.algorithm, time := time.getD rd.timeSigned, fudge := rd.fudge,
    error := rd.error, other := rd.other }

/-- `_digest`, first form: request MAC (if any), message, variables -/
theorem digest_first_data (tbl : List AlgEntry) (wire : Bytes) (key : Key) (rd : Rdata) (time : Option Nat)
    (rm : Bytes) (ctx : Option Ctx) (multi : Bool) (c : Ctx)
    (hfirst : (if multi then ctx else none) = none)
    (h : digest tbl wire key rd time rm ctx multi = .ok c) :
    c.data = (if rm = [] then [] else macField rm) ++ message rd.originalId wire ++ variables (varsOf key rd time) := by
  unfold digest at h
  rw [hfirst] at h
  simp only at h
  split at h
  · cases h
  · rename_i c0 hc0
    have hd0 : c0.data = [] := by
      unfold getContext at hc0
      split at hc0
      · cases hc0; rfl
      · cases hc0
    split at h
    · cases h
    · cases h
      simp only [Ctx.update, macField, message, variables, varsOf, timeEncoded_eq_be, digestable_eq_canon, u16_eq_be,
        u32_eq_be, ConstsC14.msgIdLen, ConstsC14.classAny, List.append_assoc]
      by_cases hr : rm = []
      · simp [hr, hd0]
      · simp [hr, hd0]

/-- `_digest`, later form (`ctx and multi`): what was fed so far, message, timers -/
theorem digest_later_data (tbl : List AlgEntry) (wire : Bytes) (key : Key) (rd : Rdata) (time : Option Nat)
    (rm : Bytes) (c0 c : Ctx)
    (h : digest tbl wire key rd time rm (some c0) true = .ok c) :
    c.data = c0.data ++ message rd.originalId wire ++ timers (varsOf key rd time) := by
  unfold digest at h
  simp only [if_true] at h
  split at h
  · cases h
  · cases h
    simp [Ctx.update, message, timers, varsOf, timeEncoded_eq_be, u16_eq_be, ConstsC14.msgIdLen]

theorem digest_later_ctx (tbl : List AlgEntry) (wire : Bytes) (key : Key) (rd : Rdata) (time : Option Nat)
    (rm : Bytes) (c0 c : Ctx)
    (h : digest tbl wire key rd time rm (some c0) true = .ok c) :
    c.secret = c0.secret ∧ c.hash = c0.hash ∧ c.size = c0.size := by
  unfold digest at h
  simp only [if_true] at h
  split at h
  · cases h
  · cases h; simp [Ctx.update]

/-- `_maybe_start_digest`: the next context starts with the MAC and its length -/
theorem maybeStart_data (tbl : List AlgEntry) (key : Key) (mac : Bytes) (c : Ctx)
    (h : maybeStartDigest tbl key mac true = .ok (some c)) : c.data = macField mac := by
  unfold maybeStartDigest at h
  simp only [if_true] at h
  split at h
  · cases h
  · rename_i c0 hc0
    have hd0 : c0.data = [] := by
      unfold getContext at hc0
      split at hc0
      · cases hc0; rfl
      · cases hc0
    cases h
    simp [Ctx.update, macField, u16_eq_be, hd0]

theorem maybeStart_multi (tbl : List AlgEntry) (key : Key) (mac : Bytes) (r : Option Ctx)
    (h : maybeStartDigest tbl key mac true = .ok r) : ∃ c, r = some c := by
  unfold maybeStartDigest at h
  simp only [if_true] at h
  split at h
  · cases h
  · cases h; exact ⟨_, rfl⟩

theorem maybeStart_single (tbl : List AlgEntry) (key : Key) (mac : Bytes) (r : Option Ctx)
    (h : maybeStartDigest tbl key mac false = .ok r) : r = none := by
  unfold maybeStartDigest at h
  simp at h
  exact h.symm

end Model.Tsig

import Proofs.RenderTrunc
/-! Rendering with an origin = rendering the message whose relative names have been made absolute, without origin. -/
namespace Model

/-- `name.derelativize(origin)` for an absolute origin -/
def absN (o : Name) (n : Name) : Name := if isAbs n then n else n ++ o

def RData.mapNames (f : Name → Name) : RData → RData
  | .raw b => .raw b
  | .name1 n => .name1 (f n)
  | .mx p n => .mx p (f n)
  | .soa m r a b c d e => .soa (f m) (f r) a b c d e

def RRset.mapNames (f : Name → Name) (r : RRset) : RRset :=
  { r with name := f r.name, rdatas := r.rdatas.map (RData.mapNames f) }

/-- the message with every relative name derelativized against `o`, and no origin -/
def Message.absolutize (o : Name) (m : Message) : Message :=
  { m with origin := none, q := m.q.map (RRset.mapNames (absN o)), an := m.an.map (RRset.mapNames (absN o)),
           au := m.au.map (RRset.mapNames (absN o)), ad := m.ad.map (RRset.mapNames (absN o)) }

theorem isAbs_append (n o : Name) (ho : isAbs o = true) : isAbs (n ++ o) = true := by
  have hne : o ≠ [] := by intro h; subst h; simp [isAbs] at ho
  unfold isAbs at ho ⊢
  have : (n ++ o).getLast? = o.getLast? := by
    rw [List.getLast?_append]
    cases hl : o.getLast? with
    | none => exact absurd (List.getLast?_eq_none_iff.mp hl) hne
    | some x => simp
  rw [this]
  exact ho

theorem wireName_absN (o n : Name) (ho : isAbs o = true) : wireName (absN o n) none = wireName n (some o) := by
  unfold wireName absN
  by_cases hn : isAbs n = true
  · simp [hn]
  · simp [hn, ho, isAbs_append n o ho]

theorem toWireC_absN (out : Bytes) (t : CTable) (o n : Name) (ho : isAbs o = true) :
    toWireC out t (absN o n) none = toWireC out t n (some o) := by
  rw [toWireC_eq, toWireC_eq, wireName_absN o n ho]

theorem rdataToWire_absN (out : Bytes) (t : CTable) (o : Name) (ho : isAbs o = true) (rd : RData) :
    rdataToWire out t none (rd.mapNames (absN o)) = rdataToWire out t (some o) rd := by
  cases rd with
  | raw b => rfl
  | name1 n => exact toWireC_absN out t o n ho
  | mx p n => exact toWireC_absN _ t o n ho
  | soa m r a b c d e =>
    simp only [RData.mapNames, rdataToWire]
    rw [toWireC_absN out t o m ho]
    cases toWireC out t m (some o) with
    | error e => rfl
    | ok p =>
      simp only
      rw [toWireC_absN p.1 p.2 o r ho]

theorem rdsLoop_absN (o : Name) (ho : isAbs o = true) (owner : Name) (rdtype rdclass ttl : Nat) (rds : List RData) :
    ∀ (out : Bytes) (t : CTable),
      rdsLoop (absN o owner) rdtype rdclass ttl none out t (rds.map (RData.mapNames (absN o))) =
        rdsLoop owner rdtype rdclass ttl (some o) out t rds := by
  induction rds with
  | nil => intro out t; rfl
  | cons rd rest ih =>
    intro out t
    simp only [List.map_cons, rdsLoop]
    rw [toWireC_absN out t o owner ho]
    cases toWireC out t owner (some o) with
    | error e => rfl
    | ok p =>
      simp only
      rw [rdataToWire_absN _ _ o ho rd]
      cases rdataToWire (p.1 ++ u16 rdtype ++ u16 rdclass ++ u32 ttl ++ [0, 0]) p.2 (some o) rd with
      | error e => rfl
      | ok p3 =>
        simp only
        cases patchLen p3.1 (p.1 ++ u16 rdtype ++ u16 rdclass ++ u32 ttl ++ [0, 0]).length with
        | error e => rfl
        | ok o4 => exact ih o4 p3.2

theorem rrsetToWire_absN (out : Bytes) (t : CTable) (o : Name) (ho : isAbs o = true) (r : RRset) :
    rrsetToWire out t none (r.mapNames (absN o)) = rrsetToWire out t (some o) r := by
  unfold rrsetToWire
  have hw : (r.mapNames (absN o)).wireClass = r.wireClass := rfl
  have hn : (r.mapNames (absN o)).name = absN o r.name := rfl
  have hr : (r.mapNames (absN o)).rdatas = r.rdatas.map (RData.mapNames (absN o)) := rfl
  have ht : (r.mapNames (absN o)).rdtype = r.rdtype := rfl
  have htt : (r.mapNames (absN o)).ttl = r.ttl := rfl
  simp only [hw, hn, hr, ht, htt, List.length_map]
  split
  · rw [toWireC_absN out t o r.name ho]
  · rw [rdsLoop_absN o ho]

/-! ### states that differ in the origin only -/

def Step.withOrigin (og : Option Name) : Step → Step
  | .ok s => .ok { s with origin := og }
  | .tooBig s => .tooBig { s with origin := og }
  | .err e => .err e

def Item.mapNames (f : Name → Name) : Item → Item
  | .q n t c => .q (f n) t c
  | .rr sec r => .rr sec (r.mapNames f)

theorem setSection_origin (s : RState) (og : Option Name) (sec : Nat) :
    ({ s with origin := og } : RState).setSection sec =
      match s.setSection sec with
      | .ok s1 => .ok { s1 with origin := og }
      | .error e => .error e := by
  unfold RState.setSection
  simp only
  split
  · split <;> rfl
  · rfl

theorem endTrack_origin (s : RState) (og : Option Name) (start : Nat) (out : Bytes) (t : CTable) (sec n : Nat) :
    ({ s with origin := og } : RState).endTrack start out t sec n = (s.endTrack start out t sec n).withOrigin og := by
  unfold RState.endTrack
  simp only
  split <;> rfl

theorem addItem_absN (s : RState) (o : Name) (ho : isAbs o = true) (hs : s.origin = some o) (it : Item) :
    ({ s with origin := none } : RState).addItem (it.mapNames (absN o)) = (s.addItem it).withOrigin none := by
  cases it with
  | q n t c =>
    simp only [Item.mapNames, RState.addItem, RState.addQuestion]
    rw [setSection_origin]
    cases hsec : s.setSection 0 with
    | error e => rfl
    | ok s1 =>
      obtain ⟨rfl, _⟩ := setSection_ok hsec
      simp only
      rw [toWireC_absN _ _ o n ho, ← hs]
      cases toWireC s.out s.tbl n s.origin with
      | error e => rfl
      | ok p =>
        obtain ⟨po, pt⟩ := p
        simp only
        exact endTrack_origin ({ s with sec := 0 } : RState) none _ _ _ _ _
  | rr sec r =>
    simp only [Item.mapNames, RState.addItem, RState.addRRset]
    rw [setSection_origin]
    cases hsec : s.setSection sec with
    | error e => rfl
    | ok s1 =>
      obtain ⟨rfl, _⟩ := setSection_ok hsec
      simp only
      rw [rrsetToWire_absN _ _ o ho r, ← hs]
      cases rrsetToWire s.out s.tbl s.origin r with
      | error e => rfl
      | ok p =>
        obtain ⟨po, pt, pn⟩ := p
        simp only
        exact endTrack_origin ({ s with sec := sec } : RState) none _ _ _ _ _

theorem addItem_origin_pres (s : RState) (it : Item) (hb : TblBelow s) :
    match s.addItem it with
    | .ok s' => s'.origin = s.origin
    | .tooBig s' => s'.origin = s.origin
    | .err _ => True := by
  have := addItem_spec s it hb
  generalize s.addItem it = st at this
  cases this with
  | ok o t n ha hsz hle => rfl
  | tooBig hle => rfl
  | err e => trivial

theorem addItems_absN (o : Name) (ho : isAbs o = true) (items : List Item) : ∀ (s : RState), s.origin = some o → TblBelow s →
    ({ s with origin := none } : RState).addItems (items.map (Item.mapNames (absN o))) =
      match s.addItems items with
      | .ok (s', b) => .ok ({ s' with origin := none }, b)
      | .error e => .error e := by
  induction items with
  | nil => intro s _ _; rfl
  | cons it rest ih =>
    intro s hs hb
    simp only [List.map_cons, RState.addItems]
    rw [addItem_absN s o ho hs it]
    have hpres := addItem_origin_pres s it hb
    have hspec := addItem_spec s it hb
    cases hr : s.addItem it with
    | err e => rfl
    | tooBig s1 => rfl
    | ok s1 =>
      rw [hr] at hpres hspec
      simp only [Step.withOrigin]
      have hb1 : TblBelow s1 := by
        cases hspec with
        | ok o' t n ha hsz hle => exact tblBelow_appends (s := { s with sec := it.sec }) ha hb _
      exact ih s1 (by rw [hpres, hs]) hb1

end Model

namespace Model

theorem toWireC_abs_origin (out : Bytes) (t : CTable) (n : Name) (hn : isAbs n = true) (og og' : Option Name) :
    toWireC out t n og = toWireC out t n og' := by
  simp [toWireC, hn]

/-- a record set with an absolute owner and one opaque rdata (OPT, TSIG) renders the same whatever the origin -/
theorem rrsetToWire_raw_origin (out : Bytes) (t : CTable) (r : RRset) (b : Bytes) (hn : isAbs r.name = true)
    (hr : r.rdatas = [.raw b]) (og og' : Option Name) : rrsetToWire out t og r = rrsetToWire out t og' r := by
  unfold rrsetToWire
  simp only [hr, List.length_cons, List.length_nil, rdsLoop, rdataToWire]
  rw [toWireC_abs_origin out t r.name hn og og']

theorem addRRset_raw_origin (s : RState) (og : Option Name) (sec : Nat) (r : RRset) (b : Bytes) (hn : isAbs r.name = true)
    (hr : r.rdatas = [.raw b]) :
    ({ s with origin := og } : RState).addRRset sec r = (s.addRRset sec r).withOrigin og := by
  unfold RState.addRRset
  rw [setSection_origin]
  cases hsec : s.setSection sec with
  | error e => rfl
  | ok s1 =>
    obtain ⟨rfl, _⟩ := setSection_ok hsec
    simp only
    rw [rrsetToWire_raw_origin s.out s.tbl r b hn hr og s.origin]
    cases rrsetToWire s.out s.tbl s.origin r with
    | error e => rfl
    | ok p =>
      obtain ⟨po, pt, pn⟩ := p
      simp only
      exact endTrack_origin ({ s with sec := sec } : RState) og _ _ _ _ _

theorem stepToExcept_withOrigin (st : Step) (og : Option Name) :
    stepToExcept (st.withOrigin og) = match stepToExcept st with
      | .ok s => .ok { s with origin := og }
      | .error e => .error e := by
  cases st <;> rfl

theorem addOpt_origin (r : RState) (og : Option Name) (o : EOpt) (pad a b : Nat) :
    stepToExcept (({ r with origin := og } : RState).addOpt o pad a b) =
      match stepToExcept (r.addOpt o pad a b) with
      | .ok s => .ok { s with origin := og }
      | .error e => .error e := by
  have hroot : isAbs ([[]] : Name) = true := by simp [isAbs]
  unfold RState.addOpt
  have hl : ({ r with origin := og } : RState).out.length = r.out.length := rfl
  rw [hl]
  by_cases hg : pad ≠ 0 ∧ padLen r.out.length pad a b > 65535
  · rw [if_pos hg, if_pos hg]; rfl
  rw [if_neg hg, if_neg hg]
  simp only [RState.addOptCore]
  split
  · have := addRRset_raw_origin ({ r with wasPadded := true } : RState) og ConstsC03.secADDITIONAL
      (optRRset { o with options := o.options ++ [(ConstsC03.optPADDING,
        if (r.out.length + a + b) % pad ≠ 0 then List.replicate (pad - (r.out.length + a + b) % pad) 0 else [])] })
      _ hroot rfl
    rw [← stepToExcept_withOrigin, ← this]
  · have := addRRset_raw_origin r og ConstsC03.secADDITIONAL (optRRset o) _ hroot rfl
    rw [← stepToExcept_withOrigin, ← this]

theorem addTsig_origin (r5 : RState) (og : Option Name) (t : Tsig) (ht : isAbs t.name = true) :
    stepToExcept (({ ({ r5 with origin := og } : RState).writeHeader with tbl := [] } : RState).addRRset
        ConstsC03.secADDITIONAL (tsigRRset t)) =
      match stepToExcept (({ r5.writeHeader with tbl := [] } : RState).addRRset ConstsC03.secADDITIONAL (tsigRRset t)) with
      | .ok s => .ok { s with origin := og }
      | .error e => .error e := by
  have := addRRset_raw_origin ({ r5.writeHeader with tbl := [] } : RState) og ConstsC03.secADDITIONAL (tsigRRset t) _ ht rfl
  have e : ({ ({ r5 with origin := og } : RState).writeHeader with tbl := [] } : RState)
      = ({ ({ r5.writeHeader with tbl := [] } : RState) with origin := og } : RState) := rfl
  rw [e, this, stepToExcept_withOrigin]

/-- the tail of `to_wire` does not look at the origin (OPT and TSIG owners are absolute) -/
theorem finishOut_origin (r : RState) (og : Option Name) (opt : Option EOpt) (tsig : Option Tsig) (pad a b : Nat)
    (ht : ∀ t, tsig = some t → isAbs t.name = true) :
    finishOut { r with origin := og } opt tsig pad a b = finishOut r opt tsig pad a b := by
  have tail : ∀ r5 : RState,
      (match (match tsig with
          | none => (Except.ok ({ r5 with origin := og } : RState).writeHeader : Except RErr RState)
          | some t =>
            match stepToExcept (({ ({ r5 with origin := og } : RState).writeHeader with tbl := [] } : RState).addRRset
                ConstsC03.secADDITIONAL (tsigRRset t)) with
            | .error e => .error e
            | .ok r => .ok r.writeHeader) with
        | .ok r' => (Except.ok r'.out : Except RErr Bytes)
        | .error e => .error e) =
      (match (match tsig with
          | none => (Except.ok r5.writeHeader : Except RErr RState)
          | some t =>
            match stepToExcept (({ r5.writeHeader with tbl := [] } : RState).addRRset ConstsC03.secADDITIONAL (tsigRRset t)) with
            | .error e => .error e
            | .ok r => .ok r.writeHeader) with
        | .ok r' => (Except.ok r'.out : Except RErr Bytes)
        | .error e => .error e) := by
    intro r5
    cases tsig with
    | none => rfl
    | some t =>
      simp only
      rw [addTsig_origin r5 og t (ht t rfl)]
      cases stepToExcept (({ r5.writeHeader with tbl := [] } : RState).addRRset ConstsC03.secADDITIONAL (tsigRRset t)) with
      | error e => rfl
      | ok r6 => rfl
  cases opt with
  | none =>
    simp only [finishOut, RState.finish]
    exact tail r.releaseReserved
  | some o =>
    simp only [finishOut, RState.finish]
    have e : ({ r with origin := og } : RState).releaseReserved = ({ r.releaseReserved with origin := og } : RState) := rfl
    rw [e, addOpt_origin r.releaseReserved og o pad a b]
    cases stepToExcept (r.releaseReserved.addOpt o pad a b) with
    | error e => rfl
    | ok r5 =>
      simp only
      exact tail r5

theorem items_absolutize (o : Name) (m : Message) : (m.absolutize o).items = m.items.map (Item.mapNames (absN o)) := by
  simp [Message.items, Message.absolutize, List.map_map, Function.comp_def, Item.mapNames, RRset.mapNames]

/-- rendering with an origin = rendering the absolutized message without origin -/
theorem toWire_absolutize (m : Message) (o : Name) (hm : m.origin = some o) (ho : isAbs o = true) (lim : Nat) (pt : Bool) :
    (m.absolutize o).toWire lim pt = m.toWire lim pt := by
  rw [toWire_eq, toWire_eq]
  have e1 : (m.absolutize o).tsigReserve = m.tsigReserve := rfl
  have e2 : (m.absolutize o).optReserve = m.optReserve := rfl
  have e3 : (m.absolutize o).requestPayload = m.requestPayload := rfl
  have e4 : (m.absolutize o).opt = m.opt := rfl
  have e5 : (m.absolutize o).tsig = m.tsig := rfl
  have e6 : (m.absolutize o).pad = m.pad := rfl
  rw [e1, e2, e3, e4, e5, e6]
  cases hb : m.tsigReserve with
  | error e => rfl
  | ok b =>
    simp only
    have htabs : ∀ t, m.tsig = some t → isAbs t.name = true := by
      intro t ht
      simp only [Message.tsigReserve, ht] at hb
      by_cases habs : isAbs t.name = true
      · exact habs
      · simp [habs] at hb
    rw [renderSections_eq, renderSections_eq]
    have hbase : (m.absolutize o).base (clampSize lim m.requestPayload) m.optReserve b =
        match m.base (clampSize lim m.requestPayload) m.optReserve b with
        | .ok r => .ok { r with origin := none }
        | .error e => .error e := by
      unfold Message.base
      by_cases hfit : m.optReserve + b > clampSize lim m.requestPayload
      · simp [hfit]
      simp only [hfit, if_false]
      unfold RState.reserve RState.init
      simp only [Message.absolutize]
      by_cases h1 : m.optReserve > clampSize lim m.requestPayload
      · simp [h1]
      · simp only [h1, if_false]
        by_cases h2 : b > clampSize lim m.requestPayload - m.optReserve
        · simp [h2]
        · simp [h2]
    rw [hbase]
    cases hbm : m.base (clampSize lim m.requestPayload) m.optReserve b with
    | error e => rfl
    | ok r2 =>
      simp only
      obtain ⟨hi2, _, _⟩ := base_inv m _ _ _ r2 hbm
      have ho2 : r2.origin = some o := by
        have := base_ok hbm
        unfold Message.base0 at this
        split at this
        · simp at this
        · rename_i r1 h1
          obtain ⟨rfl, _⟩ := reserve_ok h1
          obtain ⟨rfl, _⟩ := reserve_ok this
          exact hm
      rw [items_absolutize, addItems_absN o ho m.items r2 ho2 hi2.below]
      cases r2.addItems m.items with
      | error e => rfl
      | ok p =>
        obtain ⟨r3, big⟩ := p
        simp only
        have haf : ({ r3 with origin := none } : RState).afterItems big pt =
            match r3.afterItems big pt with
            | .ok r => .ok { r with origin := none }
            | .error e => .error e := by
          unfold RState.afterItems
          cases big <;> cases pt <;> simp
          split <;> rfl
        rw [haf]
        cases r3.afterItems big pt with
        | error e => rfl
        | ok r4 =>
          simp only
          exact finishOut_origin r4 none m.opt m.tsig m.pad _ _ htabs

end Model

import Model.Tsig
import Proofs.TsigRoundTrip
import Proofs.NameCompress
import Props.C01
/-! The renderer's *compressed* encoding of the TSIG owner name (`Name.to_wire(file, compress)`, C01's `toWireC`)
is an owner encoding in the sense of `OwnerEncodes`: the skeleton reader skips it as a whole and decodes it to a
name equal to the key's, whatever sound compression table the renderer holds. -/
namespace Model.Tsig
open Model Model.NameOrder

/-- what `toWireCLoop` appends: plain labels, then the root octet or a two-octet pointer -/
def CompEnc (ext : Bytes) : Prop :=
  ∃ ls : List Label, PlainLabels ls ∧ (ext = toWire ls ++ [0] ∨ ∃ a b, 192 ≤ a ∧ ext = toWire ls ++ [a, b])

theorem toWireCLoop_shape (labels : Name) : ∀ (out : Bytes) (tbl : CTable),
    PlainLabels labels.dropLast → labels.getLast? = some [] →
    ∃ ext, (toWireCLoop out tbl labels).1 = out ++ ext ∧ CompEnc ext := by
  induction labels with
  | nil => intro out tbl _ hl; simp at hl
  | cons l rest ih =>
    intro out tbl hp hl
    unfold toWireCLoop
    cases hget : ctGet tbl (l :: rest) with
    | some pos =>
      refine ⟨[(Consts.ptrBase + pos) / 256, (Consts.ptrBase + pos) % 256], rfl, [], by intro x hx; simp at hx, Or.inr ⟨(Consts.ptrBase + pos) / 256, (Consts.ptrBase + pos) % 256, ?_, by simp [toWire]⟩⟩
      have := ptr_consts.1
      omega
    | none =>
      simp only
      cases rest with
      | nil =>
        have hl0 : l = [] := by simpa using hl
        subst hl0
        refine ⟨[0], ?_, [], by intro x hx; simp at hx, Or.inl (by simp [toWire])⟩
        simp [toWireCLoop]
      | cons r rs =>
        have hpl : 0 < l.length ∧ l.length < Consts.ptrLabelMin := hp l (by simp)
        have hp' : PlainLabels (r :: rs).dropLast := fun x hx => hp x (by
          simp only [List.dropLast_cons_cons] at hx ⊢
          exact List.mem_cons_of_mem _ hx)
        have hl' : (r :: rs).getLast? = some [] := by simpa using hl
        obtain ⟨ext, he, ls, hpls, hshape⟩ := ih (out ++ l.length :: l) _ hp' hl'
        refine ⟨l.length :: l ++ ext, ?_, l :: ls, ?_, ?_⟩
        · rw [he]; simp
        · intro x hx
          rcases List.mem_cons.mp hx with rfl | hx
          · exact hpl
          · exact hpls x hx
        · rcases hshape with h | ⟨a, b, hab, h⟩
          · left; rw [h]; simp [toWire]
          · right; exact ⟨a, b, hab, by rw [h]; simp [toWire]⟩

/-- the skeleton reader skips such an encoding exactly -/
theorem skipName_comp (ls : List Label) (hp : PlainLabels ls) (tail post : Bytes) (e : Nat)
    (ht : tail = [0] ∨ ∃ a b, 192 ≤ a ∧ tail = [a, b]) :
    ∀ (pre : Bytes) (f : Nat), pre.length + (toWire ls ++ tail).length ≤ e → (toWire ls ++ tail).length ≤ f →
      skipName (pre ++ (toWire ls ++ tail) ++ post) e f pre.length = some (pre.length + (toWire ls ++ tail).length) := by
  induction ls with
  | nil =>
    intro pre f he hf
    simp only [toWire, List.flatMap_nil, List.nil_append] at he hf ⊢
    cases f with
    | zero => rcases ht with rfl | ⟨a, b, _, rfl⟩ <;> simp at hf
    | succ f =>
      unfold skipName
      rcases ht with rfl | ⟨a, b, hab, rfl⟩
      · simp only [List.length_cons, List.length_nil] at he hf ⊢
        have hlt : pre.length < e := by omega
        have hg : (pre ++ [0] ++ post).getD pre.length 0 = 0 := by simp [List.getD]
        simp [hlt, hg]
      · simp only [List.length_cons, List.length_nil] at he hf ⊢
        have hlt : pre.length < e := by omega
        have hg : (pre ++ [a, b] ++ post).getD pre.length 0 = a := by simp [List.getD]
        have h0 : ¬ a = 0 := by omega
        have h1 : ¬ a < 64 := by omega
        have h2 : pre.length + 2 ≤ e := by omega
        simp [hlt, hg, h0, h1, hab, h2]
  | cons l rest ih =>
    intro pre f he hf
    have hl := hp l (by simp)
    have hrest : PlainLabels rest := fun x hx => hp x (by simp [hx])
    have e1 : pre ++ (toWire (l :: rest) ++ tail) ++ post = (pre ++ l.length :: l) ++ (toWire rest ++ tail) ++ post := by
      simp [toWire]
    have hlen : (toWire (l :: rest) ++ tail).length = 1 + l.length + (toWire rest ++ tail).length := by
      simp [toWire]; omega
    have h64 : Consts.ptrLabelMin = 64 := by decide
    cases f with
    | zero => omega
    | succ f =>
      unfold skipName
      have hlt : pre.length < e := by omega
      have hg : (pre ++ (toWire (l :: rest) ++ tail) ++ post).getD pre.length 0 = l.length := by simp [List.getD, toWire]
      have h0 : ¬ l.length = 0 := by omega
      have h1 : l.length < 64 := by omega
      have h2 : pre.length + 1 + l.length ≤ e := by omega
      simp only [hlt, if_true, hg, h0, if_false, h1, h2]
      have hc : (pre ++ l.length :: l).length = pre.length + 1 + l.length := by simp; omega
      have := ih hrest (pre ++ l.length :: l) f (by rw [hc]; omega) (by omega)
      rw [← e1] at this
      rw [hc] at this
      rw [this, hlen]
      congr 1; omega

/-- **the compressed owner name is an owner encoding.**  With any compression table that is sound in `pre` (every
entry decodes there to its key up to case — the invariant C01's `toWireC_sound` maintains while a message is
rendered), what `Name.to_wire(file, compress)` appends for the absolute name `n` is skipped as a whole by the
section walk and decodes, whatever follows it, to a name equal to `n` in the library's (case-insensitive) sense. -/
theorem ownerEncodes_compressed (pre : Bytes) (tbl : CTable) (n : Name) (hw : WfName n) (ha : isAbs n = true)
    (hs : TableSound C01.lowEq pre tbl) :
    ∃ o tbl' m, toWireC pre tbl n none = .ok (pre ++ o, tbl') ∧ OwnerEncodes pre o m ∧ nameEq n m = true := by
  obtain ⟨ext, new, htc, _, m, hfw, hlow⟩ := C01.toWireC_sound pre tbl n hw ha hs
  refine ⟨ext, tbl ++ new, m, htc, ?_, ?_⟩
  · obtain ⟨ls0, hn, hp0⟩ := abs_split n hw ha
    have hplain : PlainLabels n.dropLast := by rw [hn]; simpa using hp0
    have hlast : n.getLast? = some [] := by rw [hn]; simp
    obtain ⟨ext', he', lsx, hpx, hshape⟩ := toWireCLoop_shape n pre tbl hplain hlast
    have hext : ext' = ext := by
      simp only [toWireC, ha, if_true, Except.ok.injEq] at htc
      rw [htc] at he'
      exact (List.append_cancel_left he').symm
    subst hext
    obtain ⟨ls, fwd, hd, hm, _⟩ := C01.fromWire_backward _ _ m _ hfw
    have hwf := (C01.fromWire_wf _ _ m _ hfw).1
    constructor
    · intro post
      have ht : ∃ tail, ext' = toWire lsx ++ tail ∧ (tail = [0] ∨ ∃ a b, 192 ≤ a ∧ tail = [a, b]) := by
        rcases hshape with h | ⟨a, b, hab, h⟩
        · exact ⟨[0], h, Or.inl rfl⟩
        · exact ⟨[a, b], h, Or.inr ⟨a, b, hab, rfl⟩⟩
      obtain ⟨tail, hte, htl⟩ := ht
      rw [hte]
      exact skipName_comp lsx hpx tail post _ htl pre _ (by simp <;> omega) (by simp <;> omega)
    · intro post
      rw [hm] at hwf ⊢
      exact decodeName_of_Dec _ _ ls fwd (hd.mono post) hwf
  · rw [nameEq_iff]; exact hlow.symm

end Model.Tsig

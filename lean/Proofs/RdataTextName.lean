import Proofs.RdataTextField
import Proofs.NameOrder3
/-! Name fields: `Name.to_styled_text` output is one identifier for the tokenizer and `as_name` reads it back (C05). -/
namespace Model

/-- what the tokenizer needs from `dns.name._escaped`: every delimiter above 0x20 is escaped, so is the backslash,
newline is not (a backslash-newline pair would end the token), and `#` is not (so `\#` is never printed). -/
def NameEscLex (esc : List Nat) : Prop :=
  34 ∈ esc ∧ 40 ∈ esc ∧ 41 ∈ esc ∧ 59 ∈ esc ∧ 92 ∈ esc ∧ 10 ∉ esc ∧ 35 ∉ esc

instance (esc : List Nat) : Decidable (NameEscLex esc) := by unfold NameEscLex; exact inferInstance

theorem nameEscLex_generated : NameEscLex Consts.nameEscaped := by decide

theorem escOctet_cases (esc : List Nat) (c : Nat) :
    (c ∈ esc ∧ escOctet esc c = [92, c]) ∨
    (c ∉ esc ∧ 0x20 < c ∧ c < 0x7F ∧ escOctet esc c = [c]) ∨
    (c ∉ esc ∧ ¬ (0x20 < c ∧ c < 0x7F) ∧ escOctet esc c = 92 :: dec3 c) := by
  unfold escOctet
  by_cases h : c ∈ esc
  · simp [h]
  · by_cases h2 : 0x20 < c ∧ c < 0x7F
    · simp [h, h2]
    · simp [h, h2]

theorem identBodyAux_digit (c : Nat) (h : 48 ≤ c ∧ c ≤ 57) (rest : List Nat) :
    identBodyAux false (c :: rest) = identBodyAux false rest := by
  have h92 : c ≠ 92 := by omega
  have hd : isDelim c = false := by simp [isDelim]; omega
  simp [identBodyAux, h92, hd]

theorem identBodyAux_escOctet (esc : List Nat) (hesc : NameEscLex esc) (c : Nat) (hc : c < 256) (rest : List Nat) :
    identBodyAux false (escOctet esc c ++ rest) = identBodyAux false rest := by
  obtain ⟨h34, h40, h41, h59, h92, h10, _⟩ := hesc
  rcases escOctet_cases esc c with ⟨hm, e⟩ | ⟨hm, h1, h2, e⟩ | ⟨hm, h1, e⟩
  · rw [e]
    have : c ≠ 10 := fun h => h10 (h ▸ hm)
    simp [identBodyAux, this]
  · rw [e]
    have n92 : c ≠ 92 := fun h => hm (h ▸ h92)
    have n34 : c ≠ 34 := fun h => hm (h ▸ h34)
    have n40 : c ≠ 40 := fun h => hm (h ▸ h40)
    have n41 : c ≠ 41 := fun h => hm (h ▸ h41)
    have n59 : c ≠ 59 := fun h => hm (h ▸ h59)
    have hd : isDelim c = false := by simp [isDelim, n34, n40, n41, n59]; omega
    simp [identBodyAux, n92, hd]
  · rw [e]
    obtain ⟨d1, d2, d3⟩ := dec3_digits c hc
    simp only [isDigit, decide_eq_true_eq] at d1 d2 d3
    have n10 : 48 + c / 100 ≠ 10 := by omega
    have hb : (48 + c / 100 != 10) = true := by simp only [bne_iff_ne, ne_eq]; exact n10
    have step : identBodyAux false (92 :: (48 + c / 100) :: (48 + c / 10 % 10) :: (48 + c % 10) :: rest)
        = identBodyAux false ((48 + c / 10 % 10) :: (48 + c % 10) :: rest) := by
      simp [identBodyAux, hb]
    simp only [dec3, List.cons_append, List.nil_append]
    rw [step, identBodyAux_digit _ d2, identBodyAux_digit _ d3]

theorem identBodyAux_escapify (esc : List Nat) (hesc : NameEscLex esc) (l : Label) (hl : ∀ c ∈ l, c < 256) (rest : List Nat) :
    identBodyAux false (escapifyWith esc l ++ rest) = identBodyAux false rest := by
  induction l with
  | nil => simp [escapifyWith]
  | cons c cs ih =>
    have : escapifyWith esc (c :: cs) ++ rest = escOctet esc c ++ (escapifyWith esc cs ++ rest) := by simp [escapifyWith]
    rw [this, identBodyAux_escOctet esc hesc c (hl c (by simp)), ih (fun x hx => hl x (by simp [hx]))]

theorem identBodyAux_joinDot (esc : List Nat) (hesc : NameEscLex esc) (ls : List Label) (h : OctetsOk ls) :
    identBodyAux false (joinDot (ls.map (escapifyWith esc))) = true := by
  induction ls with
  | nil => rfl
  | cons x rest ih =>
    have hx : ∀ c ∈ x, c < 256 := h x (by simp)
    have hrest : OctetsOk rest := fun l hl => h l (by simp [hl])
    cases rest with
    | nil =>
      have := identBodyAux_escapify esc hesc x hx []
      simpa [joinDot, identBodyAux] using this
    | cons y ys =>
      have h46 : ∀ r, identBodyAux false (46 :: r) = identBodyAux false r := by
        intro r; simp [identBodyAux, isDelim]
      simp only [List.map, joinDot]
      rw [identBodyAux_escapify esc hesc x hx, h46]
      exact ih hrest

theorem escOctet_notHash (esc : List Nat) (hesc : NameEscLex esc) (c : Nat) (hc : c < 256) (rest : List Nat) (x : Nat) (r : List Nat)
    (e : escOctet esc c ++ rest = 92 :: x :: r) : x ≠ 35 := by
  obtain ⟨_, _, _, _, h92, _, h35⟩ := hesc
  rcases escOctet_cases esc c with ⟨hm, e'⟩ | ⟨hm, h1, h2, e'⟩ | ⟨hm, h1, e'⟩
  · rw [e'] at e; simp at e; intro hx; exact h35 (by rw [← hx, ← e.1]; exact hm)
  · rw [e'] at e; simp at e
    exact absurd (e.1 ▸ h92) hm
  · rw [e'] at e; simp [dec3] at e; omega

/-- the text of a name is one identifier for the tokenizer and is never the marker `\#` -/
theorem toText_lexes (n : Name) (hw : WfName n) (ho : OctetsOk n) :
    Lexes (toText n) [⟨.ident, toText n⟩] ∧ NotHash ⟨.ident, toText n⟩ := by
  have hesc := nameEscLex_generated
  by_cases h0 : n = []
  · subst h0
    have hp : Plain [64] := by intro c hc; simp at hc; subst hc; decide
    exact ⟨by simpa [toText] using lexes_plain [64] (by simp) hp, by simpa [toText] using notHash_plain [64] hp⟩
  by_cases h1 : n = [[]]
  · subst h1
    have hp : Plain [46] := by intro c hc; simp at hc; subst hc; decide
    exact ⟨by simpa [toText] using lexes_plain [46] (by simp) hp, by simpa [toText] using notHash_plain [46] hp⟩
  have htt : toText n = joinDot (n.map (escapifyWith Consts.nameEscaped)) := by
    simp [toText, h0, h1]; rfl
  have hfirst : n.head h0 ≠ [] := by
    cases n with
    | nil => exact absurd rfl h0
    | cons x rest =>
      cases rest with
      | nil => simp; intro hx; exact h1 (by simp [hx])
      | cons y ys => simp; exact hw.2.2 x (by simp [List.dropLast])
  obtain ⟨hd, tl, htext, _⟩ := joinDot_head Consts.nameEscaped escOk_generated n h0 hfirst
  have hb : identBody (toText n) = true := by
    rw [htt]; exact identBodyAux_joinDot _ hesc n ho
  have hne : toText n ≠ [] := by rw [htt, htext]; simp
  refine ⟨lexes_ident _ hne hb, Or.inr ?_⟩
  intro x r e
  have e' : toText n = 92 :: x :: r := e
  -- the text starts with the escaped form of the first octet of the first label
  cases n with
  | nil => exact absurd rfl h0
  | cons l ls =>
    simp at hfirst
    cases l with
    | nil => exact absurd rfl hfirst
    | cons c cs =>
      have hc : c < 256 := ho (c :: cs) (by simp) c (by simp)
      rw [htt] at e'
      cases ls with
      | nil =>
        simp only [List.map, joinDot, escapifyWith, List.flatMap_cons] at e'
        exact escOctet_notHash _ hesc c hc _ x r e'
      | cons m ms =>
        simp only [List.map, joinDot, escapifyWith, List.flatMap_cons, List.append_assoc] at e'
        exact escOctet_notHash _ hesc c hc _ x r e'

/-! the two text theorems of C01 (same statements and proofs as `Props/C01.lean`, restated here so that this
file depends on `Proofs.NameText` only) -/

theorem C01_fromText_toText (n : Name) (h : WfName n) (ho : OctetsOk n) :
    fromText (toText n) none = .ok n := by
  have hesc := escOk_generated
  by_cases h0 : n = []
  · subst h0; simp [toText, fromText, validate, firstEmpty, wireLen] <;> try decide
  by_cases h1 : n = [[]]
  · subst h1; simp [toText, fromText, validate, firstEmpty, wireLen] <;> try decide
  have hfirst : n.head h0 ≠ [] := by
    cases n with
    | nil => exact absurd rfl h0
    | cons x rest =>
      cases rest with
      | nil => simp; intro hx; exact h1 (by simp [hx])
      | cons y ys => simp; exact h.2.2 x (by simp [List.dropLast])
  obtain ⟨hd, tl, htext, hhd⟩ := joinDot_head Consts.nameEscaped hesc n h0 hfirst
  have hrun := ftRun_joinDot Consts.nameEscaped hesc n h0 ho h.2.2 []
  have hmap : n.map escapify = n.map (escapifyWith Consts.nameEscaped) := rfl
  have htt : toText n = hd :: tl := by simp [toText, h0, h1, hmap, htext]
  rw [htext] at hrun
  have ne64 : hd :: tl ≠ [64] := by
    intro e; simp at e; rcases hhd with hh | hh
    · omega
    · exact hh.1 e.1
  have ne46 : hd :: tl ≠ [46] := by
    intro e; simp at e; rcases hhd with hh | hh
    · omega
    · exact hh.2 e.1
  rw [htt]
  unfold fromText
  simp only [ne64, ne46, if_false, ftInit, hrun]
  simp only [List.nil_append, Option.isSome_none, Bool.false_eq_true, if_false, List.cons_ne_nil]
  rw [List.dropLast_concat_getLast h0]
  exact validate_of_wf n h

/-- Text round trip against an origin: an absolute name is returned as is; a relative one is
concatenated with the origin and validated (so it raises exactly when the limits are exceeded). -/
theorem C01_fromText_toText_origin (n o : Name) (h : WfName n) (ho : OctetsOk n) :
    fromText (toText n) (some o) = if isAbs n then .ok n else validate (n ++ o) := by
  have hesc := escOk_generated
  by_cases h0 : n = []
  · subst h0; simp [toText, fromText, isAbs]
  by_cases h1 : n = [[]]
  · subst h1; simp [toText, fromText, validate, firstEmpty, wireLen, isAbs] <;> try decide
  have hfirst : n.head h0 ≠ [] := by
    cases n with
    | nil => exact absurd rfl h0
    | cons x rest =>
      cases rest with
      | nil => simp; intro hx; exact h1 (by simp [hx])
      | cons y ys => simp; exact h.2.2 x (by simp [List.dropLast])
  obtain ⟨hd, tl, htext, hhd⟩ := joinDot_head Consts.nameEscaped hesc n h0 hfirst
  have hrun := ftRun_joinDot Consts.nameEscaped hesc n h0 ho h.2.2 []
  have hmap : n.map escapify = n.map (escapifyWith Consts.nameEscaped) := rfl
  have htt : toText n = hd :: tl := by simp [toText, h0, h1, hmap, htext]
  rw [htext] at hrun
  have ne64 : hd :: tl ≠ [64] := by
    intro e; simp at e; rcases hhd with hh | hh
    · omega
    · exact hh.1 e.1
  have ne46 : hd :: tl ≠ [46] := by
    intro e; simp at e; rcases hhd with hh | hh
    · omega
    · exact hh.2 e.1
  rw [htt]
  unfold fromText
  simp only [ne64, ne46, if_false, ftInit, hrun]
  simp only [List.nil_append, Option.isSome_none, Bool.false_eq_true, if_false, List.cons_ne_nil]
  rw [List.dropLast_concat_getLast h0]
  have hl : n.getLast? = some (n.getLast h0) := List.getLast?_eq_getLast h0
  by_cases hab : isAbs n = true
  · have : n.getLast? = some [] := by
      unfold isAbs at hab
      split at hab
      · assumption
      · simp at hab
    simp [h0, this, hab, validate_of_wf n h]
  · have : n.getLast? ≠ some [] := by
      intro e; apply hab; unfold isAbs; rw [e]
    simp [h0, this, hab]


/-! ## the name field under every origin / relativize choice -/

open NameOrder in
theorem derel_rel' (n o r : Name) (hn : WfName n) (hrel : isAbs n = false) (ho : isAbs o = true)
    (h : derelativize n o = .ok r) : r = n ++ o ∧ relativize r o = .ok n := derel_rel n o r hn hrel ho h

open NameOrder in
theorem isAbs_append' (a b : Name) (hb : b ≠ []) : isAbs (a ++ b) = isAbs b := isAbs_append a b hb

open NameOrder in
theorem ne_nil_of_isAbs' {a : Name} (h : isAbs a = true) : a ≠ [] := ne_nil_of_isAbs h


/-- what `Tokenizer.as_name` returns on the text of the (legal) name `m`, computed on names only:
`from_text` appends the origin to a relative name, then `choose_relativity(relativize_to or origin, relativize)` -/
def nameBack (env : PEnv) (m : Name) : Option Name :=
  let p : Except NameErr Name :=
    match env.origin with
    | none => .ok m
    | some o => if isAbs m then .ok m else validate (m ++ o)
  match p with
  | .error _ => none
  | .ok q =>
    match chooseRelativity q (orOrigin env.relTo env.origin) env.relativize with
    | .ok r => some r
    | .error _ => none

theorem asName_toText (env : PEnv) (m : Name) (hw : WfName m) (ho : OctetsOk m) :
    asName ⟨.ident, toText m⟩ env.origin env.relativize env.relTo = nameBack env m := by
  unfold asName nameBack
  cases hor : env.origin with
  | none =>
    simp only [C01_fromText_toText m hw ho, TKind.noConfusion, ne_eq, not_true_eq_false, if_false]
    cases chooseRelativity m (orOrigin env.relTo none) env.relativize <;> rfl
  | some o =>
    simp only [C01_fromText_toText_origin m o hw ho, ne_eq, not_true_eq_false, if_false]
    by_cases hab : isAbs m = true
    · simp only [hab, if_true]
      cases chooseRelativity m (orOrigin env.relTo (some o)) env.relativize <;> rfl
    · simp only [hab, Bool.false_eq_true, if_false]
      cases validate (m ++ o) with
      | error e => rfl
      | ok q => cases chooseRelativity q (orOrigin env.relTo (some o)) env.relativize <;> rfl

/-- a name field round-trips exactly when printing succeeds with a legal name `m` and `as_name` maps `m` back to `n` -/
def NameFieldOk (st : Style) (env : PEnv) (n : Name) : Prop :=
  ∃ m, chooseRelativity n st.origin st.relativize = .ok m ∧ WfName m ∧ OctetsOk m ∧ nameBack env m = some n

theorem field_name (st : Style) (env : PEnv) (n : Name) (h : NameFieldOk st env n) :
    ∃ text, FieldRT st env .name (.nm n) text ⟨.ident, text⟩ := by
  obtain ⟨m, hp, hw, ho, hb⟩ := h
  obtain ⟨hlex, hnh⟩ := toText_lexes m hw ho
  refine ⟨toText m, by simp [printField, nameToStyled, hp], hlex, ?_, hnh⟩
  simp [parseField, asName_toText env m hw ho, hb]

theorem isSubdomain_rel_abs (n o : Name) (hn : isAbs n = false) (ho : isAbs o = true) : isSubdomain n o = false := by
  unfold isSubdomain fullcompare
  simp [hn, ho]

theorem octetsOk_append (a b : Name) (ha : OctetsOk a) (hb : OctetsOk b) : OctetsOk (a ++ b) := by
  intro l hl
  simp at hl
  rcases hl with h | h
  · exact ha l h
  · exact hb l h

/-- the configurations in which a name comes back unchanged:
* **plain**: nothing rewrites names (no style origin, no parse origin);
* **absolute**: an absolute name, printed as it is, parsed with `relativize=False` (any origin);
* **zone**: an absolute origin `O` used for parsing with `relativize=True` (and `relativize_to` absent or equal to it),
  the style printing against no origin or against `O` (either `relativize` value), and the name normalised for `O` —
  relative with `n ++ O` legal, or absolute and not below `O` (what `from_wire`/`from_text` with that origin produce). -/
def NameCfgOk (st : Style) (env : PEnv) (n : Name) : Prop :=
  (st.origin = none ∧ env.origin = none ∧ env.relTo = none) ∨
  (isAbs n = true ∧ env.relativize = false ∧ (st.origin = none ∨ st.relativize = false)) ∨
  (∃ O, env.origin = some O ∧ isAbs O = true ∧ OctetsOk O ∧ env.relativize = true ∧
      orOrigin env.relTo (some O) = some O ∧ (st.origin = none ∨ st.origin = some O) ∧
      ((isAbs n = false ∧ WfName (n ++ O)) ∨ (isAbs n = true ∧ isSubdomain n O = false)))

theorem derelativize_abs (n : Name) (o : Name) (h : isAbs n = true) : derelativize n o = .ok n := by
  simp [derelativize, h]

theorem chooseRelativity_false_abs (n : Name) (oo : Option Name) (h : isAbs n = true) : chooseRelativity n oo false = .ok n := by
  unfold chooseRelativity
  cases oo with
  | none => rfl
  | some o =>
    by_cases ho : o = []
    · simp [ho]
    · simp [ho, derelativize_abs n o h]

theorem nameCfg_ok (st : Style) (env : PEnv) (n : Name) (hw : WfName n) (ho : OctetsOk n) (hcfg : NameCfgOk st env n) :
    NameFieldOk st env n := by
  rcases hcfg with ⟨hso, heo, hrt⟩ | ⟨habs, hrel, hst⟩ | ⟨O, heo, hOabs, hOoct, hrel, hro, hst, hn⟩
  · exact ⟨n, by simp [chooseRelativity, hso], hw, ho, by simp [nameBack, heo, hrt, orOrigin, chooseRelativity]⟩
  · have hprint : chooseRelativity n st.origin st.relativize = .ok n := by
      rcases hst with h | h
      · simp [chooseRelativity, h]
      · rw [h]; exact chooseRelativity_false_abs n _ habs
    refine ⟨n, hprint, hw, ho, ?_⟩
    unfold nameBack
    have hp : (match env.origin with
        | none => (Except.ok n : Except NameErr Name)
        | some o => if isAbs n then .ok n else validate (n ++ o)) = .ok n := by
      cases env.origin <;> simp [habs]
    simp only [hp, hrel, chooseRelativity_false_abs n _ habs]
  · have hOne : O ≠ [] := ne_nil_of_isAbs' hOabs
    -- relativizing against O gives n back in every case that can arise
    have hrelO : ∀ q, (q = n ∨ (isAbs n = false ∧ q = n ++ O)) → relativize q O = .ok n := by
      intro q hq
      rcases hq with rfl | ⟨hnr, rfl⟩
      · rcases hn with ⟨hnr, _⟩ | ⟨_, hns⟩
        · simp [relativize, isSubdomain_rel_abs q O hnr hOabs]
        · simp [relativize, hns]
      · rcases hn with ⟨_, hwf⟩ | ⟨hna, _⟩
        · have hd : derelativize n O = .ok (n ++ O) := by
            simp [derelativize, hnr, concatenate, validate_of_wf _ hwf]
          exact (derel_rel' n O (n ++ O) hw hnr hOabs hd).2
        · rw [hna] at hnr; cases hnr
    -- the printed name
    have hprint : ∃ m, chooseRelativity n st.origin st.relativize = .ok m ∧ (m = n ∨ (isAbs n = false ∧ m = n ++ O)) := by
      rcases hst with h | h
      · exact ⟨n, by simp [chooseRelativity, h], Or.inl rfl⟩
      · rw [h]
        unfold chooseRelativity
        simp only [hOne, if_false]
        cases st.relativize with
        | true => exact ⟨n, hrelO n (Or.inl rfl), Or.inl rfl⟩
        | false =>
          rcases hn with ⟨hnr, hwf⟩ | ⟨hna, _⟩
          · exact ⟨n ++ O, by simp [derelativize, hnr, concatenate, validate_of_wf _ hwf], Or.inr ⟨hnr, rfl⟩⟩
          · exact ⟨n, by simp [derelativize_abs n O hna], Or.inl rfl⟩
    obtain ⟨m, hm, hmcase⟩ := hprint
    have hmw : WfName m ∧ OctetsOk m := by
      rcases hmcase with rfl | ⟨hnr, rfl⟩
      · exact ⟨hw, ho⟩
      · rcases hn with ⟨_, hwf⟩ | ⟨hna, _⟩
        · exact ⟨hwf, octetsOk_append n O ho hOoct⟩
        · rw [hna] at hnr; cases hnr
    refine ⟨m, hm, hmw.1, hmw.2, ?_⟩
    unfold nameBack
    simp only [heo, hro, hrel]
    -- `from_text` yields q = m (absolute) or m ++ O (relative m = n)
    have hq : ∃ q, (if isAbs m then (Except.ok m : Except NameErr Name) else validate (m ++ O)) = .ok q ∧
        (q = n ∨ (isAbs n = false ∧ q = n ++ O)) := by
      rcases hmcase with rfl | ⟨hnr, rfl⟩
      · rcases hn with ⟨hnr, hwf⟩ | ⟨hna, _⟩
        · exact ⟨m ++ O, by simp [hnr, validate_of_wf _ hwf], Or.inr ⟨hnr, rfl⟩⟩
        · exact ⟨m, by simp [hna], Or.inl rfl⟩
      · have : isAbs (n ++ O) = true := by rw [isAbs_append' n O hOne]; exact hOabs
        exact ⟨n ++ O, by simp [this], Or.inr ⟨hnr, rfl⟩⟩
    obtain ⟨q, hq1, hq2⟩ := hq
    simp only [hq1]
    unfold chooseRelativity
    simp only [hOne, if_false, if_true, hrelO q hq2]

end Model

import Model.RdataText
/-! The tokenizer automaton on printed text: identifiers, quoted strings, separators (C05). -/
namespace Model

/-- obligations on the constants of `dns/tokenizer.py`: the model's delimiter test is the code's `_DELIMITERS` set,
and inside quotes only `"` delimits (`_QUOTING_DELIMITERS`) -/
theorem isDelim_generated (c : Nat) : isDelim c = decide (c ∈ ConstsC05.delimiters) := by
  simp only [isDelim, ConstsC05.delimiters, List.mem_cons, List.mem_nil_iff, or_false]
  by_cases h9 : c = 9 <;> by_cases h10 : c = 10 <;> by_cases h32 : c = 32 <;> by_cases h34 : c = 34 <;>
    by_cases h40 : c = 40 <;> by_cases h41 : c = 41 <;> by_cases h59 : c = 59 <;> simp [*]

theorem quotingDelimiters_generated : ConstsC05.quotingDelimiters = [34] := by decide

/-- an identifier body: no unescaped delimiter, every backslash followed by a character other than newline.
The flag says that the previous character was an unescaped backslash. -/
def identBodyAux : Bool → List Nat → Bool
  | esc, [] => !esc
  | true, c :: rest => c != 10 && identBodyAux false rest
  | false, c :: rest => if c = 92 then identBodyAux true rest else !isDelim c && identBodyAux false rest

def identBody (s : List Nat) : Bool := identBodyAux false s

/-- the inside of a quoted string: no unescaped `"` or newline, every backslash followed by a character -/
def quoteBodyAux : Bool → List Nat → Bool
  | esc, [] => !esc
  | true, _ :: rest => quoteBodyAux false rest
  | false, c :: rest => if c = 92 then quoteBodyAux true rest else c != 34 && c != 10 && quoteBodyAux false rest

def quoteBody (s : List Nat) : Bool := quoteBodyAux false s

/-- the text that follows a token: end of input or a blank -/
def SepStart (rest : List Nat) : Prop := rest = [] ∨ ∃ c r, rest = c :: r ∧ (c = 32 ∨ c = 9)

theorem lexGo_identAux (s : List Nat) (ml : Nat) (rest : List Nat) :
    (∀ acc, identBodyAux false s = true → lexGo (.ident acc) ml (s ++ rest) = lexGo (.ident (acc ++ s)) ml rest) ∧
    (∀ acc, identBodyAux true s = true → lexGo (.identEsc acc) ml (s ++ rest) = lexGo (.ident (acc ++ s)) ml rest) := by
  induction s with
  | nil => simp [identBodyAux]
  | cons c cs ih =>
    constructor
    · intro acc h
      unfold identBodyAux at h
      split at h
      · rename_i hc
        subst hc
        have h92 : isDelim 92 = false := by decide
        simp only [List.cons_append, lexGo, h92, Bool.false_eq_true, if_false, if_true]
        rw [ih.2 _ h]; simp
      · rename_i hc
        simp only [Bool.and_eq_true, Bool.not_eq_true'] at h
        simp only [List.cons_append, lexGo, h.1, Bool.false_eq_true, if_false, hc]
        rw [ih.1 _ h.2]; simp
    · intro acc h
      simp only [identBodyAux, Bool.and_eq_true, bne_iff_ne, ne_eq] at h
      simp only [List.cons_append, lexGo, h.1, if_false]
      rw [ih.1 _ h.2]; simp

theorem lexGo_quoteAux (s : List Nat) (ml : Nat) (rest : List Nat) :
    (∀ acc, quoteBodyAux false s = true → lexGo (.quote acc) ml (s ++ rest) = lexGo (.quote (acc ++ s)) ml rest) ∧
    (∀ acc, quoteBodyAux true s = true → lexGo (.quoteEsc acc) ml (s ++ rest) = lexGo (.quote (acc ++ s)) ml rest) := by
  induction s with
  | nil => simp [quoteBodyAux]
  | cons c cs ih =>
    constructor
    · intro acc h
      unfold quoteBodyAux at h
      split at h
      · rename_i hc
        subst hc
        simp only [List.cons_append, lexGo]
        simp only [show (92 : Nat) ≠ 34 by decide, show (92 : Nat) ≠ 10 by decide, if_false, if_true]
        rw [ih.2 _ h]; simp
      · rename_i hc
        simp only [Bool.and_eq_true, bne_iff_ne, ne_eq] at h
        simp only [List.cons_append, lexGo, h.1.1, h.1.2, if_false, hc]
        rw [ih.1 _ h.2]; simp
    · intro acc h
      simp only [quoteBodyAux] at h
      simp only [List.cons_append, lexGo]
      rw [ih.1 _ h]; simp

/-- a blank in `ws` mode is skipped -/
theorem lexGo_ws_blank (c : Nat) (hc : c = 32 ∨ c = 9) (ml : Nat) (r : List Nat) :
    lexGo .ws ml (c :: r) = lexGo .ws ml r := by
  simp [lexGo, wsChar, hc]

def blanks (s : List Nat) : Prop := ∀ c ∈ s, c = 32 ∨ c = 9

theorem lexGo_ws_blanks (s : List Nat) (hs : blanks s) (ml : Nat) (r : List Nat) :
    lexGo .ws ml (s ++ r) = lexGo .ws ml r := by
  induction s with
  | nil => rfl
  | cons c cs ih =>
    have hc := hs c (by simp)
    simp only [List.cons_append]
    rw [lexGo_ws_blank c hc, ih (fun x hx => hs x (by simp [hx]))]

/-- `Lexes s toks`: printed text `s`, when followed by the end of the line or a blank, yields exactly `toks`
and leaves the tokenizer between tokens. -/
def Lexes (s : List Nat) (toks : List Tok) : Prop :=
  ∀ rest, SepStart rest → lexGo .ws 0 (s ++ rest) = (lexGo .ws 0 rest).map (toks ++ ·)

theorem lexes_nil : Lexes [] [] := by
  intro rest _; simp

/-- an identifier token -/
theorem lexes_ident (s : List Nat) (hne : s ≠ []) (hb : identBody s = true) : Lexes s [⟨.ident, s⟩] := by
  intro rest hrest
  cases s with
  | nil => exact absurd rfl hne
  | cons c cs =>
    -- first character: leaves `ws` mode
    have hstart : lexGo .ws 0 ((c :: cs) ++ rest) = lexGo (.ident (c :: cs)) 0 rest := by
      unfold identBody identBodyAux at hb
      split at hb
      · rename_i hc; subst hc
        have : wsChar 0 92 = .go (.identEsc [92]) 0 := by simp [wsChar]
        simp only [List.cons_append, lexGo, this]
        rw [(lexGo_identAux cs 0 rest).2 [92] hb]; simp
      · rename_i hc
        simp only [Bool.and_eq_true, Bool.not_eq_true'] at hb
        have hd := hb.1
        have hw : wsChar 0 c = .go (.ident [c]) 0 := by
          simp only [isDelim, Bool.or_eq_false_iff, beq_eq_false_iff_ne, ne_eq] at hd
          obtain ⟨⟨⟨⟨⟨⟨h32, h9⟩, h10⟩, h59⟩, h40⟩, h41⟩, h34⟩ := hd
          simp [wsChar, h32, h9, h10, h59, h40, h41, h34, hc]
        simp only [List.cons_append, lexGo, hw]
        rw [(lexGo_identAux cs 0 rest).1 [c] hb.2]; simp
    rw [hstart]
    rcases hrest with h | ⟨d, r, h, hd⟩
    · subst h; simp [lexGo]
    · subst h
      have hdel : isDelim d = true := by rcases hd with h | h <;> subst h <;> decide
      have hw : wsChar 0 d = .go .ws 0 := by rcases hd with h | h <;> subst h <;> simp [wsChar]
      simp only [lexGo, hdel, if_true, hw]
      simp

/-- a quoted-string token -/
theorem lexes_quoted (s : List Nat) (hb : quoteBody s = true) : Lexes (34 :: s ++ [34]) [⟨.quoted, s⟩] := by
  intro rest _
  have hw : wsChar 0 34 = .go (.quote []) 0 := by simp [wsChar]
  have : (34 :: s ++ [34]) ++ rest = 34 :: (s ++ (34 :: rest)) := by simp
  rw [this]
  simp only [lexGo, hw]
  rw [(lexGo_quoteAux s 0 (34 :: rest)).1 [] hb]
  simp [lexGo]

/-- two printed pieces separated by blanks -/
theorem lexes_append (a b sep : List Nat) (ta tb : List Tok) (hsep : blanks sep) (hne : sep ≠ [])
    (ha : Lexes a ta) (hb : Lexes b tb) : Lexes (a ++ sep ++ b) (ta ++ tb) := by
  intro rest hrest
  have h1 : (a ++ sep ++ b) ++ rest = a ++ (sep ++ (b ++ rest)) := by simp
  rw [h1]
  have hs : SepStart (sep ++ (b ++ rest)) := by
    cases sep with
    | nil => exact absurd rfl hne
    | cons c cs => exact Or.inr ⟨c, cs ++ (b ++ rest), rfl, hsep c (by simp)⟩
  rw [ha _ hs, lexGo_ws_blanks sep hsep, hb rest hrest]
  cases lexGo .ws 0 rest <;> simp

theorem blanks_space : blanks [32] := by intro c hc; simp at hc; exact Or.inl hc

/-- fields joined by single spaces -/
theorem lexes_joinSep (items : List (List Nat × List Tok)) (h : ∀ p ∈ items, Lexes p.1 p.2) :
    Lexes (joinSep [32] (items.map (·.1))) (items.flatMap (·.2)) := by
  induction items with
  | nil => simpa [joinSep] using lexes_nil
  | cons p ps ih =>
    cases ps with
    | nil => simpa [joinSep] using h p (by simp)
    | cons q qs =>
      have hp := h p (by simp)
      have hq := ih (fun x hx => h x (by simp [hx]))
      have := lexes_append p.1 (joinSep [32] ((q :: qs).map (·.1))) [32] p.2 _ blanks_space (by simp) hp hq
      simpa [joinSep] using this

/-- the whole line -/
theorem lexLine_of_lexes (s : List Nat) (toks : List Tok) (h : Lexes s toks) : lexLine s = some toks := by
  have := h [] (Or.inl rfl)
  simpa [lexLine, lexGo] using this

end Model

import Proofs.NameOrder4
/-!
Helper lemmas for C06, part 5: successor / predecessor of *relative* names
(`_handle_relativity_and_call`: derelativize, call, relativize) — transport of the order through
`derelativize … relativize`.
-/
namespace Model
namespace NameOrder

theorem append_left_lt_cancel (l a b : List Label) (h : l ++ a < l ++ b) : a < b := by
  induction l with
  | nil => simpa using h
  | cons x l ih =>
    simp only [List.cons_append] at h
    rcases List.cons_lt_cons_iff.1 h with h' | ⟨_, h'⟩
    · exact absurd h' (List.lt_irrefl x)
    · exact ih h'

/-- comparing two relative names is comparing them under a common origin -/
theorem canonLt_cancel (a b o : Name) (ho : o ≠ []) (ha : isAbs a = false) (hb : isAbs b = false)
    (h : canonLt (a ++ o) (b ++ o)) : canonLt a b := by
  rcases h with ⟨h1, h2⟩ | ⟨_, h2⟩
  · rw [isAbs_append a o ho] at h1; rw [isAbs_append b o ho] at h2; rw [h1] at h2; cases h2
  · right
    refine ⟨ha.trans hb.symm, ?_⟩
    rw [revLower_append, revLower_append] at h2
    exact append_left_lt_cancel _ _ _ h2

theorem take_append_lower (a o : Name) (hsuf : lowerName o <:+ lowerName a) :
    lowerName (a.take (a.length - o.length) ++ o) = lowerName a := by
  have hlen : o.length ≤ a.length := by
    have := hsuf.length_le; simpa [lowerName] using this
  have hlow : lowerName o = lowerName (a.drop (a.length - o.length)) := by
    obtain ⟨t, ht⟩ := hsuf
    have e1 : lowerName (a.drop (a.length - o.length)) = (lowerName a).drop (a.length - o.length) := by
      simp [lowerName, List.map_drop]
    rw [e1, ← ht]
    have : a.length - o.length = t.length := by
      have := congrArg List.length ht
      simp [lowerName] at this
      omega
    rw [this, List.drop_left' rfl]
  have e2 : lowerName (a.take (a.length - o.length) ++ o) =
      lowerName (a.take (a.length - o.length)) ++ lowerName o := by simp [lowerName]
  rw [e2, hlow]
  have e3 : lowerName (a.take (a.length - o.length)) ++ lowerName (a.drop (a.length - o.length)) =
      lowerName (a.take (a.length - o.length) ++ a.drop (a.length - o.length)) := by simp [lowerName]
  rw [e3, List.take_append_drop]

/-- relativizing a legal name below the absolute origin: a relative name which, put back under the origin,
is the name again (up to case) -/
theorem relativize_below (r0 o r : Name) (ho : isAbs o = true) (hb : Below o r0)
    (h : relativize r0 o = .ok r) : lowerName (r ++ o) = lowerName r0 ∧ isAbs r = false := by
  obtain ⟨hw, hsuf⟩ := hb
  have hone : o ≠ [] := ne_nil_of_isAbs ho
  have hlone : lowerName o ≠ [] := by simpa [lowerName] using hone
  have habs : isAbs r0 = isAbs o := by
    rw [← isAbs_lowerName r0, ← isAbs_lowerName o]
    exact isAbs_of_suffix _ _ hlone hsuf
  have hsub : isSubdomain r0 o = true := (isSubdomain_iff r0 o).2 ⟨habs, hsuf⟩
  have hpos : o.length ≠ 0 := fun e => hone (List.length_eq_zero_iff.1 e)
  have hlen : o.length ≤ r0.length := by
    have := hsuf.length_le; simpa [lowerName] using this
  unfold relativize sliceToNeg at h
  rw [hsub] at h
  simp only [if_true, hpos, if_false] at h
  have hr := validate_eq _ _ h
  subst hr
  exact ⟨take_append_lower r0 o hsuf, isAbs_take_false r0 hw _ (by omega)⟩

/-- what `_handle_relativity_and_call` does for a relative name -/
theorem handleRelativity_rel (f : Name → Name → Bool → Except NameErr Name) (n o r : Name) (p : Bool)
    (hn : isAbs n = false) (h : handleRelativity f n o p = .ok r) :
    isAbs o = true ∧ ∃ r0, f (n ++ o) o p = .ok r0 ∧ relativize r0 o = .ok r := by
  unfold handleRelativity at h
  by_cases ho : isAbs o = true
  · refine ⟨ho, ?_⟩
    simp only [ho, hn, Bool.not_true, Bool.not_false, Bool.false_eq_true, if_false, if_true] at h
    cases hd : derelativize n o with
    | error e => rw [hd] at h; cases h
    | ok nm =>
      rw [hd] at h
      simp only at h
      have hnm : nm = n ++ o := by
        unfold derelativize concatenate at hd
        simp only [hn, Bool.not_false, if_true, Bool.false_eq_true, false_and, if_false] at hd
        exact validate_eq _ _ hd
      subst hnm
      cases hf : f (n ++ o) o p with
      | error e => rw [hf] at h; cases h
      | ok r0 =>
        rw [hf] at h
        exact ⟨r0, rfl, h⟩
  · simp [ho] at h

theorem relativize_self (o r : Name) (ho : isAbs o = true) (h : relativize o o = .ok r) : r = [] := by
  have hone : o ≠ [] := ne_nil_of_isAbs ho
  have hpos : o.length ≠ 0 := fun e => hone (List.length_eq_zero_iff.1 e)
  have hsub : isSubdomain o o = true := (isSubdomain_iff o o).2 ⟨rfl, List.suffix_refl _⟩
  unfold relativize sliceToNeg at h
  rw [hsub] at h
  simp only [if_true, hpos, if_false, Nat.sub_self, List.take_zero] at h
  exact validate_eq _ _ h

theorem below_of_append (n o : Name) (ho : isAbs o = true) :
    isAbs (n ++ o) = true ∧ isSubdomain (n ++ o) o = true ∧ lowerName o <:+ lowerName (n ++ o) := by
  have hone : o ≠ [] := ne_nil_of_isAbs ho
  have hsuf : lowerName o <:+ lowerName (n ++ o) := (List.suffix_append n o).map _
  have habs : isAbs (n ++ o) = isAbs o := isAbs_append n o hone
  exact ⟨habs.trans ho, (isSubdomain_iff _ _).2 ⟨habs, hsuf⟩, hsuf⟩

/-- successor of a relative name: the empty name (the relativized origin: wrap-around) or a name after it -/
theorem successor_rel (n o r : Name) (p : Bool) (hn : isAbs n = false) (h : successor n o p = .ok r) :
    r = [] ∨ canonLt n r := by
  obtain ⟨ho, r0, hf, hr⟩ := handleRelativity_rel absoluteSuccessor n o r p hn h
  obtain ⟨habs, hsub, _⟩ := below_of_append n o ho
  rcases absoluteSuccessor_gt (n ++ o) o r0 p habs ho hsub hf with e | ⟨hlt, hb⟩
  · subst e; exact Or.inl (relativize_self _ r ho hr)
  · right
    obtain ⟨e, hrel⟩ := relativize_below r0 o r ho hb hr
    have := (canonLt_congr (n ++ o) (n ++ o) r0 (r ++ o) rfl e.symm).1 hlt
    exact canonLt_cancel n r o (ne_nil_of_isAbs ho) hn hrel this

/-- predecessor of a relative name other than the empty name (the relativized origin) -/
theorem predecessor_rel (n o r : Name) (p : Bool) (hn : isAbs n = false) (h : predecessor n o p = .ok r) :
    n = [] ∨ canonLt r n := by
  obtain ⟨ho, r0, hf, hr⟩ := handleRelativity_rel absolutePredecessor n o r p hn h
  obtain ⟨habs, _, hsuf⟩ := below_of_append n o ho
  rcases absolutePredecessor_lt (n ++ o) o r0 p habs hsuf hf with e | ⟨hlt, hb⟩
  · left
    have := congrArg List.length ((nameEq_iff _ _).1 e)
    simp [lowerName] at this
    exact this
  · right
    obtain ⟨e, hrel⟩ := relativize_below r0 o r ho hb hr
    have := (canonLt_congr r0 (r ++ o) (n ++ o) (n ++ o) e.symm rfl).1 hlt
    exact canonLt_cancel r n o (ne_nil_of_isAbs ho) hrel hn this

end NameOrder
end Model

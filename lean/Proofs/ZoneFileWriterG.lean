import Model.ZoneFile
import Proofs.ZoneFileRoundTrip
/-!
What `Zone.to_styled_file` writes, as a pure function of the style (`zoneTextSpec`): the optional `$ORIGIN` and `$TTL`
lines, then for every node its record lines `owner-field ttl-field class-field type-field SP rdata [;comment]`, where
the owner field is blank for every record of a node but the first when names are de-duplicated.
-/
namespace Model

/-- `rd.to_generic(style.origin).to_styled_text(style)` or `rd.to_styled_text(style)` -/
def recordText (st : Style) (rd : Rdata) : Except NameErr (List Nat) :=
  if st.wantGeneric then do
    let w ← rdataToWire (if st.genFix ≥ 1 then st.origin else none) rd
    rdataToText st.toRdStyle (.generic w)
  else rdataToText st.toRdStyle rd

def nameFieldE (st : Style) (ow : List Nat) : List Nat := justify (ow ++ [32]) st.nameJust
def dupField (st : Style) : List Nat := justify (s2l "    ") st.nameJust
def ttlBody (st : Style) (ttl : Nat) : List Nat :=
  if st.omitTTL ∨ st.defaultTTL = some ttl then [] else natToDec ttl ++ [32]
def ttlField (st : Style) (ttl : Nat) : List Nat := justify (ttlBody st ttl) st.ttlJust
def classTok (st : Style) : List Nat := if st.wantGeneric then s2l "CLASS" ++ natToDec 1 else classToText 1
def classBody (st : Style) : List Nat := if st.omitClass then [] else classTok st ++ [32]
def classField (st : Style) : List Nat := justify (classBody st) st.classJust
def typeTok (st : Style) (ty : Nat) : List Nat := if st.wantGeneric then s2l "TYPE" ++ natToDec ty else typeToText ty
def typeField (st : Style) (ty : Nat) : List Nat := justify (typeTok st ty) st.typeJust
def extraOf (st : Style) (rr : RR) : List Nat :=
  if st.wantComments then (match rr.comment with | some c => if c = [] then [] else [32, 59] ++ c | none => []) else []

/-- one record line (without the newline) -/
def lineW (st : Style) (nt : List Nat) (ttl ty : Nat) (rtext extra : List Nat) : List Nat :=
  nt ++ ttlField st ttl ++ classField st ++ typeField st ty ++ [32] ++ rtext ++ extra

/-- the lines of one rdataset; `dupNow` = the owner column of the next line is blank -/
def rrsLinesSpec (st : Style) (ow : List Nat) (ttl ty : Nat) (rtextOf : RR → List Nat) : Bool → List RR → List (List Nat)
  | _, [] => []
  | dupNow, rr :: rest =>
    lineW st (if dupNow then dupField st else nameFieldE st ow) ttl ty (rtextOf rr) (extraOf st rr) ::
      rrsLinesSpec st ow ttl ty rtextOf (dupNow || st.dedup) rest

theorem classField_eq (st : Style) :
    justify (if st.omitClass = true then [] else if st.wantGeneric = true then s2l "CLASS" ++ natToDec 1 ++ [32]
      else classToText 1 ++ [32]) st.classJust = classField st := by
  unfold classField classBody classTok
  cases st.omitClass <;> cases st.wantGeneric <;> simp

theorem go_spec (st : Style) (ow : List Nat) (ttl ty : Nat) (rtextOf : RR → List Nat) (dupNow : Bool)
    (rrs : List RR) (htext : ∀ rr ∈ rrs, recordText st rr.rd = .ok (rtextOf rr)) :
    rdatasetLines.go st (classField st) (typeField st ty) (ttlField st ttl) (dupField st)
        (if dupNow then dupField st else nameFieldE st ow) rrs =
      .ok (rrsLinesSpec st ow ttl ty rtextOf dupNow rrs) := by
  induction rrs generalizing dupNow with
  | nil => simp [rdatasetLines.go, rrsLinesSpec, pure, Except.pure]
  | cons rr rest ih =>
    have h1 := htext rr (by simp)
    unfold recordText at h1
    simp only [rdatasetLines.go, bind, Except.bind, rrsLinesSpec]
    have hnext : (if st.dedup = true then dupField st else (if dupNow = true then dupField st else nameFieldE st ow)) =
        if (dupNow || st.dedup) = true then dupField st else nameFieldE st ow := by
      cases st.dedup <;> cases dupNow <;> simp
    have ih' := ih (dupNow || st.dedup) (fun x hx => htext x (by simp [hx]))
    rw [← hnext] at ih'
    cases hg : st.wantGeneric with
    | false =>
      simp only [hg, Bool.false_eq_true, if_false] at h1 ⊢
      simp only [h1, ih', pure, Except.pure, lineW, extraOf]
      try rfl
    | true =>
      simp only [hg, if_true, bind, Except.bind] at h1 ⊢
      cases hw : rdataToWire (if st.genFix ≥ 1 then st.origin else none) rr.rd with
      | error e => simp [hw] at h1
      | ok w =>
        simp only [hw] at h1 ⊢
        simp only [h1, ih', pure, Except.pure, lineW, extraOf]
        try rfl

/-- `Rdataset.to_styled_text` -/
theorem rdatasetLines_spec (st : Style) (name : Name) (rds : Rdataset) (ow : List Nat) (rtextOf : RR → List Nat)
    (hname : nameToStyledText st.toNameStyle name = .ok ow)
    (htext : ∀ rr ∈ rds.rrs, recordText st rr.rd = .ok (rtextOf rr)) :
    rdatasetLines st name rds =
      .ok (rrsLinesSpec st ow rds.ttl rds.rdtype rtextOf (st.dedup && st.firstNameIsDuplicate) rds.rrs) := by
  unfold rdatasetLines
  simp only [classField_eq]
  have hty : justify (if st.wantGeneric = true then s2l "TYPE" ++ natToDec rds.rdtype else typeToText rds.rdtype) st.typeJust =
      typeField st rds.rdtype := rfl
  have httl : justify (if st.omitTTL = true ∨ st.defaultTTL = some rds.ttl then [] else natToDec rds.ttl ++ [32]) st.ttlJust =
      ttlField st rds.ttl := rfl
  have hdupf : justify (s2l "    ") st.nameJust = dupField st := rfl
  simp only [hty, httl, hdupf]
  by_cases hc : st.dedup = true ∧ st.firstNameIsDuplicate = true
  · simp only [hc, and_self, if_true, bind, Except.bind, pure, Except.pure]
    have := go_spec st ow rds.ttl rds.rdtype rtextOf true rds.rrs htext
    simpa [hc.1, hc.2, dupField] using this
  · simp only [hc, if_false, bind, Except.bind, hname, pure, Except.pure]
    have hb : (st.dedup && st.firstNameIsDuplicate) = false := by
      cases h1 : st.dedup <;> cases h2 : st.firstNameIsDuplicate <;> simp_all
    have := go_spec st ow rds.ttl rds.rdtype rtextOf false rds.rrs htext
    rw [hb]
    simpa [nameFieldE] using this

/-- the lines of one node; `fnd` = `first_name_is_duplicate` -/
def nodeLinesSpec (st : Style) (ow : List Nat) (rtextOf : RR → List Nat) : Bool → Node → List (List Nat)
  | _, [] => []
  | fnd, rds :: rest =>
    rrsLinesSpec st ow rds.ttl rds.rdtype rtextOf (st.dedup && fnd) rds.rrs ++
      nodeLinesSpec st ow rtextOf (fnd || st.dedup) rest

theorem rrsLinesSpec_fnd (st : Style) (b : Bool) (ow : List Nat) (ttl ty : Nat) (rtextOf : RR → List Nat) (d : Bool)
    (rrs : List RR) :
    rrsLinesSpec { st with firstNameIsDuplicate := b } ow ttl ty rtextOf d rrs = rrsLinesSpec st ow ttl ty rtextOf d rrs := by
  induction rrs generalizing d with
  | nil => rfl
  | cons rr rest ih => simp only [rrsLinesSpec]; rw [ih]; rfl

theorem nodeLinesSpec_fnd (st : Style) (b : Bool) (ow : List Nat) (rtextOf : RR → List Nat) (f : Bool) (nd : Node) :
    nodeLinesSpec { st with firstNameIsDuplicate := b } ow rtextOf f nd = nodeLinesSpec st ow rtextOf f nd := by
  induction nd generalizing f with
  | nil => rfl
  | cons rds rest ih => simp only [nodeLinesSpec, rrsLinesSpec_fnd]; rw [ih]

theorem nodeLines_spec (st : Style) (name : Name) (nd : Node) (ow : List Nat) (rtextOf : RR → List Nat)
    (hname : nameToStyledText st.toNameStyle name = .ok ow)
    (hne : ∀ rds ∈ nd, rds.rrs ≠ [])
    (htext : ∀ rds ∈ nd, ∀ rr ∈ rds.rrs, recordText st rr.rd = .ok (rtextOf rr)) :
    nodeLines st name nd = .ok (nodeLinesSpec st ow rtextOf st.firstNameIsDuplicate nd) := by
  induction nd generalizing st with
  | nil => rfl
  | cons rds rest ih =>
    have h1 := hne rds (by simp)
    simp only [nodeLines, h1, if_false, bind, Except.bind]
    rw [rdatasetLines_spec st name rds ow rtextOf hname (htext rds (by simp))]
    simp only
    have hrest := fun (st' : Style) (h1 : nameToStyledText st'.toNameStyle name = .ok ow)
      (h2 : ∀ rds ∈ rest, ∀ rr ∈ rds.rrs, recordText st' rr.rd = .ok (rtextOf rr)) =>
      ih st' h1 (fun r hr => hne r (by simp [hr])) h2
    by_cases hc : st.dedup = true ∧ (!st.firstNameIsDuplicate) = true
    · simp only [if_pos hc]
      rw [hrest { st with firstNameIsDuplicate := true } hname (fun r hr => htext r (by simp [hr]))]
      have hf : st.firstNameIsDuplicate = false := by simpa using hc.2
      simp only [pure, Except.pure, nodeLinesSpec]
      rw [nodeLinesSpec_fnd]
      simp [hc.1, hf]
    · simp only [if_neg hc]
      rw [hrest st hname (fun r hr => htext r (by simp [hr]))]
      simp only [pure, Except.pure, nodeLinesSpec]
      congr 3
      cases h1 : st.dedup <;> cases h2 : st.firstNameIsDuplicate <;> simp_all

/-! ## the whole file -/

/-- `Zone.to_styled_file` supplies the zone's origin to a generic-syntax style that has none (repair of D08) -/
def adjustStyle (st : Style) (origin : Option Name) (zrel : Bool) : Style :=
  if st.genFix ≥ 2 ∧ st.wantGeneric ∧ st.origin.isNone ∧ origin.isSome then
    { st with origin := origin, relativize := zrel }
  else st

def originLine (zo : Name) : List Nat := s2l "$ORIGIN " ++ toText zo
def ttlLine (v : Nat) : List Nat := s2l "$TTL " ++ natToDec v

def headerLines (st : Style) (zo : Name) : List (List Nat) :=
  (if st.wantOrigin then [originLine zo] else []) ++
  (match st.defaultTTL with | some v => [ttlLine v] | none => [])

def zoneTextSpec (st : Style) (zo : Name) (w : ZoneMap) (owOf : Name → List Nat) (rtextOf : RR → List Nat) : List Nat :=
  (headerLines st zo).flatMap (· ++ [10]) ++
    w.flatMap fun p => joinLines (nodeLinesSpec st (owOf p.1) rtextOf st.firstNameIsDuplicate p.2)

theorem rrsLinesSpec_ne (st : Style) (ow : List Nat) (ttl ty : Nat) (rtextOf : RR → List Nat) (d : Bool) (rrs : List RR)
    (h : rrs ≠ []) : rrsLinesSpec st ow ttl ty rtextOf d rrs ≠ [] := by
  cases rrs with
  | nil => exact absurd rfl h
  | cons a b => simp [rrsLinesSpec]

theorem nodeLinesSpec_ne (st : Style) (ow : List Nat) (rtextOf : RR → List Nat) (f : Bool) (nd : Node) (h1 : nd ≠ [])
    (h2 : ∀ rds ∈ nd, rds.rrs ≠ []) : nodeLinesSpec st ow rtextOf f nd ≠ [] := by
  cases nd with
  | nil => exact absurd rfl h1
  | cons rds rest =>
    simp only [nodeLinesSpec, ne_eq, List.append_eq_nil_iff, not_and]
    intro h
    exact absurd h (rrsLinesSpec_ne st ow _ _ rtextOf _ rds.rrs (h2 rds (by simp)))

theorem flatMap_join_spec (st : Style) (w : ZoneMap) (owOf : Name → List Nat) (rtextOf : RR → List Nat)
    (hnd : ∀ p ∈ w, p.2 ≠ []) (hne : ∀ p ∈ w, ∀ rds ∈ p.2, rds.rrs ≠ []) :
    (w.map fun p => joinWith [10] (nodeLinesSpec st (owOf p.1) rtextOf st.firstNameIsDuplicate p.2)).flatMap (fun x => x ++ [10]) =
      w.flatMap fun p => joinLines (nodeLinesSpec st (owOf p.1) rtextOf st.firstNameIsDuplicate p.2) := by
  induction w with
  | nil => rfl
  | cons p rest ih =>
    simp only [List.map_cons, List.flatMap_cons]
    rw [joinWith_nl _ (nodeLinesSpec_ne st (owOf p.1) rtextOf _ p.2 (hnd p (by simp)) (hne p (by simp)))]
    rw [ih (fun q hq => hnd q (by simp [hq])) (fun q hq => hne q (by simp [hq]))]

/-- **what `Zone.to_styled_file` writes** (zone with a known origin) -/
theorem zoneToText_spec (st : Style) (zo : Name) (z : ZoneMap) (zrel : Bool) (owOf : Name → List Nat)
    (rtextOf : RR → List Nat)
    (hname : ∀ p ∈ writeOrder (adjustStyle st (some zo) zrel).sorted z,
      nameToStyledText (adjustStyle st (some zo) zrel).toNameStyle p.1 = .ok (owOf p.1))
    (hnd : ∀ p ∈ writeOrder (adjustStyle st (some zo) zrel).sorted z, p.2 ≠ [])
    (hne : ∀ p ∈ writeOrder (adjustStyle st (some zo) zrel).sorted z, ∀ rds ∈ p.2, rds.rrs ≠ [])
    (htext : ∀ p ∈ writeOrder (adjustStyle st (some zo) zrel).sorted z, ∀ rds ∈ p.2, ∀ rr ∈ rds.rrs,
      recordText (adjustStyle st (some zo) zrel) rr.rd = .ok (rtextOf rr)) :
    zoneToText st (some zo) z zrel =
      .ok (zoneTextSpec (adjustStyle st (some zo) zrel) zo (writeOrder (adjustStyle st (some zo) zrel).sorted z) owOf rtextOf) := by
  unfold zoneToText
  have hadj : (if st.genFix ≥ 2 ∧ st.wantGeneric = true ∧ st.origin.isNone = true ∧ (some zo).isSome = true then
      { st with origin := some zo, relativize := zrel } else st) = adjustStyle st (some zo) zrel := rfl
  simp only [hadj]
  generalize adjustStyle st (some zo) zrel = st' at *
  have hbody : (writeOrder st'.sorted z).mapM (fun p => (nodeLines st' p.1 p.2).bind fun ls => (pure (joinWith [10] ls) : Except NameErr (List Nat))) =
      .ok ((writeOrder st'.sorted z).map fun p => joinWith [10] (nodeLinesSpec st' (owOf p.1) rtextOf st'.firstNameIsDuplicate p.2)) := by
    apply mapM_ok_of_forall
    intro p hp
    rw [nodeLines_spec st' p.1 p.2 (owOf p.1) rtextOf (hname p hp) (hne p hp) (htext p hp)]
    rfl
  have ho : nameToStyledText { origin := none, relativize := st'.relativize } zo = .ok (toText zo) := by
    simp [nameToStyledText, chooseRelativity]
  simp only [bind, Except.bind, pure, Except.pure, writeOrder, ho] at hbody ⊢
  rw [hbody]
  have := flatMap_join_spec st' (writeOrder st'.sorted z) owOf rtextOf hnd hne
  simp only [writeOrder] at this
  simp only [zoneTextSpec, headerLines, originLine, ttlLine, writeOrder, List.flatMap_append, ← this]
  cases st'.wantOrigin <;> cases st'.defaultTTL <;> simp

end Model

import Model.ZoneFile
import Proofs.ZoneFileGenLine
/-!
The TTL of a line that states none — `$GENERATE` (`_generate_line`) and plain record lines (`_rr_line`): both take the
default TTL (`$TTL`, or the SOA minimum once an SOA was read) when one is known and the last stated TTL otherwise; so a
`$GENERATE` line without a TTL field and the file of its TTL-less expansion lines load alike, TTLs included.
-/
namespace Model

/-- the `except dns.ttl.BadTTL:` fallback of `_generate_line`, as the model spells it -/
def genFallbackTTL (r : PState) : Option Nat :=
  if !(r.lastTTLKnown ∨ r.defaultTTLKnown) then none
  else if r.defaultTTLKnown then some r.defaultTTL else some r.lastTTL

/-- **the two call sites agree on the rule**: the fallback of `_generate_line` is the TTL `_rr_line` inherits
(`PState.inheritedTTL`: default TTL first, last stated TTL second) -/
theorem genFallbackTTL_eq_inherited (r : PState) : genFallbackTTL r = r.inheritedTTL := by
  unfold genFallbackTTL PState.inheritedTTL
  cases r.defaultTTLKnown <;> cases r.lastTTLKnown <;> simp

/-- a known default TTL wins over any TTL stated earlier -/
theorem inheritedTTL_default (r : PState) (h : r.defaultTTLKnown = true) : r.inheritedTTL = some r.defaultTTL := by
  simp [PState.inheritedTTL, h]

/-- without a default, the last stated TTL is inherited -/
theorem inheritedTTL_last (r : PState) (h : r.defaultTTLKnown = false) (hl : r.lastTTLKnown = true) :
    r.inheritedTTL = some r.lastTTL := by
  simp [PState.inheritedTTL, h, hl]

theorem inheritedTTL_cases (r : PState) (ttl : Nat) (h : r.inheritedTTL = some ttl) :
    (r.defaultTTLKnown = true ∧ r.defaultTTL = ttl) ∨
    (r.defaultTTLKnown = false ∧ r.lastTTLKnown = true ∧ r.lastTTL = ttl) := by
  unfold PState.inheritedTTL at h
  cases hd : r.defaultTTLKnown <;> cases hl : r.lastTTLKnown <;> simp [hd, hl] at h <;> simp [h]

/-- ` range lhs class type rhs` -/
def genHeaderTextC (rangeT lhs clsT tyT rhs : List Nat) (T : List Nat) : List Nat :=
  32 :: (rangeT ++ (32 :: (lhs ++ (32 :: (clsT ++ (32 :: (tyT ++ (32 :: (rhs ++ T)))))))))

/-- ` range lhs type rhs` -/
def genHeaderTextY (rangeT lhs tyT rhs : List Nat) (T : List Nat) : List Nat :=
  32 :: (rangeT ++ (32 :: (lhs ++ (32 :: (tyT ++ (32 :: (rhs ++ T)))))))

/-- `_generate_line` up to the loop, header without a TTL field (class written): the TTL is the inherited one and
`last_ttl` is left alone -/
theorem generateParse_line_c (r : PState) (rangeT lhs clsT tyT rhs T : List Nat) (a b st ttl ty : Nat) (lm rm : Modify)
    (hco : r.currentOrigin.isNone = false)
    (htok : r.tok = after 0 false (genHeaderTextC rangeT lhs clsT tyT rhs T)) (hT : startsDelim T)
    (k1 : TokOK rangeT) (k2 : TokOK lhs) (k4 : TokOK clsT) (k5 : TokOK tyT) (k6 : TokOK rhs)
    (hrange : grangeFromText rangeT = .ok (a, b, st)) (hnt : ttlOf clsT = none) (hinh : r.inheritedTTL = some ttl)
    (hcls : classFromText clsT = some 1) (hty : typeFromText tyT = some ty)
    (hlm : parseModify lhs = some lm) (hrm : parseModify rhs = some rm) :
    generateParse r = .ok (⟨ttl, ty, generateExpansion a b st lhs rhs lm rm⟩, { r with tok := after 0 false T }) := by
  unfold genHeaderTextC at htok
  have g1 := get_field [32] rangeT (32 :: (lhs ++ (32 :: (clsT ++ (32 :: (tyT ++ (32 :: (rhs ++ T))))))))
    sp_blank k1.ok k1.ne (sp_startsDelim _)
  simp only [List.cons_append, List.nil_append] at g1
  have g2 := genNextIdent_field lhs (32 :: (clsT ++ (32 :: (tyT ++ (32 :: (rhs ++ T)))))) k2.ok k2.ne (sp_startsDelim _)
  have g3 := genNextIdent_field clsT (32 :: (tyT ++ (32 :: (rhs ++ T)))) k4.ok k4.ne (sp_startsDelim _)
  have g5 := get_field [32] tyT (32 :: (rhs ++ T)) sp_blank k5.ok k5.ne (sp_startsDelim _)
  have g6 := get_field [32] rhs T sp_blank k6.ok k6.ne hT
  simp only [List.cons_append, List.nil_append] at g5 g6
  unfold generateParse
  simp only [hco, Bool.false_eq_true, if_false, bind, Except.bind, liftT, htok, g1, identToken, hrange, pure, Except.pure]
  simp only [identToken] at g2 g3 g5 g6
  simp only [g2, g3, hnt]
  rcases inheritedTTL_cases r ttl hinh with ⟨hd, rfl⟩ | ⟨hd, hl, rfl⟩
  · simp [hd, hcls, wrapSyntax, g5, liftT, Token.isIdentifier, hty, g6, hlm, hrm, bind, Except.bind, pure, Except.pure]
  · simp [hd, hl, hcls, wrapSyntax, g5, liftT, Token.isIdentifier, hty, g6, hlm, hrm, bind, Except.bind, pure, Except.pure]

/-- … header with neither TTL nor class -/
theorem generateParse_line_y (r : PState) (rangeT lhs tyT rhs T : List Nat) (a b st ttl ty : Nat) (lm rm : Modify)
    (hco : r.currentOrigin.isNone = false)
    (htok : r.tok = after 0 false (genHeaderTextY rangeT lhs tyT rhs T)) (hT : startsDelim T)
    (k1 : TokOK rangeT) (k2 : TokOK lhs) (k5 : TokOK tyT) (k6 : TokOK rhs)
    (hrange : grangeFromText rangeT = .ok (a, b, st)) (hnt : ttlOf tyT = none) (hinh : r.inheritedTTL = some ttl)
    (hnc : classFromText tyT = none) (hty : typeFromText tyT = some ty)
    (hlm : parseModify lhs = some lm) (hrm : parseModify rhs = some rm) :
    generateParse r = .ok (⟨ttl, ty, generateExpansion a b st lhs rhs lm rm⟩, { r with tok := after 0 false T }) := by
  unfold genHeaderTextY at htok
  have g1 := get_field [32] rangeT (32 :: (lhs ++ (32 :: (tyT ++ (32 :: (rhs ++ T))))))
    sp_blank k1.ok k1.ne (sp_startsDelim _)
  simp only [List.cons_append, List.nil_append] at g1
  have g2 := genNextIdent_field lhs (32 :: (tyT ++ (32 :: (rhs ++ T)))) k2.ok k2.ne (sp_startsDelim _)
  have g3 := genNextIdent_field tyT (32 :: (rhs ++ T)) k5.ok k5.ne (sp_startsDelim _)
  have g6 := get_field [32] rhs T sp_blank k6.ok k6.ne hT
  simp only [List.cons_append, List.nil_append] at g6
  unfold generateParse
  simp only [hco, Bool.false_eq_true, if_false, bind, Except.bind, liftT, htok, g1, identToken, hrange, pure, Except.pure]
  simp only [identToken] at g2 g3 g6
  simp only [g2, g3, hnt]
  rcases inheritedTTL_cases r ttl hinh with ⟨hd, rfl⟩ | ⟨hd, hl, rfl⟩
  · simp [hd, hnc, wrapSyntax, liftT, Token.isIdentifier, hty, g6, hlm, hrm, bind, Except.bind, pure, Except.pure]
  · simp [hd, hl, hnc, wrapSyntax, liftT, Token.isIdentifier, hty, g6, hlm, hrm, bind, Except.bind, pure, Except.pure]

/-! ## the line in the file -/

/-- a `$GENERATE` line whose header parse is known: what it does to the zone is the fold of `txn.add` over the records
of its indices, and the reader goes on after the line -/
theorem readLoop_generate_of_parse (f : Nat) (r r1 : PState) (z : ZoneMap) (H rest : List Nat) (ttl ty : Nat)
    (items : List (List Nat × List Nat)) (e : List Nat × List Nat → Option Entry) (nOf : List Nat × List Nat → Name)
    (hH : startsDelim H) (htok : r.tok = after 0 false (s2l "$GENERATE" ++ H))
    (hparse : generateParse { r with tok := after 0 false H } = .ok (⟨ttl, ty, items⟩, r1))
    (htok1 : r1.tok = after 0 false (10 :: rest))
    (hitems : ∀ item ∈ items, ∀ ln, genItem ttl ty item { r1 with lastName := ln } =
        .ok (e item, { r1 with lastName := some (nOf item) })) :
    readLoop (f + 2) r z =
      (addAll r1.effOrigin z (items.filterMap e)).bind fun z' =>
        readLoop f { r1 with tok := after 0 false rest, lastName := lastNameAfter nOf r1.lastName items } z' := by
  have hdir := lineStep_generate_dir r H hH htok
  have hloop := generateLoop_records ttl ty items r1 e nOf hitems z
  simp only [readLoop, readStep, bind, Except.bind, hdir, generateLine, hparse, hloop]
  cases hadd : addAll r1.effOrigin z (items.filterMap e) with
  | error err => rfl
  | ok z' =>
    simp only [Except.map, pure, Except.pure]
    have heol := lineStep_eol { r1 with lastName := lastNameAfter nOf r1.lastName items } rest htok1
    simp only [heol]

/-! ## a run of record lines that state no TTL -/

/-- lines that state no TTL, are not SOAs, and all denote the TTL `ttl` -/
def InheritLines (ttl : Nat) (ls : List GLine) : Prop := ∀ l ∈ ls, l.hdr.hasTTL = false ∧ l.ttl = ttl ∧ l.ty ≠ tSOA

/-- such lines are read as their records when `ttl` is what the reader inherits at that point — the default TTL, or the
last stated TTL when no default is known — and they leave the TTL bookkeeping alone -/
theorem readLoop_prefix_inherit (ls : List GLine) (rest : List Nat) (r : PState) (z : ZoneMap) (co zo : Name) (f ttl : Nat)
    (hco : r.currentOrigin = some co) (hzo : r.zoneOrigin = some zo)
    (htok : r.tok = after 0 false (glinesText ls ++ rest)) (hinh : r.inheritedTTL = some ttl)
    (hok : LinesOK co zo r.relativize r.gfix r.lastName (some ttl) ls) (hu : InheritLines ttl ls) :
    readLoop (f + ls.length) r z =
      (addAll r.effOrigin z (ls.map GLine.entry)).bind fun z' =>
        readLoop f { r with tok := after 0 false rest, lastName := lastN r.lastName ls } z' := by
  induction ls generalizing r z with
  | nil =>
    simp only [glinesText, List.nil_append] at htok
    simp only [List.length_nil, Nat.add_zero, List.map_nil, addAll, Except.bind, lastN]
    congr 1
    cases r; simp only at htok; subst htok; rfl
  | cons l ls ih =>
    obtain ⟨h1, h2, _, h4⟩ := hok
    obtain ⟨u1, u2, u3⟩ := hu l (by simp)
    have hstep := lineStep_G r l (glinesText ls ++ rest) co zo hco hzo
      (by simpa [glinesText, List.append_assoc] using htok) h1 (fun ho => h2 ho) (fun _ => by rw [hinh, u2])
    have hafter : afterG r l (glinesText ls ++ rest) =
        { r with tok := after 0 false (glinesText ls ++ rest), lastName := some l.n } := by
      unfold afterG
      rw [soaDefault_other _ _ _ u3]
      simp [u1]
    have e : f + (l :: ls).length = (f + ls.length) + 1 := by simp; omega
    rw [e]
    simp only [readLoop, readStep, bind, Except.bind, hstep, List.map_cons, addAll, hafter]
    have heff : ({ r with tok := after 0 false (glinesText ls ++ rest), lastName := some l.n } : PState).effOrigin =
        r.effOrigin := rfl
    rw [heff]
    cases ha : addEntry z r.effOrigin l.entry with
    | error err => rfl
    | ok z1 =>
      simp only [pure, Except.pure]
      rw [ih { r with tok := after 0 false (glinesText ls ++ rest), lastName := some l.n } z1 hco hzo rfl hinh h4
        (fun x hx => hu x (by simp [hx])), heff]
      rfl

/-! ## `$GENERATE` without a TTL field versus its TTL-less expansion -/

theorem generate_eq_lines_inherit (f : Nat) (r : PState) (z : ZoneMap) (co zo : Name) (H rest : List Nat) (ttl ty : Nat)
    (items : List (List Nat × List Nat)) (e : List Nat × List Nat → Option Entry) (nOf : List Nat × List Nat → Name)
    (ls : List GLine)
    (hco : r.currentOrigin = some co) (hzo : r.zoneOrigin = some zo) (hH : startsDelim H)
    (hparse : generateParse { r with tok := after 0 false H } =
      .ok (⟨ttl, ty, items⟩, { r with tok := after 0 false (10 :: rest) }))
    (hinh : r.inheritedTTL = some ttl)
    (hitems : ∀ item ∈ items, ∀ ln,
      genItem ttl ty item { r with tok := after 0 false (10 :: rest), lastName := ln } =
        .ok (e item, { r with tok := after 0 false (10 :: rest), lastName := some (nOf item) }))
    (hls : ls.map GLine.entry = items.filterMap e)
    (hok : LinesOK co zo r.relativize r.gfix r.lastName (some ttl) ls) (hu : InheritLines ttl ls)
    (hlast : lastN r.lastName ls = lastNameAfter nOf r.lastName items) :
    readLoop (f + 2) { r with tok := after 0 false (s2l "$GENERATE" ++ H) } z =
    readLoop (f + ls.length) { r with tok := after 0 false (glinesText ls ++ rest) } z := by
  have hG := readLoop_generate_of_parse f { r with tok := after 0 false (s2l "$GENERATE" ++ H) }
    { r with tok := after 0 false (10 :: rest) } z H rest ttl ty items e nOf hH rfl hparse rfl hitems
  have hL := readLoop_prefix_inherit ls rest { r with tok := after 0 false (glinesText ls ++ rest) } z co zo f ttl
    hco hzo rfl hinh hok hu
  rw [hls, hlast] at hL
  exact hG.trans hL.symm

end Model

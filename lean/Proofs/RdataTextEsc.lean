import Proofs.RdataTextLex
/-! `dns.rdata._escapify` against `Token.unescape` (code points) and `Token.unescape_to_bytes` (octets) (C05). -/
namespace Model

/-- what the round trip needs from `dns.rdata._escaped` (checked by `decide` on the generated constant) -/
def EscROk (esc : List Nat) : Prop :=
  34 ∈ esc ∧ 92 ∈ esc ∧ ∀ d ∈ esc, isDigit d = false ∧ d < 128 ∧ d ≠ 10

instance (esc : List Nat) : Decidable (EscROk esc) := by unfold EscROk; exact inferInstance

theorem escROk_generated : EscROk Consts.rdataEscaped := by decide

theorem dec3_digits (c : Nat) (hc : c < 256) :
    isDigit (48 + c / 100) = true ∧ isDigit (48 + c / 10 % 10) = true ∧ isDigit (48 + c % 10) = true := by
  simp [isDigit]; omega

/-- the three shapes of one escaped octet -/
theorem escROctet_cases (esc : List Nat) (c : Nat) :
    (c ∈ esc ∧ escROctet esc c = [92, c]) ∨
    (c ∉ esc ∧ 0x20 ≤ c ∧ c < 0x7F ∧ escROctet esc c = [c]) ∨
    (c ∉ esc ∧ ¬ (0x20 ≤ c ∧ c < 0x7F) ∧ escROctet esc c = 92 :: dec3 c) := by
  unfold escROctet
  by_cases h : c ∈ esc
  · simp [h]
  · by_cases h2 : 0x20 ≤ c ∧ c < 0x7F
    · simp [h, h2]
    · simp [h, h2]

theorem unescapeBytes_plain (c : Nat) (hc : c ≠ 92) (rest : List Nat) :
    unescapeBytes (c :: rest) = match utf8Char c, unescapeBytes rest with
      | some a, some b => some (a ++ b)
      | _, _ => none := by
  rw [unescapeBytes.eq_def]
  split
  · rename_i h; simp at h
  · rename_i h; simp at h; exact absurd h.1 hc
  · rename_i h; simp at h; exact absurd h.1 hc
  · rename_i h; simp at h; obtain ⟨rfl, rfl⟩ := h; rfl

theorem unescapeCP_plain (c : Nat) (hc : c ≠ 92) (rest : List Nat) :
    unescapeCP (c :: rest) = (unescapeCP rest).map (c :: ·) := by
  rw [unescapeCP.eq_def]
  split
  · rename_i h; simp at h
  · rename_i h; simp at h; exact absurd h.1 hc
  · rename_i h; simp at h; exact absurd h.1 hc
  · rename_i h; simp at h; obtain ⟨rfl, rfl⟩ := h; rfl

theorem unescapeBytes_bs (c : Nat) (rest : List Nat) :
    unescapeBytes (92 :: c :: rest) =
      if isDigit c then
        match rest with
        | c2 :: c3 :: rest' =>
          if isDigit c2 && isDigit c3 then
            let cp := (c - 48) * 100 + (c2 - 48) * 10 + (c3 - 48)
            if cp > 255 then none else (unescapeBytes rest').map (cp :: ·)
          else none
        | _ => none
      else match utf8Char c, unescapeBytes rest with
        | some a, some b => some (a ++ b)
        | _, _ => none := by
  rw [unescapeBytes.eq_def]; rfl

theorem unescapeCP_bs (c : Nat) (rest : List Nat) :
    unescapeCP (92 :: c :: rest) =
      if isDigit c then
        match rest with
        | c2 :: c3 :: rest' =>
          if isDigit c2 && isDigit c3 then
            let cp := (c - 48) * 100 + (c2 - 48) * 10 + (c3 - 48)
            if cp > 255 then none else (unescapeCP rest').map (cp :: ·)
          else none
        | _ => none
      else (unescapeCP rest).map (c :: ·) := by
  rw [unescapeCP.eq_def]; rfl

theorem unescapeBytes_escROctet (esc : List Nat) (hesc : EscROk esc) (c : Nat) (hc : c < 256) (rest : List Nat) :
    unescapeBytes (escROctet esc c ++ rest) = (unescapeBytes rest).map (c :: ·) := by
  obtain ⟨h34, h92, hall⟩ := hesc
  rcases escROctet_cases esc c with ⟨hm, e⟩ | ⟨hm, h1, h2, e⟩ | ⟨hm, h1, e⟩
  · rw [e]
    obtain ⟨hd, hlt, _⟩ := hall c hm
    have hu : utf8Char c = some [c] := by simp [utf8Char]; omega
    simp only [List.cons_append, List.nil_append]
    rw [unescapeBytes_bs]
    simp only [hd, Bool.false_eq_true, if_false, hu]
    cases unescapeBytes rest <;> simp
  · rw [e]
    have hc92 : c ≠ 92 := fun h => hm (h ▸ h92)
    have hu : utf8Char c = some [c] := by simp [utf8Char]; omega
    simp only [List.cons_append, List.nil_append]
    rw [unescapeBytes_plain c hc92, hu]
    cases unescapeBytes rest <;> simp
  · rw [e]
    obtain ⟨d1, d2, d3⟩ := dec3_digits c hc
    have hv : (48 + c / 100 - 48) * 100 + (48 + c / 10 % 10 - 48) * 10 + (48 + c % 10 - 48) = c := by omega
    have hle : ¬ c > 255 := by omega
    simp only [dec3, List.cons_append, List.nil_append]
    rw [unescapeBytes_bs]
    simp only [d1, d2, d3, if_true, Bool.and_self, hv, hle, if_false]

theorem unescapeCP_escROctet (esc : List Nat) (hesc : EscROk esc) (c : Nat) (hc : c < 256) (rest : List Nat) :
    unescapeCP (escROctet esc c ++ rest) = (unescapeCP rest).map (c :: ·) := by
  obtain ⟨h34, h92, hall⟩ := hesc
  rcases escROctet_cases esc c with ⟨hm, e⟩ | ⟨hm, h1, h2, e⟩ | ⟨hm, h1, e⟩
  · rw [e]
    obtain ⟨hd, hlt, _⟩ := hall c hm
    simp only [List.cons_append, List.nil_append]
    rw [unescapeCP_bs]
    simp only [hd, Bool.false_eq_true, if_false]
  · rw [e]
    have hc92 : c ≠ 92 := fun h => hm (h ▸ h92)
    simp only [List.cons_append, List.nil_append]
    rw [unescapeCP_plain c hc92]
  · rw [e]
    obtain ⟨d1, d2, d3⟩ := dec3_digits c hc
    have hv : (48 + c / 100 - 48) * 100 + (48 + c / 10 % 10 - 48) * 10 + (48 + c % 10 - 48) = c := by omega
    have hle : ¬ c > 255 := by omega
    simp only [dec3, List.cons_append, List.nil_append]
    rw [unescapeCP_bs]
    simp only [d1, d2, d3, if_true, Bool.and_self, hv, hle, if_false]

/-- `Token.unescape_to_bytes` inverts `_escapify` on every octet string -/
theorem unescapeBytes_escapify (esc : List Nat) (hesc : EscROk esc) (s : Bytes) (hs : ∀ c ∈ s, c < 256) :
    unescapeBytes (escapifyRWith esc s) = some s := by
  induction s with
  | nil => simp [escapifyRWith, unescapeBytes]
  | cons c cs ih =>
    have : escapifyRWith esc (c :: cs) = escROctet esc c ++ escapifyRWith esc cs := by simp [escapifyRWith]
    rw [this, unescapeBytes_escROctet esc hesc c (hs c (by simp)), ih (fun x hx => hs x (by simp [hx]))]
    rfl

/-- `Token.unescape` returns the octets as code points -/
theorem unescapeCP_escapify (esc : List Nat) (hesc : EscROk esc) (s : Bytes) (hs : ∀ c ∈ s, c < 256) :
    unescapeCP (escapifyRWith esc s) = some s := by
  induction s with
  | nil => simp [escapifyRWith, unescapeCP]
  | cons c cs ih =>
    have : escapifyRWith esc (c :: cs) = escROctet esc c ++ escapifyRWith esc cs := by simp [escapifyRWith]
    rw [this, unescapeCP_escROctet esc hesc c (hs c (by simp)), ih (fun x hx => hs x (by simp [hx]))]
    rfl

theorem utf8Encode_ascii (s : List Nat) (hs : ∀ c ∈ s, c < 128) : utf8Encode s = some s := by
  induction s with
  | nil => rfl
  | cons c cs ih =>
    have hc := hs c (by simp)
    have hu : utf8Char c = some [c] := by simp [utf8Char, hc]
    simp [utf8Encode, hu, ih (fun x hx => hs x (by simp [hx]))]

/-- the escaped text is a legal inside of a quoted string -/
theorem quoteBodyAux_escROctet (esc : List Nat) (hesc : EscROk esc) (c : Nat) (hc : c < 256) (rest : List Nat) :
    quoteBodyAux false (escROctet esc c ++ rest) = quoteBodyAux false rest := by
  obtain ⟨h34, h92, hall⟩ := hesc
  rcases escROctet_cases esc c with ⟨hm, e⟩ | ⟨hm, h1, h2, e⟩ | ⟨hm, h1, e⟩
  · rw [e]; simp [quoteBodyAux]
  · rw [e]
    have hc92 : c ≠ 92 := fun h => hm (h ▸ h92)
    have hc34 : c ≠ 34 := fun h => hm (h ▸ h34)
    have hc10 : c ≠ 10 := by omega
    simp [quoteBodyAux, hc92, hc34, hc10]
  · rw [e]
    obtain ⟨d1, d2, d3⟩ := dec3_digits c hc
    simp only [isDigit, decide_eq_true_eq] at d1 d2 d3
    have a2 : 48 + c / 10 % 10 ≠ 92 := by omega
    have a3 : 48 + c % 10 ≠ 92 := by omega
    have b2 : (48 + c / 10 % 10 != 34) = true ∧ (48 + c / 10 % 10 != 10) = true := by
      simp only [bne_iff_ne, ne_eq]; omega
    have b3 : (48 + c % 10 != 34) = true ∧ (48 + c % 10 != 10) = true := by
      simp only [bne_iff_ne, ne_eq]; omega
    simp [dec3, quoteBodyAux, a2, a3, b2.1, b2.2, b3.1, b3.2]

theorem quoteBody_escapify (esc : List Nat) (hesc : EscROk esc) (s : Bytes) (hs : ∀ c ∈ s, c < 256) :
    quoteBody (escapifyRWith esc s) = true := by
  unfold quoteBody
  induction s with
  | nil => simp [escapifyRWith, quoteBodyAux]
  | cons c cs ih =>
    have : escapifyRWith esc (c :: cs) = escROctet esc c ++ escapifyRWith esc cs := by simp [escapifyRWith]
    rw [this, quoteBodyAux_escROctet esc hesc c (hs c (by simp)), ih (fun x hx => hs x (by simp [hx]))]

end Model

import Model.Resolver
import Proofs.Resolver
import Proofs.ResolverStep
import Proofs.ResolverRun
import Proofs.ResolverSpec
/-!
Helper lemmas for C16, part 8: the state machine (`run`) computes the specification (`spec`).
`SpecOf` reads a state of the machine as "the specification resumed in the middle"; one iteration of the machine
either ends with the specification's result or moves to a state with the same reading.
-/
set_option linter.unusedSimpArgs false
namespace Model.Resolver
open Model

def worldOf (st : St) : World := { now := st.now, cache := st.cache, script := st.script, nx := st.nxNames }

/-- what is compared at the end: the clock, the cache, the unread script -/
def obsW (w : World) : Nat × Cache × List ScriptStep := (w.now, w.cache, w.script)
def obsS (st : St) : Nat × Cache × List ScriptStep := (st.now, st.cache, st.script)

def finishStop (env : Env) (rest : List Name) : Stop → Result × World
  | .result r w => (r, w)
  | .nextCandidate w => specCands env rest w

/-- the specification resumed inside a candidate: remaining servers of the round, servers alive, budget, back-off -/
def resume (env : Env) (q : Name) (rest : List Name) (F b : Nat) (round alive : List Server) (w : World) :
    Result × World :=
  finishStop env rest (specRounds env q F b round alive w)

def afterHandled (env : Env) (q : Name) (rest : List Name) (F b : Nat) (round : List Server) : Handled → Result × World
  | .stop e => finishStop env rest e
  | .goOn alive' w' => resume env q rest F b round alive' w'

/-- a state of the machine read as a point of the specification -/
def SpecOf (env : Env) (F : Nat) (st : St) : Result × World :=
  match st.phase with
  | .needRequest => specCands env st.qnames (worldOf st)
  | .querying =>
    if st.retryWithTcp then
      match st.nameserver with
      | some s =>
        afterHandled env st.qname st.qnames F st.backoff st.current
          (specTcpRetry env st.qname s st.nameservers (worldOf st))
      | none => (.noNameservers, worldOf st)
    else resume env st.qname st.qnames F st.backoff st.current st.nameservers (worldOf st)

theorem resume_cons (env : Env) (q : Name) (rest : List Name) (F b : Nat) (s : Server) (round alive : List Server)
    (w : World) :
    resume env q rest F b (s :: round) alive w = afterHandled env q rest F b round (specServer env q s alive w) := by
  unfold resume afterHandled
  rw [specRounds]
  simp only [specRound]
  cases specServer env q s alive w with
  | stop e => simp
  | goOn alive' w' =>
    simp only [resume]
    rw [specRounds]

theorem resume_nil_nil (env : Env) (q : Name) (rest : List Name) (F b : Nat) (w : World) :
    resume env q rest F b [] [] w = (.noNameservers, w) := by
  unfold resume
  rw [specRounds]
  simp [specRound, finishStop]

theorem resume_nil_cons (env : Env) (q : Name) (rest : List Name) (F b : Nat) (ns : Server) (al : List Server)
    (w : World) :
    resume env q rest (F + 1) b [] (ns :: al) w =
      afterHandled env q rest F (min (b * env.bo.factor) env.bo.cap) al
        (specServer env q ns (ns :: al) { w with now := w.now + sleepFor env b w.now }) := by
  unfold resume
  rw [specRounds]
  simp only [specRound, List.cons_ne_nil, if_false]
  exact resume_cons env q rest F _ ns al (ns :: al) _

/-! ## `next_request` against `specCands` -/

def NRSim (env : Env) (qs : List Name) (st : St) : NextReq → Prop
  | .raise r => (specCands env qs (worldOf st)).1 = r ∧ obsW (specCands env qs (worldOf st)).2 = obsS st
  | .hit a => (specCands env qs (worldOf st)).1 = .answer a ∧ obsW (specCands env qs (worldOf st)).2 = obsS st
  | .request st' =>
    specCands env qs (worldOf st) =
      resume env st'.qname st'.qnames (specBudget env) env.bo.init env.cfg.servers env.cfg.servers (worldOf st')

theorem nextRequest_sim (env : Env) : ∀ (qs : List Name) (st : St), NRSim env qs st (nextRequest env qs st)
  | [], st => by
    simp [nextRequest, NRSim, specCands, worldOf, obsW, obsS]
  | q :: rest, st => by
    unfold nextRequest
    simp only
    split
    · rename_i hcache
      split
      · rename_i a ha
        split
        · rename_i hna
          simp [NRSim, specCands, hcache, worldOf, ha, hna, obsW, obsS]
        · rename_i hna
          simp [NRSim, specCands, hcache, worldOf, ha, hna, obsW, obsS]
      · rename_i ha
        split
        · rename_i a' ha'
          split
          · rename_i hnx
            have ih := nextRequest_sim env rest
              { st with qnames := rest, qname := q, nxNames := recordNx st.nxNames q }
            generalize nextRequest env rest
              { st with qnames := rest, qname := q, nxNames := recordNx st.nxNames q } = res at ih
            cases res with
            | raise r =>
              simp only [NRSim, worldOf, obsS] at ih ⊢
              simp only [specCands, hcache, if_true, ha, ha', hnx]
              exact ih
            | hit a2 =>
              simp only [NRSim, worldOf, obsS] at ih ⊢
              simp only [specCands, hcache, if_true, ha, ha', hnx]
              exact ih
            | request st' =>
              simp only [NRSim, worldOf] at ih ⊢
              simp only [specCands, hcache, if_true, ha, ha', hnx]
              exact ih
          · rename_i hnx
            simp [NRSim, specCands, hcache, worldOf, ha, ha', hnx, resume, finishStop]
            cases specRounds env q (specBudget env) env.bo.init env.cfg.servers env.cfg.servers
              { now := st.now, cache := st.cache, script := st.script, nx := st.nxNames } <;> simp [finishStop]
        · rename_i ha'
          simp [NRSim, specCands, hcache, worldOf, ha, ha', resume, finishStop]
          cases specRounds env q (specBudget env) env.bo.init env.cfg.servers env.cfg.servers
            { now := st.now, cache := st.cache, script := st.script, nx := st.nxNames } <;> simp [finishStop]
    · rename_i hcache
      simp [NRSim, specCands, hcache, worldOf, resume, finishStop]
      cases specRounds env q (specBudget env) env.bo.init env.cfg.servers env.cfg.servers
        { now := st.now, cache := st.cache, script := st.script, nx := st.nxNames } <;> simp [finishStop]

/-! ## one pass of the inner loop against `specAsk` / `specVerdict` -/

def StepR.doneR : StepR → Option Result
  | .done _ r _ => some r
  | .cont _ _ => none

def StepR.contSt : StepR → Option St
  | .cont _ st => some st
  | .done _ _ _ => none

def StepR.endSt : StepR → St
  | .cont _ st => st
  | .done _ _ st => st

/-- what `afterPick` must do, given what the specification does with the same server at the same instant -/
def APSim (env : Env) (q : Name) (ns : Server) (tcp : Bool) (st1 : St) (w : World) (res : StepR) : Prop :=
  match specAsk env q ns tcp w with
  | none => res.doneR = some .lifetimeTimeout ∧ obsS res.endSt = obsW w
  | some (.truncatedUdp, w1) =>
    tcp = false ∧ w1.cache = st1.cache ∧ w1.nx = st1.nxNames ∧
    res.contSt = some { st1 with now := w1.now, script := w1.script, retryWithTcp := true }
  | some (v, w1) =>
    match specVerdict env q ns st1.nameservers v w1 with
    | .stop (.result r w') => res.doneR = some r ∧ obsS res.endSt = obsW w'
    | .stop (.nextCandidate w') =>
      res.contSt = some { st1 with phase := .needRequest, now := w'.now, script := w'.script, cache := w'.cache,
                                   nxNames := w'.nx }
    | .goOn alive' w' =>
      w'.cache = st1.cache ∧ w'.nx = st1.nxNames ∧
      res.contSt = some { st1 with now := w'.now, script := w'.script, nameservers := alive' }

theorem afterPick_sim (env : Env) (ns : Server) (tcp : Bool) (b : Nat) (st1 : St)
    (hretry : st1.retryWithTcp = false) (htcp : st1.tcpAttempt = tcp) (hphase : st1.phase = .querying) :
    APSim env st1.qname ns tcp st1 { worldOf st1 with now := st1.now + sleepFor env b st1.now }
      (afterPick env st1.qname ns tcp b st1) := by
  unfold APSim afterPick specAsk
  simp only [worldOf]
  cases hto : computeTimeout env (st1.now + sleepFor env b st1.now) with
  | none => simp [obsS, obsW, StepR.doneR, StepR.endSt]
  | some t =>
    simp only
    generalize doQuery st1.script t = dq
    obtain ⟨out, dur, script'⟩ := dq
    simp only
    cases out with
    | exc k =>
      cases k <;> cases tcp <;>
        simp_all [verdict, specVerdict, queryResult, removeNs, obsS, obsW, cachePutIf, StepR.doneR, StepR.endSt,
          StepR.contSt]
    | resp r =>
      by_cases h0 : r.rcode = rcNOERROR
      · cases hm : mkAnswer env.maxChain st1.qname env.rdtype env.rdclass env.rdclass env.rdtype r (some ns.id)
            (st1.now + sleepFor env b st1.now + dur) with
        | error e =>
          simp_all [verdict, specVerdict, queryResult, removeNs, obsS, obsW, cachePutIf, StepR.doneR, StepR.endSt,
            StepR.contSt]
        | ok a =>
          cases hc : env.cfg.cacheOn <;> cases hr : a.hasRRset <;> cases hn : env.raiseOnNoAnswer <;>
            simp_all [verdict, specVerdict, queryResult, removeNs, obsS, obsW, cachePutIf, StepR.doneR, StepR.endSt,
              StepR.contSt]
      · by_cases h3 : r.rcode = rcNXDOMAIN
        · cases hm : mkAnswer env.maxChain st1.qname tyANY clsIN env.rdclass env.rdtype r none
              (st1.now + sleepFor env b st1.now + dur) with
          | error e =>
            simp_all [verdict, specVerdict, queryResult, removeNs, obsS, obsW, cachePutIf, StepR.doneR, StepR.endSt,
              StepR.contSt]
          | ok a =>
            cases hc : env.cfg.cacheOn <;>
              simp_all [verdict, specVerdict, queryResult, removeNs, obsS, obsW, cachePutIf, StepR.doneR, StepR.endSt,
                StepR.contSt]
        · by_cases h6 : r.rcode = rcYXDOMAIN
          · simp_all [verdict, specVerdict, queryResult, removeNs, obsS, obsW, cachePutIf, StepR.doneR, StepR.endSt,
              StepR.contSt]
          · by_cases h2 : r.rcode = rcSERVFAIL <;> cases hrs : env.cfg.retryServfail <;>
              simp_all [verdict, specVerdict, queryResult, removeNs, obsS, obsW, cachePutIf, StepR.doneR, StepR.endSt,
                StepR.contSt]

/-- `specServer` with the transport as a parameter -/
def specServerT (env : Env) (q : Name) (s : Server) (tcp : Bool) (alive : List Server) (w : World) : Handled :=
  match specAsk env q s tcp w with
  | none => .stop (.result .lifetimeTimeout w)
  | some (.truncatedUdp, w') => specTcpRetry env q s alive w'
  | some (v, w') => specVerdict env q s alive v w'

theorem specServer_eq (env : Env) (q : Name) (s : Server) (alive : List Server) (w : World) :
    specServer env q s alive w = specServerT env q s (env.tcp || s.alwaysMax) alive w := rfl

theorem verdict_tcp_ne_trunc (env : Env) (q : Name) (s : Server) (now : Nat) (out : Outcome) :
    verdict env q s true now out ≠ .truncatedUdp := by
  cases out with
  | exc k => cases k <;> simp [verdict]
  | resp r =>
    simp only [verdict]
    repeat' split
    all_goals (intro h; cases h)

theorem specTcpRetry_eq (env : Env) (q : Name) (s : Server) (alive : List Server) (w : World) :
    specTcpRetry env q s alive w = specServerT env q s true alive w := by
  unfold specTcpRetry specServerT specAsk
  cases computeTimeout env w.now with
  | none => rfl
  | some t =>
    simp only
    have h := verdict_tcp_ne_trunc env q s (w.now + (doQuery w.script t).2.1) (doQuery w.script t).1
    generalize verdict env q s true (w.now + (doQuery w.script t).2.1) (doQuery w.script t).1 = v at h
    cases v <;> simp_all

def HSim (env : Env) (F : Nat) (st1 : St) (H : Handled) : StepR → Prop
  | .done _ r st' =>
    (afterHandled env st1.qname st1.qnames F st1.backoff st1.current H).1 = r ∧
    obsW (afterHandled env st1.qname st1.qnames F st1.backoff st1.current H).2 = obsS st'
  | .cont _ st' => afterHandled env st1.qname st1.qnames F st1.backoff st1.current H = SpecOf env F st'

theorem handled_sim (env : Env) (ns : Server) (tcp : Bool) (st1 : St) (w : World) (res : StepR) (F : Nat)
    (hap : APSim env st1.qname ns tcp st1 w res) (hretry : st1.retryWithTcp = false)
    (hphase : st1.phase = .querying) (hcur : st1.nameserver = some ns) :
    HSim env F st1 (specServerT env st1.qname ns tcp st1.nameservers w) res := by
  unfold APSim at hap
  unfold specServerT
  cases hask : specAsk env st1.qname ns tcp w with
  | none =>
    rw [hask] at hap
    simp only at hap ⊢
    cases res with
    | done evs r st' =>
      simp only [StepR.doneR, StepR.endSt, Option.some.injEq] at hap
      simp [HSim, afterHandled, finishStop, hap.1, hap.2]
    | cont evs st' => simp [StepR.doneR] at hap
  | some p =>
    obtain ⟨v, w1⟩ := p
    rw [hask] at hap
    cases v with
    | truncatedUdp =>
      simp only at hap ⊢
      obtain ⟨h1, h2, h3, h4⟩ := hap
      cases res with
      | done evs r st' => simp [StepR.contSt] at h4
      | cont evs st' =>
        simp only [StepR.contSt, Option.some.injEq] at h4
        subst h4
        have hw : w1 = { now := w1.now, cache := st1.cache, script := w1.script, nx := st1.nxNames } := by
          cases w1; simp_all
        simp only [HSim, SpecOf, hphase, hcur, worldOf, if_true]
        rw [← hw]
    | accept a =>
      simp only [specVerdict] at hap ⊢
      by_cases hna : (!a.hasRRset && env.raiseOnNoAnswer) = true
      · simp only [hna, if_true] at hap ⊢
        cases res with
        | done evs r st' =>
          simp only [StepR.doneR, StepR.endSt, Option.some.injEq] at hap
          simp [HSim, afterHandled, finishStop, hap.1, hap.2]
        | cont evs st' => simp [StepR.doneR] at hap
      · simp only [hna, if_false] at hap ⊢
        cases res with
        | done evs r st' =>
          simp only [StepR.doneR, StepR.endSt, Option.some.injEq] at hap
          simp [HSim, afterHandled, finishStop, hap.1, hap.2]
        | cont evs st' => simp [StepR.doneR] at hap
    | nxdomain a =>
      simp only [specVerdict] at hap ⊢
      cases res with
      | done evs r st' => simp [StepR.contSt] at hap
      | cont evs st' =>
        simp only [StepR.contSt, Option.some.injEq] at hap
        subst hap
        simp [HSim, afterHandled, finishStop, SpecOf, worldOf]
    | yxdomain =>
      simp only [specVerdict] at hap ⊢
      cases res with
      | done evs r st' =>
        simp only [StepR.doneR, StepR.endSt, Option.some.injEq] at hap
        simp [HSim, afterHandled, finishStop, hap.1, hap.2]
      | cont evs st' => simp [StepR.doneR] at hap
    | broken =>
      simp only [specVerdict] at hap ⊢
      obtain ⟨h2, h3, h4⟩ := hap
      cases res with
      | done evs r st' => simp [StepR.contSt] at h4
      | cont evs st' =>
        simp only [StepR.contSt, Option.some.injEq] at h4
        subst h4
        have hw : w1 = { now := w1.now, cache := st1.cache, script := w1.script, nx := st1.nxNames } := by
          cases w1; simp_all
        simp only [HSim, afterHandled, SpecOf, hphase, hretry, worldOf, Bool.false_eq_true, if_false]
        rw [← hw]
    | soft =>
      simp only [specVerdict] at hap ⊢
      obtain ⟨h2, h3, h4⟩ := hap
      cases res with
      | done evs r st' => simp [StepR.contSt] at h4
      | cont evs st' =>
        simp only [StepR.contSt, Option.some.injEq] at h4
        subst h4
        have hw : w1 = { now := w1.now, cache := st1.cache, script := w1.script, nx := st1.nxNames } := by
          cases w1; simp_all
        simp only [HSim, afterHandled, SpecOf, hphase, hretry, worldOf, Bool.false_eq_true, if_false]
        rw [← hw]

/-! ## one iteration of the machine against the specification -/

theorem sleepFor_zero (env : Env) (now : Nat) : sleepFor env 0 now = 0 := by
  unfold sleepFor
  split <;> simp

/-- re-armings the remaining lifetime still allows -/
def need (env : Env) (st : St) : Nat := roundsLeft env.bo env.lifetime (st.now - env.start)

def StepSim (env : Env) (F : Nat) (st : St) : StepR → Prop
  | .done _ r st' => (SpecOf env F st).1 = r ∧ obsW (SpecOf env F st).2 = obsS st'
  | .cont _ st' => ∃ F', SpecOf env F st = SpecOf env F' st' ∧ (st'.phase = .querying → need env st' + 1 ≤ F')

theorem HSim_to_StepSim {env : Env} {F F' : Nat} {st st1 : St} {H : Handled} {res : StepR}
    (heq : SpecOf env F st = afterHandled env st1.qname st1.qnames F' st1.backoff st1.current H)
    (hs : HSim env F' st1 H res)
    (hneed : ∀ evs st', res = .cont evs st' → st'.phase = .querying → need env st' + 1 ≤ F') :
    StepSim env F st res := by
  cases res with
  | done evs r st' =>
    simp only [HSim] at hs
    simp only [StepSim, heq]
    exact hs
  | cont evs st' =>
    simp only [HSim] at hs
    exact ⟨F', by rw [heq, hs], hneed evs st' rfl⟩

theorem step_sim (env : Env) (hpos : 0 < env.bo.init) (st : St) (F : Nat) (hinv : InvT env st)
    (hF : st.phase = .querying → need env st + 1 ≤ F) : StepSim env F st (step env st) := by
  obtain ⟨hstart, hq⟩ := hinv
  unfold step
  split
  · rename_i hphase
    have hs := nextRequest_sim env st.qnames st
    have hs2 := nextRequest_spec env st.qnames st
    split
    · rename_i r hr
      rw [hr] at hs
      simpa [StepSim, SpecOf, hphase, NRSim] using hs
    · rename_i a hr
      rw [hr] at hs
      simpa [StepSim, SpecOf, hphase, NRSim] using hs
    · rename_i st2 hr
      rw [hr] at hs hs2
      obtain ⟨_, _, p1, p2, p3, p4, p5, p6, _, _, _, _⟩ := hs2
      refine ⟨specBudget env, ?_, ?_⟩
      · simp only [NRSim] at hs
        simp only [SpecOf, hphase, p1, p4, Bool.false_eq_true, if_false, p2, p3, p5]
        exact hs
      · intro _
        unfold need specBudget
        have := roundsLeft_mono env.bo env.lifetime 0 (st2.now - env.start) (by omega)
        omega
  · rename_i hphase
    obtain ⟨hn, hb⟩ := hq hphase
    have hF' := hF hphase
    split
    · rename_i r hr
      obtain ⟨h1, h2⟩ := nextNameserver_raise hr
      subst h1
      rcases h2 with ⟨c1, c2, c3⟩ | ⟨c1, c2⟩
      · simp [StepSim, SpecOf, hphase, c1, c2, c3, resume_nil_nil, obsW, obsS, worldOf]
      · simp [StepSim, SpecOf, hphase, c1, c2, obsW, obsS, worldOf]
    · rename_i ns tcp b st1 hns
      obtain ⟨⟨g1, g2, g3, g4, g5, g6, g7, g8⟩, r1, r2, r3, hcase⟩ := nextNameserver_ok hns
      rw [← g3]
      have hap := afterPick_sim env ns tcp b st1 r1 r2 (by rw [g1]; exact hphase)
      have hw1 : worldOf st1 = worldOf st := by simp [worldOf, g4, g6, g7, g8]
      rcases hcase with c | c | c
      · -- the TCP retry
        obtain ⟨c1, c2, c3, c4, c5, c6⟩ := c
        subst c3 c4
        rw [sleepFor_zero] at hap
        have hs := handled_sim env ns true st1 _ _ F hap r1 (by rw [g1]; exact hphase) r3
        apply HSim_to_StepSim (F' := F) (st1 := st1) _ hs
        · intro evs st' hres _
          obtain ⟨_, a2, _⟩ := afterPick_cont hres
          rw [sleepFor_zero] at a2
          have := roundsLeft_mono env.bo env.lifetime (st.now - env.start) (st'.now - env.start) (by omega)
          unfold need at hF' ⊢
          omega
        · simp only [SpecOf, hphase, c1, c2, if_true, specTcpRetry_eq, g2, g3, c5, c6, g5]
          simp [worldOf, g4, g6, g7, g8]
      · -- the next server of this round
        obtain ⟨c1, c2, c3, c4, c5⟩ := c
        subst c3
        rw [sleepFor_zero] at hap
        have hs := handled_sim env ns tcp st1 _ _ F hap r1 (by rw [g1]; exact hphase) r3
        apply HSim_to_StepSim (F' := F) (st1 := st1) _ hs
        · intro evs st' hres _
          obtain ⟨_, a2, _⟩ := afterPick_cont hres
          rw [sleepFor_zero] at a2
          have := roundsLeft_mono env.bo env.lifetime (st.now - env.start) (st'.now - env.start) (by omega)
          unfold need at hF' ⊢
          omega
        · simp only [SpecOf, hphase, c1, Bool.false_eq_true, if_false, c2, resume_cons, specServer_eq, ← c5, g2, g3,
            c4, g5]
          simp [worldOf, g4, g6, g7, g8]
      · -- re-arming
        obtain ⟨c1, c2, c3, c4, c5, c6⟩ := c
        obtain ⟨F0, rfl⟩ : ∃ F0, F = F0 + 1 := ⟨F - 1, by omega⟩
        have hs := handled_sim env ns tcp st1 _ _ F0 hap r1 (by rw [g1]; exact hphase) r3
        apply HSim_to_StepSim (F' := F0) (st1 := st1) _ hs
        · intro evs st' hres _
          obtain ⟨a1, a2, _⟩ := afterPick_cont hres
          have hsl := sleepFor_ge (env := env) (b := b) (now := st1.now) (by rw [c4]; exact hb) a1 (by omega)
          have hdec := roundsLeft_dec env.bo env.lifetime (st.now - env.start)
            (st1.now + sleepFor env b st1.now - env.start) hpos (by omega) a1
          have hmono2 := roundsLeft_mono env.bo env.lifetime (st1.now + sleepFor env b st1.now - env.start)
            (st'.now - env.start) (by omega)
          unfold need at hF' ⊢
          omega
        · simp only [SpecOf, hphase, c1, Bool.false_eq_true, if_false, c2, c3, resume_nil_cons, specServer_eq, ← c6,
            g2, g3, c5, g5, c4]
          simp [worldOf, g4, g6, g7, g8]

/-- whenever the machine ends by itself, it ends with the specification's result, clock, cache and unread script -/
theorem run_sim (env : Env) (hpos : 0 < env.bo.init) (hcap : env.bo.init ≤ env.bo.cap) (hfac : 1 ≤ env.bo.factor) :
    ∀ (n : Nat) (st : St) (F : Nat), InvT env st → (st.phase = .querying → need env st + 1 ≤ F) →
      (run env n st).2.1 = .outOfFuel ∨
      ((SpecOf env F st).1 = (run env n st).2.1 ∧ obsW (SpecOf env F st).2 = obsS (run env n st).2.2)
  | 0, st, F, _, _ => by simp [run]
  | n + 1, st, F, hinv, hF => by
    have hs := step_sim env hpos st F hinv hF
    unfold run
    split
    · rename_i evs r st' hstep
      rw [hstep] at hs
      exact Or.inr hs
    · rename_i evs st' hstep
      rw [hstep] at hs
      obtain ⟨F', h1, h2⟩ := hs
      have hinv' := (step_cont_phi env hpos hcap hfac st evs st' hinv hstep).1
      have ih := run_sim env hpos hcap hfac n st' F' hinv' h2
      simpa [h1] using ih

import Model.Net
/-! The flag tests of `Model.Net` (`&&&`, `>>>` with the constants regenerated from the code) as plain
arithmetic on the flags word, and on the two header octets it is read from. -/
namespace Model.Net

theorem land_two_pow_ne_zero (f k : Nat) : (f &&& 2 ^ k != 0) = decide (f / 2 ^ k % 2 = 1) := by
  have h1 : (f &&& 2 ^ k) / 2 ^ k = f / 2 ^ k % 2 := by
    rw [Nat.and_div_two_pow, Nat.div_self (Nat.two_pow_pos k), Nat.and_one_is_mod]
  have h2 : (f &&& 2 ^ k) % 2 ^ k = 0 := by
    rw [Nat.and_mod_two_pow, Nat.mod_self, Nat.and_zero]
  have h3 := Nat.div_add_mod (f &&& 2 ^ k) (2 ^ k)
  rw [h1, h2] at h3
  have hp := Nat.two_pow_pos k
  rcases Nat.mod_two_eq_zero_or_one (f / 2 ^ k) with h | h
  · rw [h] at h3 ⊢; simp at h3; simp [← h3]
  · rw [h] at h3 ⊢; simp at h3; simp [← h3]

theorem qr_iff (f : Nat) : qr f = true ↔ f / 32768 % 2 = 1 := by
  have : ConstsC18.QR = 2 ^ 15 := by decide
  unfold qr; rw [this, land_two_pow_ne_zero]; simp

theorem tc_iff (f : Nat) : tc f = true ↔ f / 512 % 2 = 1 := by
  have : ConstsC18.TC = 2 ^ 9 := by decide
  unfold tc; rw [this, land_two_pow_ne_zero]; simp

theorem opcodeOf_eq (f : Nat) : opcodeOf f = f / 2048 % 16 := by
  have h1 : ConstsC18.opcodeMask = 30720 := by decide
  have h2 : ConstsC18.opcodeShift = 11 := by decide
  unfold opcodeOf
  rw [h1, h2, Nat.shiftRight_and_distrib]
  have : (30720 : Nat) >>> 11 = 2 ^ 4 - 1 := by decide
  rw [this, Nat.and_two_pow_sub_one_eq_mod, Nat.shiftRight_eq_div_pow]

theorem beVal_two (a b : Nat) : beVal [a, b] = a * 256 + b := by simp [beVal]

/-- The header fields are the first four octets, big-endian; fewer than 12 octets is no header. -/
theorem header_some (b : Bytes) (i f : Nat) (h : header b = some (i, f)) :
    12 ≤ b.length ∧ ∃ o0 o1 o2 o3 rest, b = o0 :: o1 :: o2 :: o3 :: rest ∧ i = o0 * 256 + o1 ∧ f = o2 * 256 + o3 := by
  unfold header at h
  split at h
  · simp at h
  · rename_i hl
    refine ⟨by omega, ?_⟩
    match b, hl with
    | o0 :: o1 :: o2 :: o3 :: rest, _ =>
      simp [beVal] at h
      exact ⟨o0, o1, o2, o3, rest, rfl, h.1.symm, h.2.symm⟩
    | [], hl => simp at hl
    | [_], hl => simp at hl
    | [_, _], hl => simp at hl
    | [_, _, _], hl => simp at hl

theorem header_none (b : Bytes) : header b = none ↔ b.length < 12 := by
  unfold header; split <;> simp_all

/-- flag tests on the two flag octets (as octets: `< 256`) -/
theorem flags_octets (o2 o3 : Nat) (h2 : o2 < 256) (h3 : o3 < 256) :
    (qr (o2 * 256 + o3) = true ↔ 128 ≤ o2) ∧ (tc (o2 * 256 + o3) = true ↔ o2 / 2 % 2 = 1) ∧
    opcodeOf (o2 * 256 + o3) = o2 / 8 % 16 := by
  rw [qr_iff, tc_iff, opcodeOf_eq]
  refine ⟨by omega, by omega, by omega⟩

end Model.Net

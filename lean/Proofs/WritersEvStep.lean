import Proofs.WritersEv
/-! Preservation of the event invariants `InvEv` by every transition (one lemma per field, cheap cases first). -/
namespace Model.Writers

macro "thread_facts " hL:ident h:ident u:term : tactic =>
  `(tactic| (have := ($hL).lock $u; have := ($hL).own $u; have := ($hL).mkTxn $u;
             have := ($h).evLt $u; have := ($h).app $u; have := ($h).relB $u; have := ($h).wait $u;
             have := ($h).acq $u; have := ($h).mkEv $u; have := ($h).newEv $u; have := ($h).failed $u;
             have := ($h).setE $u; have := ($h).pop $u; have := ($h).testW $u))

macro "event_facts " h:ident e:term : tactic =>
  `(tactic| (have := ($h).wq $e; have := ($h).tok $e; have := ($h).setLt $e))

/-- preservation of a per-thread field: cheap cases first -/
macro "pres_thread " s:ident hL:ident h:ident t:ident u:ident old:term : tactic =>
  `(tactic| (by_cases hu : $u = $t <;>
    first
    | (subst hu; simp; done)
    | (simp only [setLoc_loc, if_neg hu, setLoc_waiters, setLoc_writeEvent, setLoc_evSet, setLoc_writeTxn, setLoc_lock,
        setLoc_nextEv, setLoc_owner]; exact $old)
    | (thread_facts $hL $h $t; thread_facts $hL $h $u; event_facts $h (State.nextEv $s); (simp_all <;> grind))
    | (thread_facts $hL $h $t; thread_facts $hL $h $u; event_facts $h (State.nextEv $s);
       have htok := ($h).tok; have hwq := ($h).wq; have hset := ($h).setLt; have hown := ($hL).own; have hlock := ($hL).lock;
       have hevLt := ($h).evLt;
       (simp_all <;> grind))
    | (thread_facts $hL $h $t; thread_facts $hL $h $u; event_facts $h (State.nextEv $s);
       have htok := ($h).tok; have hwq := ($h).wq; have hset := ($h).setLt; have hown := ($hL).own; have hlock := ($hL).lock;
       have hevLt := ($h).evLt;
       (cases hE : State.writeEvent $s <;> cases hT : (State.loc $s $t).ev <;> simp_all <;> grind))))

variable {c : Cfg} {s s' : State} {t : Tid}

set_option maxHeartbeats 1000000 in
theorem relB_step (hL : InvLock s) (h : InvEv s) (htr : Trans c s t s') :
    ∀ u, (s'.loc u).pc = .wRelB → (s'.loc u).ev ≠ none ∧ ∀ e, (s'.loc u).ev = some e → e ∈ s'.waiters := by
  cases htr <;> intro u <;> pres_thread s hL h t u (h.relB u)

set_option maxHeartbeats 1000000 in
theorem wait_step (hL : InvLock s) (h : InvEv s) (htr : Trans c s t s') :
    ∀ u, (s'.loc u).pc = .wWait → (s'.loc u).ev ≠ none ∧
        ∀ e, (s'.loc u).ev = some e → e ∈ s'.waiters ∨ s'.writeEvent = some e := by
  cases htr <;> intro u <;> pres_thread s hL h t u (h.wait u)

set_option maxHeartbeats 1000000 in
theorem acq_step (hL : InvLock s) (h : InvEv s) (htr : Trans c s t s') :
    ∀ u, (s'.loc u).pc = .wAcq ∨ (s'.loc u).pc = .wTest → ∀ e, (s'.loc u).ev = some e → s'.writeEvent = some e ∧ e ∈ s'.evSet := by
  cases htr <;> intro u <;> pres_thread s hL h t u (h.acq u)

set_option maxHeartbeats 1000000 in
theorem mkEv_step (hL : InvLock s) (h : InvEv s) (htr : Trans c s t s') :
    ∀ u, (s'.loc u).pc = .wMkTxn → s'.writeEvent = (s'.loc u).ev := by
  cases htr <;> intro u <;> pres_thread s hL h t u (h.mkEv u)

set_option maxHeartbeats 1000000 in
theorem newEv_step (hL : InvLock s) (h : InvEv s) (htr : Trans c s t s') :
    ∀ u, (s'.loc u).pc = .wNewEv → (s'.loc u).ev = none := by
  cases htr <;> intro u <;> pres_thread s hL h t u (h.newEv u)

set_option maxHeartbeats 1000000 in
theorem failed_step (hL : InvLock s) (h : InvEv s) (htr : Trans c s t s') :
    ∀ u, (s'.loc u).pc = .wNewEv ∨ (s'.loc u).pc = .wAppend → s'.writeTxn ≠ none ∨ s'.writeEvent ≠ none := by
  cases htr <;> intro u <;> pres_thread s hL h t u (h.failed u)

set_option maxHeartbeats 1000000 in
theorem setE_step (hL : InvLock s) (h : InvEv s) (htr : Trans c s t s') :
    ∀ u, (s'.loc u).pc = .eSet → s'.writeTxn = none ∧ ∃ e, s'.writeEvent = some e ∧ e ∉ s'.evSet := by
  cases htr <;> intro u <;> pres_thread s hL h t u (h.setE u)

set_option maxHeartbeats 1000000 in
theorem pop_step (hL : InvLock s) (h : InvEv s) (htr : Trans c s t s') :
    ∀ u, (s'.loc u).pc = .ePop → s'.waiters ≠ [] ∧ s'.writeTxn = none ∧ s'.writeEvent = none := by
  cases htr <;> intro u <;> pres_thread s hL h t u (h.pop u)

set_option maxHeartbeats 1000000 in
theorem testW_step (hL : InvLock s) (h : InvEv s) (htr : Trans c s t s') :
    ∀ u, (s'.loc u).pc = .eTestW → s'.writeTxn = none ∧ s'.writeEvent = none := by
  cases htr <;> intro u <;> pres_thread s hL h t u (h.testW u)


set_option maxHeartbeats 1000000 in
theorem evLt_step (hL : InvLock s) (h : InvEv s) (htr : Trans c s t s') :
    ∀ u e, (s'.loc u).ev = some e → e < s'.nextEv ∧ s'.owner e = u := by
  cases htr <;> intro u <;> pres_thread s hL h t u (h.evLt u)

set_option maxHeartbeats 1000000 in
theorem app_step (hL : InvLock s) (h : InvEv s) (htr : Trans c s t s') :
    ∀ u, (s'.loc u).pc = .wAppend → (s'.loc u).ev ≠ none ∧
        ∀ e, (s'.loc u).ev = some e → e ∉ s'.waiters ∧ s'.writeEvent ≠ some e ∧ e ∉ s'.evSet := by
  cases htr <;> intro u <;> pres_thread s hL h t u (h.app u)

macro "heavy " s:ident hL:ident h:ident t:ident : tactic =>
  `(tactic| (
    thread_facts $hL $h $t; event_facts $h (State.nextEv $s);
    have htok := ($h).tok; have hwq := ($h).wq; have hset := ($h).setLt; have hown := ($hL).own; have hlock := ($hL).lock;
    have hevLt := ($h).evLt; have hrelB := ($h).relB; have hwait := ($h).wait; have hacq := ($h).acq; have happ := ($h).app;
    (cases hE : State.writeEvent $s <;> cases hT : (State.loc $s $t).ev <;> simp_all <;> grind)))

set_option maxHeartbeats 1000000 in
theorem wq_step (hL : InvLock s) (h : InvEv s) (htr : Trans c s t s') :
    ∀ e, e ∈ s'.waiters → e < s'.nextEv ∧ (s'.loc (s'.owner e)).ev = some e ∧ queuedPc (s'.loc (s'.owner e)).pc = true ∧
        e ∉ s'.evSet ∧ s'.writeEvent ≠ some e := by
  cases htr
  case ePop e0 rest hpc hw =>
    intro e he
    simp only [setLoc_loc, setLoc_waiters, setLoc_nextEv, setLoc_owner, setLoc_evSet, setLoc_writeEvent] at he ⊢
    have hnd := h.wqNodup
    rw [hw, List.nodup_cons] at hnd
    have := h.wq e (by rw [hw]; exact List.mem_cons_of_mem _ he)
    have := h.evLt t
    grind
  all_goals
    intro e he
    simp only [setLoc_loc, setLoc_waiters, setLoc_nextEv, setLoc_owner, setLoc_evSet, setLoc_writeEvent] at he ⊢
    first
    | (have := h.wq e he; have := h.evLt t; grind)
    | (have := h.evLt t; heavy s hL h t)

set_option maxHeartbeats 1000000 in
theorem tok_step (hL : InvLock s) (h : InvEv s) (htr : Trans c s t s') :
    ∀ e, s'.writeEvent = some e → e < s'.nextEv ∧ (s'.loc (s'.owner e)).ev = some e ∧ tokenPc (s'.loc (s'.owner e)).pc = true ∧
        e ∉ s'.waiters ∧
        (e ∈ s'.evSet ∨ ((s'.loc (s'.owner e)).pc = .wWait ∧ s'.lockAt .eSet)) ∧
        (s'.writeTxn = none ∨ (s'.loc (s'.owner e)).pc = .wClrEv) := by
  cases htr
  case ePop e0 rest hpc hw =>
    intro e he
    simp only [setLoc_loc, setLoc_waiters, setLoc_nextEv, setLoc_owner, setLoc_evSet, setLoc_writeEvent, setLoc_writeTxn,
      setLoc_lock, State.lockAt] at he ⊢
    have hnd := h.wqNodup
    rw [hw, List.nodup_cons] at hnd
    have := h.wq e0 (by rw [hw]; exact List.mem_cons_self)
    have := hL.lock (s.owner e0)
    have := hL.lock t
    have := h.pop t hpc
    have := h.evLt t
    have := queuedPc_iff (s.loc (s.owner e0)).pc
    injection he with he; subst he
    grind
  all_goals
    intro e he
    simp only [setLoc_loc, setLoc_waiters, setLoc_nextEv, setLoc_owner, setLoc_evSet, setLoc_writeEvent, setLoc_writeTxn,
      setLoc_lock, State.lockAt] at he ⊢
    first
    | (have htk := h.tok e he; have := h.evLt t; have := hL.lock t; have := hL.own t; simp only [State.lockAt] at htk; grind)
    | (have := h.evLt t; (try simp only [State.lockAt] at *); heavy s hL h t)

theorem wqNodup_step (_hL : InvLock s) (h : InvEv s) (htr : Trans c s t s') : s'.waiters.Nodup := by
  have hnd := h.wqNodup
  cases htr <;> simp only [setLoc_waiters] <;> try exact hnd
  case wAppend e hpc hev =>
    have := (h.app t hpc).2 e hev
    exact List.nodup_append.mpr ⟨hnd, by simp, by simp; intro a ha hae; exact this.1 (hae ▸ ha)⟩
  case ePop e rest hpc hw =>
    rw [hw, List.nodup_cons] at hnd; exact hnd.2

theorem setLt_step (_hL : InvLock s) (h : InvEv s) (htr : Trans c s t s') : ∀ e, e ∈ s'.evSet → e < s'.nextEv := by
  have h0 := h.setLt
  cases htr <;> simp only [setLoc_evSet, setLoc_nextEv] <;> try exact h0
  case wNewEv hpc => intro e he; exact Nat.lt_succ_of_lt (h0 e he)
  case eSet e hpc hw =>
    intro e' he'
    rcases List.mem_cons.mp he' with rfl | h1
    · exact (h.tok _ hw).1
    · exact h0 _ h1

set_option maxHeartbeats 1000000 in
theorem orphan_step (hL : InvLock s) (h : InvEv s) (htr : Trans c s t s') :
    s'.waiters ≠ [] → s'.writeTxn ≠ none ∨ s'.writeEvent ≠ none ∨ s'.lockAt .eTestW ∨ s'.lockAt .ePop := by
  have h0 := h.orphan
  have := hL.lock t
  have := hL.own t
  have := h.failed t
  have := h.pop t
  have := h.testW t
  cases htr <;> simp only [setLoc_waiters, setLoc_writeTxn, setLoc_writeEvent, setLoc_lock, setLoc_loc, State.lockAt] at * <;>
    grind


theorem invEv_trans (hL : InvLock s) (h : InvEv s) (htr : Trans c s t s') : InvEv s' where
  evLt := evLt_step hL h htr
  wq := wq_step hL h htr
  wqNodup := wqNodup_step hL h htr
  setLt := setLt_step hL h htr
  tok := tok_step hL h htr
  app := app_step hL h htr
  relB := relB_step hL h htr
  wait := wait_step hL h htr
  acq := acq_step hL h htr
  mkEv := mkEv_step hL h htr
  newEv := newEv_step hL h htr
  failed := failed_step hL h htr
  setE := setE_step hL h htr
  pop := pop_step hL h htr
  testW := testW_step hL h htr
  orphan := orphan_step hL h htr

end Model.Writers

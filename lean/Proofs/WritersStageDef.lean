import Proofs.WritersThms
/-! The *stage thread*: the thread whose progress the next admission is waiting for (owner of the open write transaction,
then the same thread while it wakes the head of the queue, then the holder of the wake-up token, or the newcomer that is
being admitted directly). -/
set_option linter.unusedSimpArgs false
set_option linter.unusedVariables false
namespace Model.Writers
variable {c : Cfg} {n k : Nat} {s s' : State} {t : Tid}

/-- the thread whose progress the next admission is waiting for -/
def stageThread (s : State) : Tid :=
  match s.writeTxn with
  | some u => u
  | none =>
    match s.lock with
    | some v => if endPc (s.loc v).pc then v else (match s.writeEvent with | some e => s.owner e | none => v)
    | none => match s.writeEvent with | some e => s.owner e | none => 0

theorem pending_cases (hi : Inv c n s) (hp : pending s ≠ []) :
    s.writeTxn ≠ none ∨ s.writeEvent ≠ none ∨ (∃ v, s.lock = some v ∧ (endPc (s.loc v).pc = true ∨ firstCS (s.loc v) = true)) := by
  rcases hwt : s.writeTxn with _ | u
  · rcases hwe : s.writeEvent with _ | e
    · right; right
      rcases hl : s.lock with _ | v
      · exfalso
        have hw := Classical.byContradiction (fun hne : ¬ s.waiters = [] => by
          rcases hi.ev.orphan hne with h1 | h1 | h1 | h1
          · exact h1 hwt
          · exact h1 hwe
          · exact h1.1 hl
          · exact h1.1 hl)
        apply hp; simp [pending, tokPart, inCS, hwe, hl, hw]
      · refine ⟨v, rfl, ?_⟩
        by_cases hw : s.waiters = []
        · right
          apply Classical.byContradiction; intro hf
          apply hp; simp [pending, tokPart, inCS, hwe, hl, hw, hf]
        · left
          rcases hi.ev.orphan hw with h1 | h1 | h1 | h1
          · exact absurd hwt h1
          · exact absurd hwe h1
          · rw [h1.2 v hl]; rfl
          · rw [h1.2 v hl]; rfl
    · right; left; simp
  · left; simp

macro "stage_facts " hi:ident s:ident t:ident : tactic =>
  `(tactic| (
    have hlk := ($hi).lk.lock; have hown := ($hi).lk.own; have hmk := ($hi).lk.mkTxn $t
    have hmkEv := ($hi).ev.mkEv $t; have hpop := ($hi).ev.pop $t; have htw := ($hi).ev.testW $t
    have hse := ($hi).ev.setE $t; have hfl := ($hi).ev.failed $t; have hacq := ($hi).ev.acq $t
    have htok := ($hi).ev.tok; have hevLt := ($hi).ev.evLt $t; have hwait := ($hi).ev.wait $t))

end Model.Writers

import Model.RdataSchema
import Proofs.NameText
import Proofs.RdataBytes
/-! wire-name lemmas for the RDATA schema codec (C02): an uncompressed name is decoded back by `fromWireAux`
wherever it stands, with the parser limit at the end of the buffer. -/
namespace Model

theorem labelMin_gt_maxLabel : Consts.maxLabel < Consts.ptrLabelMin := by decide

theorem toWire_cons (l : Label) (ls : Name) : toWire (l :: ls) = l.length :: l ++ toWire ls := by
  simp [toWire]

theorem toWire_append' (a b : Name) : toWire (a ++ b) = toWire a ++ toWire b := by
  simp [toWire]

theorem toWire_length (n : Name) : (toWire n).length = wireLen n := by
  induction n with
  | nil => simp [toWire, wireLen]
  | cons l ls ih =>
    rw [toWire_cons]
    simp [wireLen] at *
    rw [ih]; omega

/-- decoding an uncompressed name: labels non-empty and at most 63 octets, then the root label -/
theorem fromWireAux_plain (ls : List Label)
    (hp : ∀ l ∈ ls, 0 < l.length ∧ l.length ≤ Consts.maxLabel)
    (pre tl : Bytes) (bp f : Nat) (acc : List Label) :
    fromWireAux (pre ++ toWire (ls ++ [[]]) ++ tl) (pre ++ toWire (ls ++ [[]]) ++ tl).length pre.length bp f acc
      = .ok (acc ++ ls ++ [[]], max f (pre.length + (toWire (ls ++ [[]])).length)) := by
  induction ls generalizing pre f acc with
  | nil =>
    rw [fromWireAux]
    simp [toWire]
  | cons l ls ih =>
    have hl := hp l (by simp)
    have hls : ∀ l' ∈ ls, 0 < l'.length ∧ l'.length ≤ Consts.maxLabel := fun l' h' => hp l' (by simp [h'])
    have hlt := labelMin_gt_maxLabel
    rw [fromWireAux]
    have hw : pre ++ toWire (l :: ls ++ [[]]) ++ tl = (pre ++ l.length :: l) ++ toWire (ls ++ [[]]) ++ tl := by
      simp [toWire]
    have hcur : (pre ++ toWire (l :: ls ++ [[]]) ++ tl)[pre.length]? = some l.length := by
      simp [toWire]
    have hlen : pre.length < (pre ++ toWire (l :: ls ++ [[]]) ++ tl).length := by simp [toWire]
    have hget : (pre ++ toWire (l :: ls ++ [[]]) ++ tl)[pre.length]'hlen = l.length := by
      rw [List.getElem?_eq_getElem hlen] at hcur; simpa using hcur
    have htot : (pre ++ toWire (l :: ls ++ [[]]) ++ tl).length
        = pre.length + 1 + l.length + (toWire (ls ++ [[]])).length + tl.length := by
      simp [toWire]; omega
    have htake : List.take l.length (List.drop (pre.length + 1) (pre ++ toWire (l :: ls ++ [[]]) ++ tl)) = l := by
      rw [hw]
      have : pre ++ l.length :: l ++ toWire (ls ++ [[]]) ++ tl = (pre ++ [l.length]) ++ (l ++ (toWire (ls ++ [[]]) ++ tl)) := by simp
      rw [this, List.drop_left' (by simp)]
      simp
    rw [dif_pos ⟨hlen, Nat.le_refl _⟩]
    simp only [hget, htake]
    rw [if_neg (by omega), if_pos (by omega), if_neg (by omega)]
    have := ih hls (pre ++ l.length :: l) (max (max f (pre.length + 1)) (pre.length + 1 + l.length)) (acc ++ [l])
    rw [← hw] at this
    have hpl : (pre ++ l.length :: l).length = pre.length + 1 + l.length := by simp; omega
    rw [hpl] at this
    rw [this]
    have h2 : (toWire (l :: ls ++ [[]])).length = 1 + l.length + (toWire (ls ++ [[]])).length := by
      simp [toWire]; omega
    rw [h2]
    refine congrArg Except.ok (Prod.ext ?_ ?_)
    · simp
    · simp only; omega

theorem wfNameB_iff (n : Name) : wfNameB n = true ↔ WfName n := by
  unfold wfNameB
  constructor
  · intro h
    split at h
    · rename_i m hm; exact (wf_of_validate n m hm).2
    · simp at h
  · intro h; rw [validate_of_wf n h]

theorem isAbs_iff (n : Name) : isAbs n = true ↔ n.getLast? = some [] := by
  unfold isAbs
  split
  · rename_i h; simp [h]
  · rename_i h; simp; intro h'; exact h h'

theorem abs_split' (n : Name) (hw : WfName n) (ha : isAbs n = true) :
    ∃ ls, n = ls ++ [[]] ∧ ∀ l ∈ ls, 0 < l.length ∧ l.length ≤ Consts.maxLabel := by
  have hl := (isAbs_iff n).1 ha
  have hne : n ≠ [] := by intro h; simp [h] at hl
  refine ⟨n.dropLast, ?_, ?_⟩
  · have h1 := List.dropLast_concat_getLast hne
    have h2 : n.getLast hne = [] := by
      rw [List.getLast?_eq_some_getLast hne] at hl; simpa using hl
    rw [h2] at h1; exact h1.symm
  · intro l hlm
    refine ⟨?_, hw.1 l (List.dropLast_subset n hlm)⟩
    have := hw.2.2 l hlm
    exact List.length_pos_iff.mpr this

theorem fromWire_abs (n : Name) (hw : WfName n) (ha : isAbs n = true) (pfx tl : Bytes) :
    fromWireAux (pfx ++ (toWire n ++ tl)) (pfx.length + (toWire n ++ tl).length) pfx.length pfx.length pfx.length []
      = .ok (n, pfx.length + (toWire n).length) := by
  obtain ⟨ls, rfl, hp⟩ := abs_split' n hw ha
  have := fromWireAux_plain ls hp pfx tl pfx.length pfx.length []
  have e1 : pfx ++ (toWire (ls ++ [[]]) ++ tl) = pfx ++ toWire (ls ++ [[]]) ++ tl := by simp
  have e2 : pfx.length + (toWire (ls ++ [[]]) ++ tl).length = (pfx ++ toWire (ls ++ [[]]) ++ tl).length := by
    simp only [List.length_append]; omega
  rw [e1, e2, this]
  simp


/-! ## relativize after derelativize -/

theorem cmpBytes_self (b : Bytes) : cmpBytes b b = 0 := by
  induction b with
  | nil => simp [cmpBytes]
  | cons x xs ih => simp [cmpBytes, ih]

theorem fcLoop_self (ls : List Label) (k : Nat) : fcLoop ls ls k = none := by
  induction ls generalizing k with
  | nil => simp [fcLoop]
  | cons l ls ih => simp [fcLoop, cmpLabel, cmpBytes_self, ih]

theorem isAbs_append (n org : Name) (ho : isAbs org = true) : isAbs (n ++ org) = true := by
  rw [isAbs_iff] at *
  have hne : org ≠ [] := by intro h; simp [h] at ho
  rw [List.getLast?_append, ho]; rfl

theorem isSubdomain_append (n org : Name) (ho : isAbs org = true) : isSubdomain (n ++ org) org = true := by
  have ha := isAbs_append n org ho
  unfold isSubdomain fullcompare
  simp only [ha, ho, bne_self_eq_false, Bool.false_eq_true, if_false]
  have hmin : min (n ++ org).length org.length = org.length := by simp
  have h1 : List.take org.length (n ++ org).reverse = org.reverse := by
    rw [List.reverse_append]
    rw [List.take_left' (by simp)]
  have h2 : List.take org.length org.reverse = org.reverse := by
    apply List.take_of_length_le; simp
  rw [hmin, h1, h2, fcLoop_self]
  simp only [List.length_append]
  by_cases hn : n.length = 0
  · simp [hn]
  · have h3 : 0 < n.length := by omega
    simp [h3]

theorem wireLen_append (a b : Name) : wireLen (a ++ b) = wireLen a + wireLen b := by
  simp [wireLen]

theorem wf_of_wf_append (n org : Name) (hne : org ≠ []) (h : WfName (n ++ org)) : WfName n := by
  refine ⟨fun l hl => h.1 l (by simp [hl]), ?_, ?_⟩
  · have := h.2.1; rw [wireLen_append] at this; omega
  · intro l hl
    apply h.2.2 l
    rw [List.dropLast_append_of_ne_nil hne]
    exact List.mem_append_left _ (List.dropLast_subset n hl)

/-- `self[: len(self) - k]` for `k ≠ 0`, whichever way `sliceToNeg` spells the `k = 0` case -/
theorem sliceToNeg_pos (n : Name) (k : Nat) (hk : k ≠ 0) : sliceToNeg n k = n.take (n.length - k) := by
  unfold sliceToNeg
  split
  · rename_i h0; exact absurd h0 hk
  · rfl

theorem relativize_append (n org : Name) (ho : isAbs org = true) (h : WfName (n ++ org)) :
    relativize (n ++ org) org = .ok n := by
  have hne : org ≠ [] := by intro h'; simp [h', isAbs] at ho
  unfold relativize
  rw [isSubdomain_append n org ho]
  have hl : org.length ≠ 0 := by
    intro h0; exact hne (List.length_eq_zero_iff.mp h0)
  simp only [if_true, sliceToNeg_pos _ _ hl, List.length_append, Nat.add_sub_cancel]
  rw [List.take_left' rfl]
  exact validate_of_wf n (wf_of_wf_append n org hne h)

/-- encode-then-decode of one embedded name, any prefix, any continuation -/
theorem getName_enc (rel : Bool) (o : Option Name) (n : Name) (h : nameValid rel o n = true) (pfx tl : Bytes) :
    getName rel o pfx (nameEnc o n ++ tl) = .ok (.name n, pfx ++ nameEnc o n, tl) := by
  unfold nameValid at h
  cases o with
  | none =>
    simp only [Bool.and_eq_true] at h
    have hw := (wfNameB_iff n).1 h.1
    have ha := h.2
    unfold getName nameEnc
    simp only [ha, if_true]
    rw [fromWire_abs n hw ha pfx tl]
    simp only [validate_of_wf n hw, relativizeO, ite_self]
    simp
  | some org =>
    simp only [Bool.and_eq_true] at h
    obtain ⟨⟨hwo, hao⟩, hn⟩ := h
    have hne : org ≠ [] := by intro h'; simp [h', isAbs] at hao
    unfold getName nameEnc
    by_cases ha : isAbs n = true
    · simp only [ha, if_true, Bool.and_eq_true, Bool.or_eq_true, Bool.not_eq_true'] at hn ⊢
      have hw := (wfNameB_iff n).1 hn.1
      rw [fromWire_abs n hw ha pfx tl]
      simp only [validate_of_wf n hw, relativizeO, hne, if_false]
      cases rel with
      | false => simp
      | true =>
        have hs : isSubdomain n org = false := by
          rcases hn.2 with h1 | h1
          · simp at h1
          · exact h1
        simp [relativize, hs]
    · simp only [ha, Bool.false_eq_true, if_false, Bool.and_eq_true, Option.getD_some] at hn ⊢
      have hrel : rel = true := hn.1
      have hw := (wfNameB_iff (n ++ org)).1 hn.2
      have ha' := isAbs_append n org hao
      rw [fromWire_abs (n ++ org) hw ha' pfx tl]
      simp only [validate_of_wf _ hw, relativizeO, hne, if_false, hrel, if_true]
      rw [relativize_append n org hao hw]
      simp

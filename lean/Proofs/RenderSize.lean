import Proofs.RenderBasic
/-! The size discipline of the renderer: what one `add_*` call does to the state (`addItem_spec`), exact
rollback, and the bound on the buffer length. -/
namespace Model

/-- every compression-table entry points into the buffer -/
def TblBelow (s : RState) : Prop := ∀ p ∈ s.tbl, p.2 < s.out.length

theorem setSection_ok {s s1 : RState} {sec : Nat} (h : s.setSection sec = .ok s1) :
    s1 = { s with sec := sec } ∧ s.sec ≤ sec := by
  unfold RState.setSection at h
  split at h
  · split at h
    · simp at h
    · simp at h; subst h; exact ⟨rfl, by omega⟩
  · rename_i he
    simp at h; subst h
    have : s.sec = sec := by simpa using he
    subst this
    exact ⟨rfl, Nat.le_refl _⟩

/-- `_rollback(start)` after a write that only appended restores buffer and table exactly -/
theorem rollback_appends (s : RState) (o : Bytes) (t : CTable) (ha : Appends s.out s.tbl o t) (hb : TblBelow s) :
    ({ s with out := o, tbl := t } : RState).rollback s.out.length = s := by
  obtain ⟨⟨e, he⟩, ⟨new, hn, hp⟩⟩ := ha
  have h1 : o.take s.out.length = s.out := by rw [he]; simp
  have h2 : t.filter (fun p => decide (p.2 < s.out.length)) = s.tbl := by
    rw [hn, List.filter_append]
    have a : s.tbl.filter (fun p => decide (p.2 < s.out.length)) = s.tbl := by
      rw [List.filter_eq_self]; intro p hp'; simpa using hb p hp'
    have b : new.filter (fun p => decide (p.2 < s.out.length)) = [] := by
      rw [List.filter_eq_nil_iff]; intro p hp'; have := (hp p hp').1; simp; omega
    rw [a, b]; simp
  cases s
  simp only [RState.rollback] at *
  simp [h1, h2]

/-- the three exits of `with self._track_size()` around a write that appended -/
theorem endTrack_spec (s : RState) (o : Bytes) (t : CTable) (sec n : Nat) (ha : Appends s.out s.tbl o t)
    (hb : TblBelow s) :
    (s.endTrack s.out.length o t sec n = .tooBig s ∧ o.length > s.maxSize) ∨
    (s.endTrack s.out.length o t sec n = .ok { s with out := o, tbl := t, counts := s.counts.bump sec n }
      ∧ o.length ≤ s.maxSize) := by
  unfold RState.endTrack
  split
  · rename_i hbig
    left
    rw [rollback_appends s o t ha hb]
    exact ⟨rfl, hbig⟩
  · right
    exact ⟨rfl, by omega⟩

theorem tblBelow_appends {s : RState} {o : Bytes} {t : CTable} (ha : Appends s.out s.tbl o t) (hb : TblBelow s)
    (c : Counts) : TblBelow { s with out := o, tbl := t, counts := c } := by
  obtain ⟨⟨e, he⟩, ⟨new, hn, hp⟩⟩ := ha
  intro p hp'
  simp only at hp' ⊢
  rw [hn] at hp'
  rcases List.mem_append.mp hp' with h | h
  · have := hb p h; rw [he]; simp; omega
  · exact (hp p h).2

/-- outcome of one `add_question` / `add_rrset` call -/
inductive AddOutcome (s : RState) (sec : Nat) : Step → Prop
  | ok (o : Bytes) (t : CTable) (n : Nat) :
      Appends s.out s.tbl o t → o.length ≤ s.maxSize → s.sec ≤ sec →
      AddOutcome s sec (.ok { s with sec := sec, out := o, tbl := t, counts := s.counts.bump sec n })
  | tooBig : s.sec ≤ sec → AddOutcome s sec (.tooBig { s with sec := sec })
  | err (e : RErr) : AddOutcome s sec (.err e)

theorem addQuestion_spec (s : RState) (qn : Name) (rdtype rdclass : Nat) (hb : TblBelow s) :
    AddOutcome s 0 (s.addQuestion qn rdtype rdclass) := by
  unfold RState.addQuestion
  split
  · exact AddOutcome.err _
  · rename_i s1 hs1
    obtain ⟨rfl, hle⟩ := setSection_ok hs1
    split
    · exact AddOutcome.err _
    · rename_i o t h
      have ha : Appends s.out s.tbl (o ++ u16 rdtype ++ u16 rdclass) t := by
        have := (toWireC_appends h).trans (Appends.bytes o t (u16 rdtype ++ u16 rdclass))
        simpa [List.append_assoc] using this
      have hb1 : TblBelow { s with sec := 0 } := hb
      rcases endTrack_spec { s with sec := 0 } (o ++ u16 rdtype ++ u16 rdclass) t 0 1 ha hb1 with ⟨h1, _⟩ | ⟨h1, h2⟩
      · rw [h1]; exact AddOutcome.tooBig hle
      · rw [h1]; exact AddOutcome.ok _ _ 1 ha h2 hle

theorem addRRset_spec (s : RState) (sec : Nat) (r : RRset) (hb : TblBelow s) :
    AddOutcome s sec (s.addRRset sec r) := by
  unfold RState.addRRset
  split
  · exact AddOutcome.err _
  · rename_i s1 hs1
    obtain ⟨rfl, hle⟩ := setSection_ok hs1
    split
    · exact AddOutcome.err _
    · rename_i o t n h
      have ha : Appends s.out s.tbl o t := rrsetToWire_appends h
      have hb1 : TblBelow { s with sec := sec } := hb
      rcases endTrack_spec { s with sec := sec } o t sec n ha hb1 with ⟨h1, _⟩ | ⟨h1, h2⟩
      · rw [h1]; exact AddOutcome.tooBig hle
      · rw [h1]; exact AddOutcome.ok _ _ n ha h2 hle

theorem addItem_spec (s : RState) (it : Item) (hb : TblBelow s) : AddOutcome s it.sec (s.addItem it) := by
  cases it with
  | q n t c => exact addQuestion_spec s n t c hb
  | rr sec r => exact addRRset_spec s sec r hb

/-- number of records `add_rrset` counts for an RRset -/
theorem addRRset_count (s : RState) (sec : Nat) (r : RRset) (s' : RState) (h : s.addRRset sec r = .ok s') :
    s'.counts = s.counts.bump sec (max 1 r.rdatas.length) := by
  unfold RState.addRRset at h
  split at h
  · simp at h
  · rename_i s1 hs1
    obtain ⟨rfl, _⟩ := setSection_ok hs1
    split at h
    · simp at h
    · rename_i o t n hw
      have := rrsetToWire_count hw
      subst this
      unfold RState.endTrack at h
      split at h
      · simp at h
      · simp at h; subst h; rfl

theorem addQuestion_count (s : RState) (qn : Name) (t c : Nat) (s' : RState)
    (h : s.addQuestion qn t c = .ok s') : s'.counts = s.counts.bump 0 1 := by
  unfold RState.addQuestion at h
  split at h
  · simp at h
  · rename_i s1 hs1
    obtain ⟨rfl, _⟩ := setSection_ok hs1
    split at h
    · simp at h
    · unfold RState.endTrack at h
      split at h
      · simp at h
      · simp at h; subst h; rfl

/-! ### the fold over the sections -/

/-- invariant of the renderer between `add_*` calls: table below the buffer end, and the buffer within the
budget unless nothing but the 12-octet header has been written yet. -/
structure RInv (s : RState) : Prop where
  below : TblBelow s
  size : s.out.length ≤ s.maxSize ∨ s.out.length = 12
  hdr : 12 ≤ s.out.length

theorem AddOutcome.inv_ok {s : RState} {sec : Nat} {s' : RState} (h : AddOutcome s sec (.ok s')) (hi : RInv s) :
    RInv s' ∧ s'.maxSize = s.maxSize ∧ s'.reserved = s.reserved ∧ s'.id = s.id ∧ s'.flags = s.flags
      ∧ s'.origin = s.origin ∧ s'.wasPadded = s.wasPadded ∧ s'.sec = sec ∧ s.out.length ≤ s'.out.length
      ∧ s'.out.length ≤ s.maxSize := by
  cases h with
  | ok o t n ha hsz hle =>
    refine ⟨⟨?_, Or.inl hsz, Nat.le_trans hi.hdr ha.len⟩, rfl, rfl, rfl, rfl, rfl, rfl, rfl, ha.len, hsz⟩
    exact tblBelow_appends (s := { s with sec := sec }) ha hi.below _

theorem AddOutcome.tooBig_eq {s : RState} {sec : Nat} {s' : RState} (h : AddOutcome s sec (.tooBig s')) :
    s' = { s with sec := sec } ∧ s.sec ≤ sec := by
  cases h with
  | tooBig hle => exact ⟨rfl, hle⟩

/-- after the section loops: still within budget (or header only), whatever happened -/
theorem addItems_inv (items : List Item) : ∀ (s s' : RState) (big : Bool), RInv s →
    s.addItems items = .ok (s', big) →
    RInv s' ∧ s'.maxSize = s.maxSize ∧ s'.reserved = s.reserved ∧ s'.id = s.id ∧ s'.flags = s.flags
      ∧ s'.origin = s.origin ∧ s'.wasPadded = s.wasPadded := by
  induction items with
  | nil =>
    intro s s' big hi h
    simp [RState.addItems] at h
    obtain ⟨rfl, _⟩ := h
    exact ⟨hi, rfl, rfl, rfl, rfl, rfl, rfl⟩
  | cons it rest ih =>
    intro s s' big hi h
    unfold RState.addItems at h
    have hspec := addItem_spec s it hi.below
    split at h
    · simp at h
    · rename_i s1 h1
      simp at h
      obtain ⟨rfl, _⟩ := h
      rw [h1] at hspec
      obtain ⟨rfl, _⟩ := hspec.tooBig_eq
      exact ⟨⟨hi.below, hi.size, hi.hdr⟩, rfl, rfl, rfl, rfl, rfl, rfl⟩
    · rename_i s1 h1
      rw [h1] at hspec
      obtain ⟨hi1, e1, e2, e3, e4, e5, e6, _⟩ := hspec.inv_ok hi
      obtain ⟨hi', f1, f2, f3, f4, f5, f6⟩ := ih s1 s' big hi1 h
      exact ⟨hi', by rw [f1, e1], by rw [f2, e2], by rw [f3, e3], by rw [f4, e4], by rw [f5, e5], by rw [f6, e6]⟩

/-! ### the tail of `Message.to_wire` -/

theorem writeHeader_length (s : RState) (h : 12 ≤ s.out.length) : s.writeHeader.out.length = s.out.length := by
  simp [RState.writeHeader, u16]; omega

theorem writeHeader_below (s : RState) (h : 12 ≤ s.out.length) (hb : TblBelow s) : TblBelow s.writeHeader := by
  intro p hp
  have := hb p hp
  rw [writeHeader_length s h]; exact this

/-- `add_rrset` as used for OPT and TSIG (a `TooBig` propagates): on success the buffer is within `max_size` -/
theorem addRRset_ok_bound (s : RState) (sec : Nat) (r : RRset) (s' : RState) (hb : TblBelow s)
    (h12 : 12 ≤ s.out.length) (h : stepToExcept (s.addRRset sec r) = .ok s') :
    s'.out.length ≤ s.maxSize ∧ TblBelow s' ∧ 12 ≤ s'.out.length ∧ s'.maxSize = s.maxSize := by
  have hspec := addRRset_spec s sec r hb
  cases hr : s.addRRset sec r with
  | ok s1 =>
    rw [hr] at hspec h
    simp [stepToExcept] at h; subst h
    cases hspec with
    | ok o t n ha hsz hle =>
      exact ⟨hsz, tblBelow_appends (s := { s with sec := sec }) ha hb _, Nat.le_trans h12 ha.len, rfl⟩
  | tooBig s1 => rw [hr] at h; simp [stepToExcept] at h
  | err e => rw [hr] at h; simp [stepToExcept] at h

theorem finish_bound (r : RState) (opt : Option EOpt) (tsig : Option Tsig) (pad a b : Nat) (r' : RState)
    (hi : RInv r) (h12 : 12 ≤ r.maxSize + r.reserved) (h : r.finish opt tsig pad a b = .ok r') :
    r'.out.length ≤ r.maxSize + r.reserved := by
  unfold RState.finish at h
  simp only at h
  -- state after release_reserved
  have hrel_max : r.releaseReserved.maxSize = r.maxSize + r.reserved := rfl
  have hrel_out : r.releaseReserved.out = r.out := rfl
  have hrel_below : TblBelow r.releaseReserved := hi.below
  have hrel_size : r.releaseReserved.out.length ≤ r.maxSize + r.reserved := by
    rw [hrel_out]; rcases hi.size with h1 | h1 <;> omega
  -- the optional OPT
  have key : ∀ r5 : RState, (match opt with
      | none => (Except.ok r.releaseReserved : Except RErr RState)
      | some o => stepToExcept (r.releaseReserved.addOpt o pad a b)) = .ok r5 →
      r5.out.length ≤ r.maxSize + r.reserved ∧ TblBelow r5 ∧ 12 ≤ r5.out.length ∧ r5.maxSize = r.maxSize + r.reserved := by
    intro r5 h5
    cases opt with
    | none => simp at h5; subst h5; exact ⟨hrel_size, hrel_below, hi.hdr, rfl⟩
    | some o =>
      simp only at h5
      replace h5 := addOpt_core_of_ok h5
      unfold RState.addOptCore at h5
      split at h5
      · have := addRRset_ok_bound { r.releaseReserved with wasPadded := true } _ _ r5 hrel_below hi.hdr h5
        exact ⟨this.1, this.2.1, this.2.2.1, this.2.2.2⟩
      · have := addRRset_ok_bound r.releaseReserved _ _ r5 hrel_below hi.hdr h5
        exact ⟨this.1, this.2.1, this.2.2.1, this.2.2.2⟩
  split at h
  · simp at h
  · rename_i r5 h5
    obtain ⟨k1, k2, k3, k4⟩ := key r5 h5
    cases tsig with
    | none =>
      simp at h; subst h
      rw [writeHeader_length r5 k3]; exact k1
    | some t =>
      simp only at h
      split at h
      · simp at h
      · rename_i r6 h6
        simp at h; subst h
        have hb5 : TblBelow ({ r5.writeHeader with tbl := [] } : RState) := by
          intro p hp; simp at hp
        have h12' : 12 ≤ ({ r5.writeHeader with tbl := [] } : RState).out.length := by
          show 12 ≤ r5.writeHeader.out.length
          rw [writeHeader_length r5 k3]; exact k3
        have := addRRset_ok_bound ({ r5.writeHeader with tbl := [] } : RState) _ _ r6 hb5 h12' h6
        rw [writeHeader_length r6 this.2.2.1]
        have hm : ({ r5.writeHeader with tbl := [] } : RState).maxSize = r5.maxSize := rfl
        rw [hm, k4] at this
        exact this.1

end Model

namespace Model

theorem reserve_ok {s s' : RState} {n : Nat} (h : s.reserve n = .ok s') :
    s' = { s with reserved := s.reserved + n, maxSize := s.maxSize - n } ∧ n ≤ s.maxSize := by
  unfold RState.reserve at h
  split at h
  · simp at h
  · simp at h; subst h; exact ⟨rfl, by omega⟩

theorem afterItems_ok {r r' : RState} {big pt : Bool} (h : r.afterItems big pt = .ok r') :
    r'.out = r.out ∧ r'.tbl = r.tbl ∧ r'.maxSize = r.maxSize ∧ r'.reserved = r.reserved ∧ r'.counts = r.counts
      ∧ r'.id = r.id ∧ r'.origin = r.origin ∧ r'.sec = r.sec ∧ r'.wasPadded = r.wasPadded := by
  unfold RState.afterItems at h
  split at h
  · split at h
    · simp at h; subst h
      split <;> simp
    · simp at h
  · simp at h; subst h; simp

/-- state after the section loops and the `TooBig` handler -/
theorem renderSections_inv (m : Message) (L : Nat) (pt : Bool) (a b : Nat) (r : RState)
    (h : m.renderSections L pt a b = .ok r) : RInv r ∧ r.maxSize + r.reserved = L ∧ r.wasPadded = false := by
  unfold Message.renderSections at h
  split at h
  · simp at h
  split at h
  · simp at h
  · rename_i r1 h1
    obtain ⟨rfl, ha⟩ := reserve_ok h1
    split at h
    · simp at h
    · rename_i r2 h2
      obtain ⟨rfl, hb⟩ := reserve_ok h2
      split at h
      · simp at h
      · rename_i r3 big h3
        have hi2 : RInv ({ ({ (RState.init m.id m.flags L m.origin) with
            reserved := (RState.init m.id m.flags L m.origin).reserved + a,
            maxSize := (RState.init m.id m.flags L m.origin).maxSize - a } : RState) with
            reserved := (RState.init m.id m.flags L m.origin).reserved + a + b,
            maxSize := (RState.init m.id m.flags L m.origin).maxSize - a - b } : RState) := by
          refine ⟨?_, Or.inr ?_, ?_⟩
          · intro p hp; simp [RState.init] at hp
          · simp [RState.init]
          · simp [RState.init]
        obtain ⟨hi3, e1, e2, _, _, _, e7⟩ := addItems_inv _ _ _ _ hi2 h3
        obtain ⟨f1, f2, f3, f4, _, _, _, _, f9⟩ := afterItems_ok h
        refine ⟨⟨?_, ?_, ?_⟩, ?_, ?_⟩
        · intro p hp; rw [f2] at hp; rw [f1]; exact hi3.below p hp
        · rw [f1, f3]; exact hi3.size
        · rw [f1]; exact hi3.hdr
        · rw [f3, f4, e1, e2]
          simp [RState.init] at ha hb ⊢
          omega
        · rw [f9, e7]; rfl

theorem clampSize_bounds (a b : Nat) : ConstsC03.minSize ≤ clampSize a b ∧ clampSize a b ≤ ConstsC03.maxSize := by
  have hmm : ConstsC03.minSize ≤ ConstsC03.maxSize := by decide
  unfold clampSize
  generalize (if a = 0 then if b ≠ 0 then b else 65535 else a) = ms
  simp only
  by_cases h1 : ms < ConstsC03.minSize
  · simp [h1, hmm]
  · by_cases h2 : ms > ConstsC03.maxSize
    · simp [h1, h2, hmm]
    · simp [h1, h2]; omega

end Model

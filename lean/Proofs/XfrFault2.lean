import Proofs.XfrFault
/-!
# Faults at an arbitrary position of an IXFR response: the state of the machine before any difference
sequence, and what each kind of misplaced rrset does there
-/
namespace Model.Xfr

theorem flatRun_append {c : Config} {z0 : Zone} {rr0 : RRset} {A : List RRset} {s : Inbound} (B : List RRset)
    (h : flatRun c z0 (rr0 :: A) = .ok s) : flatRun c z0 (rr0 :: (A ++ B)) = procAnswers false s B := by
  unfold flatRun at h ⊢
  cases hi : Inbound.init c.origin z0 c.rdtype c.serial c.isUdp with
  | error e => rw [hi] at h; cases h
  | ok s0 =>
    rw [hi] at h
    simp only [] at h ⊢
    cases h1 : firstSoa (openTxn s0) rr0 false with
    | error e => rw [h1] at h; cases h
    | ok s1 =>
      rw [h1] at h
      simp only [] at h ⊢
      rw [procAnswers_append, h]

theorem ixfrSteps_append (o : Name) : ∀ (pre rest : List Step) (cur : Soa),
    ixfrSteps o cur (pre ++ rest) = ixfrSteps o cur pre ++ ixfrSteps o (lastSoa cur pre) rest := by
  intro pre
  induction pre with
  | nil => intro rest cur; rfl
  | cons st more ih => intro rest cur; simp [ixfrSteps, lastSoa, ih]

theorem lastSoa_append : ∀ (pre rest : List Step) (cur : Soa),
    lastSoa cur (pre ++ rest) = lastSoa (lastSoa cur pre) rest := by
  intro pre
  induction pre with
  | nil => intro rest cur; rfl
  | cons st more ih => intro rest cur; simp [lastSoa, ih]

theorem applyAll_append (o : Name) (w : Zone) (pre rest : List Step) :
    applyAll o w (pre ++ rest) = applyAll o (applyAll o w pre) rest := by
  simp [applyAll]

theorem StepsOk.split {o : Name} {dn : Soa} : ∀ (pre rest : List Step) (cur : Soa) (w : Zone),
    StepsOk o dn cur w (pre ++ rest) →
    StepsOk o dn cur w pre ∧ StepsOk o dn (lastSoa cur pre) (applyAll o w pre) rest := by
  intro pre
  induction pre with
  | nil => intro rest cur w h; exact ⟨trivial, h⟩
  | cons st more ih =>
    intro rest cur w h
    obtain ⟨a, b, c, d, e, f⟩ := h
    have r := ih rest st.soa (applyStep o w st) f
    exact ⟨⟨a, b, c, d, e, r.1⟩, by simpa [lastSoa, applyAll] using r.2⟩

/-- **The state before any difference sequence**: after the first SOA and the sequences `pre` of a
well-formed response, the machine is in add mode with the serial of the last of them, and its working
copy is what they make of the zone before. -/
theorem ixfr_prefix_flat (o : Name) (cur dn : Soa) (pre : List Step) (z0 : Zone) (udp : Bool)
    (hs1 : dn.rdata.serial ≠ cur.rdata.serial) (hs2 : serialLt dn.rdata.serial cur.rdata.serial = false)
    (hc0 : Coherent z0) (hok : StepsOk o dn cur z0 pre) :
    ∃ x', flatRun ⟨some o, ixfrType, some cur.rdata.serial, udp⟩ z0 (soaRR o dn :: ixfrSteps o cur pre) =
        .ok (mid o ixfrType true (some (lastSoa cur pre).rdata.serial) udp (soaRR o dn) pre.isEmpty false x' z0) ∧
      x'.work ≃z applyAll o z0 pre ∧ Coherent x'.work := by
  have h0 : Inbound.init (some o) z0 ixfrType (some cur.rdata.serial) udp =
      .ok ⟨o, ixfrType, true, some cur.rdata.serial, udp, none, false, false, false, none, z0⟩ := by
    simp [Inbound.init]
  have h1 : firstSoa (openTxn ⟨o, ixfrType, true, some cur.rdata.serial, udp, none, false, false, false, none, z0⟩)
      (soaRR o dn) false =
      .ok (mid o ixfrType true (some cur.rdata.serial) udp (soaRR o dn) true false ⟨z0, false⟩ z0) := by
    simp [firstSoa, openTxn, writer, mid, hs1, hs2]
  obtain ⟨x1, e1, q1, hc1⟩ := mid_steps (o := o) (t := ixfrType) (udp := udp) (z := z0) (dn := dn)
    pre cur ⟨z0, false⟩ true hc0 hok
  refine ⟨x1, ?_, q1, hc1⟩
  unfold flatRun
  simp only [h0, h1]
  rw [e1]
  simp

/-- an rrset that the flat machine refuses in a state that is not done, anywhere in the stream, makes every
division into messages raise the same, zone untouched (code as it is) -/
theorem raise_at {c : Config} {z0 : Zone} {msgs : List Msg} {rr0 : RRset} {A B : List RRset} {r : RRset}
    {tail : List RRset} {s s1 : Inbound} {e : XErr}
    (hu : c.isUdp = false) (hA : flatRun c z0 (rr0 :: A) = .ok s) (hB : procAnswers false s B = .ok s1)
    (hd : s1.done = false) (hr : procRRset false s1 r true = .error (e, z0))
    (hc : Chunks c (rr0 :: ((A ++ B) ++ r :: tail)) msgs) :
    run true c z0 msgs = ⟨some e, z0⟩ := by
  have hf : flatRun c z0 (rr0 :: (A ++ B)) = .ok s1 := by rw [flatRun_append B hA]; exact hB
  exact both_variants_err (run_of_flat_raises hu hc hf hd hr) true

/-! ## what a misplaced rrset does -/

/-- an apex SOA whose serial is not the one we are at, arriving in add mode of an incremental transfer:
whether it is taken for the final SOA or for the start of a deletion set, `FormError` -/
theorem mid_soa_mismatch {o t b udp x z} {dn s : Soa} {exp more : Bool} (hne : s.rdata.serial ≠ b) :
    procRRset false (mid o t true (some b) udp (soaRR o dn) exp false x z) (soaRR o s) more =
      .error (.FormError, z) := by
  have hne' : ¬ b = s.rdata.serial := fun h => hne h.symm
  unfold procRRset
  cases hfin : isFinalSoa (mid o t true (some b) udp (soaRR o dn) exp false x z) (soaRR o s) with
  | true => cases exp <;> simp [mid, procFinalSoa, hne']
  | false => simp [mid, procOtherSoa, nextDm, hne]

/-- an apex SOA other than the first one in a non-incremental transfer -/
theorem mid_axfr_other_soa {o t ser udp x z} {dn s : Soa} {dm more : Bool} (hne : s.rdata ≠ dn.rdata) :
    procRRset false (mid o t false ser udp (soaRR o dn) false dm x z) (soaRR o s) more =
      .error (.FormError, z) := by
  have hfin : isFinalSoa (mid o t false ser udp (soaRR o dn) false dm x z) (soaRR o s) = false := by
    simp [isFinalSoa, eqFirst, mid, rrsetEq_soaRR, hne]
  unfold procRRset
  simp only [hfin]
  simp [mid, procOtherSoa]

/-- records that are already there, arriving in add mode: nothing changes -/
theorem mid_adds_present {fix : Bool} {o t inc ser udp f z} (l : List RR) (x : Txn) (hc : Coherent x.work)
    (h : ∀ r ∈ l, r.rdtype ≠ soaType ∧ isSubdomain r.owner o = true ∧ r ∈ x.work) :
    ∃ x', procAnswers fix (mid o t inc ser udp f false false x z) (l.map single) =
        .ok (mid o t inc ser udp f false false x' z) ∧ x'.work ≃z x.work := by
  have hq : (x.work ++ recsOfAll (l.map single)) ≃z x.work := by
    intro r; rw [recsOfAll_singles, List.mem_append]
    exact ⟨fun h' => h'.elim id (fun hr => (h r hr).2.2), Or.inl⟩
  obtain ⟨x', e, q⟩ := mid_adds (fix := fix) (o := o) (t := t) (inc := inc) (ser := ser) (udp := udp) (f := f) (z := z)
    (l.map single) x (bodyOk_singles fun r hr => ⟨(h r hr).1, (h r hr).2.1⟩) (Coherent.congr hq hc)
  exact ⟨x', e, Zone.equiv_trans q hq⟩

/-- a record that is not there, arriving in delete mode: `DeleteNotExact` (TTLs are not compared, so
"not there" is with respect to a coherent zone `W` that holds the working copy and the record) -/
theorem mid_del_absent {fix : Bool} {o t ser udp f x z} {r : RR} {more : Bool} {W : Zone}
    (ht : r.rdtype ≠ soaType) (hz : isSubdomain r.owner o = true) (hW : Coherent W)
    (hsub : ∀ q ∈ x.work, q ∈ W) (hr : r ∈ W) (hnot : r ∉ x.work) :
    procRRset fix (mid o t true ser udp f false true x z) (single r) more = .error (.DeleteNotExact, z) := by
  have hno : ¬ ∃ a, a ∈ existing x.work r.owner r.rdtype ∧ a.rdata = r.rdata := by
    rintro ⟨a, ha, hd⟩
    have ha' := mem_existing.1 ha
    have httl := hW.1 a (hsub a ha'.1) r hr ha'.2.1 ha'.2.2
    have : a = r := by cases a; cases r; simp_all
    exact hnot (this ▸ ha'.1)
  simp [mid, procRRset, ht, fallbackState, fallbackTxn, procData, hz, txnDeleteExact, single, hno]

/-- an SOA rrset whose owner is not the apex, arriving in add mode (or as the first rrset after the first
SOA): `txn.add` refuses it, `ValueError` -/
theorem mid_add_nonapex_soa {fix : Bool} {o t inc ser udp f x z} {rs : RRset} {exp more : Bool}
    (ht : rs.rdtype = soaType) (hno : rs.owner ≠ o) (hz : isSubdomain rs.owner o = true) :
    procRRset fix (mid o t inc ser udp f exp false x z) rs more = .error (.ValueError, z) := by
  cases exp <;> simp [mid, procRRset, ht, hno, fallbackState, procData, hz, txnAdd]

/-- … and in delete mode, where no such record can be: `DeleteNotExact` -/
theorem mid_del_nonapex_soa {fix : Bool} {o t ser udp f x z} {rs : RRset} {more : Bool}
    (ht : rs.rdtype = soaType) (hno : rs.owner ≠ o) (hz : isSubdomain rs.owner o = true) (hne : rs.rdatas ≠ [])
    (habs : ∀ q ∈ x.work, q.rdtype = soaType → q.owner = o) :
    procRRset fix (mid o t true ser udp f false true x z) rs more = .error (.DeleteNotExact, z) := by
  have hex : existing x.work rs.owner rs.rdtype = [] := by
    rw [List.eq_nil_iff_forall_not_mem]
    intro q hq
    have := mem_existing.1 hq
    exact hno (this.2.1.symm.trans (habs q this.1 (this.2.2.trans ht)))
  rw [ht] at hex
  cases hd : rs.rdatas with
  | nil => exact absurd hd hne
  | cons d ds =>
    simp [mid, procRRset, ht, hno, fallbackState, fallbackTxn, procData, hz, txnDeleteExact, hd, hex]

/-! ## a well-formed IXFR response, seen at one of its difference sequences -/

/-- A well-formed IXFR response for the zone `z0` whose SOA is `cur`, seen at its difference sequence `st`
(`pre` come before it, `post` after): the server is ahead of us, the zone we hold is coherent, the
sequences can be applied (`StepsOk`). -/
structure IxfrAt (o : Name) (cur : Soa) (pre : List Step) (st : Step) (post : List Step) (z0 : Zone) : Prop where
  s1 : (lastSoa cur (pre ++ st :: post)).rdata.serial ≠ cur.rdata.serial
  s2 : serialLt (lastSoa cur (pre ++ st :: post)).rdata.serial cur.rdata.serial = false
  coh : Coherent z0
  ok : StepsOk o (lastSoa cur (pre ++ st :: post)) cur z0 (pre ++ st :: post)

/-- the machine just before the sequence `st`, and what is known of `st` there -/
theorem IxfrAt.before {o : Name} {cur : Soa} {pre : List Step} {st : Step} {post : List Step} {z0 : Zone}
    (h : IxfrAt o cur pre st post z0) (udp : Bool) :
    ∃ x', flatRun ⟨some o, ixfrType, some cur.rdata.serial, udp⟩ z0
          (soaRR o (lastSoa cur (pre ++ st :: post)) :: ixfrSteps o cur pre) =
        .ok (mid o ixfrType true (some (lastSoa cur pre).rdata.serial) udp (soaRR o (lastSoa cur (pre ++ st :: post)))
              pre.isEmpty false x' z0) ∧
      x'.work ≃z applyAll o z0 pre ∧ Coherent x'.work ∧
      (lastSoa cur pre).rdata ≠ (lastSoa cur (pre ++ st :: post)).rdata ∧
      (∀ r ∈ st.dels, r.rdtype ≠ soaType ∧ isSubdomain r.owner o = true ∧ r ∈ x'.work) ∧ st.dels.Nodup ∧
      (∀ r ∈ st.adds, r.rdtype ≠ soaType ∧ isSubdomain r.owner o = true) ∧
      Coherent (applyStep o x'.work st) ∧
      StepsOk o (lastSoa cur (pre ++ st :: post)) st.soa (applyStep o x'.work st) post := by
  obtain ⟨hpre, hst⟩ := StepsOk.split pre (st :: post) cur z0 h.ok
  obtain ⟨x', hf, q, hc⟩ := ixfr_prefix_flat o cur (lastSoa cur (pre ++ st :: post)) pre z0 udp h.s1 h.s2 h.coh hpre
  have hst' := StepsOk.congr (st :: post) (Zone.equiv_symm q) hst
  obtain ⟨a, b, c, d, e, f⟩ := hst'
  exact ⟨x', hf, q, hc, a, b, c, d, e, f⟩

end Model.Xfr

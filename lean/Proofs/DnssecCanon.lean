import Model.Dnssec
import Proofs.NameText
import Proofs.DnssecRrsig
/-! Helper lemmas for C15: the canonical form of an rdata as a flat octet string; ZONEMD rdataset order. -/
namespace Model
namespace Dnssec

/-- RFC 4034 §6.2 as a function of the field list: opaque octets verbatim, each embedded name fully expanded
(no compression), lower-cased iff `lower k` for the `k`-th name -/
def canonFlat (lower : Nat → Bool) : Rdata → Nat → Bytes
  | [], _ => []
  | .raw b :: rest, k => b ++ canonFlat lower rest k
  | .name n :: rest, k => toWire (if lower k then lowerName n else n) ++ canonFlat lower rest (k + 1)

def allAbs (rd : Rdata) : Prop := ∀ n, Field.name n ∈ rd → isAbs n = true

theorem fieldsWire_abs (lower : Nat → Bool) (origin : Option Name) (rd : Rdata) (k : Nat) (h : allAbs rd) :
    fieldsWire lower origin rd k = .ok (canonFlat lower rd k) := by
  induction rd generalizing k with
  | nil => rfl
  | cons f rest ih =>
    have hrest : allAbs rest := fun n hn => h n (by simp [hn])
    cases f with
    | raw b => simp [fieldsWire, canonFlat, ih k hrest]
    | name n =>
      have hn : isAbs n = true := h n (by simp)
      simp [fieldsWire, canonFlat, nameWireFile, hn, ih (k + 1) hrest]

/-- whatever `nameWireFile` emits is the plain label sequence of a legal absolute name, and therefore decodes
with a decoder that knows no compression pointers -/
theorem nameWireFile_no_pointer (n : Name) (origin : Option Name) (canon : Bool) (w : Bytes)
    (hmax : Consts.maxLabel = 63) (hn : WfName n) (h : nameWireFile n origin canon = .ok w) :
    ∃ m : Name, w = toWire m ∧ isAbs m = true ∧ ∀ rest, decodeNoPtr m.length (w ++ rest) = some (m, rest) := by
  have key : ∀ m : Name, WfName m → isAbs m = true →
      ∃ m' : Name, toWire (if canon then lowerName m else m) = toWire m' ∧ isAbs m' = true ∧
        ∀ rest, decodeNoPtr m'.length (toWire (if canon then lowerName m else m) ++ rest) = some (m', rest) := by
    intro m hm ha
    have hl : ∀ l ∈ m, l.length ≤ 63 := fun l hl => hmax ▸ hm.1 l hl
    cases canon with
    | false =>
      exact ⟨m, rfl, ha, fun rest => decodeNoPtr_toWire m hl hm.2.2 ha rest⟩
    | true =>
      obtain ⟨h1, h2⟩ := lowerName_wf_parts m hl hm.2.2
      have ha' : isAbs (lowerName m) = true := by rw [isAbs_lowerName]; exact ha
      exact ⟨lowerName m, rfl, ha', fun rest => decodeNoPtr_toWire (lowerName m) h1 h2 ha' rest⟩
  unfold nameWireFile at h
  by_cases ha : isAbs n = true
  · simp only [ha, if_true, Except.ok.injEq] at h
    subst h
    obtain ⟨m', e1, e2, e3⟩ := key n hn ha
    exact ⟨m', e1, e2, e3⟩
  · simp only [ha, Bool.false_eq_true, if_false] at h
    cases origin with
    | none => simp at h
    | some o =>
      simp only at h
      by_cases hoa : isAbs o = true
      · simp only [hoa, if_true] at h
        cases hv : validate (n ++ o) with
        | error e => rw [hv] at h; simp at h
        | ok m =>
          rw [hv] at h
          simp only [Except.ok.injEq] at h
          subst h
          obtain ⟨hm, hwf⟩ := wf_of_validate (n ++ o) m hv
          subst hm
          have hab : isAbs (n ++ o) = true := by
            unfold isAbs at hoa ⊢
            have hone : o ≠ [] := by intro ho; subst ho; simp at hoa
            rw [List.getLast?_append]
            cases hg : o.getLast? with
            | none => simp [hg] at hoa
            | some x => rw [hg] at hoa; simpa using hoa
          obtain ⟨m', e1, e2, e3⟩ := key (n ++ o) hwf hab
          exact ⟨m', e1, e2, e3⟩
      · simp only [hoa, Bool.false_eq_true, if_false] at h
        simp at h

/-! ## ZONEMD: order of the rdatasets of a node -/

theorem rdsLe_total (a b : ZRdataset) : rdsLe a b = true ∨ rdsLe b a = true := by
  simp only [rdsLe, decide_eq_true_eq]; omega

theorem rdsLe_trans (a b c : ZRdataset) : rdsLe a b = true → rdsLe b c = true → rdsLe a c = true := by
  simp only [rdsLe, decide_eq_true_eq]; omega

end Dnssec
end Model

import Model.ZoneFile
import Proofs.TokenizerLayout
/-!
The TTL / class / type header of a record line: every accepted spelling (TTL then class, class then TTL, class
omitted, TTL omitted, both omitted; any layout of the separators) parses to the same values and leaves the
reader at the same place.  The first header token is given through what `_get_identifier` returns for it, so the
lemmas apply both after an explicit owner (token still unread) and after an inherited owner (token ungotten).
-/
namespace Model

def identToken (w : List Nat) : Token := { ttype := .identifier, value := w, hasEscape := hasEsc w }

theorem getIdent_word (sp : List SepItem) (w T : List Nat) (d d1 : Nat) (pq : Bool)
    (hsp : sepDepth d sp = some d1) (hw : identOK w = true) (hne : w ≠ []) (hT : startsDelim T) :
    getIdent (after d pq (renderSep sp ++ (w ++ T))) = .ok (identToken w, after d1 false T) := by
  have := get_word sp (.ident w) T d d1 pq hsp (by simp [Word.ok, hw, hne]) hT
  simp only [Word.text, Word.token, Word.isQuoted] at this
  simp [getIdent, liftT, this, bind, Except.bind, Token.isIdentifier, identToken, pure, Except.pure]

theorem unget_after (d : Nat) (pq : Bool) (T : List Nat) (t : Token) :
    (after d pq T).unget t = .ok { after d pq T with ungotten := some t } := by
  simp [TState.unget, after]

theorem getIdent_ungotten (d : Nat) (pq : Bool) (T w : List Nat) :
    getIdent { after d pq T with ungotten := some (identToken w) } = .ok (identToken w, after d pq T) := by
  simp [getIdent, liftT, TState.get, identToken, bind, Except.bind, Token.isIdentifier, pure, Except.pure, after]

/-- the TTL an omitted TTL field stands for (`none`: only an SOA's minimum can still supply it) -/
def PState.inheritedTTL (r : PState) : Option Nat :=
  if r.defaultTTLKnown then some r.defaultTTL else if r.lastTTLKnown then some r.lastTTL else none

/-- `<ttl> <class> <type>` -/
theorem rrHeader_ttl_class (r : PState) (s2 s3 : List SepItem) (ttlT clsT tyT T : List Nat)
    (d1 d2 d3 : Nat) (v ty : Nat)
    (hfirst : getIdent r.tok = .ok (identToken ttlT, after d1 false (renderSep s2 ++ (clsT ++ (renderSep s3 ++ (tyT ++ T))))))
    (h2 : sepDepth d1 s2 = some d2) (h3 : sepDepth d2 s3 = some d3)
    (n3 : s3 ≠ []) (hT : startsDelim T)
    (ok2 : identOK clsT = true) (ne2 : clsT ≠ []) (ok3 : identOK tyT = true) (ne3 : tyT ≠ [])
    (hv : ttlOf ttlT = some v) (hc : classFromText clsT = some 1) (hty : typeFromText tyT = some ty) :
    rrHeader r = .ok ((some v, ty), { r with tok := after d3 false T, lastTTL := v, lastTTLKnown := true }) := by
  unfold rrHeader
  simp only [bind, Except.bind, hfirst]
  simp only [identToken, hv, pure, Except.pure]
  rw [getIdent_word s2 clsT _ d1 d2 false h2 ok2 ne2 (renderSep_startsDelim s3 _ n3)]
  simp only [identToken, hc, ne_eq, not_true_eq_false, if_false]
  rw [getIdent_word s3 tyT _ d2 d3 false h3 ok3 ne3 hT]
  simp [identToken, hty]

/-- `<class> <ttl> <type>` -/
theorem rrHeader_class_ttl (r : PState) (s2 s3 : List SepItem) (ttlT clsT tyT T : List Nat)
    (d1 d2 d3 : Nat) (v ty : Nat)
    (hfirst : getIdent r.tok = .ok (identToken clsT, after d1 false (renderSep s2 ++ (ttlT ++ (renderSep s3 ++ (tyT ++ T))))))
    (h2 : sepDepth d1 s2 = some d2) (h3 : sepDepth d2 s3 = some d3)
    (n3 : s3 ≠ []) (hT : startsDelim T)
    (ok1 : identOK ttlT = true) (ne1 : ttlT ≠ []) (ok3 : identOK tyT = true) (ne3 : tyT ≠ [])
    (hv : ttlOf ttlT = some v) (hc : classFromText clsT = some 1) (hcv : ttlOf clsT = none)
    (hty : typeFromText tyT = some ty) :
    rrHeader r = .ok ((some v, ty), { r with tok := after d3 false T, lastTTL := v, lastTTLKnown := true }) := by
  unfold rrHeader
  simp only [bind, Except.bind, hfirst]
  simp only [identToken, hcv, pure, Except.pure, liftT, unget_after]
  have := getIdent_ungotten d1 false (renderSep s2 ++ (ttlT ++ (renderSep s3 ++ (tyT ++ T)))) clsT
  simp only [identToken] at this
  rw [this]
  simp only [hc, ne_eq, not_true_eq_false, if_false]
  rw [getIdent_word s2 ttlT _ d1 d2 false h2 ok1 ne1 (renderSep_startsDelim s3 _ n3)]
  simp only [identToken, hv]
  rw [getIdent_word s3 tyT _ d2 d3 false h3 ok3 ne3 hT]
  simp [identToken, hty]

/-- `<ttl> <type>`: the class is inherited from the zone -/
theorem rrHeader_ttl_only (r : PState) (s2 : List SepItem) (ttlT tyT T : List Nat)
    (d1 d2 : Nat) (v ty : Nat)
    (hfirst : getIdent r.tok = .ok (identToken ttlT, after d1 false (renderSep s2 ++ (tyT ++ T))))
    (h2 : sepDepth d1 s2 = some d2) (hT : startsDelim T)
    (ok3 : identOK tyT = true) (ne3 : tyT ≠ [])
    (hv : ttlOf ttlT = some v) (hnc : classFromText tyT = none) (hty : typeFromText tyT = some ty) :
    rrHeader r = .ok ((some v, ty), { r with tok := after d2 false T, lastTTL := v, lastTTLKnown := true }) := by
  unfold rrHeader
  simp only [bind, Except.bind, hfirst]
  simp only [identToken, hv, pure, Except.pure]
  rw [getIdent_word s2 tyT _ d1 d2 false h2 ok3 ne3 hT]
  simp only [identToken, hnc, liftT, unget_after, ne_eq, not_true_eq_false, if_false]
  have := getIdent_ungotten d2 false T tyT
  simp only [identToken] at this
  rw [this]
  simp [hty]

/-- `<class> <type>`: the TTL is inherited (`$TTL` / SOA minimum first, else the last explicit TTL) -/
theorem rrHeader_class_only (r : PState) (s2 : List SepItem) (clsT tyT T : List Nat)
    (d1 d2 : Nat) (ty : Nat)
    (hfirst : getIdent r.tok = .ok (identToken clsT, after d1 false (renderSep s2 ++ (tyT ++ T))))
    (h2 : sepDepth d1 s2 = some d2) (hT : startsDelim T)
    (ok3 : identOK tyT = true) (ne3 : tyT ≠ [])
    (hc : classFromText clsT = some 1) (hcv : ttlOf clsT = none)
    (hnv : ttlOf tyT = none) (hty : typeFromText tyT = some ty) :
    rrHeader r = .ok ((r.inheritedTTL, ty), { r with tok := after d2 false T }) := by
  unfold rrHeader
  simp only [bind, Except.bind, hfirst]
  simp only [identToken, hcv, pure, Except.pure, liftT, unget_after]
  have := getIdent_ungotten d1 false (renderSep s2 ++ (tyT ++ T)) clsT
  simp only [identToken] at this
  rw [this]
  simp only [hc, ne_eq, not_true_eq_false, if_false]
  rw [getIdent_word s2 tyT _ d1 d2 false h2 ok3 ne3 hT]
  simp only [identToken, hnv, unget_after]
  have := getIdent_ungotten d2 false T tyT
  simp only [identToken] at this
  rw [this]
  simp [hty, PState.inheritedTTL]

/-- `<type>` alone: class and TTL inherited -/
theorem rrHeader_type_only (r : PState) (tyT T : List Nat) (d1 : Nat) (ty : Nat)
    (hfirst : getIdent r.tok = .ok (identToken tyT, after d1 false T))
    (hnv : ttlOf tyT = none) (hnc : classFromText tyT = none) (hty : typeFromText tyT = some ty) :
    rrHeader r = .ok ((r.inheritedTTL, ty), { r with tok := after d1 false T }) := by
  unfold rrHeader
  simp only [bind, Except.bind, hfirst]
  have hu := getIdent_ungotten d1 false T tyT
  simp only [identToken] at hu
  simp only [identToken, hnv, pure, Except.pure, liftT, unget_after, hu, hnc, ne_eq, not_true_eq_false, if_false]
  simp [hty, PState.inheritedTTL]

/-! ## the owner field -/

theorem get_ungotten_none (s s' : TState) (t : Token) (a b : Bool) (h : s.get a b = .ok (t, s')) :
    s'.ungotten = none := by
  unfold TState.get at h
  simp only at h
  split at h
  · simp only [Except.ok.injEq, Prod.mk.injEq] at h; rw [← h.2]
  · split at h
    · simp only [Except.ok.injEq, Prod.mk.injEq] at h; rw [← h.2]
    · split at h
      · cases h
      · simp only [Except.ok.injEq, Prod.mk.injEq] at h; rw [← h.2]

/-- an owner outside the zone: the rest of the line is eaten unparsed, the line denotes no record, and only
`last_name` changes -/
theorem rrOwner_out_of_zone (r : PState) (t : Token) (s : TState) (co zo n : Name)
    (hco : r.currentOrigin = some co) (hzo : r.zoneOrigin = some zo)
    (hget : r.tok.get (wantLeading := true) = .ok (t, s)) (hty : t.ttype ≠ .whitespace)
    (hn : t.asName (some co) false none = .ok n) (hout : isSubdomain n zo = false) :
    rrOwner r = (eatLine (s.input.length + 2) s).map fun s' => (none, { r with tok := s', lastName := some n }) := by
  unfold rrOwner
  simp only [hco, bind, Except.bind, liftT, hget, hty, ne_eq, not_false_eq_true, if_true, hn, pure, Except.pure, hzo,
    hout, Bool.not_false]
  cases eatLine (s.input.length + 2) s <;> rfl

/-- owner name as stored in the zone -/
def ownerInZone (rel : Bool) (n zo : Name) : RM Name :=
  if rel then (match relativize n zo with | .ok m => .ok m | .error e => .error (.ofName e)) else .ok n

/-- an explicit owner inside the zone -/
theorem rrOwner_explicit (r : PState) (t : Token) (s : TState) (co zo n : Name)
    (hco : r.currentOrigin = some co) (hzo : r.zoneOrigin = some zo)
    (hget : r.tok.get (wantLeading := true) = .ok (t, s)) (hty : t.ttype ≠ .whitespace)
    (hn : t.asName (some co) false none = .ok n) (hin : isSubdomain n zo = true) :
    rrOwner r = (ownerInZone r.relativize n zo).map fun m => (some m, { r with tok := s, lastName := some n }) := by
  unfold rrOwner ownerInZone
  simp only [hco, bind, Except.bind, liftT, hget, hty, ne_eq, not_false_eq_true, if_true, hn, pure, Except.pure, hzo,
    hin, Bool.not_true, Bool.false_eq_true, if_false]
  cases r.relativize
  · simp [Except.map]
  · simp only [if_true]
    cases relativize n zo <;> simp [Except.map]

/-- an inherited owner (the line starts with whitespace and is not blank): the owner is `last_name` -/
theorem rrOwner_inherited (r : PState) (t t2 : Token) (s s2 : TState) (co zo n : Name)
    (hco : r.currentOrigin = some co) (hzo : r.zoneOrigin = some zo) (hln : r.lastName = some n)
    (hget : r.tok.get (wantLeading := true) = .ok (t, s)) (hty : t.ttype = .whitespace)
    (hget2 : s.get = .ok (t2, s2)) (hne : t2.isEolOrEof = false) (hin : isSubdomain n zo = true) :
    rrOwner r = (ownerInZone r.relativize n zo).map fun m => (some m, { r with tok := { s2 with ungotten := some t2 } }) := by
  have hu : s2.ungotten = none := get_ungotten_none s s2 t2 false false hget2
  unfold rrOwner ownerInZone
  simp only [hco, bind, Except.bind, liftT, hget, hty, ne_eq, not_true_eq_false, if_false, hget2, hne, Bool.false_eq_true,
    TState.unget, hu, Option.isSome_none, pure, Except.pure, hln, hzo, hin, Bool.not_true]
  cases r.relativize
  · simp [Except.map]
  · simp only [if_true]
    cases relativize n zo <;> simp [Except.map]

/-- a blank line that starts with whitespace -/
theorem rrOwner_blank (r : PState) (t t2 : Token) (s s2 : TState) (co : Name)
    (hco : r.currentOrigin = some co)
    (hget : r.tok.get (wantLeading := true) = .ok (t, s)) (hty : t.ttype = .whitespace)
    (hget2 : s.get = .ok (t2, s2)) (he : t2.isEolOrEof = true) :
    rrOwner r = .ok (none, { r with tok := s2 }) := by
  unfold rrOwner
  simp [hco, bind, Except.bind, liftT, hget, hty, hget2, he, pure, Except.pure]

end Model

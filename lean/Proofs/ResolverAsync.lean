import Model.Resolver
import Model.ResolverAsync
import Proofs.ResolverStep
/-!
Helper lemmas for C16, part 11: the coroutine model of the asyncio resolver, driven by an event loop whose timers
fire on time, takes exactly the steps of the synchronous loop.
-/
set_option linter.unusedSimpArgs false
namespace Model.Resolver
open Model

/-- the tail of one synchronous pass after the reply arrived -/
def syncTail (env : Env) (q : Name) (ns : Server) (tcp : Bool) (t : Nat) (evs0 : List Event) (st3 : St)
    (out : Outcome) : StepR :=
  match queryResult env st3 ns out with
  | .raise r st4 => .done (evs0 ++ [.query q ns tcp t out]) r st4
  | .ret (some a) _ st4 => .done (evs0 ++ [.query q ns tcp t out]) (.answer a) st4
  | .ret none done st4 => .cont (evs0 ++ [.query q ns tcp t out]) (if done then { st4 with phase := .needRequest } else st4)

theorem aResumeQuery_toStep (env : Env) (ns : Server) (tcp : Bool) (t : Nat) (evs0 : List Event) (st2 : St)
    (out : Outcome) (n : Nat) (s : List ScriptStep) :
    (aResumeQuery env ns tcp t evs0 st2 out n s).toStep =
      syncTail env st2.qname ns tcp t evs0 { st2 with now := n, script := s } out := by
  unfold aResumeQuery syncTail
  simp only
  generalize queryResult env { st2 with now := n, script := s } ns out = qr
  cases qr with
  | raise r st4 => rfl
  | ret a d st4 => cases a <;> rfl

theorem aService_aResumeQuery (env : Env) (loop : EventLoop) (ns : Server) (tcp : Bool) (t : Nat) (evs0 : List Event)
    (st2 : St) (out : Outcome) (n : Nat) (s : List ScriptStep) :
    aService env loop (aResumeQuery env ns tcp t evs0 st2 out n s) = aResumeQuery env ns tcp t evs0 st2 out n s := by
  unfold aResumeQuery
  simp only
  generalize queryResult env { st2 with now := n, script := s } ns out = qr
  cases qr with
  | raise r st4 => rfl
  | ret a d st4 => cases a <;> rfl

/-- after the sleep (or without one), serviced by the exact loop -/
theorem aAfterSleep_serviced (env : Env) (ns : Server) (tcp : Bool) (evs0 : List Event) (st2 : St) :
    (aService env exactLoop (aAfterSleep env ns tcp evs0 st2)).toStep =
      match computeTimeout env st2.now with
      | none => .done evs0 .lifetimeTimeout st2
      | some t =>
        syncTail env st2.qname ns tcp t evs0
          { st2 with now := st2.now + (doQuery st2.script t).2.1, script := (doQuery st2.script t).2.2 }
          (doQuery st2.script t).1 := by
  unfold aAfterSleep
  cases computeTimeout env st2.now with
  | none => rfl
  | some t =>
    simp only [aService, exactLoop]
    exact aResumeQuery_toStep ..

theorem afterPick_eq (env : Env) (q : Name) (ns : Server) (tcp : Bool) (b : Nat) (st1 : St) :
    afterPick env q ns tcp b st1 =
      match computeTimeout env (st1.now + sleepFor env b st1.now) with
      | none => .done (if b ≠ 0 then [.sleep (sleepFor env b st1.now)] else []) .lifetimeTimeout
          { st1 with now := st1.now + sleepFor env b st1.now }
      | some t =>
        syncTail env q ns tcp t (if b ≠ 0 then [.sleep (sleepFor env b st1.now)] else [])
          { st1 with now := st1.now + sleepFor env b st1.now + (doQuery st1.script t).2.1,
                     script := (doQuery st1.script t).2.2 }
          (doQuery st1.script t).1 := by
  unfold afterPick syncTail
  simp only
  cases computeTimeout env (st1.now + sleepFor env b st1.now) <;> rfl

theorem aPass_eq_step (env : Env) (st : St) : aPass env exactLoop st = step env st := by
  unfold aPass aTop step
  cases hph : st.phase with
  | needRequest =>
    simp only
    cases nextRequest env st.qnames st <;> rfl
  | querying =>
    simp only
    cases hns : nextNameserver env st with
    | raise r => rfl
    | ok ns tcp b st1 =>
      have hq : st1.qname = st.qname := (nextNameserver_ok hns).1.2.2.1
      simp only
      rw [afterPick_eq]
      by_cases hb : b = 0
      · subst hb
        have hz : sleepFor env 0 st1.now = 0 := by unfold sleepFor; split <;> simp
        simp only [ne_eq, not_true_eq_false, if_false, hz, Nat.add_zero]
        -- no sleep: the first service answers the query, the second finds nothing to do
        have h1 : aService env exactLoop (aService env exactLoop (aAfterSleep env ns tcp [] st1))
            = aService env exactLoop (aAfterSleep env ns tcp [] st1) := by
          unfold aAfterSleep
          cases computeTimeout env st1.now with
          | none => rfl
          | some t =>
            simp only [aService]
            exact aService_aResumeQuery ..
        rw [h1, aAfterSleep_serviced]
        cases st1
        simp only at hq
        subst hq
        rfl
      · simp only [ne_eq, hb, not_false_eq_true, if_true]
        have hms : (if env.clipSleep = true then min b (env.lifetime - (st1.now - env.start)) else b)
            = sleepFor env b st1.now := by unfold sleepFor; rfl
        rw [hms]
        have h2 : aService env exactLoop
            (AOut.await (Await.sleep (sleepFor env b st1.now)) (Kont.afterSleep ns tcp (sleepFor env b st1.now)) st1)
            = aAfterSleep env ns tcp [.sleep (sleepFor env b st1.now)]
                { st1 with now := st1.now + sleepFor env b st1.now } := rfl
        rw [h2, aAfterSleep_serviced]
        simp only [hq]

theorem arun_eq_run (env : Env) : ∀ (fuel : Nat) (st : St), arun env exactLoop fuel st = run env fuel st
  | 0, st => rfl
  | fuel + 1, st => by
    unfold arun run
    rw [aPass_eq_step]
    cases step env st with
    | done evs r st' => rfl
    | cont evs st' => simp only [arun_eq_run env fuel st']

end Model.Resolver

/-!
RFC 8945 §4.3 ("Digest components") and §5.3.1 (multi-message exchanges) written down independently of the
model of the code: own big-endian encoder, own canonical name form, own algorithm table (§6).
Nothing here mentions a model function; the lemmas connecting the two are in `Proofs/TsigDigest.lean`.
-/
namespace Rfc8945

/-- an unsigned integer in `k` octets, network order -/
def be : Nat → Nat → List Nat
  | 0, _ => []
  | k + 1, n => be k (n / 256) ++ [n % 256]

/-- RFC 4034 §6.2 / RFC 8945 §4.3.3 "canonical wire format": upper-case US-ASCII letters become lower case -/
def fold (c : Nat) : Nat := if 65 ≤ c ∧ c ≤ 90 then c + 32 else c

/-- a domain name (list of labels, the last one empty) in canonical wire format, uncompressed -/
def canon (n : List (List Nat)) : List Nat := (n.map fun l => l.length :: l.map fold).flatten

/-- the TSIG variables of §4.3.3 that are not constants -/
structure Vars where
  name : List (List Nat)      -- key name
  alg : List (List Nat)       -- algorithm name
  time : Nat                  -- time signed (48 bits)
  fudge : Nat
  error : Nat
  other : List Nat

/-- §4.3.1: a MAC "including the MAC Size field as two octets" -/
def macField (m : List Nat) : List Nat := be 2 m.length ++ m

/-- §4.3.2: the message without its TSIG RR and with ARCOUNT decremented (`msg`), its ID replaced by the
original ID -/
def message (origId : Nat) (msg : List Nat) : List Nat := be 2 origId ++ msg.drop 2

/-- §4.3.3, in the order of the table: NAME, CLASS (ANY = 255), TTL (0), Algorithm Name, Time Signed, Fudge,
Error, Other Len, Other Data -/
def variables (v : Vars) : List Nat :=
  canon v.name ++ be 2 255 ++ be 4 0 ++ canon v.alg ++ be 6 v.time ++ be 2 v.fudge ++ be 2 v.error
    ++ be 2 v.other.length ++ v.other

/-- §5.3.1 "TSIG Timers": Time Signed and Fudge -/
def timers (v : Vars) : List Nat := be 6 v.time ++ be 2 v.fudge

/-- a request, or any message not bound to a request MAC -/
def requestInput (origId : Nat) (msg : List Nat) (v : Vars) : List Nat := message origId msg ++ variables v

/-- a response (or the first envelope of a multi-message response) to a request whose MAC was `reqMac` -/
def responseInput (reqMac : List Nat) (origId : Nat) (msg : List Nat) (v : Vars) : List Nat :=
  macField reqMac ++ message origId msg ++ variables v

/-- §5.3.1, second and later signed envelopes: prior MAC (running), any unsigned messages since the last TSIG,
this message, the timers.  (Reading fixed here: the prior MAC is digested like a request MAC, with its size.) -/
def laterInput (priorMac : List Nat) (unsignedSince : List (List Nat)) (origId : Nat) (msg : List Nat) (v : Vars) :
    List Nat :=
  macField priorMac ++ unsignedSince.flatten ++ message origId msg ++ timers v

/-- the received message with the TSIG RR (which starts at `tsigStart`) removed and ARCOUNT decremented -/
def stripTsig (wire : List Nat) (tsigStart : Nat) : List Nat :=
  wire.take 10 ++ be 2 ((wire.getD 10 0 * 256 + wire.getD 11 0) - 1) ++ (wire.take tsigStart).drop 12

/-- one envelope of an exchange as the validating side sees it -/
inductive Envelope where
  | signed (wire : List Nat) (tsigStart : Nat) (origId : Nat) (v : Vars) (mac : List Nat)
  | unsigned (wire : List Nat)

/-- the MAC inputs of all signed envelopes of an exchange; `prior` = MAC of the last signed envelope and the
unsigned envelopes seen since (none before the first signed envelope) -/
def exchangeInputs (reqMac : List Nat) : Option (List Nat × List (List Nat)) → List Envelope → List (List Nat)
  | _, [] => []
  | none, .unsigned _ :: rest => exchangeInputs reqMac none rest
  | some (m, us), .unsigned w :: rest => exchangeInputs reqMac (some (m, us ++ [w])) rest
  | none, .signed w s oid v mac :: rest =>
    (if reqMac = [] then requestInput oid (stripTsig w s) v else responseInput reqMac oid (stripTsig w s) v)
      :: exchangeInputs reqMac (some (mac, [])) rest
  | some (m, us), .signed w s oid v mac :: rest =>
    laterInput m us oid (stripTsig w s) v :: exchangeInputs reqMac (some (mac, [])) rest

/-- §6: algorithm name (lower case labels) ↦ (hash, octets of MAC output).  Hash ids as in
`harness/extract_C14.py`: 1 MD5, 2 SHA-1, 3 SHA-224, 4 SHA-256, 5 SHA-384, 6 SHA-512. -/
def algorithms : List (List (List Nat) × Nat × Nat) := [
  -- hmac-md5.sig-alg.reg.int
  ([[104,109,97,99,45,109,100,53],[115,105,103,45,97,108,103],[114,101,103],[105,110,116],[]], 1, 16),
  ([[104,109,97,99,45,115,104,97,49],[]], 2, 20),                       -- hmac-sha1
  ([[104,109,97,99,45,115,104,97,50,50,52],[]], 3, 28),                 -- hmac-sha224
  ([[104,109,97,99,45,115,104,97,50,53,54],[]], 4, 32),                 -- hmac-sha256
  ([[104,109,97,99,45,115,104,97,50,53,54,45,49,50,56],[]], 4, 16),     -- hmac-sha256-128
  ([[104,109,97,99,45,115,104,97,51,56,52],[]], 5, 48),                 -- hmac-sha384
  ([[104,109,97,99,45,115,104,97,51,56,52,45,49,57,50],[]], 5, 24),     -- hmac-sha384-192
  ([[104,109,97,99,45,115,104,97,53,49,50],[]], 6, 64),                 -- hmac-sha512
  ([[104,109,97,99,45,115,104,97,53,49,50,45,50,53,54],[]], 6, 32)      -- hmac-sha512-256
]

/-- full output length of each hash (FIPS 180-4, RFC 1321) -/
def hashLen : Nat → Nat
  | 1 => 16 | 2 => 20 | 3 => 28 | 4 => 32 | 5 => 48 | 6 => 64 | _ => 0

end Rfc8945

import Proofs.ParseRR
/-! `find_rrset` + `Rdataset.add` rebuild a well-formed record set from its records; parsing all records of a
rendered record set. -/
namespace Model

variable {Rs : RelSpec}

/-! ### parser state plumbing -/

theorem section_setSection (st : PState) (sec : Nat) (l : List RRset) : (st.setSection sec l).section sec = l := by
  unfold PState.setSection PState.section
  by_cases h0 : sec = 0
  · simp [h0]
  · by_cases h1 : sec = 1
    · simp [h1]
    · by_cases h2 : sec = 2
      · simp [h2]
      · simp [h0, h1, h2]

theorem setSection_setSection (st : PState) (sec : Nat) (l1 l2 : List RRset) (c : Nat) :
    ({ (st.setSection sec l1) with cur := c } : PState).setSection sec l2 = ({ st with cur := c } : PState).setSection sec l2 := by
  unfold PState.setSection
  by_cases h0 : sec = 0
  · simp [h0]
  · by_cases h1 : sec = 1
    · simp [h1]
    · by_cases h2 : sec = 2
      · simp [h2]
      · simp [h0, h1, h2]

theorem cur_setSection (st : PState) (sec : Nat) (l : List RRset) : (st.setSection sec l).cur = st.cur := by
  unfold PState.setSection
  split
  · rfl
  · split
    · rfl
    · split <;> rfl

/-! ### similarity -/

/-- element-wise relation of two lists of equal length -/
inductive SimList {α : Type} (R : α → α → Prop) : List α → List α → Prop
  | nil : SimList R [] []
  | cons {a b : α} {as bs : List α} : R a b → SimList R as bs → SimList R (a :: as) (b :: bs)

theorem SimList.snoc {α : Type} {R : α → α → Prop} {as bs : List α} {a b : α} (h : SimList R as bs) (hab : R a b) :
    SimList R (as ++ [a]) (bs ++ [b]) := by
  induction h with
  | nil => exact SimList.cons hab SimList.nil
  | cons h1 _ ih => exact SimList.cons h1 ih

theorem SimList.length_eq {α : Type} {R : α → α → Prop} {as bs : List α} (h : SimList R as bs) : as.length = bs.length := by
  induction h with
  | nil => rfl
  | cons _ _ ih => simp [ih]

theorem SimList.mem_left {α : Type} {R : α → α → Prop} {as bs : List α} (h : SimList R as bs) {a : α} (ha : a ∈ as) :
    ∃ b ∈ bs, R a b := by
  induction h with
  | nil => simp at ha
  | cons h1 _ ih =>
    rcases List.mem_cons.mp ha with rfl | h'
    · exact ⟨_, by simp, h1⟩
    · obtain ⟨b, hb, hr⟩ := ih h'
      exact ⟨b, by simp [hb], hr⟩

def RRset.sim (Rs : RelSpec) (a b : RRset) : Prop :=
  Rs.R a.name b.name ∧ a.rdclass = b.rdclass ∧ a.rdtype = b.rdtype ∧ a.covers = b.covers ∧
    a.deleting = b.deleting ∧ a.ttl = b.ttl ∧ SimList (RData.sim Rs) a.rdatas b.rdatas

theorem eqv_of_sim {a a' b b' : RData} (ha : a'.sim Rs a) (hb : b'.sim Rs b) : a'.eqv b' = a.eqv b := by
  cases a <;> cases a' <;> simp only [RData.sim] at ha <;> (try exact ha.elim) <;>
    cases b <;> cases b' <;> simp only [RData.sim] at hb <;> (try exact hb.elim) <;> simp only [RData.eqv]
  · rw [ha, hb]
  · have h1 : lowerName _ = lowerName _ := Rs.toEqv ha
    have h2 : lowerName _ = lowerName _ := Rs.toEqv hb
    rw [h1, h2]
  · have h1 : lowerName _ = lowerName _ := Rs.toEqv ha.2
    have h2 : lowerName _ = lowerName _ := Rs.toEqv hb.2
    rw [ha.1, hb.1, h1, h2]
  · obtain ⟨a1, a2, a3, a4, a5, a6, a7⟩ := ha
    obtain ⟨b1, b2, b3, b4, b5, b6, b7⟩ := hb
    have h1 : lowerName _ = lowerName _ := Rs.toEqv a1
    have h2 : lowerName _ = lowerName _ := Rs.toEqv a2
    have h3 : lowerName _ = lowerName _ := Rs.toEqv b1
    have h4 : lowerName _ = lowerName _ := Rs.toEqv b2
    rw [h1, h2, h3, h4, a3, a4, a5, a6, a7, b3, b4, b5, b6, b7]

theorem rdCovers_of_sim {rdtype : Nat} {a a' : RData} (h : a'.sim Rs a) : rdCovers rdtype a' = rdCovers rdtype a := by
  cases a <;> cases a' <;> simp only [RData.sim] at h <;> (try exact h.elim) <;> simp [rdCovers]
  rw [h]

/-! ### `find_rrset` / `add` -/

theorem updLast_append_last (p : RRset → Bool) (f : RRset → RRset) (L : List RRset) (x : RRset) (hx : p x = true) :
    updLast p f (L ++ [x]) = some (L ++ [f x]) := by
  induction L with
  | nil => simp [updLast, hx]
  | cons y rest ih => simp [updLast, ih]

theorem updLast_none (p : RRset → Bool) (f : RRset → RRset) (L : List RRset) (h : ∀ x ∈ L, p x = false) :
    updLast p f L = none := by
  induction L with
  | nil => rfl
  | cons y rest ih =>
    simp only [updLast]
    rw [ih (fun x hx => h x (by simp [hx]))]
    simp [h y (by simp)]

/-- first record of a record set whose key is new in the section -/
theorem sectionAdd_first (L : List RRset) (name : Name) (rdclass rdtype covers : Nat) (rd : RData) (ttl : Nat)
    (hnew : ∀ x ∈ L, keyMatch name rdclass rdtype covers none x = false) :
    sectionAdd L name rdclass rdtype covers none false (some (rd, ttl)) =
      L ++ [{ name := name, rdclass := rdclass, rdtype := rdtype, covers := covers, deleting := none, ttl := ttl,
              rdatas := [rd] }] := by
  unfold sectionAdd
  simp only [Bool.false_eq_true, if_false]
  rw [updLast_none _ _ L hnew]
  simp [rrsetAdd]

/-- a further record of the record set that is being built at the end of the section -/
theorem sectionAdd_next (L : List RRset) (cur : RRset) (name : Name) (rd : RData)
    (hname : lowerName cur.name = lowerName name) (hdel : cur.deleting = none)
    (hne : cur.rdatas ≠ []) (hsing : cur.rdtype ∉ ConstsC03.singletons)
    (hfresh : ∀ x ∈ cur.rdatas, x.eqv rd = false) :
    sectionAdd (L ++ [cur]) name cur.rdclass cur.rdtype cur.covers none false (some (rd, cur.ttl)) =
      L ++ [{ cur with rdatas := cur.rdatas ++ [rd] }] := by
  unfold sectionAdd
  simp only [Bool.false_eq_true, if_false]
  have hk : keyMatch name cur.rdclass cur.rdtype cur.covers none cur = true := by
    simp [keyMatch, hname, hdel]
  rw [updLast_append_last _ _ L cur hk]
  simp only
  congr 2
  unfold rrsetAdd
  have h0 : ¬ cur.rdatas.length = 0 := by
    intro h; exact hne (List.length_eq_zero_iff.mp h)
  have hany : (cur.rdatas.any fun x => x.eqv rd) = false := by
    rw [List.any_eq_false]; intro x hx; simp [hfresh x hx]
  simp [h0, hsing, hany]

end Model

namespace Model

theorem setSection_self (st : PState) (sec : Nat) : ({ st with cur := st.cur } : PState).setSection sec (st.section sec) = st := by
  unfold PState.setSection PState.section
  by_cases h0 : sec = 0
  · simp [h0]
  · by_cases h1 : sec = 1
    · simp [h1]
    · by_cases h2 : sec = 2
      · simp [h2]
      · simp [h0, h1, h2]

/-- the record set under construction at the end of a section agrees with what has been read so far -/
structure CurOk (Rs : RelSpec) (cur : RRset) (owner : Name) (rdclass rdtype cov ttl : Nat) (done : List RData) : Prop where
  name : Rs.R cur.name owner
  rdclass : cur.rdclass = rdclass
  rdtype : cur.rdtype = rdtype
  covers : cur.covers = cov
  deleting : cur.deleting = none
  ttl : cur.ttl = ttl
  rdatas : SimList (RData.sim Rs) cur.rdatas done

/-- reading the remaining records of a record set -/
theorem parseSection_rds (cfg : PCfg) (horg : cfg.origin = none) (hnorr : cfg.oneRRPerRRset = false)
    (owner : Name) (rdtype rdclass ttl cov : Nat) (hown : NameOk Rs none owner) (ht : rdtype < 65536)
    (hc : rdclass < 65536) (httl : ttl ≤ ConstsC03.ttlClampAbove)
    (hns : rdtype ≠ ConstsC03.typeOPT ∧ rdtype ≠ ConstsC03.typeTSIG) (rest : List RData) :
    ∀ (A post : Bytes) (t : CTable) (q : Bytes × CTable) (sec count i : Nat) (st : PState) (L : List RRset)
      (cur : RRset) (done : List RData),
      st.cur = A.length → TableSound Rs.R A t → st.section sec = L ++ [cur] →
      CurOk Rs cur owner rdclass rdtype cov ttl done → done ≠ [] →
      (∀ rd ∈ rest, rd.valid Rs ∧ shapeOf rdtype = rd.shape ∧ rdCovers rdtype rd = cov) →
      (∀ rd ∈ rest, ∀ x ∈ done, x.eqv rd = false) → rest.Pairwise (fun a b => a.eqv b = false) →
      (rest ≠ [] → rdtype ∉ ConstsC03.singletons) →
      rdsExt owner rdtype rdclass ttl none A.length t rest = .ok q →
      ∃ cur', parseSection cfg false (A ++ q.1 ++ post) sec count rest.length i st =
          .ok (({ st with cur := A.length + q.1.length } : PState).setSection sec (L ++ [cur']))
        ∧ CurOk Rs cur' owner rdclass rdtype cov ttl (done ++ rest) ∧ TableSound Rs.R (A ++ q.1) (t ++ q.2) := by
  induction rest with
  | nil =>
    intro A post t q sec count i st L cur done hcur hs hsec hcok _ _ _ _ _ h
    simp [rdsExt] at h
    subst h
    refine ⟨cur, ?_, by simpa using hcok, by simpa using hs⟩
    simp only [parseSection, List.length_nil, Nat.add_zero]
    rw [← hcur, ← hsec, setSection_self]
  | cons rd rest ih =>
    intro A post t q sec count i st L cur done hcur hs hsec hcok hdne hall hfresh hpw hsing h
    unfold rdsExt at h
    cases h1 : rrExt owner rdtype rdclass ttl none A.length t rd with
    | error e => rw [h1] at h; simp at h
    | ok q1 =>
      rw [h1] at h; simp only at h
      cases h2 : rdsExt owner rdtype rdclass ttl none (A.length + q1.1.length) (t ++ q1.2) rest with
      | error e => rw [h2] at h; simp at h
      | ok q2 =>
        rw [h2] at h; simp only at h; cases h
        obtain ⟨hv, hshape, hcov⟩ := hall rd (by simp)
        have hW : A ++ (q1.1 ++ q2.1) ++ post = A ++ q1.1 ++ (q2.1 ++ post) := by simp [List.append_assoc]
        obtain ⟨owner', rd', hown', hsim, hp⟩ := parseRR_of_rrExt cfg horg A (q2.1 ++ post) t owner rdtype rdclass ttl rd
          q1 sec count i st hcur hs hown hv hshape ht hc httl hns h1
        -- the merge
        have hsn : rdtype ∉ ConstsC03.singletons := hsing (by simp)
        have hne : cur.rdatas ≠ [] := by
          intro he
          have := hcok.rdatas.length_eq
          rw [he] at this
          exact hdne (List.length_eq_zero_iff.mp this.symm)
        have hfr : ∀ x ∈ cur.rdatas, x.eqv rd' = false := by
          intro x hx
          obtain ⟨d, hd, hxd⟩ := hcok.rdatas.mem_left hx
          rw [eqv_of_sim hxd hsim]
          exact hfresh rd (by simp) d hd
        have hadd : sectionAdd (st.section sec) owner' rdclass rdtype (rdCovers rdtype rd') none cfg.oneRRPerRRset
            (some (rd', ttl)) = L ++ [{ cur with rdatas := cur.rdatas ++ [rd'] }] := by
          rw [hsec, hnorr, rdCovers_of_sim hsim, hcov, ← hcok.rdclass, ← hcok.rdtype, ← hcok.covers, ← hcok.ttl]
          exact sectionAdd_next L cur owner' rd' ((Rs.toEqv hcok.name).trans (Rs.toEqv hown').symm) hcok.deleting hne
            (by rw [hcok.rdtype]; exact hsn) hfr
        rw [hadd] at hp
        -- the remaining records
        have hs1 := rrExt_sound owner rdtype rdclass ttl none A t rd q1 hown (RData.valid_namesOk hv) hs h1
        have hl : (A ++ q1.1).length = A.length + q1.1.length := by simp
        have hcok1 : CurOk Rs { cur with rdatas := cur.rdatas ++ [rd'] } owner rdclass rdtype cov ttl (done ++ [rd]) :=
          ⟨hcok.name, hcok.rdclass, hcok.rdtype, hcok.covers, hcok.deleting, hcok.ttl, hcok.rdatas.snoc hsim⟩
        obtain ⟨cur', hp2, hcok', hs2⟩ := ih (A ++ q1.1) post (t ++ q1.2) q2 sec count (i + 1)
          (({ st with cur := A.length + q1.1.length } : PState).setSection sec (L ++ [{ cur with rdatas := cur.rdatas ++ [rd'] }]))
          L { cur with rdatas := cur.rdatas ++ [rd'] } (done ++ [rd])
          (by rw [cur_setSection, hl]) hs1 (section_setSection _ _ _) hcok1 (by simp)
          (fun x hx => hall x (by simp [hx]))
          (by
            intro x hx d hd
            rcases List.mem_append.mp hd with hd | hd
            · exact hfresh x (by simp [hx]) d hd
            · simp at hd; subst hd
              exact (List.pairwise_cons.mp hpw).1 x hx)
          (List.pairwise_cons.mp hpw).2 (fun _ => hsn) (by rw [hl]; exact h2)
        refine ⟨cur', ?_, by simpa [List.append_assoc] using hcok', by simpa [List.append_assoc] using hs2⟩
        simp only [List.length_cons, parseSection]
        rw [hW, hp]
        simp only
        have hW2 : A ++ q1.1 ++ (q2.1 ++ post) = A ++ q1.1 ++ q2.1 ++ post := by simp [List.append_assoc]
        rw [hW2, hp2, setSection_setSection]
        simp [hl, List.length_append, Nat.add_assoc]

end Model

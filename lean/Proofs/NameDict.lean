import Model.NameDict
import Proofs.NameOrder3
/-!
Helper lemmas for C06 (deepening): `dns.namedict.NameDict.get_deepest_match` returns the longest key
that is a superdomain of the queried name — provided `max_depth` is an upper bound of the label counts of
the keys, which `__setitem__` / `__delitem__` maintain over every history.
-/
namespace Model
namespace NameDictProofs
open NameOrder

/-- `max_depth` bounds the label count of every key -/
def DepthOk (d : NDict) : Prop := ∀ p ∈ d.store, p.1.length ≤ d.maxDepth

theorem nameEq_length {a b : Name} (h : nameEq a b = true) : a.length = b.length := by
  have := congrArg List.length ((nameEq_iff a b).1 h)
  simpa [lowerName] using this

theorem updateMaxDepth_store (d : NDict) (k : Name) : (updateMaxDepth d k).store = d.store := by
  unfold updateMaxDepth
  split
  · rfl
  · split <;> rfl

theorem updateMaxDepth_ge (d : NDict) (k : Name) :
    d.maxDepth ≤ (updateMaxDepth d k).maxDepth ∧ k.length ≤ (updateMaxDepth d k).maxDepth := by
  unfold updateMaxDepth
  by_cases h1 : k.length = d.maxDepth
  · rw [if_pos h1]; simp only; omega
  · rw [if_neg h1]
    by_cases h2 : k.length > d.maxDepth
    · rw [if_pos h2]; simp only; omega
    · rw [if_neg h2]; omega

theorem storeSet_keys (st : List (Name × Nat)) (k : Name) (v : Nat) :
    ∀ p ∈ storeSet st k v, p.1.length = k.length ∨ ∃ q ∈ st, q.1 = p.1 := by
  induction st with
  | nil => intro p hp; simp [storeSet] at hp; subst hp; exact Or.inl rfl
  | cons x rest ih =>
    obtain ⟨xk, xv⟩ := x
    intro p hp
    unfold storeSet at hp
    by_cases hx : nameEq xk k = true
    · simp only [hx, if_true] at hp
      rcases List.mem_cons.1 hp with e | e
      · subst e; exact Or.inr ⟨(xk, xv), by simp, rfl⟩
      · exact Or.inr ⟨p, by simp [e], rfl⟩
    · simp only [hx, if_false] at hp
      rcases List.mem_cons.1 hp with e | e
      · subst e; exact Or.inr ⟨(xk, xv), by simp, rfl⟩
      · rcases ih p e with h | ⟨q, hq, hq'⟩
        · exact Or.inl h
        · exact Or.inr ⟨q, by simp [hq], hq'⟩

theorem depthOk_set (d : NDict) (k : Name) (v : Nat) (h : DepthOk d) : DepthOk (ndSet d k v) := by
  unfold ndSet DepthOk
  rw [updateMaxDepth_store]
  obtain ⟨g1, g2⟩ := updateMaxDepth_ge { d with store := storeSet d.store k v } k
  intro p hp
  rcases storeSet_keys d.store k v p hp with e | ⟨q, hq, hq'⟩
  · omega
  · have := h q hq
    simp only at g1
    rw [← hq']; omega

theorem foldl_update_store (l : List (Name × Nat)) (acc : NDict) :
    (l.foldl (fun a p => updateMaxDepth a p.1) acc).store = acc.store := by
  induction l generalizing acc with
  | nil => rfl
  | cons x xs ih => simp only [List.foldl_cons]; rw [ih, updateMaxDepth_store]

theorem foldl_update_ge (l : List (Name × Nat)) (acc : NDict) :
    acc.maxDepth ≤ (l.foldl (fun a p => updateMaxDepth a p.1) acc).maxDepth ∧
      ∀ p ∈ l, p.1.length ≤ (l.foldl (fun a p => updateMaxDepth a p.1) acc).maxDepth := by
  induction l generalizing acc with
  | nil => exact ⟨Nat.le_refl _, by intro p hp; cases hp⟩
  | cons x xs ih =>
    simp only [List.foldl_cons]
    obtain ⟨g1, g2⟩ := updateMaxDepth_ge acc x.1
    obtain ⟨i1, i2⟩ := ih (updateMaxDepth acc x.1)
    refine ⟨by omega, ?_⟩
    intro p hp
    rcases List.mem_cons.1 hp with e | e
    · subst e; omega
    · exact i2 p e

theorem depthOk_recompute (d : NDict) : DepthOk (recomputeDepth d) := by
  unfold recomputeDepth DepthOk
  rw [foldl_update_store]
  exact (foldl_update_ge d.store _).2

theorem depthOk_delBook (d : NDict) (k : Name) (h : DepthOk d) : DepthOk (delBook d k) := by
  have key : ∀ d2 : NDict, DepthOk d2 → DepthOk (if d2.maxDepthItems = 0 then recomputeDepth d2 else d2) := by
    intro d2 h2
    split
    · exact depthOk_recompute _
    · exact h2
  unfold delBook
  simp only
  apply key
  split
  · exact h
  · exact h

theorem depthOk_del (d d' : NDict) (k : Name) (h : DepthOk d) (hd : ndDel d k = some d') : DepthOk d' := by
  unfold ndDel at hd
  split at hd
  · cases hd
  · simp only [Option.some.injEq] at hd
    subst hd
    apply depthOk_delBook
    intro p hp
    exact h p (List.mem_filter.1 hp).1

/-! ## the lookup loop -/

theorem tryFrom_some (st : List (Name × Nat)) (name : Name) (j : Nat) (k : Name) (v : Nat)
    (h : tryFrom st name j = some (k, v)) :
    ∃ i, 1 ≤ i ∧ i ≤ j ∧ k = name.drop (name.length - i) ∧ ndFind st k = some v ∧
      ∀ i', i < i' → i' ≤ j → ndFind st (name.drop (name.length - i')) = none := by
  induction j with
  | zero => simp [tryFrom] at h
  | succ j ih =>
    unfold tryFrom at h
    split at h
    · rename_i v' hv
      simp only [Option.some.injEq, Prod.mk.injEq] at h
      obtain ⟨rfl, rfl⟩ := h
      exact ⟨j + 1, by omega, by omega, rfl, hv, by intro i' h1 h2; omega⟩
    · rename_i hv
      obtain ⟨i, h1, h2, h3, h4, h5⟩ := ih h
      refine ⟨i, h1, by omega, h3, h4, ?_⟩
      intro i' g1 g2
      by_cases e : i' = j + 1
      · subst e; exact hv
      · exact h5 i' g1 (by omega)

theorem tryFrom_none (st : List (Name × Nat)) (name : Name) (j : Nat) (h : tryFrom st name j = none) :
    ∀ i', 1 ≤ i' → i' ≤ j → ndFind st (name.drop (name.length - i')) = none := by
  induction j with
  | zero => intro i' h1 h2; omega
  | succ j ih =>
    unfold tryFrom at h
    split at h
    · cases h
    · rename_i hv
      intro i' g1 g2
      by_cases e : i' = j + 1
      · subst e; exact hv
      · exact ih h i' g1 (by omega)

theorem ndFind_some (st : List (Name × Nat)) (k : Name) (v : Nat) (h : ndFind st k = some v) :
    ∃ p ∈ st, nameEq p.1 k = true ∧ p.2 = v := by
  unfold ndFind at h
  split at h
  · rename_i p hp
    simp only [Option.some.injEq] at h
    exact ⟨p, List.mem_of_find?_eq_some hp, by simpa using List.find?_some hp, h⟩
  · cases h

/-- a suffix of the name that is a key has at most `min(len(name), max_depth)` labels, so the loop tries it -/
theorem present_suffix_in_range (d : NDict) (h : DepthOk d) (name : Name) (i : Nat) (hi : i ≤ name.length)
    (hp : ndHas d.store (name.drop (name.length - i)) = true) :
    i ≤ (if name.length > d.maxDepth then d.maxDepth else name.length) := by
  unfold ndHas at hp
  cases hf : ndFind d.store (name.drop (name.length - i)) with
  | none => rw [hf] at hp; cases hp
  | some v =>
    obtain ⟨p, hp1, hp2, _⟩ := ndFind_some _ _ _ hf
    have hl := nameEq_length hp2
    rw [List.length_drop] at hl
    have := h p hp1
    split <;> omega

/-! ## histories -/

inductive NdOp where
  | set (k : Name) (v : Nat)
  | del (k : Name)

/-- run a history of `d[k] = v` / `del d[k]` (a `del` that raises KeyError leaves the dict as it is) -/
def ndRun : NDict → List NdOp → NDict
  | d, [] => d
  | d, .set k v :: ops => ndRun (ndSet d k v) ops
  | d, .del k :: ops => ndRun ((ndDel d k).getD d) ops

theorem depthOk_run (ops : List NdOp) (d : NDict) (h : DepthOk d) : DepthOk (ndRun d ops) := by
  induction ops generalizing d with
  | nil => exact h
  | cons op ops ih =>
    cases op with
    | set k v => exact ih _ (depthOk_set d k v h)
    | del k =>
      simp only [ndRun]
      cases hd : ndDel d k with
      | none => exact ih _ h
      | some d' => exact ih _ (depthOk_del d d' k h hd)

theorem deepest_some (d : NDict) (h : DepthOk d) (name k : Name) (v : Nat)
    (hr : ndDeepest d name = some (k, v)) :
    ndFind d.store k = some v ∧
    (k = [] ∨ ∃ i, 1 ≤ i ∧ i ≤ name.length ∧ k = name.drop (name.length - i)) ∧
    ∀ i, 1 ≤ i → i ≤ name.length → ndHas d.store (name.drop (name.length - i)) = true → i ≤ k.length := by
  unfold ndDeepest at hr
  simp only at hr
  cases ht : tryFrom d.store name (if name.length > d.maxDepth then d.maxDepth else name.length) with
  | some r =>
    rw [ht] at hr
    simp only [Option.some.injEq] at hr
    subst hr
    obtain ⟨i, h1, h2, h3, h4, h5⟩ := tryFrom_some _ _ _ _ _ ht
    have hin : i ≤ name.length := by split at h2 <;> omega
    refine ⟨h4, Or.inr ⟨i, h1, hin, h3⟩, ?_⟩
    intro i' g1 g2 g3
    have hr' := present_suffix_in_range d h name i' g2 g3
    have hk : k.length = i := by rw [h3, List.length_drop]; omega
    rw [hk]
    apply Classical.byContradiction
    intro hlt
    have := h5 i' (by omega) hr'
    unfold ndHas at g3
    rw [this] at g3
    cases g3
  | none =>
    rw [ht] at hr
    simp only at hr
    cases he : ndFind d.store [] with
    | none => rw [he] at hr; cases hr
    | some v' =>
      rw [he] at hr
      simp only [Option.some.injEq, Prod.mk.injEq] at hr
      obtain ⟨rfl, rfl⟩ := hr
      refine ⟨he, Or.inl rfl, ?_⟩
      intro i' g1 g2 g3
      have hr' := present_suffix_in_range d h name i' g2 g3
      have := tryFrom_none _ _ _ ht i' g1 hr'
      unfold ndHas at g3
      rw [this] at g3
      cases g3

theorem deepest_none (d : NDict) (h : DepthOk d) (name : Name) (hr : ndDeepest d name = none) :
    ndHas d.store [] = false ∧
    ∀ i, 1 ≤ i → i ≤ name.length → ndHas d.store (name.drop (name.length - i)) = false := by
  unfold ndDeepest at hr
  simp only at hr
  cases ht : tryFrom d.store name (if name.length > d.maxDepth then d.maxDepth else name.length) with
  | some r => rw [ht] at hr; cases hr
  | none =>
    rw [ht] at hr
    simp only at hr
    cases he : ndFind d.store [] with
    | some v' => rw [he] at hr; cases hr
    | none =>
      refine ⟨by simp [ndHas, he], ?_⟩
      intro i' g1 g2
      cases hh : ndHas d.store (name.drop (name.length - i')) with
      | false => rfl
      | true =>
        have hr' := present_suffix_in_range d h name i' g2 hh
        have := tryFrom_none _ _ _ ht i' g1 hr'
        unfold ndHas at hh
        rw [this] at hh
        cases hh

end NameDictProofs
end Model

import Model.Cache
/-! Helper lemmas for C17, part 3: counters; the lock-protected system equals the sequential object. -/
namespace Model.Cache

/-! ### counters -/

/-- what one lookup must do to (hits, misses): exactly one of them goes up by one -/
def countStep (hm : Nat × Nat) (op : Op) (out : Out) : Nat × Nat :=
  match op with
  | .get _ => (match out with
    | .val _ => (hm.1 + 1, hm.2)
    | _ => (hm.1, hm.2 + 1))
  | .reset => (0, 0)
  | _ => hm

def countersSpec (hm : Nat × Nat) : List (Op × Out) → Nat × Nat
  | [] => hm
  | (op, out) :: rest => countersSpec (countStep hm op out) rest

theorem maybeClean_hits (s : CState) : (maybeClean s).hits = s.hits ∧ (maybeClean s).misses = s.misses := by
  unfold maybeClean; split <;> exact ⟨rfl, rfl⟩

theorem stepC_counters (s : CState) (op : Op) :
    ((stepC s op).1.hits, (stepC s op).1.misses) = countStep (s.hits, s.misses) op (stepC s op).2 := by
  have hc := maybeClean_hits s
  cases op <;> simp only [stepC, countStep]
  case get k =>
    split
    · simp [hc.1, hc.2]
    · split <;> simp [hc.1, hc.2]
  case put k a => simp [hc.1, hc.2]

theorem stepL_counters (s : LState) (op : Op) :
    ((stepL s op).1.hits, (stepL s op).1.misses) = countStep (s.hits, s.misses) op (stepL s op).2 := by
  cases op <;> simp only [stepL, countStep]
  case get k =>
    split
    · rfl
    · split <;> rfl
  case hitsFor k =>
    split
    · rfl
    · split <;> rfl

theorem runC_counters (s : CState) (ops : List Op) :
    ((runC s ops).1.hits, (runC s ops).1.misses) = countersSpec (s.hits, s.misses) (ops.zip (runC s ops).2) := by
  induction ops generalizing s with
  | nil => rfl
  | cons op rest ih =>
    simp only [runC, List.zip_cons_cons, countersSpec]
    rw [ih, stepC_counters]

theorem runL_counters (s : LState) (ops : List Op) :
    ((runL s ops).1.hits, (runL s ops).1.misses) = countersSpec (s.hits, s.misses) (ops.zip (runL s ops).2) := by
  induction ops generalizing s with
  | nil => rfl
  | cons op rest ih =>
    simp only [runL, List.zip_cons_cons, countersSpec]
    rw [ih, stepL_counters]

def isGet : Op → Bool
  | .get _ => true
  | _ => false

def isReset : Op → Bool
  | .reset => true
  | _ => false

theorem countersSpec_sum (hm : Nat × Nat) (tr : List (Op × Out)) (h : ∀ p ∈ tr, isReset p.1 = false) :
    (countersSpec hm tr).1 + (countersSpec hm tr).2 = hm.1 + hm.2 + (tr.filter (fun p => isGet p.1)).length := by
  induction tr generalizing hm with
  | nil => simp [countersSpec]
  | cons p rest ih =>
    obtain ⟨op, out⟩ := p
    have hr : isReset op = false := h (op, out) (by simp)
    rw [countersSpec, ih _ (fun q hq => h q (by simp [hq]))]
    cases op <;> simp [countStep, isGet, isReset] at hr ⊢
    case get k => cases out <;> simp <;> omega

theorem runC_length (s : CState) (ops : List Op) : (runC s ops).2.length = ops.length := by
  induction ops generalizing s with
  | nil => rfl
  | cons op rest ih => simp [runC, ih]

theorem runL_length (s : LState) (ops : List Op) : (runL s ops).2.length = ops.length := by
  induction ops generalizing s with
  | nil => rfl
  | cons op rest ih => simp [runL, ih]

theorem filter_zip_fst {α β : Type} (p : α → Bool) (l : List α) (m : List β) (h : m.length = l.length) :
    ((l.zip m).filter (fun q => p q.1)).length = (l.filter p).length := by
  induction l generalizing m with
  | nil => simp
  | cons a rest ih =>
    cases m with
    | nil => simp at h
    | cons b m' =>
      simp only [List.zip_cons_cons, List.filter_cons]
      have := ih m' (by simpa using h)
      split <;> simp [this]

/-! ### the lock-protected system -/

theorem runG_snoc {σ : Type} (step : σ → Op → σ × Out) (s : σ) (ops : List Op) (op : Op) :
    runG step s (ops ++ [op]) =
      ((step (runG step s ops).1 op).1, (runG step s ops).2 ++ [(step (runG step s ops).1 op).2]) := by
  induction ops generalizing s with
  | nil => simp [runG]
  | cons o rest ih => simp [runG, ih]

theorem runC_eq_runG (s : CState) (ops : List Op) : runC s ops = runG stepC s ops := by
  induction ops generalizing s with
  | nil => rfl
  | cons o rest ih => simp [runC, runG, ih]

theorem runL_eq_runG (s : LState) (ops : List Op) : runL s ops = runG (stepL) s ops := by
  induction ops generalizing s with
  | nil => rfl
  | cons o rest ih => simp [runL, runG, ih]

/-- the four things one scheduler choice can do -/
inductive StepKind {σ : Type} (step : σ → Op → σ × Out) (y : Sys σ) (i : Nat) : Sys σ → Prop
  | noop : StepKind step y i y
  | acquire (op : Op) (rest : List Op) (hp : (y.threads i).phase = .idle) (hq : (y.threads i).prog = op :: rest)
      (hl : y.lock = none) :
      StepKind step y i { y with lock := some i, threads := upd y.threads i { y.threads i with phase := .holding },
                                 acq := y.acq ++ [(i, op)] }
  | body (op : Op) (rest : List Op) (hp : (y.threads i).phase = .holding) (hq : (y.threads i).prog = op :: rest) :
      StepKind step y i { y with shared := (step y.shared op).1, ran := y.ran ++ [(i, op, (step y.shared op).2)],
                                 threads := upd y.threads i { prog := rest, phase := .ran,
                                                              outs := (y.threads i).outs ++ [(step y.shared op).2] } }
  | release (hp : (y.threads i).phase = .ran) :
      StepKind step y i { y with lock := none, threads := upd y.threads i { y.threads i with phase := .idle } }

theorem sysStep_kind {σ : Type} (step : σ → Op → σ × Out) (y : Sys σ) (i : Nat) :
    StepKind step y i (sysStep step y i) := by
  unfold sysStep
  simp only
  split
  · exact .noop
  · rename_i op rest hp hq
    split
    · exact .noop
    · rename_i hl
      exact .acquire op rest hp hq hl
  · exact .noop
  · rename_i op rest hp hq
    exact .body op rest hp hq
  · rename_i hp
    exact .release hp

def keyOf (e : Nat × Op × Out) : Nat × Op := (e.1, e.2.1)

/-- everything the lock guarantees, as one invariant of the system started from `s0` with programs `progs` -/
structure SysInv {σ : Type} (step : σ → Op → σ × Out) (s0 : σ) (progs : Nat → List Op) (y : Sys σ) : Prop where
  /-- the shared object is the sequential object after the bodies run so far, with the same results -/
  seq : runG step s0 (y.ran.map (fun e => e.2.1)) = (y.shared, y.ran.map (fun e => e.2.2))
  /-- every thread got exactly the results of its own operations in that sequential run -/
  outs : ∀ j, (y.threads j).outs = (y.ran.filter (fun e => e.1 = j)).map (fun e => e.2.2)
  /-- mutual exclusion, and: bodies run in lock-acquisition order -/
  mutex : match y.lock with
    | none => (∀ j, (y.threads j).phase = .idle) ∧ y.ran.map keyOf = y.acq
    | some i => (∀ j, j ≠ i → (y.threads j).phase = .idle) ∧
        (((y.threads i).phase = .holding ∧ ∃ op rest, (y.threads i).prog = op :: rest ∧ y.acq = y.ran.map keyOf ++ [(i, op)]) ∨
         ((y.threads i).phase = .ran ∧ y.ran.map keyOf = y.acq))
  /-- each thread's operations were acquired in its program order -/
  order : ∀ j, (y.acq.filter (fun e => e.1 = j)).map (fun e => e.2) ++
      (if (y.threads j).phase = .holding then (y.threads j).prog.tail else (y.threads j).prog) = progs j

theorem sysInv_init {σ : Type} (step : σ → Op → σ × Out) (s0 : σ) (progs : Nat → List Op) :
    SysInv step s0 progs (sysInit s0 progs) := by
  refine ⟨rfl, fun j => rfl, ?_, fun j => ?_⟩
  · simp [sysInit]
  · simp [sysInit]

theorem upd_same (f : Nat → Thread) (i : Nat) (t : Thread) : upd f i t i = t := by simp [upd]
theorem upd_other (f : Nat → Thread) (i j : Nat) (t : Thread) (h : j ≠ i) : upd f i t j = f j := by simp [upd, h]

theorem sysInv_step {σ : Type} (step : σ → Op → σ × Out) (s0 : σ) (progs : Nat → List Op) (y : Sys σ) (i : Nat)
    (h : SysInv step s0 progs y) : SysInv step s0 progs (sysStep step y i) := by
  have hk := sysStep_kind step y i
  generalize sysStep step y i = y' at hk
  cases hk with
  | noop => exact h
  | acquire op rest hp hq hl =>
    have hm := h.mutex
    rw [hl] at hm
    refine ⟨h.seq, fun j => ?_, ?_, fun j => ?_⟩
    · by_cases hj : j = i
      · subst hj; simp only [upd_same]; exact h.outs j
      · simp only [upd_other _ _ _ _ hj]; exact h.outs j
    · simp only
      refine ⟨fun j hj => by rw [upd_other _ _ _ _ hj]; exact hm.1 j, Or.inl ⟨by simp [upd_same], op, rest, ?_, ?_⟩⟩
      · simp [upd_same, hq]
      · rw [hm.2]
    · have ho := h.order j
      by_cases hj : j = i
      · subst hj
        simp only [upd_same, List.filter_append, List.map_append]
        simp only [hp, hq] at ho
        simp [hq]
        simpa using ho
      · simp only [upd_other _ _ _ _ hj, List.filter_append, List.map_append]
        have : ¬ i = j := fun e => hj e.symm
        simpa [this] using ho
  | body op rest hp hq =>
    have hm := h.mutex
    have hlock : y.lock = some i := by
      cases hl : y.lock with
      | none => rw [hl] at hm; have := hm.1 i; rw [hp] at this; cases this
      | some k =>
        rw [hl] at hm
        by_cases hik : i = k
        · rw [hik]
        · have := hm.1 i hik; rw [hp] at this; cases this
    rw [hlock] at hm
    refine ⟨?_, fun j => ?_, ?_, fun j => ?_⟩
    · simp only [List.map_append, List.map_cons, List.map_nil]
      rw [runG_snoc, h.seq]
    · by_cases hj : j = i
      · subst hj
        simp only [upd_same, List.filter_append, List.map_append]
        rw [h.outs j]; simp
      · simp only [upd_other _ _ _ _ hj, List.filter_append, List.map_append]
        have : ¬ i = j := fun e => hj e.symm
        rw [h.outs j]; simp [this]
    · simp only [hlock]
      refine ⟨fun j hj => by rw [upd_other _ _ _ _ hj]; exact hm.1 j hj, Or.inr ⟨by simp [upd_same], ?_⟩⟩
      rcases hm.2 with ⟨_, op', rest', hq', ha⟩ | ⟨hr, _⟩
      · rw [hq] at hq'
        have : op = op' := by injection hq'
        subst this
        simp [keyOf, ha]
      · rw [hp] at hr; cases hr
    · have ho := h.order j
      by_cases hj : j = i
      · subst hj
        simp only [upd_same]
        simp only [hp, hq, if_true, List.tail_cons] at ho
        simpa using ho
      · simp only [upd_other _ _ _ _ hj]; exact ho
  | release hp =>
    have hm := h.mutex
    have hlock : y.lock = some i := by
      cases hl : y.lock with
      | none => rw [hl] at hm; have := hm.1 i; rw [hp] at this; cases this
      | some k =>
        rw [hl] at hm
        by_cases hik : i = k
        · rw [hik]
        · have := hm.1 i hik; rw [hp] at this; cases this
    rw [hlock] at hm
    refine ⟨h.seq, fun j => ?_, ?_, fun j => ?_⟩
    · by_cases hj : j = i
      · subst hj; simp only [upd_same]; exact h.outs j
      · simp only [upd_other _ _ _ _ hj]; exact h.outs j
    · simp only
      refine ⟨fun j => ?_, ?_⟩
      · by_cases hj : j = i
        · subst hj; simp [upd_same]
        · rw [upd_other _ _ _ _ hj]; exact hm.1 j hj
      · rcases hm.2 with ⟨hh, _⟩ | ⟨_, ha⟩
        · rw [hp] at hh; cases hh
        · exact ha
    · have ho := h.order j
      by_cases hj : j = i
      · subst hj
        simp only [upd_same]
        simp only [hp] at ho
        simpa using ho
      · simp only [upd_other _ _ _ _ hj]; exact ho

theorem sysInv_run {σ : Type} (step : σ → Op → σ × Out) (s0 : σ) (progs : Nat → List Op) (y : Sys σ)
    (sched : List Nat) (h : SysInv step s0 progs y) : SysInv step s0 progs (sysRun step y sched) := by
  induction sched generalizing y with
  | nil => exact h
  | cons i rest ih => exact ih _ (sysInv_step step s0 progs y i h)

end Model.Cache

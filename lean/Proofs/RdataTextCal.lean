import Model.RdataTextCal
/-! Every day of the 32-bit time range (0 … 49 710) survives `gmtime` then `timegm`: exhaustive evaluation in the
kernel, in ten chunks (C05). -/
namespace Model

theorem days_c0 : daysOk 0 20 = true := by decide +kernel
theorem days_c1 : daysOk 20 20 = true := by decide +kernel
theorem days_c2 : daysOk 40 20 = true := by decide +kernel
theorem days_c3 : daysOk 60 20 = true := by decide +kernel
theorem days_c4 : daysOk 80 20 = true := by decide +kernel
theorem days_c5 : daysOk 100 20 = true := by decide +kernel
theorem days_c6 : daysOk 120 20 = true := by decide +kernel
theorem days_c7 : daysOk 140 20 = true := by decide +kernel
theorem days_c8 : daysOk 160 20 = true := by decide +kernel
theorem days_c9 : daysOk 180 15 = true := by decide +kernel

theorem daysOk_elim (lo n : Nat) (h : daysOk lo n = true) (b i : Nat) (hb : b < n) (hi : i < 256) :
    okDay ((lo + b) * 256 + i) = true := by
  unfold daysOk at h
  rw [List.all_eq_true] at h
  have h1 := h b (List.mem_range.mpr hb)
  rw [List.all_eq_true] at h1
  exact h1 i (List.mem_range.mpr hi)

theorem okDay_all (z : Nat) (hz : z < 49920) : okDay z = true := by
  have e : z / 256 * 256 + z % 256 = z := by omega
  have hi : z % 256 < 256 := by omega
  have key : ∀ lo n, daysOk lo n = true → lo ≤ z / 256 → z / 256 < lo + n → okDay z = true := by
    intro lo n h h1 h2
    have := daysOk_elim lo n h (z / 256 - lo) (z % 256) (by omega) hi
    have e2 : lo + (z / 256 - lo) = z / 256 := by omega
    rw [e2, e] at this; exact this
  have hb : z / 256 < 195 := by omega
  by_cases h0 : z / 256 < 20
  · exact key 0 20 days_c0 (by omega) (by omega)
  by_cases h1 : z / 256 < 40
  · exact key 20 20 days_c1 (by omega) (by omega)
  by_cases h2 : z / 256 < 60
  · exact key 40 20 days_c2 (by omega) (by omega)
  by_cases h3 : z / 256 < 80
  · exact key 60 20 days_c3 (by omega) (by omega)
  by_cases h4 : z / 256 < 100
  · exact key 80 20 days_c4 (by omega) (by omega)
  by_cases h5 : z / 256 < 120
  · exact key 100 20 days_c5 (by omega) (by omega)
  by_cases h6 : z / 256 < 140
  · exact key 120 20 days_c6 (by omega) (by omega)
  by_cases h7 : z / 256 < 160
  · exact key 140 20 days_c7 (by omega) (by omega)
  by_cases h8 : z / 256 < 180
  · exact key 160 20 days_c8 (by omega) (by omega)
  · exact key 180 15 days_c9 (by omega) (by omega)

end Model

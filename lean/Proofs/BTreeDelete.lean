import Proofs.BTreeBalance
/-!
Layer L3, part 2: `delete` (search, successor replacement through `_get_node`, balance before descending)
refines removal of a key from a sorted association list and preserves the shape invariant, for `t ≥ 2`.
-/
namespace Model.BTree

/-! ## sorted-list facts for deletion and replacement -/

/-- replace the element with key `k` by `s` -/
def replKey (k : Nat) (s : Elt) (l : List Elt) : List Elt := l.map (fun x => if x.1 = k then s else x)

theorem replKey_append (k : Nat) (s : Elt) (A B : List Elt) :
    replKey k s (A ++ B) = replKey k s A ++ replKey k s B := by simp [replKey]

theorem replKey_of_ne {A : List Elt} {k : Nat} {s : Elt} (h : ∀ x ∈ A, x.1 ≠ k) : replKey k s A = A := by
  induction A with
  | nil => rfl
  | cons a A ih =>
    have := h a (by simp)
    have ih' := ih (fun x hx => h x (by simp [hx]))
    simp only [replKey, List.map_cons, this, if_false] at ih' ⊢
    rw [ih']

theorem replKey_window {A B : List Elt} {k : Nat} {s : Elt} (hA : ∀ x ∈ A, x.1 < k) (hB : ∀ x ∈ B, k < x.1)
    (M : List Elt) : replKey k s (A ++ M ++ B) = A ++ replKey k s M ++ B := by
  rw [replKey_append, replKey_append, replKey_of_ne (fun x hx => Nat.ne_of_lt (hA x hx)),
    replKey_of_ne (fun x hx => Nat.ne_of_gt (hB x hx))]

theorem replKey_found {A B : List Elt} {e0 s : Elt} {k : Nat} (h0 : e0.1 = k) (hA : ∀ x ∈ A, x.1 < k)
    (hB : ∀ x ∈ B, k < x.1) : replKey k s (A ++ e0 :: B) = A ++ s :: B := by
  have := replKey_window (s := s) hA hB [e0]
  simpa [replKey, h0] using this

theorem delKey_found {A B : List Elt} {e0 : Elt} {k : Nat} (h0 : e0.1 = k) (hA : ∀ x ∈ A, x.1 < k)
    (hB : ∀ x ∈ B, k < x.1) : delKey k (A ++ e0 :: B) = A ++ B := by
  have := delKey_window hA hB [e0]
  simpa [delKey, h0] using this

theorem delKey_gap {A B : List Elt} {k : Nat} (hA : ∀ x ∈ A, x.1 < k) (hB : ∀ x ∈ B, k < x.1) :
    delKey k (A ++ B) = A ++ B := by
  have := delKey_window hA hB []
  simpa [delKey] using this

theorem delKey_sorted {l : List Elt} (k : Nat) (h : Sorted l) : Sorted (delKey k l) :=
  List.Pairwise.filter _ h

theorem length_delKey {l : List Elt} {k : Nat} (hs : Sorted l) :
    (delKey k l).length = if (lookup l k).isSome then l.length - 1 else l.length := by
  induction l with
  | nil => simp [delKey, lookup]
  | cons a l ih =>
    have ⟨h1, h2⟩ := sorted_cons_iff.mp hs
    by_cases ha : a.1 = k
    · have hl : delKey k l = l := delKey_of_ne (fun x hx => by have := h1 x hx; omega)
      have : delKey k (a :: l) = l := by
        simp only [delKey, List.filter_cons, ha, ne_eq, not_true_eq_false, decide_false] at hl ⊢
        simpa using hl
      simp [this, lookup, ha]
    · have : delKey k (a :: l) = a :: delKey k l := by simp [delKey, List.filter_cons, ha]
      rw [this]
      simp only [List.length_cons, ih h2, lookup, ha, if_false]
      split
      · rename_i hsome
        have : l ≠ [] := by intro h0; subst h0; simp [lookup] at hsome
        have : 0 < l.length := List.length_pos_iff.mpr this
        omega
      · rfl

/-! ## `_get_node` + element assignment -/

structure ReplSpec (t h : Nat) (n : Node) (k : Nat) (s : Elt) (r : Node × Option Elt) : Prop where
  shape : Shape t h r.1
  flat_eq : flat r.1 = replKey k s (flat n)
  ret : r.2 = lookup (flat n) k
  len : r.1.elts.length = n.elts.length

theorem replaceAt_spec {t : Nat} (k : Nat) (s : Elt) : ∀ (h : Nat) (n : Node), Shape t h n → Sorted (flat n) →
    ReplSpec t h n k s (replaceAt h n k s) := by
  intro h
  induction h with
  | zero =>
    intro n hn hs
    obtain ⟨es, rfl⟩ := shape_zero hn
    simp only [flat_leaf] at hs
    unfold replaceAt
    simp only [Node.elts]
    rcases search_cases k hs with ⟨el, er, rfl, hl, hr, hres⟩ | ⟨el, e0, er, rfl, h0, hl, hr, hres⟩
    · simp only [hres, Bool.false_eq_true, if_false]
      refine ⟨by simp, ?_, by simp [lookup_none_of_gap hl hr], rfl⟩
      simp only [flat_leaf]
      rw [replKey_of_ne]
      intro x hx
      rcases List.mem_append.mp hx with hx | hx
      · have := hl x hx; omega
      · have := hr x hx; omega
    · simp only [hres, if_true, setAt_at rfl, eltAt_at rfl]
      refine ⟨by simp, by simp [replKey_found h0 hl hr], ?_, by simp [Node.elts]⟩
      simp only [flat_leaf]
      rw [← h0, lookup_found (by intro x hx; have := hl x hx; omega)]
  | succ h ih =>
    intro n hn hs
    obtain ⟨es, cs, rfl, hlen, hkids⟩ := shape_succ hn
    have hk : Kids t h es cs := ⟨hlen, hkids⟩
    have hes := sorted_elts hs
    unfold replaceAt
    simp only [Node.elts]
    rcases search_cases k hes with ⟨el, er, rfl, hl, hr, hres⟩ | ⟨el, e0, er, rfl, h0, hl, hr, hres⟩
    · obtain ⟨cl, c, cr, rfl, hcl, hcr⟩ := kids_split hk.1
      simp only [hres, Bool.false_eq_true, if_false, kidAt_at hcl, setAt_at hcl]
      have hs' := hs
      rw [flat_node_split el er cl c cr hcl] at hs'
      have ⟨hs1, hsR, _⟩ := sorted_append_iff.mp hs'
      have ⟨hsL, hsc, _⟩ := sorted_append_iff.mp hs1
      have hA := LF_lt hcl hsL hl
      have hB := RF_gt hcr hsR hr
      have hc := ih c (hk.2 c (by simp)).1 hsc
      rcases hrc : replaceAt h c k s with ⟨c', old⟩
      rw [hrc] at hc
      have hclen : c'.elts.length = c.elts.length := hc.len
      have hcflat : flat c' = replKey k s (flat c) := hc.flat_eq
      have hcret : old = lookup (flat c) k := hc.ret
      simp only []
      refine ⟨?_, ?_, ?_, by simp [Node.elts]⟩
      · refine shape_node_iff.mpr (kids_replace1 hk ⟨hc.shape, ?_⟩)
        have := (hk.2 c (by simp)).2
        simp only [Occ, hclen] at this ⊢; exact this
      · show flat (.node (el ++ er) (cl ++ c' :: cr)) = _
        rw [flat_node_split el er cl c' cr hcl, flat_node_split el er cl c cr hcl, hcflat, replKey_window hA hB]
      · show old = _
        rw [flat_node_split el er cl c cr hcl, lookup_window hA hB, hcret]
    · obtain ⟨cl, c, cr, rfl, hcl, hcr⟩ := kids_split (el := el) (er := e0 :: er) hk.1
      cases cr with
      | nil => simp at hcr
      | cons c' cr' =>
        simp only [hres, if_true, setAt_at rfl, eltAt_at rfl]
        have hs' := hs
        rw [flat_node_split el (e0 :: er) cl c (c' :: cr') hcl, RF_cons] at hs'
        have hlt := (sorted_append_iff.mp hs').2.2
        have hsr := (sorted_append_iff.mp hs').2.1
        have hA : ∀ x ∈ LF cl el ++ flat c, x.1 < k := fun x hx => by
          have := hlt x hx e0 (by simp); omega
        have hB : ∀ x ∈ flat c' ++ RF cr' er, k < x.1 := fun x hx => by
          have := (sorted_cons_iff.mp hsr).1 x hx; omega
        refine ⟨?_, ?_, ?_, by simp [Node.elts]⟩
        · exact shape_node_iff.mpr ⟨by simpa using hk.1, hk.2⟩
        · show flat (.node (el ++ s :: er) (cl ++ c :: c' :: cr')) = _
          rw [flat_node_split el (s :: er) cl c (c' :: cr') hcl, RF_cons,
            flat_node_split el (e0 :: er) cl c (c' :: cr') hcl, RF_cons, replKey_found h0 hA hB]
        · show some e0 = _
          rw [flat_node_split el (e0 :: er) cl c (c' :: cr') hcl, RF_cons, ← h0,
            lookup_found (by intro x hx; have := hA x hx; omega)]

/-! ## the step before the recursion -/

/-- the `IndexError`: a minimal only child under a root without elements has no sibling to merge with -/
theorem delPrep_single_minimal {t : Nat} {c : Node} (key : Nat) (hmin : c.elts.length = minKeys t) :
    delPrep t [] [c] 0 key = none := by
  have : isMinimal t c = true := by simp [isMinimal, hmin]
  simp [delPrep, this, balance, tryLeftSteal, tryRightSteal, merge]

theorem delPrep_spec {t h key : Nat} {el er : List Elt} {cl cr : List Node} {c : Node} (ht : 2 ≤ t)
    (hk : Kids t h (el ++ er) (cl ++ c :: cr)) (hcl : cl.length = el.length)
    (hs : Sorted (flat (.node (el ++ er) (cl ++ c :: cr))))
    (hne : c.elts.length = minKeys t → 1 ≤ (el ++ er).length)
    (hwl : ∀ x ∈ el, x.1 < key) (hwr : ∀ x ∈ er, key < x.1) :
    ∃ el1 er1 cl1 c1 cr1,
      delPrep t (el ++ er) (cl ++ c :: cr) el.length key = some (el1 ++ er1, cl1 ++ c1 :: cr1, el1.length) ∧
      cl1.length = el1.length ∧ Kids t h (el1 ++ er1) (cl1 ++ c1 :: cr1) ∧
      flat (.node (el1 ++ er1) (cl1 ++ c1 :: cr1)) = flat (.node (el ++ er) (cl ++ c :: cr)) ∧
      (∀ x ∈ el1, x.1 < key) ∧ (∀ x ∈ er1, key < x.1) ∧ minKeys t < c1.elts.length ∧
      (el ++ er).length ≤ (el1 ++ er1).length + 1 ∧ (el1 ++ er1).length ≤ (el ++ er).length := by
  unfold delPrep
  rw [kidAt_at hcl]
  by_cases hmin : c.elts.length = minKeys t
  · have : isMinimal t c = true := by simp [isMinimal, hmin]
    simp only [this, if_true]
    obtain ⟨r, hbal, el1, er1, cl1, c1, cr1, hb, hcl1, hk1, hflat1, hwl1, hwr1, hc1, hlo, hhi⟩ :=
      balance_spec ht hk hcl hs hmin (hne hmin) hwl hwr
    rw [hbal, hb]
    simp only []
    have hs1 : Sorted (flat (.node (el1 ++ er1) (cl1 ++ c1 :: cr1))) := by rw [hflat1]; exact hs
    rw [search_unique_lt (sorted_elts hs1) hwl1 hwr1]
    exact ⟨el1, er1, cl1, c1, cr1, rfl, hcl1, hk1, hflat1, hwl1, hwr1, hc1, hlo, hhi⟩
  · have : isMinimal t c = false := by simp [isMinimal, hmin]
    simp only [this, Bool.false_eq_true, if_false]
    refine ⟨el, er, cl, c, cr, rfl, hcl, hk, rfl, hwl, hwr, ?_, by omega, by omega⟩
    have := (hk.2 c (by simp)).2.1; omega

/-! ## the specification of one deletion from a subtree -/

structure DelSpec (t h : Nat) (n : Node) (k : Nat) (r : Node × DelRes) : Prop where
  shape : Shape t h r.1
  flat_eq : flat r.1 = delKey k (flat n)
  ret : r.2 = .ok (lookup (flat n) k)
  len_lo : n.elts.length ≤ r.1.elts.length + 1
  len_hi : r.1.elts.length ≤ n.elts.length

/-- the parent after deleting `key` from the (non-minimal) child in whose window `key` lies -/
theorem del_descend {t h key : Nat} {el er : List Elt} {cl cr : List Node} {c c' : Node} {r : DelRes}
    (hk : Kids t h (el ++ er) (cl ++ c :: cr)) (hcl : cl.length = el.length)
    (hs : Sorted (flat (.node (el ++ er) (cl ++ c :: cr))))
    (hwl : ∀ x ∈ el, x.1 < key) (hwr : ∀ x ∈ er, key < x.1)
    (hc : DelSpec t h c key (c', r)) (hnm : minKeys t < c.elts.length) :
    Shape t (h + 1) (.node (el ++ er) (cl ++ c' :: cr)) ∧
    flat (.node (el ++ er) (cl ++ c' :: cr)) = delKey key (flat (.node (el ++ er) (cl ++ c :: cr))) ∧
    r = .ok (lookup (flat (.node (el ++ er) (cl ++ c :: cr))) key) := by
  have hcr : cr.length = er.length := by have := hk.1; simp at this; omega
  rw [flat_node_split el er cl c cr hcl] at hs
  have ⟨hs1, hsR, _⟩ := sorted_append_iff.mp hs
  have ⟨hsL, hsc, _⟩ := sorted_append_iff.mp hs1
  have hA := LF_lt hcl hsL hwl
  have hB := RF_gt hcr hsR hwr
  have hocc := (hk.2 c (by simp)).2
  have h1 : c.elts.length ≤ c'.elts.length + 1 := hc.len_lo
  have h2 : c'.elts.length ≤ c.elts.length := hc.len_hi
  have hfl : flat c' = delKey key (flat c) := hc.flat_eq
  have hret : r = .ok (lookup (flat c) key) := hc.ret
  refine ⟨?_, ?_, ?_⟩
  · refine shape_node_iff.mpr (kids_replace1 hk ⟨hc.shape, ?_⟩)
    simp only [Occ] at hocc ⊢; omega
  · rw [flat_node_split el er cl c' cr hcl, flat_node_split el er cl c cr hcl, hfl, delKey_window hA hB]
  · rw [flat_node_split el er cl c cr hcl, lookup_window hA hB, hret]

end Model.BTree
